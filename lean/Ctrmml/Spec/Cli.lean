/-
  What C19 means, independently of how the tools compute it.

  * names: a path is `dirPart ++ fileName`; the `stem` of a file name drops its last
    extension; the derived output name of `mmlc` is `dirPart ++ stem fileName ++ "." ++ format`;
    the song name `mdslink` hands to the linker is `stem fileName`.
  * options: a command line is a sequence of *items* (`-o NAME`, `-f FORMAT`, `-O`, `-v`, an
    input path) in any order and in either spelling; its meaning is a `Request`.
  * outcome: `mmlcOutcome` / `linkOutcome` say what a truthful tool does with a request, given
    the library's answers (the oracle records `MmlcLib` / `LinkLib` of the model file are only
    the interface to the library, they carry no tool logic).

  Only list functions of core Lean are used (reverse / takeWhile / dropWhile / map /
  findIdx?), no definition of Model/Cli.lean.
-/
import Ctrmml.Model.Cli
namespace Ctrmml.Cli.Spec
open Ctrmml.Cli

/-! ### names -/

/-- the part after the last '/' -/
def fileName (p : Str) : Str := (p.reverse.takeWhile (· ≠ '/')).reverse
/-- the part up to and including the last '/' (empty when there is none) -/
def dirPart (p : Str) : Str := (p.reverse.dropWhile (· ≠ '/')).reverse
/-- a file name without its last extension -/
def stem (name : Str) : Str :=
  if '.' ∈ name then ((name.reverse.dropWhile (· ≠ '.')).drop 1).reverse else name

/-- the name `mmlc` derives when `-o` is not given -/
def outputName (p fmt : Str) : Str := dirPart p ++ stem (fileName p) ++ ['.'] ++ fmt
/-- the song name `mdslink` passes to the linker -/
def songName (p : Str) : Str := stem (fileName p)

/-! ### case-insensitive format selection -/

/-- ASCII case folding: an upper-case letter is replaced by the letter 32 code points later -/
def lowerChar (c : Char) : Char := if c.isUpper then Char.ofNat (c.toNat + 32) else c
def lower (s : Str) : Str := s.map lowerChar
def sameNoCase (a b : Str) : Bool := lower a == lower b

/-- index and spelling of the selected format: the first one when none (or an empty one) is
asked for, otherwise the first whose name equals the request up to case -/
def selectFormat (fmts : List Str) (f : Str) : Option (Nat × Str) :=
  if f = [] then fmts.head?.map fun x => (0, x)
  else (fmts.findIdx? fun x => sameNoCase x f).map fun i => (i, f)

/-! ### mmlc command lines -/

inductive Item
  | output (long : Bool) (name : Str)
  | format (long : Bool) (f : Str)
  | optimize (long : Bool)
  | verbose
  | input (path : Str)
  deriving Repr

def wO : Str := ['-', 'o']
def wOutput : Str := ['-', '-', 'o', 'u', 't', 'p', 'u', 't']
def wF : Str := ['-', 'f']
def wFormat : Str := ['-', '-', 'f', 'o', 'r', 'm', 'a', 't']
def wOpt : Str := ['-', 'O']
def wOptimize : Str := ['-', '-', 'o', 'p', 't', 'i', 'm', 'i', 'z', 'e']
def wV : Str := ['-', 'v']
def wH : Str := ['-', 'h']
def wHelp : Str := ['-', '-', 'h', 'e', 'l', 'p']
def optionWords : List Str := [wO, wOutput, wF, wFormat, wOpt, wOptimize, wV, wH, wHelp]

def Item.render : Item → List Str
  | .output l n => [if l then wOutput else wO, n]
  | .format l f => [if l then wFormat else wF, f]
  | .optimize l => [if l then wOptimize else wOpt]
  | .verbose => [wV]
  | .input p => [p]

/-- an input path must not be spelled like an option -/
def Item.ok : Item → Prop
  | .input p => p ∉ optionWords
  | _ => True

structure Request where
  input : Str := []        -- [] = none given
  output : Str := []       -- [] = derive the name
  format : Str := []       -- [] = the platform's first format
  optimize : Bool := false
  deriving DecidableEq, Repr

/-- the last `-o` / `-f` wins, the first input path is the input, later ones are ignored -/
def request : List Item → Request → Request
  | [], r => r
  | .output _ n :: is, r => request is { r with output := n }
  | .format _ f :: is, r => request is { r with format := f }
  | .optimize _ :: is, r => request is { r with optimize := true }
  | .verbose :: is, r => request is r
  | .input p :: is, r => request is (if r.input = [] then { r with input := p } else r)

def failure : Result := { status := 255, stderr := true, writes := [] }

/-- a truthful `mmlc`: status 0 and exactly the library's bytes under the requested name when
every library step succeeds, otherwise a diagnosed failure that writes nothing -/
def mmlcOutcome (lib : MmlcLib) (r : Request) : Result :=
  if r.input = [] then failure
  else
    match lib.convert r.input with
    | .error _ => failure
    | .ok fmts =>
      match selectFormat fmts r.format with
      | none => failure
      | some (i, fname) =>
        match (if r.optimize then lib.optimize r.input else .ok ()) with
        | .error _ => failure
        | .ok _ =>
          match lib.exportData r.input r.optimize i with
          | .error _ => failure
          | .ok b =>
            let name := if r.output = [] then outputName r.input fname else r.output
            { status := 0, stderr := false, writes := if b.size ≠ 0 then [(name, b)] else [] }

/-! ### verdicts on an observed run (used by the judge on the real executables) -/

/-- what was observed of a real process -/
structure Observed where
  crashed : Bool                 -- signal / sanitizer report
  status : Nat
  stderr : Bool
  files : List (Str × Blob)      -- files that appeared, with their contents' identity
  deriving Repr

/-- the files that exist after a sequence of writes: a later write to a name replaces an earlier one -/
def lastWins : List (Str × Blob) → List (Str × Blob)
  | [] => []
  | w :: ws => if ws.any (·.1 == w.1) then lastWins ws else w :: lastWins ws

/-- split at every '/' -/
def components : Str → List Str
  | [] => [[]]
  | c :: cs =>
    match components cs with
    | [] => [[c]]
    | x :: xs => if c = '/' then [] :: x :: xs else (c :: x) :: xs

/-- the file a relative path denotes: "." and empty components dropped, "x/.." resolved -/
def normPath (p : Str) : Str :=
  let comps := (components p).foldl (fun acc c =>
    if c = [] ∨ c = ['.'] then acc
    else if c = ['.', '.'] then (match acc with | [] => [c] | _ :: t => t)
    else c :: acc) []
  (comps.reverse.intersperse ['/']).flatten

def normFiles (fs : List (Str × Blob)) : List (Str × Blob) := fs.map fun f => (normPath f.1, f.2)

/-- same set of (name, contents) -/
def sameFiles (a b : List (Str × Blob)) : Bool := a.all (b.contains ·) && b.all (a.contains ·)

/-- C19 for one run of `mmlc` whose request is `r`: no crash; status 0 exactly when the
expected file holds the library's bytes; on failure a message and no file -/
def mmlcVerdict (lib : MmlcLib) (r : Request) (o : Observed) : Except String Unit :=
  let want := mmlcOutcome lib r
  if o.crashed then .error "crashed"
  else if want.status = 0 then
    if o.status ≠ 0 then .error "library succeeded but exit status is not 0"
    else if !sameFiles (normFiles o.files) (lastWins (normFiles want.writes)) then .error "exit 0 but the files are not the library's export under the expected name"
    else .ok ()
  else
    if o.status = 0 then .error "exit status 0 although the input was rejected"
    else if !o.stderr then .error "rejected without a message on stderr"
    else if o.files ≠ [] then .error "rejected but a file was written"
    else .ok ()

/-! ### mdslink command lines -/

inductive LItem
  | out (long : Bool) (seq pcm : Str)
  | cHeader (long : Bool) (name : Str)
  | asmHeader (long : Bool) (name : Str)
  | input (path : Str)
  deriving Repr

def wCHeader : Str := ['-', '-', 'c', '-', 'h', 'e', 'a', 'd', 'e', 'r']
def wI : Str := ['-', 'i']
def wAsmHeader : Str := ['-', '-', 'a', 's', 'm', '-', 'h', 'e', 'a', 'd', 'e', 'r']
def linkOptionWords : List Str := [wO, wOutput, wH, wCHeader, wI, wAsmHeader]

def LItem.render : LItem → List Str
  | .out l s p => [if l then wOutput else wO, s, p]
  | .cHeader l n => [if l then wCHeader else wH, n]
  | .asmHeader l n => [if l then wAsmHeader else wI, n]
  | .input p => [p]

def LItem.ok : LItem → Prop
  | .input p => p ∉ linkOptionWords
  | _ => True

structure LRequest where
  inputs : List Str := []
  seq : Str := ['m', 'd', 's', 's', 'e', 'q', '.', 'b', 'i', 'n']
  pcm : Str := ['m', 'd', 's', 'p', 'c', 'm', '.', 'b', 'i', 'n']
  cHeader : Str := []      -- [] = not requested
  asmHeader : Str := []
  deriving DecidableEq, Repr

def lrequest : List LItem → LRequest → LRequest
  | [], r => r
  | .out _ s p :: is, r => lrequest is { r with seq := s, pcm := p }
  | .cHeader _ n :: is, r => lrequest is { r with cHeader := n }
  | .asmHeader _ n :: is, r => lrequest is { r with asmHeader := n }
  | .input p :: is, r => lrequest is { r with inputs := r.inputs ++ [p] }

/-- a file is read as a compiled `.mds` exactly when its name ends in ".mds" up to case -/
def endsInMds (p : Str) : Bool := sameNoCase (p.drop (p.length - 4)) ['.', 'm', 'd', 's']

def linkItem (p : Str) : LinkItem := { path := p, isMds := endsInMds p, name := songName p }

/-- a requested output (non-empty name) whose generator succeeded, as a write -/
def okWrite (x : Str × Except LibErr Blob) : Option (Str × Blob) :=
  if x.1 = [] then none else match x.2 with | .ok b => some (x.1, b) | .error _ => none

/-- requested outputs in the order they are produced -/
def linkOutputs (lib : LinkLib) (r : LRequest) : List (Str × Except LibErr Blob) :=
  let items := r.inputs.map linkItem
  [(r.seq, lib.seq items), (r.pcm, lib.pcm items), (r.asmHeader, lib.asmHeader items), (r.cHeader, lib.cHeader items)].filter
    fun x => x.1 ≠ []

/-- a truthful `mdslink`: status 0 exactly when every requested file was generated and
written; a failing generator ends the run non-zero (files before it stay) -/
def linkOutcome (lib : LinkLib) (r : LRequest) : Result :=
  if r.inputs = [] then failure
  else
    match lib.load (r.inputs.map linkItem) with
    | .error _ => failure
    | .ok _ =>
      let outs := linkOutputs lib r
      let good := outs.takeWhile fun x => match x.2 with | .ok _ => true | .error _ => false
      let ws := good.filterMap fun x => match x.2 with | .ok b => some (x.1, b) | .error _ => none
      if good.length = outs.length then { status := 0, stderr := false, writes := ws }
      else { status := 255, stderr := true, writes := ws }

def linkVerdict (lib : LinkLib) (r : LRequest) (o : Observed) : Except String Unit :=
  let want := linkOutcome lib r
  if o.crashed then .error "crashed"
  else if want.status = 0 then
    if o.status ≠ 0 then .error "library succeeded but exit status is not 0"
    else if !sameFiles (normFiles o.files) (lastWins (normFiles want.writes)) then .error "exit 0 but the files are not the library's outputs under the requested names"
    else .ok ()
  else
    if o.status = 0 then .error "exit status 0 although an input or output was rejected"
    else if !o.stderr then .error "rejected without a message on stderr"
    else if !sameFiles (normFiles o.files) (lastWins (normFiles want.writes)) then .error "files differ from the outputs generated before the failure"
    else .ok ()

/-- verdict on a run for which no well-formed request is known (raw argument vectors):
no crash, and a non-zero status comes with a message or the usage text and (for mmlc) no file -/
def rawVerdict (o : Observed) (isHelp : Bool) : Except String Unit :=
  if o.crashed then .error "crashed"
  else if o.status ≠ 0 ∧ !o.stderr ∧ !isHelp then .error "non-zero status without a message on stderr"
  else .ok ()

end Ctrmml.Cli.Spec
