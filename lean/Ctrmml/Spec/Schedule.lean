/-
  Spec side of C07: WHEN and WITH WHAT VALUES the exported VGM log has to key the notes of a
  plain-subset song.  Independent of Model/MdDriver.lean: it is written from the structural
  expansion of the tracks (`perf`, Spec/Expand) and from the reading of a VGM log
  (Spec/VgmParse); it shares only the regenerated constant tables with the model.

  1. Channel timelines: every hook item of `perf` stamped with its start tick; a channel whose
     track has a loop point (SEGNO at bracket depth 0, non-empty loop section) continues with the
     section after the last SEGNO, again and again.
  2. Frame table: the 60 Hz sequence update number k plays `(c_k + δ_k + 1) div 128` ticks, where
     `c` is the 7-bit remainder and `δ` the tempo in force; a tempo command read in update k is in
     force from update k+1 on (channels are served in track order, the last command wins).
     The item that starts at tick τ is read in the update `F(τ) = min {k | N_{k+1} > τ}`,
     `N_k` = ticks played before update k.
  3. Expectations per channel: key-off at a rest, at the end of the on-time, at a new note and at
     the end of the track; key-on at every note that is not slurred; at the key-on the frequency
     registers hold the note after transpose, detune and instrument transpose and the
     attenuation registers hold instrument level + volume attenuation on the carriers (FM), or
     volume attenuation + first envelope level (PSG).
  4. Extent (songs with at most one loop point per track, at bracket depth 0): without loop points the log ends in update F(longest track); when every channel
     loops with the same loop length L ≥ 2 ticks (a loop shorter than one update has no place for a marker) and M is the tick at which the last channel reaches its
     loop point, the loop marker is in update F(M) and the log ends one loop length later: in the update that plays
     tick τ + L for a tick τ ≥ M of update F(M).
  5. Observation: the log is cut into updates by its waits (every write must sit on a multiple of
     735 samples); FM key writes, and the register file at each key-on, are read by replaying
     the writes in order; for the PSG the register file at the end of the update is read.
-/
import Ctrmml.Spec.Expand
import Ctrmml.Spec.VgmParse
namespace Ctrmml.Schedule
open Ctrmml Ctrmml.Expand Tables

/-! ### instruments as the tags define them -/
structure FmIns where
  alg : Nat
  /-- total level per register slot (slot order of the chip: operators 1, 3, 2, 4) -/
  tl : List Nat
  transpose : Int
  deriving Repr

inductive InsDef
  | fm (i : FmIns)
  /-- a PSG envelope whose first frame has this level (15 = loudest) -/
  | psg (first : Nat)
  | other
  deriving Repr

abbrev InsTab := List (Int × InsDef)

/-- `@n fm ALG FB (AR DR SR RR SL TL KS ML DT SSG)×4 [transpose]`, operators in the order 1 2 3 4 -/
def fmOfTag (ws : List Int) : InsDef :=
  if ws.length < 42 then .other else
  let tlOf (row : Nat) : Nat := ((ws.getD (2 + 10 * row + 5) 0) % 256).toNat
  .fm { alg := ((ws.getD 0 0) % 8).toNat, tl := [tlOf 0, tlOf 2, tlOf 1, tlOf 3], transpose := ws.getD 42 0 }

/-- register slots that are carriers (outputs) in each YM2612 algorithm -/
def carriers (alg : Nat) : List Nat :=
  if alg ≤ 3 then [3] else if alg = 4 then [2, 3] else if alg ≤ 6 then [1, 2, 3] else [0, 1, 2, 3]

/-! ### what a volume setting means -/
/-- attenuation of a coarse volume 0..15 on FM: about 2 dB (8/3 TL steps) per step below 15 -/
def fmCoarseAtt (v : Int) : Int :=
  let x : Int := if v > 15 then 0 else 15 - v
  2 + 3 * x - x / 3

def fmExpectedTl (i : FmIns) (coarse : Bool) (v : Int) (slot : Nat) : Nat :=
  let add : Int := if coarse then fmCoarseAtt v else v
  let t : Int := (i.tl.getD slot 0 : Nat) + (if (carriers i.alg).contains slot then add else 0)
  if t > 127 then 127 else if t < 0 then 0 else t.toNat

def psgFineAtt (v : Int) : Nat :=
  if v < 2 then 0 else if v ≥ 64 then 15 else if v ≥ 42 then 14 else ((v.toNat - 2) * 3 / 8)

def psgExpectedAtt (first : Nat) (coarse : Bool) (v : Int) : Nat :=
  let a : Int := if coarse then (if v > 15 then 0 else 15 - v) else psgFineAtt v
  let t := a + (15 - (first : Int))
  if t > 15 then 15 else t.toNat

/-! ### what a pitch means -/
/-- pitch in 1/256 semitones → YM2612 block/f-number word -/
def fmWord (p : Int) : Option Nat :=
  if p < 0 ∨ p ≥ 96 * 256 then none else
  let n := p.toNat / 256
  let f := p.toNat % 256
  let b0 := md_fm_freqtab.getD (n % 12) 0
  let b1 := md_fm_freqtab.getD (n % 12 + 1) 0
  some (b0 + (b1 - b0) * f / 256 + (n / 12) * 2048)

/-- pitch → SN76489 tone divider (10 bits) -/
def psgWord (p : Int) : Option Nat :=
  if p < 0 ∨ p ≥ 96 * 256 then none else
  let n := p.toNat / 256
  let f := p.toNat % 256
  let b0 := md_psg_freqtab.getD (n % 12) 0
  let b1 := md_psg_freqtab.getD (n % 12 + 1) 0
  some (((b0 - ((b0 - b1) * f + 255) / 256) / 2 ^ (n / 12)) % 1024)

/-- BPM at 24 ticks per quarter and 60 updates per second: `b/150` ticks per update, as a
tempo value `δ` with `(δ+1)/128 ≈ b/150` (rounded to nearest) -/
def bpmDelta (b : Nat) : Nat := min 255 ((256 * b + 150) / 300 - 1)

/-! ### channel timelines -/
inductive Ex
  /-- a note starts: keyed or slurred, pitch in 1/256 semitones without the instrument's
  transpose, volume setting and instrument in force -/
  | note (keyed : Bool) (pitch : Int) (coarse : Bool) (vol : Int) (ins : Int)
  | off
  /-- the note that started last ends here (the next item of the track is read) -/
  | next
  /-- a slur command is read (the next note is not re-keyed) -/
  | slur
  | tempo (delta : Nat)
  | segno
  | fin
  /-- from here on the simple rules do not describe this channel (see `walk`) -/
  | stop
  deriving Repr

structure St where
  transpose : Int := 0
  detune : Int := 0
  vol : Int := 15
  coarse : Bool := true
  ins : Int := 0
  insPending : Bool := false
  slur : Bool := false
  deriving Repr

/-- expectations of one pass over `items` starting at tick `t` -/
def walk : List Item → Nat → St → List (Nat × Ex) → (Nat × St × List (Nat × Ex))
  | [], t, s, acc => (t, s, acc.reverse)
  | i :: is, t, s, acc =>
    let e := i.ev
    let on := i.src.on
    let off := i.src.off
    let autoOff : List (Nat × Ex) := if on > 0 ∧ off > 0 then [(t + on, .off)] else []
    let (s, out) : St × List (Nat × Ex) :=
      if e.type = ev_NOTE then
        if on = 0 then (s, [(t, .stop)])               -- never keyed off again (zero on-time)
        else if s.slur ∧ s.insPending then (s, [(t, .stop)])
        else
          ({ s with slur := false, insPending := false },
           (if s.slur then [] else [(t, Ex.off)]) ++
             [(t, .note (!s.slur) ((e.param + s.transpose) * 256 + s.detune) s.coarse s.vol s.ins)] ++ autoOff
             ++ [(t + on + off, .next)])
      else if e.type = ev_TIE then
        if s.insPending then (s, [(t, .stop)]) else (s, autoOff)
      else if e.type = ev_REST then (s, [(t, .off)] ++ autoOff)
      else if e.type = ev_SLUR then ({ s with slur := true }, [(t, .slur)])
      else if e.type = ev_SEGNO then (s, [(t, .segno)])
      else if e.type = ev_TRANSPOSE then ({ s with transpose := e.param }, [])
      else if e.type = ev_TRANSPOSE_REL then ({ s with transpose := s.transpose + e.param }, [])
      else if e.type = ev_DETUNE then ({ s with detune := e.param }, [])
      else if e.type = ev_VOL then ({ s with vol := e.param, coarse := true }, [])
      else if e.type = ev_VOL_FINE then ({ s with vol := e.param, coarse := false }, [])
      else if e.type = ev_VOL_REL ∨ e.type = ev_VOL_FINE_REL then ({ s with vol := s.vol + e.param }, [])
      else if e.type = ev_INS then ({ s with ins := e.param, insPending := true }, [])
      else if e.type = ev_TEMPO then (s, [(t, .tempo ((e.param % 256).toNat))])
      else if e.type = ev_TEMPO_BPM then (s, [(t, .tempo (bpmDelta ((e.param % 65536).toNat)))])
      else if e.type = ev_PLATFORM ∨ e.type = ev_PORTAMENTO ∨ e.type = ev_PITCH_ENVELOPE ∨ e.type = ev_PAN_ENVELOPE
              ∨ e.type = ev_DRUM_MODE then (s, [(t, .stop)])
      else (s, autoOff)
    walk is (t + i.dur) s (out.reverse ++ acc)

/-- items after the last loop point -/
def afterSegno : List Item → Option (List Item)
  | [] => none
  | i :: is =>
    match afterSegno is with
    | some r => some r
    | none => if i.src.kind = .segno then some is else none

def segnoAtDepth0 : Nat → List Event → Bool
  | _, [] => true
  | d, e :: es =>
    if e.kind = .loopStart then segnoAtDepth0 (d + 1) es
    else if e.kind = .loopEnd then segnoAtDepth0 (d - 1) es
    else if e.kind = .segno then d == 0 && segnoAtDepth0 d es
    else segnoAtDepth0 d es

structure Line where
  /-- expectations in processing order, ticks non-decreasing -/
  exs : List (Nat × Ex)
  /-- tick of the end of the first pass -/
  length : Nat
  /-- (tick of the loop point, loop length) -/
  loop : Option (Nat × Nat)
  deriving Repr

def repeatLoop (suffix : List Item) (len horizon : Nat) : Nat → Nat → St → List (Nat × Ex) → List (Nat × Ex)
  | 0, _, _, acc => acc
  | fuel + 1, t, s, acc =>
    if t > horizon ∨ len = 0 then acc else
    let (t', s', ex) := walk suffix t s []
    repeatLoop suffix len horizon fuel t' s' (acc ++ ex)

/-- the timeline of a channel up to tick `horizon` -/
def lineOf (song : Song) (root : List Event) (horizon : Nat) : Except SErr Line :=
  match perf song root with
  | .error e => .error e
  | .ok items =>
    let (len, s, ex) := walk items 0 {} []
    match afterSegno items, loopTime items with
    | some suffix, some lt =>
      if len = lt then .ok { exs := ex ++ [(len, .fin)], length := len, loop := none }
      else .ok { exs := repeatLoop suffix (len - lt) horizon (horizon + 2) len s ex, length := len, loop := some (lt, len - lt) }
    | _, _ => .ok { exs := ex ++ [(len, .fin)], length := len, loop := none }

/-! ### the frame table -/
/-- `N_0 … N_n`: ticks played before each update; `tempos` = (tick, δ) per channel, channels in
serving order -/
def frameTable (tempos : List (List (Nat × Nat))) : Nat → Nat → Nat → Nat → List Nat
  | 0, _, _, n => [n]
  | k + 1, counter, delta, n =>
    let step := (counter + delta + 1) / 128
    let counter' := (counter + delta + 1) % 128
    let hits := tempos.flatMap fun ch => ch.filter fun (t, _) => n ≤ t ∧ t < n + step
    let delta' := match hits.getLast? with
      | some (_, d) => d
      | none => delta
    n :: frameTable tempos k counter' delta' (n + step)

/-- `F(τ)`: index of the update that reads the item starting at tick τ (`none`: beyond the table) -/
def frameOf (table : List Nat) (tau : Nat) : Option Nat :=
  let rec go (l : List Nat) (k : Nat) : Option Nat :=
    match l with
    | _ :: b :: r => if b > tau then some k else go (b :: r) (k + 1)
    | _ => none
  go table 0

/-! ### reading the log -/
structure Wr where
  frame : Nat
  code : Nat
  a : Nat
  b : Nat
  deriving Repr

/-- chip writes with the update they fall in; `none` when a write is off the 735-sample grid -/
def writesOf (cmds : List (Nat × VgmSpec.Cmd)) : Option (List Wr) :=
  let rec go (cs : List (Nat × VgmSpec.Cmd)) (t : Nat) (acc : List Wr) : Option (List Wr) :=
    match cs with
    | [] => some acc.reverse
    | (_, .wait n) :: r => go r (t + n) acc
    | (_, .chip c ops) :: r =>
      if t % 735 ≠ 0 then none
      else go r t ({ frame := t / 735, code := c.toNat, a := (ops.getD 0 0).toNat, b := (ops.getD 1 0).toNat } :: acc)
    | _ :: r => go r t acc
  go cmds 0 []

/-- sample time at the boundary before command `k` -/
def timeAt (cmds : List (Nat × VgmSpec.Cmd)) (k : Nat) : Nat := VgmSpec.waits (cmds.take k)

abbrev Regs := List (Nat × Nat)
def Regs.get (r : Regs) (k : Nat) : Nat := (r.lookup k).getD 0
def Regs.set (r : Regs) (k v : Nat) : Regs := (k, v) :: r.filter (·.1 ≠ k)

/-- FM key events of channel `ch` (0..5) with the register file (of its port) at that moment -/
structure KeyEv where
  frame : Nat
  on : Bool
  word : Nat
  tls : List Nat
  deriving Repr

def fmKeys (ws : List Wr) (ch : Nat) : List KeyEv :=
  let port := ch / 3
  let id := ch % 3
  let rec go (ws : List Wr) (regs : Regs) (acc : List KeyEv) : List KeyEv :=
    match ws with
    | [] => acc.reverse
    | w :: r =>
      if w.code = 0x52 ∧ w.a = 0x28 then
        if w.b % 8 = id + 4 * port then
          go r regs ({ frame := w.frame, on := w.b / 16 ≠ 0,
                       word := regs.get (0xa4 + id) * 256 + regs.get (0xa0 + id),
                       tls := [0, 1, 2, 3].map fun s => regs.get (0x40 + 4 * s + id) } :: acc)
        else go r regs acc
      else if w.code = 0x52 + port then go r (regs.set w.a w.b) acc
      else go r regs acc
  go ws [] []

/-- SN76489 register file: tone dividers and attenuations -/
structure Psg where
  tone : List Nat := [0, 0, 0, 0]
  att : List Nat := [0, 0, 0, 0]
  latch : Nat := 0
  latchVol : Bool := false
  deriving Repr

def Psg.write (p : Psg) (d : Nat) : Psg :=
  if d ≥ 128 then
    let ch := d / 32 % 4
    if d / 16 % 2 = 1 then { p with att := p.att.set ch (d % 16), latch := ch, latchVol := true }
    else { p with tone := p.tone.set ch (p.tone.getD ch 0 / 16 * 16 + d % 16), latch := ch, latchVol := false }
  else if p.latchVol then { p with att := p.att.set p.latch (d % 16) }
  else { p with tone := p.tone.set p.latch (p.tone.getD p.latch 0 % 16 + (d % 64) * 16) }

/-- PSG register file at the end of each update that wrote to it -/
def psgSnaps (ws : List Wr) : List (Nat × Psg) :=
  let rec go (ws : List Wr) (p : Psg) (cur : Option Nat) (acc : List (Nat × Psg)) : List (Nat × Psg) :=
    match ws with
    | [] => (match cur with | some f => (f, p) :: acc | none => acc).reverse
    | w :: r =>
      if w.code = 0x50 then
        let acc := match cur with
          | some f => if f ≠ w.frame then (f, p) :: acc else acc
          | none => acc
        go r (p.write w.a) (some w.frame) acc
      else go r p cur acc
  go ws {} none []

def psgAt (snaps : List (Nat × Psg)) (frame : Nat) : Psg :=
  ((snaps.filter (·.1 ≤ frame)).getLast?.map (·.2)).getD {}

/-! ### the verdict -/
structure Chan where
  id : Nat
  root : List Event

/-- expectations of a channel placed in updates: (frame, Ex); cut at the first `stop`, at the
first crowded update (two note starts, or a slur after a note start, in one update) and at
`lastFrame` -/
def place (table : List Nat) (exs : List (Nat × Ex)) (lastFrame : Nat) : List (Nat × Ex) :=
  let rec go (l : List (Nat × Ex)) (acc : List (Nat × Ex)) : List (Nat × Ex) :=
    match l with
    | [] => acc.reverse
    | (t, e) :: r =>
      match frameOf table t with
      | none => acc.reverse
      | some f =>
        if f > lastFrame then acc.reverse else
        match e with
        | .stop => (f, Ex.stop) :: acc |>.reverse
        | _ => go r ((f, e) :: acc)
  go exs []

def isNote : Ex → Bool
  | .note .. => true
  | _ => false

/-- first update in which the channel is crowded or stopped -/
def isSlur : Ex → Bool
  | .slur => true
  | _ => false

def isNext : Ex → Bool
  | .next => true
  | _ => false

def isOff : Ex → Bool
  | .off => true
  | .fin => true
  | _ => false

/-- some element satisfying `q` comes after some element satisfying `p` -/
def followedBy (p q : Ex → Bool) : List Ex → Bool
  | [] => false
  | e :: r => (p e && r.any q) || followedBy p q r

def cutFrame (placed : List (Nat × Ex)) : Option Nat :=
  let frames := (placed.map (·.1)).eraseDups
  frames.find? fun f =>
    let here := (placed.filter (·.1 = f)).map (·.2)
    here.any (fun e => match e with | .stop => true | _ => false) ∨ (here.filter isNote).length ≥ 2
      ∨ followedBy isNote isSlur here

def insOf (tab : InsTab) (id : Int) : Option InsDef := tab.lookup id

/-- judge one FM channel -/
def judgeFm (tab : InsTab) (ch : Nat) (placed : List (Nat × Ex)) (ws : List Wr) (lastFrame : Nat) (checkShort : Bool) : Option String :=
  let cut := (cutFrame placed).getD (lastFrame + 1)
  let keys := (fmKeys ws ch).filter (·.frame < cut)
  let placed := placed.filter (·.1 < cut)
  let frames := ((placed.map (·.1)) ++ (keys.map (·.frame))).eraseDups
  frames.findSome? fun f =>
    let here := (placed.filter (·.1 = f)).map (·.2)
    let obs := keys.filter (·.frame = f)
    let expOn := here.any fun e => match e with | .note true .. => true | _ => false
    let expOff := here.any fun e => match e with | .off => true | .fin => true | _ => false
    let obsOn := obs.any (·.on)
    let obsOff := obs.any (!·.on)
    let short := followedBy (fun e => match e with | .note true .. => true | _ => false) isOff here
    if checkShort ∧ short ∧ obsOn ∧ obsOff ∧ (obs.getLast?.map (·.on)) = some true then
      some s!"short-note ch={ch} frame={f} the key-on of a note that ends inside the same update is written after its key-off"
    else if expOn ≠ obsOn then some s!"keyon-frame ch={ch} frame={f} expected={expOn} observed={obsOn}"
    else if expOff ≠ obsOff then some s!"keyoff-frame ch={ch} frame={f} expected={expOff} observed={obsOff}"
    else
      match (here.filter isNote).getLast?, (obs.filter (·.on)).getLast? with
      | some (.note true p coarse v ins), some k =>
        let sel : Option (Int × Option FmIns) :=
          if ins = 0 then some (0, none) else
          match insOf tab ins with
          | some (.fm i) => some (i.transpose, some i)
          | _ => none
        match sel with
        | none => none
        | some (tr, i?) =>
          match fmWord (p + tr * 256) with
          | none => none
          | some w =>
            if k.word ≠ w then some s!"pitch ch={ch} frame={f} expected={w} observed={k.word}"
            else
              match i? with
              | none => none
              | some i =>
                -- a note that ends inside this update: later commands may already have been written
                if followedBy isNote isNext here then none else
                let want := [0, 1, 2, 3].map (fmExpectedTl i coarse v)
                if k.tls ≠ want then some s!"attenuation ch={ch} frame={f} expected={want} observed={k.tls}"
                else none
      | _, _ => none

/-- judge one PSG tone channel (track 6..8) -/
def judgePsg (tab : InsTab) (ch : Nat) (placed : List (Nat × Ex)) (ws : List Wr) (lastFrame : Nat) : Option String :=
  let cut := (cutFrame placed).getD (lastFrame + 1)
  let snaps := psgSnaps ws
  let id := ch - 6
  (placed.filter (·.1 < cut)).findSome? fun (f, e) =>
    match e with
    | .note keyed p coarse v ins =>
      let short := followedBy isNote (fun e => isOff e || isNext e) ((placed.filter (·.1 = f)).map (·.2))
      let first : Option Nat := if ins = 0 then some 15 else
        match insOf tab ins with
        | some (.psg l) => some l
        | _ => none
      match psgWord p, first with
      | some w, some l =>
        let r := psgAt snaps f
        if r.tone.getD id 0 ≠ w then some s!"pitch ch={ch} frame={f} expected={w} observed={r.tone.getD id 0}"
        else if keyed ∧ !short ∧ r.att.getD id 0 ≠ psgExpectedAtt l coarse v then
          some s!"attenuation ch={ch} frame={f} expected={psgExpectedAtt l coarse v} observed={r.att.getD id 0}"
        else none
      | _, _ => none
    | .fin =>
      let r := psgAt snaps f
      if r.att.getD id 0 ≠ 15 then some s!"keyoff-frame ch={ch} frame={f} expected=mute observed={r.att.getD id 0}" else none
    | _ => none

/-- number of writes the driver issues to silence the chips before the first update: per FM
channel four total levels, key-off and panning; per PSG channel the attenuation -/
def initWrites (chans : List Chan) : Nat :=
  (chans.map fun c => if c.id < 6 then 6 else if c.id < 10 then 1 else 0).sum

structure Verdict where
  fail : Option String
  notes : Nat
  extent : String
  deriving Repr

def judgeLog (song : Song) (tab : InsTab) (info : VgmSpec.Info) : Except String Verdict := do
  let chans : List Chan := (song.tracks.filter (·.1 < 16)).map fun (id, r) => { id := id, root := r }
  let ws ← match writesOf info.cmds with
    | some w => pure w
    | none => throw "grid a register write is not on a multiple of 735 samples"
  if info.total % 735 ≠ 0 then throw s!"grid total length {info.total} is not a multiple of 735 samples"
  let lastFrame := info.total / 735
  let ws := ws.drop (initWrites chans)
  let horizon := 2 * (lastFrame + 2) + 1
  let lines ← chans.mapM fun c =>
    match lineOf song c.root horizon with
    | .ok l => pure l
    | .error _ => throw "invalid"
  let tempos := lines.map fun l => l.exs.filterMap fun (t, e) => match e with | .tempo d => some (t, d) | _ => none
  let table := frameTable tempos (lastFrame + 2) 0 md_initial_tempo_delta 0
  -- extent
  let plainRoots := chans.all fun c => segnoAtDepth0 0 c.root && (c.root.filter fun e => e.kind = .segno).length ≤ 1
  let subsPlain := song.tracks.all fun (id, t) => id < 16 || t.all fun e => e.kind ≠ .segno
  let loops := lines.filterMap (·.loop)
  let extent : Except String String :=
    if !(plainRoots && subsPlain) then .ok "skip"
    else if loops.isEmpty then
      let tend := (lines.map (·.length)).foldl max 0
      match frameOf table tend with
      | some f =>
        if chans.isEmpty then (if info.total = 0 ∧ info.loopIdx.isNone then .ok "end" else .error s!"extent empty song has length {info.total}")
        else if info.loopIdx.isSome then .error "extent loop marker in a song without loop point"
        else if f ≠ lastFrame then .error s!"extent log ends in update {lastFrame}, the longest track ends in update {f}"
        else .ok "end"
      | none => .error s!"extent log ends in update {lastFrame}, before the longest track ends (tick {tend})"
    else if loops.length = lines.length ∧ (loops.map (·.2)).eraseDups.length = 1 ∧ loops.all (·.2 ≥ 2) then
      let m := (loops.map (·.1)).foldl max 0
      let len := (loops.head?.map (·.2)).getD 0
      match info.loopIdx, frameOf table m with
      | some k, some fm =>
        let lf := timeAt info.cmds k
        -- the ticks played in the update that holds the marker, one loop length later
        let hi := table.getD (fm + 1) 0 - 1 + len
        if lf ≠ 735 * fm then .error s!"extent loop marker at sample {lf}, the last channel reaches its loop point in update {fm}"
        else match frameOf table (m + len), frameOf table hi with
          | some lo, some hiF =>
            if lastFrame < lo ∨ lastFrame > hiF then
              .error s!"extent log ends in update {lastFrame}, one loop length after the marker is update {lo}..{hiF}"
            else .ok "loop"
          | some lo, none =>   -- the upper end lies beyond the updates of the log
            if lastFrame < lo then .error s!"extent log ends in update {lastFrame}, one loop length after the marker is update {lo}" else .ok "loop"
          | _, _ => .error s!"extent log ends in update {lastFrame}, before one loop length after the loop point"
      | none, _ => .error "extent loop marker missing"
      | _, _ => .error s!"extent log ends in update {lastFrame}, before the last channel reaches its loop point"
    else .ok "skip"
  let mut notes := 0
  -- first everything except the order of key-on and key-off inside one update, then that order
  for (c, l) in chans.zip lines do
    let placed := place table l.exs lastFrame
    notes := notes + (placed.filter fun p => isNote p.2).length
    if c.id < 6 then
      match judgeFm tab c.id placed ws lastFrame false with
      | some w => return { fail := some w, notes := notes, extent := "" }
      | none => pure ()
    else if c.id < 9 then
      match judgePsg tab c.id placed ws lastFrame with
      | some w => return { fail := some w, notes := notes, extent := "" }
      | none => pure ()
  match extent with
  | .error w => return { fail := some w, notes := notes, extent := "" }
  | .ok x =>
    for (c, l) in chans.zip lines do
      if c.id < 6 then
        match judgeFm tab c.id (place table l.exs lastFrame) ws lastFrame true with
        | some w => return { fail := some w, notes := notes, extent := "" }
        | none => pure ()
    return { fail := none, notes := notes, extent := x }

end Ctrmml.Schedule
