/-
  The fragment of event lists for which C09's reader tie is proved (`Properties/C09`:
  `C09_reader_sees_operands_partial`, `C09_full_partial`), as decidable definitions — shared by the
  proofs (Proofs/MdsRead*) and by the C09 judge of the driver, which evaluates on every accepted
  generated song whether the residual hypotheses of `C09_full_partial` hold.
-/
import Ctrmml.Model.MdsFile
import Ctrmml.Spec.MdsResolve
namespace Ctrmml.MdsRead
open Ctrmml Ctrmml.Mds Tables

/-- is the opcode a terminator of `MdsResolve.decodeStream` -/
def isTermOp (b : Nat) : Bool := b == mds_FINISH || b == mds_JUMP || b == mds_DMFINISH

/-- the events `convert_track` has a defined meaning for: a loop point, rests / ties / notes
(length 0 allowed: they emit nothing), and every command of its `switch` — arguments 16 bits wide -/
def okEv (ev : MEv) : Bool :=
  decide (ev.arg ≤ 65535) &&
  ((ev.type == mds_SEGNO && ev.arg == 0) || (decide (mds_REST ≤ ev.type) && decide (ev.type < mds_SLR)) ||
   ev.type == mds_SLR || ev.type == mds_FINISH || byteArgOps.contains ev.type || wordArgOps.contains ev.type ||
   ev.type == mds_MTAB || ev.type == mds_INS || ev.type == mds_PCM || ev.type == mds_PEG || ev.type == mds_JUMP ||
   ev.type == mds_PAT || ev.type == mds_LP || ev.type == mds_LPB || ev.type == mds_LPF)

/-- loop depth after an event -/
def dstep (ty d : Nat) : Nat := if ty = mds_LP then d + 1 else if ty = mds_LPF then d - 1 else d

/-- loops are balanced: depth 0 at the end (a loop end at depth 0 makes `convert_track` fail) -/
def balanced (es : List MEv) : Bool := es.foldl (fun d ev => dstep ev.type d) 0 == 0

/-- the fragment, decided: the list ends with its only terminator, every event has a defined
encoding, loops are balanced -/
def fragB (es : List MEv) : Bool :=
  match es.getLast? with
  | none => false
  | some t => es.dropLast.all (fun ev => okEv ev && !isTermOp ev.type) && okEv t && isTermOp t.type && balanced es

/-- an event with a defined encoding that neither ends a stream nor opens / closes a loop -/
def neutralEv (ev : MEv) : Bool := okEv ev && !isTermOp ev.type && !(ev.type == mds_LP) && !(ev.type == mds_LPF)

end Ctrmml.MdsRead

namespace Ctrmml.MdsFile
open Ctrmml Ctrmml.Mds Tables

/-- the residual hypotheses of `C09_full_partial` that can be decided on an export -/
def fullPartialHyps (song : Song) (b : Built) : Bool :=
  decide ((song.tracks.map (·.1)).Pairwise (· < ·)) && decide (0 < b.trackList.length) &&
  (b.trackList.map (·.2) ++ b.conv.subList).all MdsRead.fragB && (b.trackStreams ++ b.subStreams).all (·.length < 65536)

/-- the raw-opcode side condition on platform commands (`cmd`): the events a platform command
injects have a defined encoding, do not end the stream and are no loop brackets (round 4) -/
def platformFrag (d : DataInfo) : Bool :=
  d.platform.all fun p => match p.2 with | some l => l.all MdsRead.neutralEv | none => true

/-- the residual hypotheses of `C09_full_partial2` (the fragment is proved, round 4) -/
def fullHyps (song : Song) (d : DataInfo) (b : Built) : Bool :=
  decide ((song.tracks.map (·.1)).Pairwise (· < ·)) && decide (0 < b.trackList.length) && platformFrag d &&
  (b.trackStreams ++ b.subStreams).all (·.length < 65536)

/-- bytes of the `dblk` entries of the used data items: id 4 + item, plus header and pad -/
def usedBytes (bank : List (List Nat)) : List (Nat × Nat) → Nat
  | [] => 0
  | p :: rest => 13 + ((bank[p.1 % (mdsFile_bankMask + 1)]?).getD []).length + usedBytes bank rest

/-- the decidable size bound: everything `get_mds` copies into the file, with 64 bytes of slack
for the fixed chunk headers -/
def sizeBound (b : Built) (bank : List (List Nat)) (group pcm : Bytes) : Nat :=
  group.length + b.seq.length + pcm.length + usedBytes bank (usedSorted b.conv)

def exportSmall (b : Built) (bank : List (List Nat)) (group pcm : Bytes) : Bool :=
  decide (sizeBound b bank group pcm + 64 ≤ 4294967296)

end Ctrmml.MdsFile
