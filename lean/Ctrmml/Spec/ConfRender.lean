/-
  Spec for C20: the documented configuration syntax, as a *renderer*.

  A written configuration is a tree decorated with every choice the writer has
  (`SNode`): how each key is spelled (bare, or double-quoted with any mix of literal and
  backslash-escaped characters), which of the four node forms is used (`key`, `key ,`,
  `key : child`, `key { children }`), and which filler (white space, `;` comments) stands
  at every place filler may stand.  `text` writes the decorated tree down, `erase` forgets
  the decoration and gives the `Conf` tree the text denotes, `legal` says which decorations
  are within the syntax.  Quantifying over all legal decorated trees = quantifying over all
  trees and all legal choices of quoting, separators, comments and white space.

  Nothing here refers to the parser model; only the interface type `Conf` is shared.

  What the syntax forces on keys (and nothing more is required):
  * a *bare* key is non-empty, contains none of the ten delimiter characters
    (space, TAB, CR, LF, `"`, `:`, `,`, `;`, `{`, `}`) and does not begin with VT or FF
    (which count as white space when they follow white space);
  * a *quoted* key is arbitrary: `"` and `\` are written `\"`, `\\`; any other character
    may be written literally (CR, LF, TAB included) or behind a backslash; `\n` is LF;
    backslash-CR is a line continuation (denotes nothing);
  * a node written as a key alone (no `,`) must be followed by the end of its list or by a
    node that starts with a written key — with filler in between when both keys are bare;
  * a `;` comment runs to the next CR/LF; without one it must be the last thing in the text.
-/
import Ctrmml.Model.ConfTree
namespace Ctrmml.ConfSpec
open Ctrmml

/-- the delimiter characters of the syntax -/
def delims : List Char := [' ', '\t', '\r', '\n', '"', ':', ',', ';', '{', '}']
/-- white space that can start a run of filler -/
def isBlank (c : Char) : Bool := c == ' ' || c == '\t' || c == '\r' || c == '\n'
/-- white space that can continue a run (adds VT, FF) -/
def isWhite (c : Char) : Bool := isBlank c || c == Char.ofNat 11 || c == Char.ofNat 12
def isNewline (c : Char) : Bool := c == '\n' || c == '\r'

/-- one piece of a quoted key -/
inductive QPiece
  | lit (c : Char)   -- the character itself
  | esc (c : Char)   -- backslash, character  (`\"`, `\\`, `\` TAB, `\x` …)
  | escN             -- `\n` = LF
  | cont             -- backslash, CR = nothing
  deriving Repr

namespace QPiece
def text : QPiece → List Char
  | lit c => [c] | esc c => ['\\', c] | escN => ['\\', 'n'] | cont => ['\\', '\r']
def den : QPiece → List Char
  | lit c => [c] | esc c => [c] | escN => ['\n'] | cont => []
def legal : QPiece → Bool
  | lit c => c != '"' && c != '\\'
  | esc c => c != 'n' && c != '\r'
  | _ => true
end QPiece

/-- a key as written -/
inductive KeyText
  | bare (k : List Char)
  | quoted (ps : List QPiece)
  deriving Repr

namespace KeyText
def text : KeyText → List Char
  | bare k => k
  | quoted ps => '"' :: (ps.flatMap QPiece.text ++ ['"'])
def den : KeyText → List Char
  | bare k => k
  | quoted ps => ps.flatMap QPiece.den
def legal : KeyText → Bool
  | bare k => !k.isEmpty && k.all (fun c => !delims.contains c) && !(k.head?.any isWhite)
  | quoted ps => ps.all QPiece.legal
def isBare : KeyText → Bool | bare _ => true | quoted _ => false
end KeyText

/-- one item of filler -/
inductive GapItem
  | ws (c : Char) (more : List Char)          -- a blank, then any white space
  | comment (body : List Char) (nl : Char)    -- `;`, text without CR/LF, then CR or LF
  deriving Repr

namespace GapItem
def text : GapItem → List Char
  | ws c more => c :: more
  | comment body nl => ';' :: (body ++ [nl])
def legal : GapItem → Bool
  | ws c more => isBlank c && more.all isWhite
  | comment body nl => body.all (fun c => !isNewline c) && isNewline nl
end GapItem

abbrev Gap := List GapItem
def gapText (g : Gap) : List Char := g.flatMap GapItem.text
def gapLegal (g : Gap) : Bool := g.all GapItem.legal

def optKeyText : Option KeyText → List Char | none => [] | some k => k.text
def optKeyDen : Option KeyText → List Char | none => [] | some k => k.den
def optKeyLegal : Option KeyText → Bool | none => true | some k => k.legal

/-- a node as written -/
inductive SNode
  | leaf (pre : Gap) (key : KeyText)                                     -- `key`
  | comma (pre : Gap) (key : Option KeyText) (mid : Gap)                 -- `key ,`  or `,`
  | colon (pre : Gap) (key : Option KeyText) (mid : Gap) (child : SNode) -- `key : child`
  | braces (pre : Gap) (key : Option KeyText) (mid : Gap) (kids : List SNode) (post : Gap)
                                                                         -- `key { kids }`
  deriving Repr

namespace SNode

/-- the filler in front of the node -/
def pre : SNode → Gap
  | leaf p _ => p | comma p _ _ => p | colon p _ _ _ => p | braces p _ _ _ _ => p

/-- does the node start with a written key? -/
def keyed : SNode → Bool
  | leaf _ _ => true
  | comma _ k _ => k.isSome | colon _ k _ _ => k.isSome | braces _ k _ _ _ => k.isSome

/-- does the text of the node (after its filler) start with a bare key? -/
def startsBare : SNode → Bool
  | leaf _ k => k.isBare
  | comma _ k _ => k.any KeyText.isBare | colon _ k _ _ => k.any KeyText.isBare
  | braces _ k _ _ _ => k.any KeyText.isBare

/-- does the text of the node end with a key that nothing closes (`key` alone)? -/
def isOpen : SNode → Bool
  | leaf _ _ => true | comma _ _ _ => false | colon _ _ _ c => c.isOpen | braces _ _ _ _ _ => false

/-- … and is that key bare? -/
def endsBare : SNode → Bool
  | leaf _ k => k.isBare | comma _ _ _ => false | colon _ _ _ c => c.endsBare | braces _ _ _ _ _ => false

/-- may `next` follow `n` in a list? -/
def follows (n : SNode) (next : List SNode) : Bool :=
  match next with
  | [] => true
  | m :: _ => !n.isOpen || (m.keyed && !(n.endsBare && m.startsBare && m.pre.isEmpty))

mutual
/-- the text -/
def text : SNode → List Char
  | leaf p k => gapText p ++ k.text
  | comma p k m => gapText p ++ (optKeyText k ++ (gapText m ++ [',']))
  | colon p k m c => gapText p ++ (optKeyText k ++ (gapText m ++ (':' :: text c)))
  | braces p k m kids post =>
      gapText p ++ (optKeyText k ++ (gapText m ++ ('{' :: (texts kids ++ (gapText post ++ ['}'])))))
def texts : List SNode → List Char
  | [] => []
  | n :: ns => text n ++ texts ns
end

mutual
/-- the tree the text denotes -/
def erase : SNode → Conf
  | leaf _ k => .mk k.den []
  | comma _ k _ => .mk (optKeyDen k) []
  | colon _ k _ c => .mk (optKeyDen k) [erase c]
  | braces _ k _ kids _ => .mk (optKeyDen k) (erases kids)
def erases : List SNode → List Conf
  | [] => []
  | n :: ns => erase n :: erases ns
end

mutual
/-- is the decoration within the syntax? -/
def legal : SNode → Bool
  | leaf p k => gapLegal p && k.legal
  | comma p k m => gapLegal p && optKeyLegal k && gapLegal m
  | colon p k m c => gapLegal p && optKeyLegal k && gapLegal m && legal c
  | braces p k m kids post => gapLegal p && optKeyLegal k && gapLegal m && legals kids && gapLegal post
def legals : List SNode → Bool
  | [] => true
  | n :: ns => legal n && follows n ns && legals ns
end

end SNode

/-- a whole configuration text: nodes, trailing filler, optionally a last comment that
is ended by the end of the text -/
structure STop where
  nodes : List SNode
  trail : Gap
  lastComment : Option (List Char)
  deriving Repr

namespace STop
def text (t : STop) : List Char :=
  SNode.texts t.nodes ++ (gapText t.trail ++ (match t.lastComment with | none => [] | some b => ';' :: b))
def erase (t : STop) : Conf := .mk [] (SNode.erases t.nodes)
def legal (t : STop) : Bool :=
  SNode.legals t.nodes && gapLegal t.trail &&
    (match t.lastComment with | none => true | some b => b.all (fun c => !isNewline c))
end STop

/-- The renderings of a tree: every legal written form that denotes it. -/
def Renders (t : Conf) (r : List Char) : Prop :=
  ∃ s : STop, s.legal = true ∧ s.erase = t ∧ s.text = r

end Ctrmml.ConfSpec
