/-
  What a multi-track MML text means, independently of how it is laid out (mml_ref.md, "Selecting
  tracks", "Addressing tracks", "Adding notes and commands", `{/}`, `;`, `|`) — C06.

  * an abstract *stream* is a list of segments; a segment is addressed to a list of distinct
    tracks `t₁ … t_k` and carries items: a command (given to every track of the segment) or a
    conditional block with exactly `k` alternatives (track `tᵢ` gets alternative `i`);
  * the meaning of a stream is, per track number, the command list that track receives
    (`Stream.project`) — and the events of that track are `MmlMeaning.meaning` of that list:
    every track has its own octave, length, articulation … state, nothing is shared;
  * track addressing: letters `A`..`Z` are tracks 0..25, `*n` is track `n`; (the code also takes
    the digits `0`..`9` as tracks 26..35 and reduces `*n` modulo 2^16: `Addr.id`);
  * a *layout* is any text that hands every track its command list in order: any grouping of the
    tracks of a segment into lines, in any order, with the alternatives of a block listed in the
    order of the line's own track list (a line for a single track may write its alternative with
    or without braces); any split into continuation lines (first character blank) at command
    boundaries outside blocks; blanks, tabs and `|` between commands; a `;` comment at the end of
    a line; comment-only and empty lines in between.  The generator (checks/c06.py) builds
    layouts, the judge (Driver/Layout) demands that they all give `project`.

  Nothing here refers to Model/*.
-/
import Ctrmml.Spec.MmlMeaning
namespace Ctrmml.Layout
open Ctrmml.MmlMeaning (Cmd Simple)

inductive Item
  | cmd (c : Cmd)
  | block (alts : List (List Cmd))
  deriving Repr, Inhabited

structure Segment where
  tracks : List Nat
  items : List Item
  deriving Repr, Inhabited

abbrev Stream := List Segment

/-- what the track at position `i` of the segment's track list receives from an item -/
def Item.select (i : Nat) : Item → List Cmd
  | .cmd c => [c]
  | .block alts => alts.getD i []

def Segment.project (seg : Segment) (t : Nat) : List Cmd :=
  match seg.tracks.findIdx? (· == t) with
  | some i => seg.items.flatMap (Item.select i)
  | none => []

/-- the command list track `t` receives from the whole stream -/
def project (st : Stream) (t : Nat) : List Cmd := st.flatMap (·.project t)

/-- every track number addressed by the stream, ascending, without repetition -/
def trackIds (st : Stream) : List Nat :=
  ((st.flatMap (·.tracks)).eraseDups).mergeSort (· ≤ ·)

/-- no track twice in one segment; every block has one alternative per track -/
def wellFormed (st : Stream) : Bool :=
  st.all fun seg =>
    seg.tracks.eraseDups.length == seg.tracks.length && !seg.tracks.isEmpty &&
    seg.items.all fun
      | .cmd _ => true
      | .block alts => alts.length == seg.tracks.length

/-- commands whose spelling contains `/`, `}` (or `;`): loop break, key signature -/
def spellsSeparator : Cmd → Bool
  | .simple .loopBreak _ => true
  | .keyScale _ => true
  | .keyMod _ => true
  | _ => false

/-- the stream has a conditional block one of whose alternatives contains a command spelled with
`/` or `}` (the trigger of defect D16) -/
def nestedSeparator (st : Stream) : Bool :=
  st.any fun seg => seg.items.any fun
    | .cmd _ => false
    | .block alts => alts.any fun a => a.any spellsSeparator

/-- how a track is written in a track list -/
inductive Addr
  | letter (k : Nat)     -- `A` + k, k < 26
  | digit (d : Nat)      -- `0` + d, d < 10
  | star (n : Nat)       -- `*n`
  deriving Repr, DecidableEq

/-- the track number an address selects -/
def Addr.id : Addr → Nat
  | .letter k => k
  | .digit d => 26 + d
  | .star n => n % 65536

end Ctrmml.Layout
