/-
  Spec side of C11: what an instrument / envelope definition *means*, and independent
  decoders of the data-bank formats (`decodeFm`, `expandPsg`, `runPitchEnv`).  Nothing here
  uses the model.  Bytes are `Nat` < 256.

  Formats (from the comments in mdsdrv.cpp and mml_ref.md):
  * FM image, 30 bytes: 7 rows of 4 bytes in hardware slot order (op1, op3, op2, op4):
    DT/MUL, KS/AR, AM/DR, SR, SL/RR, SSG-EG, TL; then FB/ALG; then (transpose+24)*2.
  * PSG envelope: `00` end, `01` sustain, `02 pp` loop to byte index pp, otherwise
    `fv` = level `15 - v` for `f` frames.
  * pitch envelope, compact: nodes `hh ll dd ss` (start 8.8, signed delta per frame, frames-1;
    ss = ff on the last node = continue for ever) optionally ended by `7f pp` (loop to node pp);
    extended: nodes `hh ll dh dl ss nn` (16-bit delta, nn = next node).
-/
namespace Ctrmml.MdsSpec

/-! ## FM -/
structure FmOp where
  ar : Nat
  dr : Nat
  sr : Nat
  rr : Nat
  sl : Nat
  tl : Nat
  ks : Nat
  ml : Nat
  dt : Nat
  ssg : Nat
  am : Bool
deriving Repr, DecidableEq

structure FmDef where
  alg : Nat
  fb : Nat
  op1 : FmOp
  op2 : FmOp
  op3 : FmOp
  op4 : FmOp
  tr : Int
deriving Repr, DecidableEq

def FmOp.inRange (o : FmOp) : Prop :=
  o.ar < 32 ∧ o.dr < 32 ∧ o.sr < 32 ∧ o.rr < 16 ∧ o.sl < 16 ∧ o.tl < 128 ∧ o.ks < 4 ∧ o.ml < 16 ∧ o.dt < 8 ∧ o.ssg < 16

instance (o : FmOp) : Decidable o.inRange := by unfold FmOp.inRange; infer_instance

def FmDef.inRange (d : FmDef) : Prop :=
  d.alg < 8 ∧ d.fb < 8 ∧ d.op1.inRange ∧ d.op2.inRange ∧ d.op3.inRange ∧ d.op4.inRange ∧ -24 ≤ d.tr ∧ d.tr ≤ 103

instance (d : FmDef) : Decidable d.inRange := by unfold FmDef.inRange; infer_instance

/-- the operator row as written: AR DR SR RR SL TL KS ML DT SSG(+100 = AM) -/
def FmOp.params (o : FmOp) : List Nat :=
  [o.ar, o.dr, o.sr, o.rr, o.sl, o.tl, o.ks, o.ml, o.dt, o.ssg + (if o.am then 100 else 0)]

/-- the 42 numbers of a definition in written order (ALG FB, OP1..OP4) -/
def FmDef.params (d : FmDef) : List Nat :=
  [d.alg, d.fb] ++ d.op1.params ++ d.op2.params ++ d.op3.params ++ d.op4.params

def at' (b : List Nat) (i : Nat) : Nat := b.getD i 0

def decodeOp (b : List Nat) (slot : Nat) : FmOp :=
  { ml := at' b slot % 16, dt := at' b slot / 16 % 8,
    ar := at' b (4 + slot) % 32, ks := at' b (4 + slot) / 64,
    am := at' b (8 + slot) ≥ 128, dr := at' b (8 + slot) % 32,
    sr := at' b (12 + slot) % 32,
    rr := at' b (16 + slot) % 16, sl := at' b (16 + slot) / 16,
    ssg := at' b (20 + slot) % 16,
    tl := at' b (24 + slot) }

/-- register image → definition; hardware slots 0,1,2,3 hold operators 1,3,2,4 -/
def decodeFm (b : List Nat) : Option FmDef :=
  if b.length = 30 then
    some { alg := at' b 28 % 8, fb := at' b 28 / 8 % 8,
           op1 := decodeOp b 0, op2 := decodeOp b 2, op3 := decodeOp b 1, op4 := decodeOp b 3,
           tr := (at' b 29 / 2 : Nat) - 24 }
  else none

/-- what a `2op` definition denotes: the base patch with the four multipliers replaced, the
fourth operator's level set to the second operator's (both are carriers in the algorithms the
macro is meant for: "disabled carrier operators are also enabled"), and the transpose replaced -/
def FmDef.twoOp (d : FmDef) (m1 m2 m3 m4 : Nat) (tr : Int) : FmDef :=
  { d with op1 := { d.op1 with ml := m1 }, op2 := { d.op2 with ml := m2 }, op3 := { d.op3 with ml := m3 },
           op4 := { d.op4 with ml := m4, tl := d.op2.tl }, tr := tr }

/-! ## PSG -/
inductive PsgItem
  | value (initial target length : Nat)
  | sustain
  | loop
deriving Repr, DecidableEq

structure PsgExp where
  frames : List Nat := []
  /-- frame indices at which a sustain mark sits -/
  sustains : List Nat := []
  /-- frame index the envelope loops to, `none` = ends -/
  loopTo : Option Nat := none
deriving Repr, DecidableEq

/-- frames in front of byte index `idx` -/
def framesBefore : List Nat → Nat → Nat
  | _, 0 => 0
  | [], _ => 0
  | b :: bs, idx + 1 => (if b ≥ 16 then b / 16 else 0) + framesBefore bs idx

/-- walk the envelope bytes -/
def expandPsgAux (all : List Nat) : List Nat → PsgExp → Option PsgExp
  | [], _ => none
  | 0 :: _, e => some e
  | 1 :: bs, e => expandPsgAux all bs { e with sustains := e.sustains ++ [e.frames.length] }
  | [2], _ => none
  | 2 :: p :: _, e => some { e with loopTo := some (framesBefore all p) }
  | b :: bs, e =>
    if b < 16 then none
    else expandPsgAux all bs { e with frames := e.frames ++ List.replicate (b / 16) (15 - b % 16) }

def expandPsg (b : List Nat) : Option PsgExp := expandPsgAux b b {}

def monotone (l : List Nat) : Bool :=
  (l.zip (l.drop 1)).all (fun p => p.1 ≤ p.2) || (l.zip (l.drop 1)).all (fun p => p.1 ≥ p.2)

/-- shape of the frames of one written value `initial>target:length` -/
def slideShape (initial target length : Nat) (fs : List Nat) : Bool :=
  fs.length == length && (length < 2 || fs.head? == some initial) && fs.getLast? == some target
  && monotone fs && fs.all (fun v => (min initial target ≤ v) && (v ≤ max initial target))

/-- check an expansion against the written items: frames split by the written lengths, each
piece of slide shape, sustain marks and the (last) loop mark at the written places -/
def checkPsg : List PsgItem → List Nat → Nat → List Nat → Option Nat → PsgExp → Bool
  | [], rest, _, sus, lp, e => rest.isEmpty && e.sustains == sus && e.loopTo == lp
  | .value i t n :: items, rest, pos, sus, lp, e =>
    slideShape i t n (rest.take n) && checkPsg items (rest.drop n) (pos + n) sus lp e
  | .sustain :: items, rest, pos, sus, lp, e => checkPsg items rest pos (sus ++ [pos]) lp e
  | .loop :: items, rest, pos, sus, _, e => checkPsg items rest pos sus (some pos) e

def psgMeets (items : List PsgItem) (e : PsgExp) : Bool := checkPsg items e.frames 0 [] none e

/-! ## pitch envelopes -/
/-- exact decimal `num / 10^dec` (semitones) -/
structure Dec where
  num : Int
  dec : Nat
deriving Repr, DecidableEq

def Dec.add (a b : Dec) : Dec := ⟨a.num * 10 ^ b.dec + b.num * 10 ^ a.dec, a.dec + b.dec⟩
def Dec.neg (a : Dec) : Dec := ⟨-a.num, a.dec⟩
/-- x/2 as a decimal with one more digit -/
def Dec.half (a : Dec) : Dec := ⟨a.num * 5, a.dec + 1⟩

inductive PitchItem
  | node (initial target : Dec) (length : Option Nat)
  | loop
deriving Repr, DecidableEq

structure Chunk where
  start : Int      -- 8.8
  delta : Int      -- 8.8 per frame
  frames : Option Nat   -- none = for ever
  next : Option Nat     -- extended form only
deriving Repr, DecidableEq

def s8 (x : Nat) : Int := if x ≥ 128 then (x : Int) - 256 else x
def s16 (hi lo : Nat) : Int := if hi ≥ 128 then ((hi * 256 + lo : Nat) : Int) - 65536 else ((hi * 256 + lo : Nat) : Int)

structure PitchEnv where
  chunks : List Chunk := []
  /-- node index the envelope loops to; `none` = holds the last node for ever -/
  loopTo : Option Nat := none
deriving Repr, DecidableEq

def decodeCompact : List Nat → List Chunk → Option PitchEnv
  | [], acc => some { chunks := acc }
  | [0x7f, p], acc => some { chunks := acc, loopTo := some p }
  | h :: l :: d :: s :: rest, acc =>
    decodeCompact rest (acc ++ [{ start := s16 h l, delta := s8 d, frames := if s = 255 then none else some (s + 1), next := none }])
  | _, _ => none

def decodeExtended : List Nat → List Chunk → Option PitchEnv
  | [], acc => some { chunks := acc }
  | h :: l :: dh :: dl :: s :: n :: rest, acc =>
    decodeExtended rest (acc ++ [{ start := s16 h l, delta := s16 dh dl, frames := if s = 255 then none else some (s + 1), next := some n }])
  | _, _ => none

/-- in the extended form every node but the last continues at the next one -/
def extNextOk : Nat → List Chunk → Bool
  | _, [] => true
  | _, [_] => true
  | k, c :: c' :: rest => c.next == some (k + 1) && extNextOk (k + 1) (c' :: rest)

/-- the independent reader of a pitch envelope -/
def runPitchEnv (extended : Bool) (b : List Nat) : Option PitchEnv :=
  if extended then
    (decodeExtended b []).bind fun e =>
      -- every node continues at the next one, except the last which either points at itself
      -- (hold for ever) or at the loop node
      match e.chunks.getLast? with
      | none => none
      | some last =>
        match last.next with
        | none => none
        | some nx =>
          if !extNextOk 0 e.chunks then none
          else if last.frames.isNone then (if nx + 1 = e.chunks.length then some e else none)
          else some { e with loopTo := some nx }
  else decodeCompact b []

/-- `⌊|a/b|⌋` toward zero, for b > 0 -/
def truncDiv (a : Int) (b : Nat) : Int := Int.tdiv a b

def Dec.to88 (d : Dec) : Int := truncDiv (d.num * 256) (10 ^ d.dec)

/-- the length of a node whose length is not written: `lround(|Δ| + 1.5) >> 4`, at least 1 -/
def implicitLength (i t : Dec) : Nat :=
  -- Δ = |t - i| as a fraction over 10^(i.dec + t.dec)
  let num := (t.num * 10 ^ i.dec - i.num * 10 ^ t.dec).natAbs
  let den := 10 ^ (i.dec + t.dec)
  if num = 0 then 1 else
  -- round half away from zero of num/den + 3/2
  let r := (2 * num + 3 * den + den) / (2 * den)
  max 1 (r / 16)

/-- check the chunks of one written node: first chunk starts at the written pitch (8.8,
truncated, capped at 0x7eff), the chunks last `len` frames in total (the final node of an
envelope without loop holds for ever instead), and the last chunk ends within one step per
frame of the target.  `clamped` = `noextpitch`, where a step is capped to a signed byte.
Returns the remaining chunks. -/
def checkNode (initial target : Dec) (len : Nat) (clamped : Bool) : List Chunk → Nat → Bool → Option (List Chunk)
  | [], _, _ => none
  | c :: cs, remaining, first =>
    let startOk := !first || c.start == min (Dec.to88 initial) 0x7eff
    let fr : Nat := match c.frames with
      | some f => f
      | none => remaining
    if !startOk || fr = 0 || fr > remaining then none
    else if fr < remaining then
      if c.frames.isNone then none else checkNode initial target len clamped cs (remaining - fr) false
    else
      -- last chunk: |target*256 - (start + delta*fr)| < fr + 1   (times 10^dec)
      let reached := c.start + c.delta * fr
      let err := (target.num * 256 - reached * 10 ^ target.dec).natAbs
      let atCap := clamped && (c.delta == 127 || c.delta == -128)
      if atCap || err < (fr + 1) * 10 ^ target.dec then some cs else none
termination_by cs => cs.length

def checkPitch (clamped : Bool) : List PitchItem → List Chunk → Nat → Option Nat → PitchEnv → Bool
  | [], rest, _, lp, e => rest.isEmpty && e.loopTo == lp
  | .loop :: items, rest, idx, _, e => checkPitch clamped items rest idx (some idx) e
  | .node i t l :: items, rest, idx, lp, e =>
    let len := l.getD (implicitLength i t)
    let len := if len = 0 then 1 else len
    match checkNode i t len clamped rest len true with
    | none => false
    | some rest' => checkPitch clamped items rest' (idx + (rest.length - rest'.length)) lp e

def pitchMeets (clamped : Bool) (items : List PitchItem) (e : PitchEnv) : Bool :=
  checkPitch clamped items e.chunks 0 none e

end Ctrmml.MdsSpec
