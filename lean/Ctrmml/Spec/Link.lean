/-
  Spec for C10: what "linking preserves every song and every sample" means, stated on bytes.
  Independent of Model/Linker, Model/Riff and Model/Wave: its own reader for the MDS file
  (`parseMds`: what a song *carried*), its own reading of the linked bank (`resolve…`: bank
  header → song table → song i → pointer slot → data-bank entry / PCM header → PCM region),
  its own group normalisation and ordering, its own reading of the generated headers.
  Only the constants of Generated/Tables are shared.
-/
import Ctrmml.Model.Bytes
import Ctrmml.Generated.Tables
namespace Ctrmml.LinkSpec
open Ctrmml

/-- `len` bytes of `b` from `pos` (shorter when `b` ends) -/
def readAt (b : Bytes) (pos len : Nat) : Bytes := (b.drop pos).take len

def nat16 (b : Bytes) (pos : Nat) : Option Nat :=
  match readAt b pos 2 with
  | [x, y] => some (x.toNat * 256 + y.toNat)
  | _ => none

def nat32be (b : Bytes) (pos : Nat) : Option Nat :=
  match readAt b pos 4 with
  | [x, y, z, w] => some (((x.toNat * 256 + y.toNat) * 256 + z.toNat) * 256 + w.toNat)
  | _ => none

def nat32le (b : Bytes) (pos : Nat) : Option Nat :=
  match readAt b pos 4 with
  | [x, y, z, w] => some (((w.toNat * 256 + z.toNat) * 256 + y.toNat) * 256 + x.toNat)
  | _ => none

/-! ### what a song carried -/

/-- what the song carried for one pointer slot -/
inductive Want
  | data (b : Bytes)                  -- instrument / envelope bytes
  | pcm (rate : Nat) (bytes : Bytes)  -- a PCM sample: playback rate and the bytes its header addressed
  deriving DecidableEq, Repr

structure Slot where
  addr : Nat       -- position of the 16-bit pointer inside the sequence
  flag : Bool      -- top bit of the pointer (kept by the linker)
  want : Want
  start : Nat := 0 -- PCM only: start offset of the playback window behind the header's position
  deriving DecidableEq, Repr

structure SongIn where
  group : Bytes
  seq : Bytes
  slots : List Slot
  deriving Repr

/-- splits a chunk sequence `cc size data [pad]` … ; `none` when it is not exactly that -/
def chunks : Nat → Bytes → Option (List (Bytes × Bytes))
  | 0, _ => none
  | _ + 1, [] => some []
  | fuel + 1, b =>
    match nat32le b 4 with
    | none => none
    | some size =>
      let body := readAt b 8 size
      if body.length ≠ size then none else
      let next := 8 + size + size % 2
      -- the pad byte may be missing after the last chunk only (the container pads itself)
      if b.length = 8 + size then some [(b.take 4, body)] else
      if b.length < next then none else
      match chunks fuel (b.drop next) with
      | none => none
      | some rest => some ((b.take 4, body) :: rest)

def cc (s : String) : Bytes := s.toList.map fun c => UInt8.ofNat c.toNat

def only (cs : List (Bytes × Bytes)) (name : Bytes) : Option Bytes :=
  match cs.filter (·.1 == name) with
  | [c] => some c.2
  | _ => none

/-- one `dblk` entry -/
def slotOf (sdata : Nat) (pcmd : Bytes) (c : Bytes × Bytes) : Option Slot :=
  match nat32le c.2 0 with
  | none => none
  | some id =>
    let index := id % 2147483648
    let addr := sdata + 2 * index
    if c.1 == cc "glob" then some { addr, flag := id ≥ 2147483648, want := .data (c.2.drop 4) }
    else if c.1 == cc "pcmh" then
      if c.2.length ≠ 36 then none else
      match nat32le c.2 4, nat32le c.2 8, nat32le c.2 12, nat32le c.2 24 with
      | some position, some start, some size, some rate =>
        if position + start + size > pcmd.length then none else
        some { addr, flag := false, want := .pcm rate (readAt pcmd (position + start) size), start }
      | _, _, _, _ => none
    else none

def allSome {α : Type} : List (Option α) → Option (List α)
  | [] => some []
  | none :: _ => none
  | some a :: r => (allSome r).map (a :: ·)

def disjointSlots : List Slot → Bool
  | [] => true
  | s :: r => r.all (fun t => s.addr + 2 ≤ t.addr || t.addr + 2 ≤ s.addr) && disjointSlots r

/-- the strict reader: a RIFF `MDS0` file with exactly one `ver `, `grp `, `seq `, `LIST dblk`
and `pcmd`, a supported version, every entry with its own pointer slot inside the sequence
(behind the two-byte table offset) -/
def parseMds (f : Bytes) : Option SongIn :=
  if f.take 4 ≠ cc "RIFF" ∨ readAt f 8 4 ≠ cc "MDS0" then none else
  match nat32le f 4 with
  | none => none
  | some size =>
    if size + size % 2 + 8 ≠ f.length ∨ size < 4 then none else
    match chunks f.length (readAt f 12 (size - 4)) with
    | none => none
    | some cs =>
      if cs.length ≠ 5 then none else
      match only cs (cc "ver "), only cs (cc "grp "), only cs (cc "seq "), only cs (cc "LIST"), only cs (cc "pcmd") with
      | some ver, some grp, some seq, some lst, some pcmd =>
        if ver.length ≠ 2 ∨ lst.take 4 ≠ cc "dblk" then none else
        let major := (ver.getD 0 0).toNat
        let minor := (ver.getD 1 0).toNat
        if major ≠ Tables.MDSDRV_SEQ_VERSION_MAJOR ∨ minor < Tables.MDSDRV_MIN_SEQ_VERSION_MINOR ∨
           minor > Tables.MDSDRV_SEQ_VERSION_MINOR then none else
        match nat16 seq 0, chunks f.length (lst.drop 4) with
        | some sdata, some es =>
          match allSome (es.map (slotOf sdata pcmd)) with
          | none => none
          | some slots =>
            if slots.all (fun s => 2 ≤ s.addr && s.addr + 2 ≤ seq.length) && disjointSlots slots && seq.length ≤ 65536
            then some { group := grp, seq, slots } else none
        | _, _ => none
      | _, _, _, _, _ => none

/-! ### groups and song numbers -/

def upperOf (c : UInt8) : Option UInt8 :=
  let n := c.toNat
  if n = 32 ∨ (9 ≤ n ∧ n ≤ 13) then some 95
  else if (48 ≤ n ∧ n ≤ 57) ∨ (65 ≤ n ∧ n ≤ 90) ∨ n = 95 then some c
  else if 97 ≤ n ∧ n ≤ 122 then some (UInt8.ofNat (n - 32))
  else none

/-- the symbol made from a name: blanks become `_`, letters upper case, digits and `_` stay,
everything else is dropped; `_` is put in front of a leading digit -/
def symbolOf (s : Bytes) : Bytes :=
  let t := s.filterMap upperOf
  match t with
  | c :: _ => if 48 ≤ c.toNat ∧ c.toNat ≤ 57 then 95 :: t else t
  | [] => []

def groupOf (g : Bytes) : Bytes := if symbolOf g = [] then cc "BGM" else symbolOf g

/-- byte-wise dictionary order -/
def lexLe : List Nat → List Nat → Bool
  | [], _ => true
  | _ :: _, [] => false
  | a :: as, b :: bs => a < b || (a == b && lexLe as bs)

def insertKey (k : Bytes) : List Bytes → List Bytes
  | [] => [k]
  | x :: xs => if x = k then x :: xs else if lexLe (k.map (·.toNat)) (x.map (·.toNat)) then k :: x :: xs else x :: insertKey k xs

/-- distinct group symbols in dictionary order -/
def groupKeys (songs : List SongIn) : List Bytes := songs.foldl (fun acc s => insertKey (groupOf s.group) acc) []

/-- songs in song-number order: by group, then input order -/
def ordered (songs : List SongIn) : List SongIn :=
  (groupKeys songs).flatMap fun k => songs.filter fun s => groupOf s.group == k

/-! ### reading the linked bank -/

def ptrBase : Nat := Tables.link_ptrBase

/-- pitch code of a sample rate: units of 17500/8 Hz, rounded, within 1..8 -/
def pitchOf (rate : Nat) : Nat :=
  let r := (16 * rate + 17500) / 35000
  if r < 1 then 1 else if r > 8 then 8 else r

/-- the bytes a data-bank entry must start with (PCM: as found in the bank) and the checks on it -/
def slotOk (bank pcm song : Bytes) (s : Slot) : Except String (Nat × Bytes) :=
  match nat16 song s.addr with
  | none => .error "slot outside the linked song"
  | some w =>
    if (w ≥ 32768) ≠ s.flag then .error "pointer flag bit changed" else
    let t := w % 32768
    match s.want with
    | .data b =>
      if readAt bank (ptrBase + t) b.length = b then .ok (t, b) else .error s!"data entry differs at {t}"
    | .pcm rate bytes =>
      match nat32be bank (ptrBase + t), nat32be bank (ptrBase + t + 4) with
      | some e0, some e1 =>
        if e0 / 16777216 ≠ pitchOf rate then .error s!"pitch code {e0 / 16777216} for rate {rate}" else
        if e1 ≠ bytes.length then .error "sample size differs" else
        if readAt pcm (e0 % 16777216) e1 ≠ bytes then .error s!"pcm region at {e0 % 16777216} differs from the sample" else
        .ok (t, readAt bank (ptrBase + t) 8)
      | _, _ => .error "pcm header outside the bank"

def inSlot (slots : List Slot) (p : Nat) : Bool := slots.any fun s => p = s.addr || p = s.addr + 1

/-- bytes of the song outside its pointer slots are unchanged -/
def bodySame (slots : List Slot) (orig linked : Bytes) : Bool :=
  orig.length == linked.length &&
  (List.range orig.length).all fun p => inSlot slots p || orig[p]? == linked[p]?

def mapM' {α β : Type} (f : α → Except String β) : List α → Except String (List β)
  | [] => .ok []
  | a :: r => match f a with
    | .error e => .error e
    | .ok b => match mapM' f r with
      | .error e => .error e
      | .ok bs => .ok (b :: bs)

/-- song number `i+1`: found through the table, body unchanged, every slot resolves.
Returns (offset, end offset, resolved entries). -/
def songOk (bank pcm : Bytes) (i : Nat) (s : SongIn) : Except String (Nat × Nat × List (Nat × Bytes)) :=
  match nat32be bank (ptrBase + 4 * (i + 1)) with
  | none => .error "song table too short"
  | some off =>
    let linked := readAt bank (ptrBase + off) s.seq.length
    if off % 2 ≠ 0 then .error "odd song offset" else
    if !bodySame s.slots s.seq linked then .error s!"song {i + 1}: bytes outside the pointer slots changed" else
    match mapM' (slotOk bank pcm linked) s.slots with
    | .error e => .error s!"song {i + 1}: {e}"
    | .ok es => .ok (off, off + s.seq.length, es)

def increasing : List (Nat × Nat) → Bool
  | (_, e) :: (o, e') :: r => e ≤ o && increasing ((o, e') :: r)
  | _ => true

/-- identical data is stored once, different data is never merged (entries of length 0 have no address of their own) -/
def storedOnce : List (Nat × Bytes) → Bool
  | [] => true
  | (t, b) :: r => r.all (fun x => x.2.isEmpty || b.isEmpty || ((x.1 == t) == (x.2 == b))) && storedOnce r

def enumFrom {α : Type} : Nat → List α → List (Nat × α)
  | _, [] => []
  | n, a :: r => (n, a) :: enumFrom (n + 1) r

/-- the resolver: `songs` in input order, the linked sequence bank and PCM bank -/
def resolveBank (songs : List SongIn) (bank pcm : Bytes) : Except String Unit :=
  let n := songs.length
  if nat32be bank 0 ≠ some Tables.link_magic then .error "bank magic" else
  if nat16 bank 4 ≠ some (Tables.MDSDRV_SEQ_VERSION_MAJOR * 256 + Tables.MDSDRV_SEQ_VERSION_MINOR) then .error "bank version" else
  if nat16 bank 6 ≠ some n then .error "song count in the bank header" else
  match nat32be bank 8 with
  | none => .error "bank header too short"
  | some top =>
    match mapM' (fun p => songOk bank pcm p.1 p.2) (enumFrom 0 (ordered songs)) with
    | .error e => .error e
    | .ok rs =>
      let spans := rs.map fun r => (r.1, r.2.1)
      if !increasing spans then .error "songs overlap or are out of order" else
      if !(spans.all fun sp => 4 + 4 * n ≤ sp.1 && sp.2 ≤ top) then .error "song outside the sequence area" else
      let first := match spans with | (o, _) :: _ => o | [] => top
      let entries := rs.flatMap (·.2.2)
      if !(entries.all fun e => 4 + 4 * n ≤ e.1 && e.1 + e.2.length ≤ first) then .error "data entry outside the data bank" else
      if !storedOnce entries then .error "identical data stored twice or different data merged" else
      if ptrBase + top > bank.length then .error "wave table offset outside the bank" else .ok ()

/-! ### reading the generated headers -/

def validSymbol (s : Bytes) : Bool :=
  match s with
  | [] => false
  | c :: r => ((65 ≤ c.toNat && c.toNat ≤ 90) || c.toNat == 95) &&
              r.all fun d => (65 ≤ d.toNat && d.toNat ≤ 90) || d.toNat == 95 || (48 ≤ d.toNat && d.toNat ≤ 57)

def distinct : List Bytes → Bool
  | [] => true
  | a :: r => !r.contains a && distinct r

def splitOn (sep : UInt8) : Bytes → List Bytes
  | [] => [[]]
  | c :: r =>
    match splitOn sep r with
    | [] => [[]]
    | h :: t => if c = sep then [] :: h :: t else (c :: h) :: t

def natOfDigits (b : Bytes) : Option Nat :=
  if b.isEmpty then none else
  b.foldl (fun acc c => match acc with
    | none => none
    | some v => if 48 ≤ c.toNat ∧ c.toNat ≤ 57 then some (v * 10 + (c.toNat - 48)) else none) (some 0)

/-- `NAME = value` (assembler) -/
def asmLine (l : Bytes) : Option (Bytes × Nat) :=
  match splitOn 32 l with
  | [name, eq, v] => if eq = cc "=" then (natOfDigits v).map (name, ·) else none
  | _ => none

/-- `#define NAME value` (C) -/
def cLine (l : Bytes) : Option (Bytes × Nat) :=
  match splitOn 32 l with
  | [d, name, v] => if d = cc "#define" then (natOfDigits v).map (name, ·) else none
  | _ => none

def linesOf (text : Bytes) : Option (List Bytes) :=
  match (splitOn 10 text).reverse with
  | [] :: r => some r.reverse   -- the text ends with a newline
  | _ => none

def hasPrefix (p s : Bytes) : Bool := s.take p.length == p

/-- expected shape of the definitions: per group `MIN = first`, one line per song with
consecutive numbers, `MAX = last`; every song's name begins with `<group>_` -/
def groupShape : List (Bytes × Nat) → Nat → List (Bytes × Nat) → Except String Unit
  | [], _, [] => .ok ()
  | [], _, _ => .error "extra definitions"
  | (g, cnt) :: rest, next, defs =>
    match defs with
    | (_, vmin) :: tail =>
      let songs := tail.take cnt
      let after := tail.drop cnt
      if songs.length ≠ cnt then .error "missing song definitions" else
      if vmin ≠ next + 1 then .error "MIN does not bracket the group" else
      if !((enumFrom (next + 1) songs).all fun p => p.2.2 == p.1 && hasPrefix (g ++ [95]) p.2.1) then .error "song number or name" else
      match after with
      | (_, vmax) :: tail2 =>
        if vmax ≠ next + cnt then .error "MAX does not bracket the group" else groupShape rest (next + cnt) tail2
      | [] => .error "missing MAX"
    | [] => .error "missing MIN"

def resolveHeaders (songs : List SongIn) (asm c : Bytes) : Except String Unit :=
  match linesOf asm, linesOf c with
  | some la, some lc =>
    match allSome (la.map asmLine), allSome (lc.map cLine) with
    | some da, some dc =>
      if da ≠ dc then .error "assembly and C headers differ" else
      if !(da.all fun d => validSymbol d.1) then .error "invalid identifier" else
      if !distinct (da.map (·.1)) then .error "identifier defined twice" else
      let groups := (groupKeys songs).map fun k => (k, (songs.filter fun s => groupOf s.group == k).length)
      groupShape groups 0 da
    | _, _ => .error "unparsable header line"
  | _, _ => .error "header text does not end with a newline"

end Ctrmml.LinkSpec
