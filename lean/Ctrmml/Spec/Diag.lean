/-
  What property C17 asks of a diagnostic, stated on plain data (no model code):

  * the input: its lines (only their lengths matter), the *token map* of the generator (for every
    command: 0-based line, 0-based column of its first character, the tracks it is a command of),
    the call edges between tracks, and the injected fault (kind, position of the faulty command,
    the tracks it sits on);
  * the answer: the text of `what()`.

  `what()` must read `file:line:col: message` with 1-based line and column.

  Clauses (`verdict`):
    parse faults      — file named, line = line of the offending command,
                        first character ≤ column ≤ (length of that line) + 2   (1-based);
                        for a character that is not a command: column = that character's.
    structural faults — file named; the position is the first character of some command that is
                        on an offending track or on a track that (transitively) calls one;
                        missing call target / missing instrument / note out of range with the
                        faulty command on channel tracks only: the position is the faulty command's.
-/
namespace Ctrmml.Diag

/-- a command of the token map -/
structure Tok where
  line : Nat
  col : Nat
  tracks : List Nat
  deriving Repr, DecidableEq

inductive Kind
  /-- no fault: the input must be accepted -/
  | valid
  -- faults the reader finds
  | unknownChar | missingParam | illegalDuration | unterminatedQuote | unterminatedCond | unterminatedKey
  -- structural faults (validation / conversion)
  | loopUnclosed | loopStrayEnd | strayBreak | missingCall | missingIns | wrongIns | noteRange
  /-- `%n` naming a platform command that is not defined (found by the converter) -/
  | missingPlatform
  deriving Repr, DecidableEq

def Kind.isParse : Kind → Bool
  | .unknownChar | .missingParam | .illegalDuration | .unterminatedQuote | .unterminatedCond | .unterminatedKey => true
  | _ => false

/-- the faults for which the property demands the faulty command itself (on channel tracks) -/
def Kind.exactOnChannel : Kind → Bool
  | .missingCall | .missingIns | .noteRange => true
  | _ => false

structure Fault where
  kind : Kind
  /-- 0-based position of the first character of the faulty command -/
  line : Nat
  col : Nat
  /-- the tracks the faulty command is a command of -/
  tracks : List Nat
  deriving Repr

structure Input where
  file : String
  lineLens : List Nat
  toks : List Tok
  /-- `(caller, callee)` for every call command of the song -/
  calls : List (Nat × Nat)
  fault : Fault
  deriving Repr

/-- a parsed `what()`: 1-based line and column as printed -/
structure Pos where
  file : String
  line : Nat
  col : Nat
  msg : String
  deriving Repr, DecidableEq

/-- number of channel tracks of the target (tracks `A`..`P`; the converter reads ids below 16) -/
def channelLimit : Nat := 16

/-- one more round of "who calls a track of the set" -/
def addCallers (calls : List (Nat × Nat)) (s : List Nat) : List Nat :=
  calls.foldl (fun acc e => if s.contains e.2 && !acc.contains e.1 then acc ++ [e.1] else acc) s

/-- the offending tracks and every track that calls one of them, directly or not -/
def callersClosure (calls : List (Nat × Nat)) : Nat → List Nat → List Nat
  | 0, s => s
  | n + 1, s => callersClosure calls n (addCallers calls s)

def blamable (i : Input) : List Nat := callersClosure i.calls (i.calls.length + 1) i.fault.tracks

def onBlamable (i : Input) (t : Tok) : Bool := t.tracks.any (blamable i).contains

/-- the parse-fault clause -/
def parseOk (i : Input) (p : Pos) : Bool :=
  let len := i.lineLens[i.fault.line]?.getD 0
  p.file == i.file && p.line == i.fault.line + 1 && i.fault.col + 1 ≤ p.col && p.col ≤ len + 2
    && (i.fault.kind != .unknownChar || p.col == i.fault.col + 1)

/-- the structural-fault clause -/
def structOk (i : Input) (p : Pos) : Bool :=
  p.file == i.file
    && i.toks.any (fun t => t.line + 1 == p.line && t.col + 1 == p.col && onBlamable i t)
    && (!(i.fault.kind.exactOnChannel && i.fault.tracks.all (· < channelLimit))
        || (p.line == i.fault.line + 1 && p.col == i.fault.col + 1))

inductive Verdict
  | ok
  | fail (why : String)
  deriving Repr, DecidableEq

/-- why a clause fails, for the finding key -/
def parseWhy (i : Input) (p : Pos) : String :=
  let len := i.lineLens[i.fault.line]?.getD 0
  if p.file != i.file then "file_not_named"
  else if p.line != i.fault.line + 1 then "wrong_line"
  else if p.col < i.fault.col + 1 then "column_before_command"
  else if p.col > len + 2 then "column_past_line_end"
  else "column_not_at_character"

def structWhy (i : Input) (p : Pos) : String :=
  if p.file != i.file then "file_not_named"
  else if !(i.toks.any fun t => t.line + 1 == p.line && t.col + 1 == p.col) then "position_is_not_a_command"
  else if !(i.toks.any fun t => t.line + 1 == p.line && t.col + 1 == p.col && onBlamable i t) then "position_on_unrelated_track"
  else "not_the_faulty_command"

/-- the property applied to one answer: `none` = the input was accepted, `some (some p)` = rejected
with a message that parses as `file:line:col: msg`, `some none` = rejected without a position -/
def verdict (i : Input) (answer : Option (Option Pos)) : Verdict :=
  match i.fault.kind, answer with
  | .valid, none => .ok
  | .valid, some _ => .fail "valid_rejected"
  | _, none => .fail "not_rejected"
  | _, some none => .fail "no_position"
  | k, some (some p) =>
    -- a `%n` command is diagnosed by the converter: on a channel track the general clause applies
    -- (line of the command, column at or after its first character), in a subroutine the structural one
    if k.isParse || (k == .missingPlatform && i.fault.tracks.all (· < channelLimit)) then
      (if parseOk i p then .ok else .fail ("parse:" ++ parseWhy i p))
    else (if structOk i p then .ok else .fail ("struct:" ++ structWhy i p))

/-! ### reading `file:line:col: message` -/

def splitAtColon (s : List Char) : List Char × List Char :=
  (s.takeWhile (· != ':'), (s.dropWhile (· != ':')).drop 1)

def natOfChars (l : List Char) : Option Nat :=
  if l.isEmpty || !l.all Char.isDigit then none else some (l.foldl (fun a c => a * 10 + (c.toNat - 48)) 0)

/-- `file:line:col: msg` (the file name contains no colon) -/
def parseWhat (s : String) : Option Pos :=
  let (f, r1) := splitAtColon s.toList
  let (l, r2) := splitAtColon r1
  let (c, r3) := splitAtColon r2
  match natOfChars l, natOfChars c, r3 with
  | some ln, some cn, ' ' :: m => some { file := String.ofList f, line := ln, col := cn, msg := String.ofList m }
  | _, _, _ => none

end Ctrmml.Diag
