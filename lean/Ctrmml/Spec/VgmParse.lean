/-
  Spec side of C08: what "a well-formed, self-consistent VGM file" means, written as a
  reader of the VGM 1.61 format (header fields, command stream, data blocks, DAC stream
  control, GD3 tag block).  Independent of Model/Vgm.lean: only the byte helpers of
  Model/Bytes.lean are shared.

  The command parser knows the fixed-length chip-write classes of VGM 1.61
  (0x30–0x3f, 0x4f, 0x50: one operand; 0x40–0x4e, 0x51–0x5f, 0xa0–0xbf: two; 0xc0–0xdf:
  three; 0xe0–0xff: four), the waits (0x61 nn nn, 0x62, 0x63, 0x7n), the data block
  (0x67 0x66 tt ssssssss data), DAC stream control 0x90–0x94 and the end marker 0x66.
  Everything else (0x68 PCM RAM write, 0x8n, 0x95, reserved codes) is *undefined* for this
  parser, i.e. a file containing it does not parse — the exporter never emits them.
-/
import Ctrmml.Model.Bytes
namespace Ctrmml.VgmSpec
open Ctrmml

inductive Cmd
  | chip (code : UInt8) (operands : Bytes)
  | wait (n : Nat)
  | dataBlock (type : UInt8) (data : Bytes)
  | dacSetup (sid chip port reg : UInt8)
  | dacData (sid bank step base : UInt8)
  | dacFreq (sid : UInt8) (freq : Nat)
  | dacStart (sid : UInt8) (start : Nat) (mode : UInt8) (len : Nat)
  | dacStop (sid : UInt8)
  | endMark
  deriving DecidableEq, Repr

def operandCount (n : Nat) : Option Nat :=
  if (0x30 ≤ n ∧ n ≤ 0x3f) ∨ n = 0x4f ∨ n = 0x50 then some 1
  else if (0x40 ≤ n ∧ n ≤ 0x4e) ∨ (0x51 ≤ n ∧ n ≤ 0x5f) ∨ (0xa0 ≤ n ∧ n ≤ 0xbf) then some 2
  else if 0xc0 ≤ n ∧ n ≤ 0xdf then some 3
  else if 0xe0 ≤ n ∧ n ≤ 0xff then some 4
  else none

def v32 (a b c d : UInt8) : Nat := a.toNat + 256 * b.toNat + 65536 * c.toNat + 16777216 * d.toNat

/-- One command whose code byte is `c`, operands taken from `r`.  Returns the command and
the number of operand bytes it occupies (always `≤ r.length`). -/
def parseCmd (c : UInt8) (r : Bytes) : Option (Cmd × Nat) :=
  let n := c.toNat
  if n = 0x66 then some (.endMark, 0)
  else if n = 0x61 then
    match r with
    | lo :: hi :: _ => some (.wait (lo.toNat + 256 * hi.toNat), 2)
    | _ => none
  else if n = 0x62 then some (.wait 735, 0)
  else if n = 0x63 then some (.wait 882, 0)
  else if 0x70 ≤ n ∧ n ≤ 0x7f then some (.wait (n - 0x6f), 0)
  else if n = 0x67 then
    match r with
    | m :: t :: s0 :: s1 :: s2 :: s3 :: rest =>
      let size := v32 s0 s1 s2 s3 % 2147483648
      if m.toNat = 0x66 ∧ size ≤ rest.length then some (.dataBlock t (rest.take size), 6 + size)
      else none
    | _ => none
  else if n = 0x90 then
    match r with
    | a :: b :: p :: q :: _ => some (.dacSetup a b p q, 4)
    | _ => none
  else if n = 0x91 then
    match r with
    | a :: b :: p :: q :: _ => some (.dacData a b p q, 4)
    | _ => none
  else if n = 0x92 then
    match r with
    | a :: f0 :: f1 :: f2 :: f3 :: _ => some (.dacFreq a (v32 f0 f1 f2 f3), 5)
    | _ => none
  else if n = 0x93 then
    match r with
    | a :: s0 :: s1 :: s2 :: s3 :: m :: l0 :: l1 :: l2 :: l3 :: _ =>
      some (.dacStart a (v32 s0 s1 s2 s3) m (v32 l0 l1 l2 l3), 10)
    | _ => none
  else if n = 0x94 then
    match r with
    | a :: _ => some (.dacStop a, 1)
    | _ => none
  else
    match operandCount n with
    | some k => if k ≤ r.length then some (.chip c (r.take k), k) else none
    | none => none

/-- Parse commands up to and including the end marker.  Result: the commands before the
marker, each with its length in bytes, and the bytes that follow the marker. -/
def parseAll : Bytes → Option (List (Nat × Cmd) × Bytes)
  | [] => none
  | c :: r =>
    match parseCmd c r with
    | none => none
    | some (cmd, k) =>
      if cmd = .endMark then some ([], r.drop k)
      else
        match parseAll (r.drop k) with
        | none => none
        | some (cs, t) => some ((k + 1, cmd) :: cs, t)
termination_by b => b.length
decreasing_by simp [List.length_drop]; omega

def waitOf : Cmd → Nat
  | .wait n => n
  | _ => 0

def waits (cs : List (Nat × Cmd)) : Nat := (cs.map fun p => waitOf p.2).sum
def sizes (cs : List (Nat × Cmd)) : Nat := (cs.map fun p => p.1).sum

/-! ### Header -/

def field32 (f : Bytes) (off : Nat) : Nat := (rdLe32 f off).getD 0

/-- start of the command stream: `0x34 + [0x34]` (VGM ≥ 1.50 with a non-zero field) -/
def dataStart (f : Bytes) : Nat :=
  if field32 f 0x34 = 0 then 0x40 else 0x34 + field32 f 0x34

def magicOk (f : Bytes) : Prop := f.take 4 = [0x56, 0x67, 0x6d, 0x20]
def eofOk (f : Bytes) : Prop := rdLe32 f 4 = some (f.length - 4) ∧ 4 ≤ f.length

/-- the command stream parses, ends with the end marker, and `tail` follows it -/
def streamIs (f : Bytes) (cs : List (Nat × Cmd)) (tail : Bytes) : Prop :=
  dataStart f ≤ f.length ∧ parseAll (f.drop (dataStart f)) = some (cs, tail)

def sampleTotalOk (f : Bytes) (cs : List (Nat × Cmd)) : Prop :=
  rdLe32 f 0x18 = some (waits cs % 4294967296)

/-- loop: no loop (both fields zero), or the offset addresses the boundary before command
`k` and the loop sample count is the sum of the waits from there to the end -/
def loopOk (f : Bytes) (cs : List (Nat × Cmd)) : Prop :=
  (field32 f 0x1c = 0 ∧ field32 f 0x20 = 0) ∨
  ∃ k, k ≤ cs.length ∧ 0x1c + field32 f 0x1c = dataStart f + sizes (cs.take k) ∧
    rdLe32 f 0x20 = some (waits (cs.drop k) % 4294967296)

/-- header clock field of the chip a command addresses -/
def clockField : Cmd → Option Nat
  | .chip c _ =>
    let n := c.toNat
    if n = 0x50 ∨ n = 0x30 ∨ n = 0x4f ∨ n = 0x3f then some 0x0c
    else if n = 0x51 then some 0x10
    else if n = 0x52 ∨ n = 0x53 then some 0x2c
    else if n = 0x54 then some 0x30
    else if n = 0x55 then some 0x44
    else if n = 0x56 ∨ n = 0x57 then some 0x48
    else if n = 0x58 ∨ n = 0x59 then some 0x4c
    else if n = 0x5a then some 0x50
    else if n = 0x5b then some 0x54
    else if n = 0x5c then some 0x58
    else if n = 0x5d then some 0x5c
    else if n = 0x5e ∨ n = 0x5f then some 0x60
    else none
  | .dacSetup _ chip _ _ => if chip.toNat % 128 = 2 then some 0x2c else if chip.toNat % 128 = 0 then some 0x0c else none
  | _ => none

def clocksOk (f : Bytes) (cs : List (Nat × Cmd)) : Prop :=
  ∀ p ∈ cs, ∀ off, clockField p.2 = some off → field32 f off ≠ 0

/-- DAC stream commands against data bank 0 (= the data of the type-0 blocks read so far, in
order): every stream start uses length mode 1 (bytes) and addresses bytes that are already
in the bank when the command is reached -/
def pcmScan : Nat → List (Nat × Cmd) → Bool
  | _, [] => true
  | bank, (_, .dataBlock t d) :: r => pcmScan (if t = 0 then bank + d.length else bank) r
  | bank, (_, .dacStart _ st m len) :: r => decide (m.toNat = 1) && decide (st + len ≤ bank) && pcmScan bank r
  | bank, (_, .chip _ _) :: r => pcmScan bank r
  | bank, (_, .wait _) :: r => pcmScan bank r
  | bank, (_, .dacSetup _ _ _ _) :: r => pcmScan bank r
  | bank, (_, .dacData _ _ _ _) :: r => pcmScan bank r
  | bank, (_, .dacFreq _ _) :: r => pcmScan bank r
  | bank, (_, .dacStop _) :: r => pcmScan bank r
  | bank, (_, .endMark) :: r => pcmScan bank r

def pcmOk (cs : List (Nat × Cmd)) : Prop := pcmScan 0 cs = true

/-- contents of data bank 0 once every block is loaded -/
def bankOf : List (Nat × Cmd) → Bytes
  | [] => []
  | (_, .dataBlock t d) :: r => if t = 0 then d ++ bankOf r else bankOf r
  | _ :: r => bankOf r

/-- the byte windows the stream-start commands address -/
def streamWindows (cs : List (Nat × Cmd)) : List Bytes :=
  cs.filterMap fun p => match p.2 with
    | .dacStart _ st _ len => some (((bankOf cs).drop st).take len)
    | _ => none

/-! ### GD3 -/

/-- split a GD3 body into NUL-terminated UTF-16LE strings (code units); `none` when a
string is unterminated or a byte is left over -/
def splitStrings : Bytes → List Nat → Option (List (List Nat))
  | [], [] => some []
  | [], _ :: _ => none
  | [_], _ => none
  | lo :: hi :: r, acc =>
    let u := lo.toNat + 256 * hi.toNat
    if u = 0 then (splitStrings r []).map (acc.reverse :: ·)
    else splitStrings r (u :: acc)

/-- the GD3 block is `tail` exactly: magic, version 1.00, length, and `strs` -/
def gd3Is (tail : Bytes) (strs : List (List Nat)) : Prop :=
  ∃ body, tail = [0x47, 0x64, 0x33, 0x20, 0x00, 0x01, 0x00, 0x00] ++ le32 body.length ++ body ∧
    body.length < 4294967296 ∧ splitStrings body [] = some strs

/-- the GD3 offset field addresses the byte after the end marker, where `tail` starts -/
def gd3OffsetOk (f : Bytes) (cs : List (Nat × Cmd)) : Prop :=
  0x14 + field32 f 0x14 = dataStart f + sizes cs + 1 ∧ field32 f 0x14 ≠ 0

/-- UTF-16 code units → UTF-8 (lone surrogates are encoded like any BMP unit) -/
def utf8OfUnits : List Nat → Bytes
  | [] => []
  | [u] => enc u
  | u :: v :: r =>
    if 0xD800 ≤ u ∧ u < 0xDC00 ∧ 0xDC00 ≤ v ∧ v < 0xE000 then
      enc (0x10000 + (u - 0xD800) * 1024 + (v - 0xDC00)) ++ utf8OfUnits r
    else enc u ++ utf8OfUnits (v :: r)
where
  enc (cp : Nat) : Bytes :=
    if cp < 0x80 then [byteOf cp]
    else if cp < 0x800 then [byteOf (0xC0 + cp / 64), byteOf (0x80 + cp % 64)]
    else if cp < 0x10000 then [byteOf (0xE0 + cp / 4096), byteOf (0x80 + cp / 64 % 64), byteOf (0x80 + cp % 64)]
    else [byteOf (0xF0 + cp / 262144), byteOf (0x80 + cp / 4096 % 64), byteOf (0x80 + cp / 64 % 64), byteOf (0x80 + cp % 64)]

/-- well-formed UTF-8 (Unicode 15, table 3-7) -/
def validUtf8 : Bytes → Bool
  | [] => true
  | a :: r =>
    let n := a.toNat
    let cont (b : UInt8) (lo hi : Nat) : Bool := lo ≤ b.toNat && b.toNat ≤ hi
    if n < 0x80 then validUtf8 r
    else if 0xC2 ≤ n ∧ n ≤ 0xDF then
      match r with
      | b :: r => cont b 0x80 0xBF && validUtf8 r
      | _ => false
    else if 0xE0 ≤ n ∧ n ≤ 0xEF then
      match r with
      | b :: c :: r =>
        cont b (if n = 0xE0 then 0xA0 else 0x80) (if n = 0xED then 0x9F else 0xBF) && cont c 0x80 0xBF && validUtf8 r
      | _ => false
    else if 0xF0 ≤ n ∧ n ≤ 0xF4 then
      match r with
      | b :: c :: d :: r =>
        cont b (if n = 0xF0 then 0x90 else 0x80) (if n = 0xF4 then 0x8F else 0xBF) && cont c 0x80 0xBF && cont d 0x80 0xBF && validUtf8 r
      | _ => false
    else false

/-- a GD3 string renders a tag: its UTF-8 form is the tag, or — when the tag is longer than
`cap` code units — the string has exactly `cap` units and its UTF-8 form (minus a high
surrogate cut off from its partner at the cap) is a prefix of the tag -/
def rendersTag (cap : Nat) (units : List Nat) (tag : Bytes) : Bool :=
  if utf8OfUnits units == tag then true
  else if units.length == cap then
    let us := match units.getLast? with
      | some u => if 0xD800 ≤ u ∧ u < 0xDC00 then units.dropLast else units
      | none => units
    (utf8OfUnits us).isPrefixOf tag
  else false

/-! ### Text as Unicode scalar values (what "the string equals the tag" means) -/

/-- a Unicode scalar value: a code point that is not a surrogate -/
def isScalar (cp : Nat) : Bool := decide (cp < 0x110000) && !(decide (0xD800 ≤ cp) && decide (cp < 0xE000))

/-- UTF-8 form of a list of code points (standard encoding lengths) -/
def utf8OfScalars (cps : List Nat) : Bytes := cps.flatMap utf8OfUnits.enc

/-- UTF-16 form of one code point -/
def utf16OfScalar (cp : Nat) : List Nat :=
  if cp < 0x10000 then [cp] else [0xD800 + (cp - 0x10000) / 1024, 0xDC00 + (cp - 0x10000) % 1024]

/-- the code points a UTF-16 string denotes; an unpaired surrogate stands for itself -/
def scalarsOfUnits : List Nat → List Nat
  | [] => []
  | [u] => [u]
  | u :: v :: r =>
    if 0xD800 ≤ u ∧ u < 0xDC00 ∧ 0xDC00 ≤ v ∧ v < 0xE000 then
      (0x10000 + (u - 0xD800) * 1024 + (v - 0xDC00)) :: scalarsOfUnits r
    else u :: scalarsOfUnits (v :: r)

/-- well-formed UTF-16: every unit is a 16-bit value and every surrogate is half of a
high–low pair (decidable) -/
def wfUtf16 : List Nat → Bool
  | [] => true
  | [u] => decide (u < 0xD800) || (decide (0xE000 ≤ u) && decide (u < 0x10000))
  | u :: v :: r =>
    if u < 0xD800 ∨ (0xE000 ≤ u ∧ u < 0x10000) then wfUtf16 (v :: r)
    else if 0xD800 ≤ u ∧ u < 0xDC00 ∧ 0xDC00 ≤ v ∧ v < 0xE000 then wfUtf16 r
    else false

/-- 16-bit code units (surrogates in any arrangement allowed) -/
def units16 (us : List Nat) : Bool := us.all fun u => decide (u < 0x10000)

/-! ### The property as a reader states it -/

/-- `f` is a well-formed, self-consistent VGM file whose GD3 block holds exactly the strings
`strs`: magic and EOF offset exact; from the data offset the stream consists of defined commands
only, up to the end marker (`cs`), followed by `tail`; the header's total sample count is the sum
of all waits; the loop fields are zero, or the loop offset addresses a command boundary and the
loop sample count is the sum of the waits from there to the end; the GD3 offset addresses `tail`;
the clock of every chip written to is declared; every stream start addresses bytes of the data
bank loaded before it; `tail` is exactly one GD3 block (magic, version, length) splitting into the
NUL-terminated UTF-16 strings `strs`. -/
structure WellFormed (f : Bytes) (strs : List (List Nat)) : Prop where
  magic : magicOk f
  eof : eofOk f
  body : ∃ cs tail, streamIs f cs tail ∧ sampleTotalOk f cs ∧ loopOk f cs ∧ gd3OffsetOk f cs ∧
    clocksOk f cs ∧ pcmOk cs ∧ gd3Is tail strs

/-! ### Executable analysis used by the judge (one pass; the same definitions as above) -/

structure Info where
  cmds : List (Nat × Cmd)
  strs : List (List Nat)
  total : Nat
  loopIdx : Option Nat
  deriving Repr

def findBoundary (cs : List (Nat × Cmd)) (target : Nat) : Option Nat :=
  let rec go (cs : List (Nat × Cmd)) (pos k : Nat) : Option Nat :=
    if pos = target then some k
    else match cs with
      | [] => none
      | (n, _) :: r => if pos > target then none else go r (pos + n) (k + 1)
  go cs 0 0

def stripPrefix (p b : Bytes) : Option Bytes :=
  if p.isPrefixOf b then some (b.drop p.length) else none

def analyse (f : Bytes) : Except String Info := do
  if f.take 4 != [0x56, 0x67, 0x6d, 0x20] then throw "magic"
  if f.length < 0x40 then throw "short header"
  if rdLe32 f 4 != some (f.length - 4) then throw s!"eof offset {field32 f 4} != {f.length - 4}"
  let ds := dataStart f
  if ds > f.length then throw "data offset beyond file"
  let (cs, tail) ← match parseAll (f.drop ds) with
    | some x => pure x
    | none => throw "command stream does not parse up to an end marker"
  if field32 f 0x18 != waits cs % 4294967296 then
    throw s!"total samples {field32 f 0x18} != sum of waits {waits cs}"
  let loopIdx ←
    if field32 f 0x1c = 0 then
      if field32 f 0x20 = 0 then pure none else throw "loop samples without loop offset"
    else
      match findBoundary cs (0x1c + field32 f 0x1c - ds) with
      | none => throw s!"loop offset {0x1c + field32 f 0x1c} is not a command boundary"
      | some k =>
        if 0x1c + field32 f 0x1c < ds then throw "loop offset before data" else
        if field32 f 0x20 != waits (cs.drop k) % 4294967296 then
          throw s!"loop samples {field32 f 0x20} != samples from loop point to end {waits (cs.drop k)}"
        else pure (some k)
  for p in cs do
    match clockField p.2 with
    | some off => if field32 f off = 0 then throw s!"chip clock at header {off} not declared"
    | none => pure ()
  if !pcmScan 0 cs then throw "stream start outside the data bank loaded so far (or length mode not bytes)"
  if field32 f 0x14 = 0 then
    if tail.isEmpty then pure { cmds := cs, strs := [], total := waits cs, loopIdx := loopIdx }
    else throw "bytes after the end marker without GD3 offset"
  else
    if 0x14 + field32 f 0x14 != ds + sizes cs + 1 then
      throw s!"GD3 offset {0x14 + field32 f 0x14} != end of stream {ds + sizes cs + 1}"
    match stripPrefix [0x47, 0x64, 0x33, 0x20, 0x00, 0x01, 0x00, 0x00] tail with
    | none => throw "GD3 magic/version"
    | some r =>
      if rdLe32 r 0 != some (r.length - 4) then throw s!"GD3 length {field32 r 0} != {r.length - 4}"
      match splitStrings (r.drop 4) [] with
      | none => throw "GD3 strings not terminated"
      | some strs => pure { cmds := cs, strs := strs, total := waits cs, loopIdx := loopIdx }

end Ctrmml.VgmSpec
