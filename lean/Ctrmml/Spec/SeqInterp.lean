/-
  The MDSDRV sequence rules: an interpreter of a `seq ` chunk, written from the opcode table
  (mdsdrv.h) and the encoder's comments — the driver itself is not part of the repository, so
  this file *is* the formalisation of "the MDSDRV sequence rules" and belongs to the trusted
  base (DESIGN §8.4).

  Layout of the chunk: [0..1] offset of the pointer table (`base`), [2] volume, [3] number of
  tracks, then 4 bytes per track (channel id, flags, 16-bit offset from `base`), then at `base`
  one 16-bit offset (from `base`) per subroutine, macro track and data item.

  Instructions: `00–7f` rest of b+1 ticks (remembered); `80` rest of the remembered length;
  `81` tie / `82–df` note, each optionally followed by a length byte `< 80` (remembered);
  `e0` slur; one-argument commands; two-argument commands `ed ee ef f6`; `f5` jump rel16;
  `fa` loop start, `fb n` loop end (n passes), `fc o` / `fd oo` loop break: on the last pass
  continue `o` bytes after this instruction; `fe k` call subroutine k; `ff` return / end;
  `f7 n` (drum routine) play note n with the caller's length and return.  With the drum flag
  set (`ec 08`) a note byte `82+k` calls routine k instead of sounding.
  The two remembered lengths are per-track registers that simply persist (through loops and
  into subroutines); what they hold after a subroutine returns or after the loop-back jump is
  left unspecified (`none`: relying on them there is an error `noLength`); a drum routine runs
  with its own registers and the caller's are restored when it returns.

  Output: a tick string — what sounds at each tick, with zero-time commands in between.
-/
import Ctrmml.Generated.Tables
namespace Ctrmml.Seq
open Tables

inductive Tk
  | on (note : Nat)      -- key on at this tick
  | hold                 -- note (or tie) continues
  | off                  -- silence
  | cmd (op arg : Nat)   -- zero-time command
  | loopMark             -- the loop-back jump was taken here
  deriving DecidableEq, Repr

inductive Stop | finished | fuel | badRead | badOp | noLength | loopUnderflow | tooManyTicks
  deriving DecidableEq, Repr

structure LoopF where
  start : Nat
  count : Nat      -- 0 = not yet known
  deriving Repr

structure St where
  pc : Nat
  lastNote : Option Nat := none
  lastRest : Option Nat := none
  loops : List LoopF := []
  /-- return pc; for a drum-routine call the pending note length and the caller's two length
  registers (a drum routine runs with its own registers: the caller's are restored on return) -/
  calls : List (Nat × Option (Nat × Option Nat × Option Nat)) := []
  drum : Bool := false
  jumps : Nat := 0
  out : List Tk := []                      -- reversed
  deriving Repr

def rd (b : List Nat) (i : Nat) : Option Nat := b[i]?

def rd16 (b : List Nat) (i : Nat) : Option Nat := do
  let h ← b[i]?
  let l ← b[i + 1]?
  pure (h * 256 + l)

def oneArgOps : List Nat :=
  [mds_INS, mds_VOL, mds_VOLM, mds_TRS, mds_TRSM, mds_DTN, mds_PTA, mds_PEG, mds_PAN, mds_LFO, mds_MTAB,
   mds_FLG, mds_PCM, mds_PCMRATE, mds_PCMMODE, mds_COMM, mds_TEMPO]

def twoArgOps : List Nat := [mds_FMCREG, mds_FMTL, mds_FMTLM, mds_FMREG]

def emitNote (s : St) (ty len : Nat) : St :=
  let ticks := if ty = mds_TIE then List.replicate len Tk.hold
               else Tk.on (ty - mds_NOTE) :: List.replicate (len - 1) Tk.hold
  { s with out := ticks.reverse ++ s.out }

/-- slot `k` of the pointer table → absolute position of that stream -/
def slotTarget (seq : List Nat) (base k : Nat) : Option Nat := (rd16 seq (base + 2 * k)).map (· + base)

/-- one instruction; `maxJumps` = how often the loop-back jump is followed before stopping -/
def step (seq : List Nat) (base maxJumps : Nat) (s : St) : Except Stop St :=
  match rd seq s.pc with
  | none => .error .badRead
  | some b =>
    if b < 0x80 then
      .ok { s with pc := s.pc + 1, lastRest := some b, out := List.replicate (b + 1) Tk.off ++ s.out }
    else if b = mds_REST then
      match s.lastRest with
      | none => .error .noLength
      | some r => .ok { s with pc := s.pc + 1, out := List.replicate (r + 1) Tk.off ++ s.out }
    else if b < mds_SLR then
      -- tie or note, optional length byte
      let (len?, pc', ln) : Option Nat × Nat × Option Nat :=
        match rd seq (s.pc + 1) with
        | some l => if l < 0x80 then (some (l + 1), s.pc + 2, some l) else (s.lastNote.map (· + 1), s.pc + 1, s.lastNote)
        | none => (s.lastNote.map (· + 1), s.pc + 1, s.lastNote)
      match len? with
      | none => .error .noLength
      | some len =>
        if s.drum ∧ b ≥ mds_NOTE then
          match slotTarget seq base (b - mds_NOTE) with
          | none => .error .badRead
          | some t => .ok { s with pc := t, lastNote := none, lastRest := none,
                                   calls := (pc', some (len, ln, s.lastRest)) :: s.calls }
        else .ok (emitNote { s with pc := pc', lastNote := ln } b len)
    else if b = mds_SLR then .ok { s with pc := s.pc + 1, out := Tk.cmd b 0 :: s.out }
    else if b = mds_FINISH then
      match s.calls with
      | [] => .error .finished
      | (ret, none) :: cs => .ok { s with pc := ret, calls := cs, lastNote := none, lastRest := none }
      | (ret, some (_, ln, lr)) :: cs => .ok { s with pc := ret, calls := cs, lastNote := ln, lastRest := lr }
    else if b = mds_DMFINISH then
      match rd seq (s.pc + 1), s.calls with
      | some n, (ret, some (len, ln, lr)) :: cs =>
        .ok (emitNote { s with pc := ret, calls := cs, lastNote := ln, lastRest := lr } (mds_NOTE + n) len)
      | _, _ => .error .badOp
    else if b = mds_JUMP then
      match rd16 seq (s.pc + 1) with
      | none => .error .badRead
      | some o =>
        if s.jumps ≥ maxJumps then .error .finished
        else .ok { s with pc := (s.pc + 3 + o) % 65536, jumps := s.jumps + 1, lastNote := none, lastRest := none,
                          out := Tk.loopMark :: s.out }
    else if b = mds_LP then
      .ok { s with pc := s.pc + 1, loops := { start := s.pc + 1, count := 0 } :: s.loops }
    else if b = mds_LPF then
      match rd seq (s.pc + 1), s.loops with
      | some n, f :: fs =>
        let cnt := if f.count = 0 then n else f.count
        if cnt - 1 > 0 then
          .ok { s with pc := f.start, loops := { f with count := cnt - 1 } :: fs }
        else .ok { s with pc := s.pc + 2, loops := fs }
      | none, _ => .error .badRead
      | _, [] => .error .loopUnderflow
    else if b = mds_LPB ∨ b = mds_LPBL then
      let (o?, sz) := if b = mds_LPB then (rd seq (s.pc + 1), 2) else (rd16 seq (s.pc + 1), 3)
      match o?, s.loops with
      | some o, f :: fs =>
        if f.count = 1 then .ok { s with pc := s.pc + sz + o, loops := fs }
        else .ok { s with pc := s.pc + sz }
      | none, _ => .error .badRead
      | _, [] => .error .loopUnderflow
    else if b = mds_PAT then
      match rd seq (s.pc + 1) with
      | none => .error .badRead
      | some k =>
        match slotTarget seq base k with
        | none => .error .badRead
        | some t => .ok { s with pc := t, calls := (s.pc + 2, none) :: s.calls }
    else if oneArgOps.contains b then
      match rd seq (s.pc + 1) with
      | none => .error .badRead
      | some a =>
        let s' := if b = mds_FLG ∧ a < 0x80 then { s with drum := a &&& 8 ≠ 0 } else s
        .ok { s' with pc := s.pc + 2, out := Tk.cmd b a :: s'.out }
    else if twoArgOps.contains b then
      match rd16 seq (s.pc + 1) with
      | none => .error .badRead
      | some a => .ok { s with pc := s.pc + 3, out := Tk.cmd b a :: s.out }
    else .error .badOp

/-- run until the stream ends, `maxTicks` ticks have been produced, or fuel runs out -/
def run (seq : List Nat) (base maxJumps maxTicks : Nat) : Nat → St → List Tk × Stop
  | 0, s => (s.out.reverse, .fuel)
  | fuel + 1, s =>
    -- (the length test is only made every 64th step: it is linear in the output so far)
    if fuel % 64 = 0 ∧ s.out.length > maxTicks then (s.out.reverse, .tooManyTicks) else
    match step seq base maxJumps s with
    | .error e => (s.out.reverse, e)
    | .ok s' => run seq base maxJumps maxTicks fuel s'

/-- the tracks of a chunk: (channel id, absolute start position) -/
def tracksOf (seq : List Nat) : Option (Nat × List (Nat × Nat)) := do
  let base ← rd16 seq 0
  let n ← rd seq 3
  let ts ← (List.range n).mapM fun i => do
    let id ← rd seq (4 + 4 * i)
    let off ← rd16 seq (4 + 4 * i + 2)
    pure (id, base + off)
  pure (base, ts)

end Ctrmml.Seq
