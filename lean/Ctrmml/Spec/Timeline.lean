/-
  The audible timeline of a track: what C02 compares.  From the structural expansion (`perf`,
  Spec/Expand) with drum-mode notes resolved the way the `Player` does (a drum-mode note plays
  its routine up to the routine's first note, which sounds with the caller's on/off time), to a
  tick string in the vocabulary of Spec/SeqInterp.
-/
import Ctrmml.Spec.Expand
import Ctrmml.Spec.SeqInterp
namespace Ctrmml.Timeline
open Ctrmml Ctrmml.Expand Ctrmml.Seq Tables

/-- platform commands of the song: id ↦ the (opcode, argument) list it denotes -/
abbrev Platform := List (Int × List (Nat × Nat))

def bpmDelta (bpm : Nat) : Nat :=
  let num : Int := 128 * (bpm : Int) - 75
  min 255 (if num < 0 then 0 else (num / 150).toNat)

def lo (p : Int) : Nat := (p % 256).toNat
def u16 (p : Int) : Nat := (p % 65536).toNat

/-- the command byte(s) a channel command denotes; index-valued commands (instrument, envelope,
macro table) carry only "off / on" here — which entry they select is C09's subject -/
def cmdOf (pf : Platform) (e : Event) : List Tk :=
  if e.type = ev_SLUR then [.cmd mds_SLR 0]
  else if e.type = ev_TRANSPOSE_REL then [.cmd mds_TRSM (lo e.param)]
  else if e.type = ev_VOL then [.cmd mds_VOL ((u16 e.param ||| 0x80) % 256)]
  else if e.type = ev_VOL_REL ∨ e.type = ev_VOL_FINE_REL then [.cmd mds_VOLM (lo e.param)]
  else if e.type = ev_TEMPO_BPM then [.cmd mds_TEMPO (bpmDelta (u16 e.param))]
  else if e.type = ev_INS then [.cmd mds_INS 0]
  else if e.type = ev_TRANSPOSE then [.cmd mds_TRS (lo e.param)]
  else if e.type = ev_DETUNE then [.cmd mds_DTN (lo e.param)]
  else if e.type = ev_VOL_FINE then [.cmd mds_VOL ((u16 e.param &&& 0x7f) % 256)]
  else if e.type = ev_PAN then [.cmd mds_PAN (lo (e.param * 64))]
  else if e.type = ev_PAN_ENVELOPE then [.cmd mds_MTAB (if e.param ≠ 0 then 1 else 0)]
  else if e.type = ev_PITCH_ENVELOPE then [.cmd mds_PEG (if e.param ≠ 0 then 1 else 0)]
  else if e.type = ev_PORTAMENTO then [.cmd mds_PTA (lo e.param)]
  else if e.type = ev_DRUM_MODE then [.cmd mds_FLG (if e.param ≠ 0 then 8 else 0)]
  else if e.type = ev_TEMPO then [.cmd mds_TEMPO (lo e.param)]
  else if e.type = ev_PLATFORM then
    ((pf.lookup e.param).getD []).map fun (op, a) => .cmd op a
  else []

/-- the same masking applied to the interpreter's output -/
def maskTk : Tk → Tk
  | .cmd op a =>
    if op = mds_INS ∨ op = mds_PCM then .cmd mds_INS 0
    else if op = mds_PEG ∨ op = mds_MTAB then .cmd op (if a ≠ 0 then 1 else 0)
    else .cmd op a
  | t => t

def noteTicks (p : Int) (on off : Nat) : List Tk :=
  (if on = 0 then [] else Tk.on p.toNat :: List.replicate (on - 1) Tk.hold) ++ List.replicate off Tk.off

/-- commands of a drum routine up to its first note; the note number it ends with -/
def routineHead (pf : Platform) : List Item → Option (List Tk × Int)
  | [] => none
  | i :: is =>
    if i.ev.type = ev_NOTE then some ([], i.ev.param)
    else (routineHead pf is).map fun (c, n) => (cmdOf pf i.ev ++ c, n)

/-- ticks of a performance; `drum` = current drum-mode state -/
def ticksOf (song : Song) (pf : Platform) : Bool → List Item → Except SErr (List Tk)
  | _, [] => .ok []
  | drum, i :: is =>
    let e := i.ev
    let here : Except SErr (List Tk × Bool) :=
      if e.type = ev_NOTE then
        if drum then
          match callK song limit 1 (trackIdOfParam e.param) with
          | .error x => .error x
          | .ok ritems =>
            match routineHead pf ritems with
            | none => .error .structure
            | some (cmds, n) => .ok (cmds ++ noteTicks n i.src.on i.src.off, drum)
        else .ok (noteTicks e.param i.src.on i.src.off, drum)
      else if e.type = ev_TIE then .ok (List.replicate i.src.on Tk.hold ++ List.replicate i.src.off Tk.off, drum)
      else if e.type = ev_REST then .ok (List.replicate (i.src.on + i.src.off) Tk.off, drum)
      else if e.type = ev_DRUM_MODE then .ok (cmdOf pf e, e.param ≠ 0)
      else .ok (cmdOf pf e ++ List.replicate (i.src.on + i.src.off) Tk.off, drum)
    match here with
    | .error x => .error x
    | .ok (t, drum') =>
      match ticksOf song pf drum' is with
      | .error x => .error x
      | .ok rest => .ok (t ++ rest)

/-- items after the last loop point -/
def afterSegno : List Item → Option (List Item)
  | [] => none
  | i :: is =>
    match afterSegno is with
    | some r => some r
    | none => if i.src.kind = .segno then some is else none

def drumAt (d : Bool) : List Item → Bool
  | [] => d
  | i :: is => drumAt (if i.ev.type = ev_DRUM_MODE then i.ev.param ≠ 0 else d) is

/-- expected tick string of a channel when the loop-back jump is followed once -/
def expected (song : Song) (pf : Platform) (root : List Event) : Except SErr (List Tk) :=
  match perf song root with
  | .error x => .error x
  | .ok items =>
    match ticksOf song pf false items with
    | .error x => .error x
    | .ok all =>
      match afterSegno items, loopTime items with
      | some suffix, some t =>
        if totalDur items = t then .ok all   -- nothing to loop over: the track just ends
        else
          match ticksOf song pf (drumAt false items) suffix with
          | .error x => .error x
          | .ok again => .ok (all ++ [Tk.loopMark] ++ again)
      | _, _ => .ok all

/-- loop point only outside counted loops: `SEGNO` at bracket depth 0 -/
def segnoAtDepth0 : Nat → List Event → Bool
  | _, [] => true
  | d, e :: es =>
    if e.kind = .loopStart then segnoAtDepth0 (d + 1) es
    else if e.kind = .loopEnd then segnoAtDepth0 (d - 1) es
    else if e.kind = .segno then d == 0 && segnoAtDepth0 d es
    else segnoAtDepth0 d es

/-- the encodable domain of C02 (decidable, checked by the oracle before it judges) -/
def inDomain (song : Song) (root : List Event) : Bool :=
  segnoAtDepth0 0 root &&
  (song.tracks.all fun (id, t) => id < 16 || t.all fun e => e.kind ≠ .segno) &&
  let tracks := root :: song.tracks.map (·.2)
  tracks.all fun t => t.all fun e =>
    (e.type ≠ ev_NOTE || (decide (0 ≤ e.param) && decide (e.param < (mds_SLR - mds_NOTE : Nat)) && decide (e.on ≥ 1)))
    && (e.type ≠ ev_LOOP_END || (decide (0 ≤ e.param) && decide (e.param ≤ 255)))

end Ctrmml.Timeline
