/-
  Well-formedness of a compiled `seq ` chunk (C03): a linear instruction walker that checks,
  for one stream, that instructions can be decoded one after the other inside the chunk, that
  loop start/end are balanced, that every loop-break offset lands on the instruction after its
  loop end, that the stream ends with a terminator at loop depth 0, and that a loop-back jump
  lands on an instruction boundary of the same stream at loop depth 0.
-/
import Ctrmml.Spec.SeqInterp
namespace Ctrmml.SeqWf
open Ctrmml.Seq Tables

inductive Bad
  | read (pc : Nat) | op (pc : Nat) | unbalanced (pc : Nat) | breakTarget (pc : Nat)
  | jumpTarget (pc : Nat) | noTerminator | fuel
  deriving DecidableEq, Repr

structure W where
  pc : Nat
  depth : Nat := 0
  /-- pending loop breaks per open loop: absolute targets that must equal the pc after the LPF -/
  breaks : List (List Nat) := []
  /-- instruction boundaries seen so far at loop depth 0 -/
  bounds0 : List Nat := []
  deriving Repr

/-- length of the instruction at `pc` (note/tie with optional length byte) -/
def instrLen (seq : List Nat) (pc : Nat) : Option Nat :=
  match rd seq pc with
  | none => none
  | some b =>
    if b ≤ mds_REST then some 1
    else if b < mds_SLR then
      match rd seq (pc + 1) with
      | some l => if l < 0x80 then some 2 else some 1
      | none => some 1
    else if b = mds_SLR ∨ b = mds_FINISH ∨ b = mds_LP then some 1
    else if b = mds_JUMP ∨ b = mds_LPBL ∨ twoArgOps.contains b then some 3
    else if b = mds_LPF ∨ b = mds_LPB ∨ b = mds_PAT ∨ b = mds_DMFINISH ∨ oneArgOps.contains b then some 2
    else none

/-- walk one stream from `start`; `ok (end)` = position after the terminator -/
def walk (seq : List Nat) (start : Nat) : Nat → W → Except Bad Nat
  | 0, _ => .error .fuel
  | fuel + 1, w =>
    match rd seq w.pc, instrLen seq w.pc with
    | none, _ => .error (.read w.pc)
    | _, none => .error (.op w.pc)
    | some b, some len =>
      if w.pc + len > seq.length then .error (.read w.pc) else
      let w1 := if w.depth = 0 then { w with bounds0 := w.pc :: w.bounds0 } else w
      let next := w.pc + len
      if b = mds_FINISH ∨ b = mds_DMFINISH then
        if w.depth = 0 then .ok next else .error (.unbalanced w.pc)
      else if b = mds_JUMP then
        match rd16 seq (w.pc + 1) with
        | none => .error (.read w.pc)
        | some o =>
          let target := (w.pc + 3 + o) % 65536
          if w.depth ≠ 0 then .error (.unbalanced w.pc)
          else if w1.bounds0.contains target ∧ start ≤ target then .ok next
          else .error (.jumpTarget w.pc)
      else if b = mds_LP then
        walk seq start fuel { w1 with pc := next, depth := w.depth + 1, breaks := [] :: w.breaks }
      else if b = mds_LPB ∨ b = mds_LPBL then
        let o? := if b = mds_LPB then rd seq (w.pc + 1) else rd16 seq (w.pc + 1)
        match o?, w.breaks with
        | some o, bs :: rest => walk seq start fuel { w1 with pc := next, breaks := ((next + o) :: bs) :: rest }
        | none, _ => .error (.read w.pc)
        | _, [] => .error (.unbalanced w.pc)
      else if b = mds_LPF then
        match w.breaks with
        | [] => .error (.unbalanced w.pc)
        | bs :: rest =>
          if bs.all (· == next) then walk seq start fuel { w1 with pc := next, depth := w.depth - 1, breaks := rest }
          else .error (.breakTarget w.pc)
      else walk seq start fuel { w1 with pc := next }

/-- all streams of a chunk: channel tracks and the first `nSubs` pointer slots -/
def checkAll (seq : List Nat) (nSubs : Nat) : Except String Unit := do
  match tracksOf seq with
  | none => throw "header or track table unreadable"
  | some (base, ts) =>
    if base > seq.length then throw "pointer table outside the chunk"
    for (id, start) in ts do
      match walk seq start (seq.length + 1) { pc := start } with
      | .error e => throw s!"track {id}: {repr e}"
      | .ok _ => pure ()
    for k in List.range nSubs do
      match slotTarget seq base k with
      | none => throw s!"slot {k} unreadable"
      | some start =>
        match walk seq start (seq.length + 1) { pc := start } with
        | .error e => throw s!"subroutine {k}: {repr e}"
        | .ok _ => pure ()

/-- ticks between the first and the second loop-back of an interpreted track (`none` = the track
does not loop) -/
def ticksBetweenLoops (ts : List Tk) : Option Nat :=
  match ts.dropWhile (· != Tk.loopMark) with
  | [] => none
  | _ :: rest =>
    some ((rest.takeWhile (· != Tk.loopMark)).filter (fun t => match t with | .cmd _ _ => false | _ => true)).length

end Ctrmml.SeqWf
