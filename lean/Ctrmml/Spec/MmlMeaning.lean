/-
  What MML text means (mml_ref.md), stated independently of the model: a command AST, its
  canonical spelling `render`, and its denotation `meaning` in unbounded integers:

  * pitch of every sounding note: letter value (`c d e f g a b` = 0 2 4 5 7 9 11, `h` = `b`)
    + accidental, or the key signature when no accidental is written, + 12·(octave number − 1);
    in drum mode: letter index (`a`..`h` = 0..7) + accidental + drum base;
  * written duration: `measure / n`, `:frames`, or the default length, plus the dot series
    `d/2 + d/4 + …`; shuffle adds `+s, −s, +s, …` to successive notes, ties, rests and echoes;
  * key-on time of a note that is not edited afterwards: `d·Q/8` (quantise) or `d − q`, at least
    1 (early release);
  * total duration: the sum of the written durations minus the reverse rests (a grace note
    borrows its length from the note before it);
  * the echo macro replays the note written `delay` notes/rests ago between `VOL_REL −v` and
    `VOL_REL +v`;
  * key signatures by the circle of fifths (sharps F C G D A E B, flats B E A D G C F).

  `exact = false` marks texts outside the domain in which this arithmetic is meant literally
  (16-bit overflow, zero lengths, shuffle larger than a duration, reverse rests that are not
  directly behind a sufficiently long note or rest, parameters outside their documented range):
  the judge skips them and only the model/implementation correspondence speaks there.

  Nothing here refers to Model/*.  Event type numbers come from the regenerated tables.
-/
import Ctrmml.Generated.Tables
namespace Ctrmml.MmlMeaning
open Ctrmml.Tables

/-- a number as written: decimal, or hexadecimal with `$` -/
structure Num where
  v : Int
  hex : Bool := false
  deriving DecidableEq, Repr, Inhabited

inductive Dur
  | dflt (dots : Nat)
  | len (n : Num) (dots : Nat)
  | frames (n : Num) (dots : Nat)
  deriving DecidableEq, Repr, Inhabited

inductive Acc | none | sharp | flat | natural
  deriving DecidableEq, Repr, Inhabited

/-- the commands that only record an event `(type, parameter)` -/
inductive Simple
  | loopStart | loopBreak | loopEnd | segno | call | ins | vol | volDown | volUp | volFine
  | volFineUp | volFineDown | pan | transpose | transposeRel | kTranspose | detune | env | pitchEnv
  | panEnv | porta | tempoBpm | tempo | platform
  deriving DecidableEq, Repr, Inhabited

inductive Cmd
  | note (letter : Nat) (a : Acc) (d : Dur)
  | rest (d : Dur)
  | tie (d : Dur)
  | slur
  | octave (n : Num)
  | octUp
  | octDown
  | length (d : Dur)
  | quantize (n : Num)
  | early (n : Num)
  | revRest (d : Dur)
  | grace (letter : Nat) (a : Acc) (d : Dur)
  | measure (n : Num)
  | shuffle (n : Num)
  | echoSet (delay vol : Num)
  | echo (d : Dur)
  | keyScale (name : String)
  | keyMod (groups : List (Int × List Nat))
  | drum (n : Num)
  | simple (s : Simple) (n : Option Num)
  | bar
  deriving Repr, Inhabited

/-! ### canonical spelling (as bytes; `render` is the same text as a `String`) -/

/-- digits of `n` in base `base`, most significant first (`[0]` for 0); the first argument is
recursion fuel, `n + 1` always suffices -/
def natDigits (base : Nat) : Nat → Nat → List Nat
  | 0, _ => []
  | fuel + 1, n => if n < base then [n] else natDigits base fuel (n / base) ++ [n % base]

/-- ASCII character of a digit value (lower-case letters above 9) -/
def digitChar (d : Nat) : Nat := if d < 10 then 48 + d else 87 + d

/-- `n` written in base `base` -/
def renderNat (base n : Nat) : List Nat := (natDigits base (n + 1) n).map digitChar

def Num.bytes (n : Num) : List Nat :=
  (if n.hex then [36] else []) ++ (if n.v < 0 then [45] else []) ++ renderNat (if n.hex then 16 else 10) n.v.natAbs

def dotsBytes (k : Nat) : List Nat := List.replicate k 46

def Dur.bytes : Dur → List Nat
  | .dflt k => dotsBytes k
  | .len n k => n.bytes ++ dotsBytes k
  | .frames n k => 58 :: n.bytes ++ dotsBytes k

def Acc.bytes : Acc → List Nat
  | .none => [] | .sharp => [43] | .flat => [45] | .natural => [61]

def letterByte (l : Nat) : Nat := 97 + l % 8

def Simple.spellingBytes : Simple → List Nat
  | .loopStart => [91] | .loopBreak => [47] | .loopEnd => [93] | .segno => [76] | .call => [42]
  | .ins => [64] | .vol => [118] | .volDown => [40] | .volUp => [41] | .volFine => [86]
  | .volFineUp => [86, 43] | .volFineDown => [86, 45] | .pan => [112] | .transpose => [95]
  | .transposeRel => [95, 95] | .kTranspose => [107] | .detune => [75] | .env => [69] | .pitchEnv => [77]
  | .panEnv => [80] | .porta => [71] | .tempoBpm => [116] | .tempo => [84] | .platform => [37]

def optNumBytes : Option Num → List Nat
  | none => []
  | some n => n.bytes

def modGroupBytes (g : Int × List Nat) : List Nat :=
  (if g.1 > 0 then 43 else if g.1 < 0 then 45 else 61) :: g.2.map letterByte

def nameBytes (s : String) : List Nat := s.toList.map Char.toNat

def Cmd.bytes : Cmd → List Nat
  | .note l a d => letterByte l :: a.bytes ++ d.bytes
  | .rest d => 114 :: d.bytes
  | .tie d => 94 :: d.bytes
  | .slur => [38]
  | .octave n => 111 :: n.bytes
  | .octUp => [62]
  | .octDown => [60]
  | .length d => 108 :: d.bytes
  | .quantize n => 81 :: n.bytes
  | .early n => 113 :: n.bytes
  | .revRest d => 82 :: d.bytes
  | .grace l a d => 126 :: letterByte l :: a.bytes ++ d.bytes
  | .measure n => 67 :: n.bytes
  | .shuffle n => 115 :: n.bytes
  | .echoSet dl v => 92 :: 61 :: dl.bytes ++ 44 :: v.bytes
  | .echo d => 92 :: d.bytes
  | .keyScale name => 95 :: 123 :: nameBytes name ++ [125]
  | .keyMod gs => 95 :: 123 :: (gs.map modGroupBytes).flatten ++ [125]
  | .drum n => 68 :: n.bytes
  | .simple s n => s.spellingBytes ++ optNumBytes n
  | .bar => [124]

/-- the commands separated by single spaces -/
def bodyBytes : List Cmd → List Nat
  | [] => []
  | [c] => c.bytes
  | c :: cs => c.bytes ++ 32 :: bodyBytes cs

/-- the canonical line for track `A` -/
def renderBytes (cmds : List Cmd) : List Nat := 65 :: 32 :: bodyBytes cmds

def Cmd.render (c : Cmd) : String := String.ofList (c.bytes.map Char.ofNat)
def render (cmds : List Cmd) : String := String.ofList ((renderBytes cmds).map Char.ofNat)

/-! ### denotation -/

/-- semitone above C of the letters `a`..`h` -/
def letterValue : Nat → Int
  | 0 => 9 | 1 => 11 | 2 => 0 | 3 => 2 | 4 => 4 | 5 => 5 | 6 => 7 | _ => 11

/-- position on the circle of fifths of a scale name (upper case major, lower case minor) -/
def fifths : String → Option Int
  | "C" => some 0 | "G" => some 1 | "D" => some 2 | "A" => some 3 | "E" => some 4 | "B" => some 5
  | "F+" => some 6 | "C+" => some 7 | "F" => some (-1) | "B-" => some (-2) | "E-" => some (-3)
  | "A-" => some (-4) | "D-" => some (-5) | "G-" => some (-6) | "C-" => some (-7)
  | "a" => some 0 | "e" => some 1 | "b" => some 2 | "f+" => some 3 | "c+" => some 4 | "g+" => some 5
  | "d+" => some 6 | "a+" => some 7 | "d" => some (-1) | "g" => some (-2) | "c" => some (-3)
  | "f" => some (-4) | "b-" => some (-5) | "e-" => some (-6) | "a-" => some (-7)
  | _ => none

/-- letter indices (a=0 … g=6) in the order sharps appear: F C G D A E B -/
def sharpOrder : List Nat := [5, 2, 6, 3, 0, 4, 1]
/-- … and flats: B E A D G C F -/
def flatOrder : List Nat := [1, 4, 0, 3, 6, 2, 5]

/-- accidental the key with `k` fifths gives to letter `l` (`h` is never affected) -/
def scaleSig (k : Int) (l : Nat) : Int :=
  if k > 0 ∧ (sharpOrder.take k.toNat).contains l then 1
  else if k < 0 ∧ (flatOrder.take (-k).toNat).contains l then -1
  else 0

inductive Art | quant (n : Nat) | early (n : Nat)
  deriving DecidableEq, Repr

structure St where
  octave : Int := trackDefaultOctave + 1      -- the number one would write after `o`
  measure : Nat := trackDefaultMeasureLen
  deflen : Nat := trackDefaultMeasureLen / 4
  key : List Int := List.replicate 8 0
  drum : Nat := 0
  shuffle : Int := 0
  art : Art := .quant 8
  echoDelay : Nat := 0
  echoVol : Int := 0
  memory : List Int := []         -- pitches of the notes written so far, newest first; 0 = rest
  /-- length of the event a reverse rest directly behind the last command could shorten:
  `some (d, isNote)` right after a note or rest command, `none` otherwise -/
  last : Option (Nat × Bool) := none
  /-- running length of the current tied group -/
  group : Nat := 0
  deriving Repr

/-- a sounding note: pitch, written duration (shuffle included), prescribed key-on time, and
whether no later command edits it (so that its event must show exactly `on`, `dur − on`) -/
structure Item where
  pitch : Int
  dur : Nat
  on : Nat
  plain : Bool
  deriving DecidableEq, Repr

structure Expected where
  items : List Item := []
  /-- every event that is not a NOTE, REST or TIE, in order: (type, parameter) -/
  controls : List (Nat × Int) := []
  total : Int := 0
  exact : Bool := true
  deriving Repr

def dotted (d : Nat) : Nat → Nat → Nat
  | 0, _ => d
  | k + 1, half => dotted (d + half) k (half / 2)

def durTicks (σ : St) : Dur → Option Nat
  | .dflt k => some (dotted σ.deflen k (σ.deflen / 2))
  | .len n k => if n.v ≥ 1 then some (dotted (σ.measure / n.v.toNat) k (σ.measure / n.v.toNat / 2)) else none
  | .frames n k => if n.v ≥ 0 then some (dotted n.v.toNat k (n.v.toNat / 2)) else none

def onRule (σ : St) (d : Nat) : Nat :=
  match σ.art with
  | .quant n => d * n / 8
  | .early q => if q ≥ d then 1 else d - q

def accSig (σ : St) (l : Nat) : Acc → Int
  | .none => if σ.drum = 0 then σ.key.getD (l % 8) 0 else 0
  | .sharp => 1
  | .flat => -1
  | .natural => 0

def pitchOf (σ : St) (l : Nat) (a : Acc) : Int :=
  if σ.drum = 0 then letterValue (l % 8) + accSig σ l a + 12 * (σ.octave - 1)
  else (l % 8 : Nat) + accSig σ l a + σ.drum

def inI16 (v : Int) : Bool := -32768 ≤ v && v ≤ 32767
def inU16 (v : Int) : Bool := 0 ≤ v && v ≤ 65535

/-- the last note is edited by this command: it is no longer `plain` -/
def touch (items : List Item) : List Item :=
  match items.reverse with
  | [] => []
  | i :: rest => (({ i with plain := false }) :: rest).reverse

/-- written duration of a timed command after shuffle; `none` = outside the literal domain -/
def shuffled (σ : St) (d : Option Nat) : Option Nat :=
  match d with
  | none => none
  | some d => if d ≥ 1 ∧ (d : Int) + σ.shuffle ≥ 1 ∧ (d : Int) + σ.shuffle ≤ 65535 then some ((d : Int) + σ.shuffle).toNat else none

def flip (σ : St) : St := { σ with shuffle := -σ.shuffle }

def setKey (key : List Int) (l : Nat) (v : Int) : List Int := key.set (l % 8) v

def step (σ : St) (e : Expected) : Cmd → St × Expected
  | .note l a d =>
    match shuffled σ (durTicks σ d) with
    | none => (σ, { e with exact := false })
    | some dd =>
      let p := pitchOf σ l a
      let it : Item := { pitch := p, dur := dd, on := onRule σ dd, plain := true }
      ({ flip σ with memory := p :: σ.memory, last := some (dd, true), group := dd },
       { e with items := e.items ++ [it], total := e.total + dd, exact := e.exact && inI16 p && l < 8 && p != 0 })
  | .rest d =>
    match shuffled σ (durTicks σ d) with
    | none => (σ, { e with exact := false })
    | some dd =>
      ({ flip σ with memory := 0 :: σ.memory, last := some (dd, false), group := σ.group },
       { e with total := e.total + dd })
  | .tie d =>
    match shuffled σ (durTicks σ d) with
    | none => (σ, { e with exact := false })
    | some dd =>
      ({ flip σ with last := none, group := σ.group + dd },
       { e with items := touch e.items, total := e.total + dd, exact := e.exact && σ.group + dd ≤ 65535 })
  | .slur => ({ σ with last := none }, { e with items := touch e.items, controls := e.controls ++ [(ev_SLUR, 0)] })
  | .octave n => ({ σ with octave := n.v }, { e with exact := e.exact && -100 ≤ n.v && n.v ≤ 100 })
  | .octUp => ({ σ with octave := σ.octave + 1 }, e)
  | .octDown => ({ σ with octave := σ.octave - 1 }, e)
  | .length d =>
    match durTicks σ d with
    | some dd => ({ σ with deflen := dd }, { e with exact := e.exact && 1 ≤ dd && dd ≤ 65535 })
    | none => (σ, { e with exact := false })
  | .quantize n =>
    if 1 ≤ n.v ∧ n.v ≤ 8 then ({ σ with art := .quant n.v.toNat }, e) else (σ, { e with exact := false })
  | .early n =>
    if 1 ≤ n.v ∧ n.v ≤ 65535 then ({ σ with art := .early n.v.toNat }, e)
    else if n.v = 0 then ({ σ with art := .quant 8 }, e)
    else (σ, { e with exact := false })
  | .revRest d =>
    match durTicks σ d, σ.last with
    | some dd, some (len, isNote) =>
      if dd ≥ 1 ∧ dd ≤ 65535 ∧ (dd < len ∨ (!isNote ∧ dd ≤ len)) then
        ({ flip σ with last := none }, { e with items := touch e.items, total := e.total - dd })
      else (σ, { e with exact := false })
    | _, _ => (σ, { e with exact := false })
  | .grace l a d =>
    match durTicks σ d, σ.last with
    | some dd, some (len, isNote) =>
      -- the borrow is the written length; the grace note itself is shuffled like any note
      let σr := flip σ
      match shuffled σr (some dd) with
      | none => (σ, { e with exact := false })
      | some dn =>
        if dd ≥ 1 ∧ dd ≤ 65535 ∧ (dd < len ∨ (!isNote ∧ dd ≤ len)) then
          let p := pitchOf σ l a
          let it : Item := { pitch := p, dur := dn, on := onRule σ dn, plain := true }
          ({ flip σr with memory := p :: σ.memory, last := some (dn, true), group := dn },
           { e with items := touch e.items ++ [it], total := e.total - dd + dn,
                    exact := e.exact && inI16 p && l < 8 && p != 0 })
        else (σ, { e with exact := false })
    | _, _ => (σ, { e with exact := false })
  | .measure n =>
    if 1 ≤ n.v ∧ n.v ≤ 65535 then ({ σ with measure := n.v.toNat }, e) else (σ, { e with exact := false })
  | .shuffle n =>
    if inI16 n.v ∧ n.v ≠ -32768 then ({ σ with shuffle := n.v }, e) else (σ, { e with exact := false })
  | .echoSet dl v =>
    if -10 ≤ dl.v ∧ dl.v ≤ 10 ∧ inI16 v.v ∧ v.v ≠ -32768 then
      ({ σ with echoDelay := dl.v.natAbs, echoVol := v.v, memory := if dl.v < 0 then σ.memory else [] }, e)
    else (σ, { e with exact := false })
  | .echo d =>
    match shuffled σ (durTicks σ d) with
    | none => (σ, { e with exact := false })
    | some dd =>
      let pre := if σ.echoVol ≠ 0 then [(ev_VOL_REL, -σ.echoVol)] else []
      let post := if σ.echoVol ≠ 0 then [(ev_VOL_REL, σ.echoVol)] else []
      let p : Int := if σ.echoDelay = 0 then 0 else σ.memory.getD (σ.echoDelay - 1) 0
      if p = 0 then
        ({ flip σ with last := some (dd, false) },
         { e with controls := e.controls ++ pre ++ post, total := e.total + dd })
      else
        let it : Item := { pitch := p, dur := dd, on := onRule σ dd, plain := true }
        ({ flip σ with last := if σ.echoVol ≠ 0 then none else some (dd, true), group := dd },
         { e with items := e.items ++ [it], controls := e.controls ++ pre ++ post, total := e.total + dd })
  | .keyScale name =>
    match fifths name with
    | some k => ({ σ with key := (List.range 8).map (scaleSig k) }, e)
    | none => (σ, { e with exact := false })
  | .keyMod gs =>
    ({ σ with key := gs.foldl (fun key g => g.2.foldl (fun key l => setKey key l (if g.1 > 0 then 1 else if g.1 < 0 then -1 else 0)) key) σ.key },
     { e with exact := e.exact && !gs.isEmpty && gs.all (fun g => g.2.all (· < 8)) })
  | .drum n =>
    if inU16 n.v ∧ n.v ≤ 32767 then
      ({ σ with drum := n.v.toNat, last := none }, { e with controls := e.controls ++ [(ev_DRUM_MODE, n.v)] })
    else (σ, { e with exact := false })
  | .simple s n =>
    let σ' := { σ with last := none }
    let need (ty : Nat) : St × Expected :=
      match n with
      | some n => (σ', { e with controls := e.controls ++ [(ty, n.v)], exact := e.exact && inI16 n.v })
      | none => (σ, { e with exact := false })
    let opt (ty : Nat) (dflt sign : Int) : St × Expected :=
      match n with
      | some n => (σ', { e with controls := e.controls ++ [(ty, sign * n.v)], exact := e.exact && inI16 n.v && n.v != -32768 })
      | none => (σ', { e with controls := e.controls ++ [(ty, sign * dflt)] })
    let bare (ty : Nat) : St × Expected :=
      match n with
      | none => (σ', { e with controls := e.controls ++ [(ty, 0)] })
      | some _ => (σ, { e with exact := false })
    match s with
    | .loopStart => bare ev_LOOP_START
    | .loopBreak => bare ev_LOOP_BREAK
    | .loopEnd => opt ev_LOOP_END 2 1
    | .segno => bare ev_SEGNO
    | .call => need ev_JUMP
    | .ins => need ev_INS
    | .vol => need ev_VOL
    | .volDown => opt ev_VOL_REL 1 (-1)
    | .volUp => opt ev_VOL_REL 1 1
    | .volFine => match n with
      | some n => if n.v ≥ 0 then need ev_VOL_FINE else (σ, { e with exact := false })
      | none => need ev_VOL_FINE
    | .volFineUp => match n with
      | some n => if n.v ≥ 0 then need ev_VOL_FINE_REL else (σ, { e with exact := false })
      | none => need ev_VOL_FINE_REL
    | .volFineDown => match n with
      | some n => if n.v ≥ 0 ∧ !n.hex then
          (σ', { e with controls := e.controls ++ [(ev_VOL_FINE_REL, -n.v)], exact := e.exact && inI16 n.v })
        else (σ, { e with exact := false })
      | none => (σ, { e with exact := false })
    | .pan => need ev_PAN
    | .transpose => need ev_TRANSPOSE
    | .transposeRel => need ev_TRANSPOSE_REL
    | .kTranspose => need ev_TRANSPOSE
    | .detune => need ev_DETUNE
    | .env => need ev_VOL_ENVELOPE
    | .pitchEnv => need ev_PITCH_ENVELOPE
    | .panEnv => need ev_PAN_ENVELOPE
    | .porta => need ev_PORTAMENTO
    | .tempoBpm => need ev_TEMPO_BPM
    | .tempo => need ev_TEMPO
    | .platform => need ev_PLATFORM
  | .bar => (σ, e)

def run : St → Expected → List Cmd → St × Expected
  | σ, e, [] => (σ, e)
  | σ, e, c :: cs => let (σ', e') := step σ e c; run σ' e' cs

/-- the denotation of a command list on a fresh track -/
def meaning (cmds : List Cmd) : Expected := (run {} {} cmds).2

end Ctrmml.MmlMeaning
