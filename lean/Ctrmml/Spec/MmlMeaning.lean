/-
  What MML text means (mml_ref.md), stated independently of the model: a command AST, its
  canonical spelling `render`, and its denotation `meaning` in unbounded integers:

  * pitch of every sounding note: letter value (`c d e f g a b` = 0 2 4 5 7 9 11, `h` = `b`)
    + accidental, or the key signature when no accidental is written, + 12·(octave number − 1);
    in drum mode: letter index (`a`..`h` = 0..7) + accidental + drum base;
  * written duration: `measure / n`, `:frames`, or the default length, plus the dot series
    `d/2 + d/4 + …`; shuffle adds `+s, −s, +s, …` to successive notes, ties, rests and echoes;
  * key-on time of every sounding note, taken over the WHOLE extended note (the note with its ties
    `^`, slur `&`, reverse rests `R` and the borrow of a grace note `~`): `total·Q/8` (quantise)
    or `total − q`, at least 1 (early release), legato = the whole duration; as a sum over the
    NOTE/TIE events the note is recorded in, whatever the split.  See `Item` for the few places
    where mml_ref.md leaves a choice (an interval is admitted there) — no note is exempt;
  * total duration: the sum of the written durations minus the reverse rests (a grace note
    borrows its length from the note before it);
  * the echo macro replays the note written `delay` notes/rests ago between `VOL_REL −v` and
    `VOL_REL +v`;
  * key signatures by the circle of fifths (sharps F C G D A E B, flats B E A D G C F).

  `exact = false` marks texts outside the domain in which this arithmetic is meant literally
  (16-bit overflow, zero lengths, shuffle larger than a duration, reverse rests longer than the
  last written duration or across a loop command, parameters outside their documented range):
  the judge skips them and only the model/implementation correspondence speaks there.

  Nothing here refers to Model/*.  Event type numbers come from the regenerated tables.
-/
import Ctrmml.Generated.Tables
namespace Ctrmml.MmlMeaning
open Ctrmml.Tables

/-- a number as written: decimal, or hexadecimal with `$` -/
structure Num where
  v : Int
  hex : Bool := false
  deriving DecidableEq, Repr, Inhabited

inductive Dur
  | dflt (dots : Nat)
  | len (n : Num) (dots : Nat)
  | frames (n : Num) (dots : Nat)
  deriving DecidableEq, Repr, Inhabited

inductive Acc | none | sharp | flat | natural
  deriving DecidableEq, Repr, Inhabited

/-- the commands that only record an event `(type, parameter)` -/
inductive Simple
  | loopStart | loopBreak | loopEnd | segno | call | ins | vol | volDown | volUp | volFine
  | volFineUp | volFineDown | pan | transpose | transposeRel | kTranspose | detune | env | pitchEnv
  | panEnv | porta | tempoBpm | tempo | platform
  deriving DecidableEq, Repr, Inhabited

inductive Cmd
  | note (letter : Nat) (a : Acc) (d : Dur)
  | rest (d : Dur)
  | tie (d : Dur)
  | slur
  | octave (n : Num)
  | octUp
  | octDown
  | length (d : Dur)
  | quantize (n : Num)
  | early (n : Num)
  | revRest (d : Dur)
  | grace (letter : Nat) (a : Acc) (d : Dur)
  | measure (n : Num)
  | shuffle (n : Num)
  | echoSet (delay vol : Num)
  | echo (d : Dur)
  | keyScale (name : String)
  | keyMod (groups : List (Int × List Nat))
  | drum (n : Num)
  | simple (s : Simple) (n : Option Num)
  | bar
  deriving Repr, Inhabited

/-! ### canonical spelling (as bytes; `render` is the same text as a `String`) -/

/-- digits of `n` in base `base`, most significant first (`[0]` for 0); the first argument is
recursion fuel, `n + 1` always suffices -/
def natDigits (base : Nat) : Nat → Nat → List Nat
  | 0, _ => []
  | fuel + 1, n => if n < base then [n] else natDigits base fuel (n / base) ++ [n % base]

/-- ASCII character of a digit value (lower-case letters above 9) -/
def digitChar (d : Nat) : Nat := if d < 10 then 48 + d else 87 + d

/-- `n` written in base `base` -/
def renderNat (base n : Nat) : List Nat := (natDigits base (n + 1) n).map digitChar

def Num.bytes (n : Num) : List Nat :=
  (if n.hex then [36] else []) ++ (if n.v < 0 then [45] else []) ++ renderNat (if n.hex then 16 else 10) n.v.natAbs

def dotsBytes (k : Nat) : List Nat := List.replicate k 46

def Dur.bytes : Dur → List Nat
  | .dflt k => dotsBytes k
  | .len n k => n.bytes ++ dotsBytes k
  | .frames n k => 58 :: n.bytes ++ dotsBytes k

def Acc.bytes : Acc → List Nat
  | .none => [] | .sharp => [43] | .flat => [45] | .natural => [61]

def letterByte (l : Nat) : Nat := 97 + l % 8

def Simple.spellingBytes : Simple → List Nat
  | .loopStart => [91] | .loopBreak => [47] | .loopEnd => [93] | .segno => [76] | .call => [42]
  | .ins => [64] | .vol => [118] | .volDown => [40] | .volUp => [41] | .volFine => [86]
  | .volFineUp => [86, 43] | .volFineDown => [86, 45] | .pan => [112] | .transpose => [95]
  | .transposeRel => [95, 95] | .kTranspose => [107] | .detune => [75] | .env => [69] | .pitchEnv => [77]
  | .panEnv => [80] | .porta => [71] | .tempoBpm => [116] | .tempo => [84] | .platform => [37]

def optNumBytes : Option Num → List Nat
  | none => []
  | some n => n.bytes

def modGroupBytes (g : Int × List Nat) : List Nat :=
  (if g.1 > 0 then 43 else if g.1 < 0 then 45 else 61) :: g.2.map letterByte

def nameBytes (s : String) : List Nat := s.toList.map Char.toNat

def Cmd.bytes : Cmd → List Nat
  | .note l a d => letterByte l :: a.bytes ++ d.bytes
  | .rest d => 114 :: d.bytes
  | .tie d => 94 :: d.bytes
  | .slur => [38]
  | .octave n => 111 :: n.bytes
  | .octUp => [62]
  | .octDown => [60]
  | .length d => 108 :: d.bytes
  | .quantize n => 81 :: n.bytes
  | .early n => 113 :: n.bytes
  | .revRest d => 82 :: d.bytes
  | .grace l a d => 126 :: letterByte l :: a.bytes ++ d.bytes
  | .measure n => 67 :: n.bytes
  | .shuffle n => 115 :: n.bytes
  | .echoSet dl v => 92 :: 61 :: dl.bytes ++ 44 :: v.bytes
  | .echo d => 92 :: d.bytes
  | .keyScale name => 95 :: 123 :: nameBytes name ++ [125]
  | .keyMod gs => 95 :: 123 :: (gs.map modGroupBytes).flatten ++ [125]
  | .drum n => 68 :: n.bytes
  | .simple s n => s.spellingBytes ++ optNumBytes n
  | .bar => [124]

/-- the commands separated by single spaces -/
def bodyBytes : List Cmd → List Nat
  | [] => []
  | [c] => c.bytes
  | c :: cs => c.bytes ++ 32 :: bodyBytes cs

/-- the canonical line for track `A` -/
def renderBytes (cmds : List Cmd) : List Nat := 65 :: 32 :: bodyBytes cmds

def Cmd.render (c : Cmd) : String := String.ofList (c.bytes.map Char.ofNat)
def render (cmds : List Cmd) : String := String.ofList ((renderBytes cmds).map Char.ofNat)

/-! ### denotation -/

/-- semitone above C of the letters `a`..`h` -/
def letterValue : Nat → Int
  | 0 => 9 | 1 => 11 | 2 => 0 | 3 => 2 | 4 => 4 | 5 => 5 | 6 => 7 | _ => 11

/-- position on the circle of fifths of a scale name (upper case major, lower case minor) -/
def fifths : String → Option Int
  | "C" => some 0 | "G" => some 1 | "D" => some 2 | "A" => some 3 | "E" => some 4 | "B" => some 5
  | "F+" => some 6 | "C+" => some 7 | "F" => some (-1) | "B-" => some (-2) | "E-" => some (-3)
  | "A-" => some (-4) | "D-" => some (-5) | "G-" => some (-6) | "C-" => some (-7)
  | "a" => some 0 | "e" => some 1 | "b" => some 2 | "f+" => some 3 | "c+" => some 4 | "g+" => some 5
  | "d+" => some 6 | "a+" => some 7 | "d" => some (-1) | "g" => some (-2) | "c" => some (-3)
  | "f" => some (-4) | "b-" => some (-5) | "e-" => some (-6) | "a-" => some (-7)
  | _ => none

/-- letter indices (a=0 … g=6) in the order sharps appear: F C G D A E B -/
def sharpOrder : List Nat := [5, 2, 6, 3, 0, 4, 1]
/-- … and flats: B E A D G C F -/
def flatOrder : List Nat := [1, 4, 0, 3, 6, 2, 5]

/-- accidental the key with `k` fifths gives to letter `l` (`h` is never affected) -/
def scaleSig (k : Int) (l : Nat) : Int :=
  if k > 0 ∧ (sharpOrder.take k.toNat).contains l then 1
  else if k < 0 ∧ (flatOrder.take (-k).toNat).contains l then -1
  else 0

inductive Art | quant (n : Nat) | early (n : Nat)
  deriving DecidableEq, Repr

/-- what a following `^`, `&`, `R` or `~` acts on -/
inductive Cur
  /-- nothing timed has been written yet -/
  | none
  /-- the newest group of `Expected.timed`: a note, possibly already tied / slurred / shortened -/
  | group
  /-- a rest (or an echo that replayed a rest) -/
  | rest
  /-- a tie that had no note to extend (`Timed.free`) -/
  | free
  deriving DecidableEq, Repr

structure St where
  octave : Int := trackDefaultOctave + 1      -- the number one would write after `o`
  measure : Nat := trackDefaultMeasureLen
  deflen : Nat := trackDefaultMeasureLen / 4
  key : List Int := List.replicate 8 0
  drum : Nat := 0
  shuffle : Int := 0
  art : Art := .quant 8
  echoDelay : Nat := 0
  echoVol : Int := 0
  memory : List Int := []         -- pitches of the notes written so far, newest first; 0 = rest
  cur : Cur := .none
  /-- duration written by the last timed command (note, tie, rest, echo, grace), less what reverse
  rests have already taken from it: how far a reverse rest is certain to reach -/
  reach : Nat := 0
  /-- a command that is recorded as an event of its own (`v @ p [ ] …`, drum mode, the slur mark, the
  volume restore of an echo) has been written since the last timed command -/
  sep : Bool := false
  /-- … and one of them was a loop / loop point / call command (`[ / ] L *`) -/
  loopSep : Bool := false
  deriving Repr

/-- A sounding note TOGETHER WITH everything written behind it that lengthens or shortens it —
ties `^` (directly behind the note or behind other non-timed commands), the slur `&`, reverse
rests `R` and the borrow of a following grace note `~`: the "extended note".  The events the
builder records for it are one NOTE followed by any number of TIE events and of REST events
(a tie may be recorded as silence); other events may lie in between.  Prescribed are

  * `dur`: Σ (on + off) over these events — the written durations added up, reverse rests and
    borrows subtracted;
  * `onLo ≤ Σ on ≤ onHi` over the NOTE and TIE events: the total key-on time.  mml_ref.md: "`^`
    Tie. Extends duration of previous note", "`Q<1..8>` Quantize … Note length is param/8",
    "`q` … early release cannot exceed note length, in that case it will be note length − 1": the
    rule is applied ONCE to the whole extended note (`total·Q/8`, or `total − q` with the floor
    of 1), not to the pieces it happens to be recorded in.

  Where mml_ref.md does not decide, the interval is wider than a point and says only what is
  documented (the code's choice lies inside in each case):
  * WHICH quantise / early-release value applies when `Q`/`q` is changed between the note and
    its last tie is not said.  The code re-articulates the whole note at every tie with the
    value in force at that tie; the note command itself used the value in force then.  Both
    readings are admitted: `onLo/onHi` = min/max of the rule under the setting at the note and
    under the setting at the last tie (a point when they agree).
  * `&` "connects two notes (legato)": the slurred note is keyed on for its whole duration
    (`onLo = onHi = dur`).  Whether a slur reaches its note across `[ / ] L *` is not said (the
    code refuses across `]` and `L` with a warning): then `onHi = dur`, `onLo` stays.  A tie
    written behind a slur (`c & ^`) is not described either: the rule on the new total up to
    the whole new total is admitted.
  * `R` "subtracts the value from the previous note or rest", `~` "subtracts from the length of
    the previous note like the `R` command": the duration shrinks by the amount, but nothing is
    said about the key-on time of the shortened note.  Admitted: at least what a note WRITTEN
    with the shortened length would get, at most what the unshortened note had, never more than
    the new duration: `[min(onLo, rule(dur − R)), min(onHi, dur − R)]` (the code cuts the silent
    part first, which is the upper end).
  * a tie that follows a REST (`c r ^`) — "extends the previous note" across a rest — has no
    documented meaning: its duration is required (`Timed.free`: TIE or REST events of that
    length), the note before the rest keeps its duration and is only required to be keyed on
    for at most `dur` ticks (and, like every NOTE event, for at least one: the judge's `sanity`).

`plain` = not edited after the note command (wording of failures only); `afterSep` = the group
has a tie or slur written AFTER one of its ties that stood behind another event-recording command
(`c v5 ^ ^`, `c v5 ^ &`): the builder keeps no record of an extended note as a whole, see the
known finding `sep_tie` in known_findings.txt. -/
structure Item where
  pitch : Int
  dur : Nat
  onLo : Nat
  onHi : Nat
  /-- articulation in force at the note command -/
  art0 : Art
  plain : Bool := true
  slurred : Bool := false
  hadSep : Bool := false
  afterSep : Bool := false
  deriving DecidableEq, Repr

/-- what the timed events (NOTE, TIE, REST) of a track must add up to, in order -/
inductive Timed
  /-- an extended note: one NOTE, then TIE / REST events up to `dur` -/
  | group (it : Item)
  /-- REST events of this total length (none when a reverse rest took all of it) -/
  | rest (dur : Nat)
  /-- a tie with no note to extend (first thing on a track, or behind a rest): TIE or REST events
  of this total length; the reference does not say what it means -/
  | free (dur : Nat)
  deriving DecidableEq, Repr

structure Expected where
  timed : List Timed := []
  /-- every event that is not a NOTE, REST or TIE, in order: (type, parameter) -/
  controls : List (Nat × Int) := []
  total : Int := 0
  exact : Bool := true
  deriving Repr


def dotted (d : Nat) : Nat → Nat → Nat
  | 0, _ => d
  | k + 1, half => dotted (d + half) k (half / 2)

def durTicks (σ : St) : Dur → Option Nat
  | .dflt k => some (dotted σ.deflen k (σ.deflen / 2))
  | .len n k => if n.v ≥ 1 then some (dotted (σ.measure / n.v.toNat) k (σ.measure / n.v.toNat / 2)) else none
  | .frames n k => if n.v ≥ 0 then some (dotted n.v.toNat k (n.v.toNat / 2)) else none

def ruleOf (a : Art) (d : Nat) : Nat :=
  match a with
  | .quant n => d * n / 8
  | .early q => if q ≥ d then 1 else d - q

def onRule (σ : St) (d : Nat) : Nat := ruleOf σ.art d

def accSig (σ : St) (l : Nat) : Acc → Int
  | .none => if σ.drum = 0 then σ.key.getD (l % 8) 0 else 0
  | .sharp => 1
  | .flat => -1
  | .natural => 0

def pitchOf (σ : St) (l : Nat) (a : Acc) : Int :=
  if σ.drum = 0 then letterValue (l % 8) + accSig σ l a + 12 * (σ.octave - 1)
  else (l % 8 : Nat) + accSig σ l a + σ.drum

def inI16 (v : Int) : Bool := -32768 ≤ v && v ≤ 32767
def inU16 (v : Int) : Bool := 0 ≤ v && v ≤ 65535

/-- apply `f` to the newest element -/
def modLast (f : Timed → Timed) (l : List Timed) : List Timed :=
  match l.reverse with
  | [] => []
  | x :: rest => (f x :: rest).reverse

def modNewestGroup (f : Item → Item) : List Timed → List Timed
  | [] => []
  | .group it :: rest => .group (f it) :: rest
  | x :: rest => x :: modNewestGroup f rest

/-- apply `f` to the newest extended note, whatever has been written since -/
def modLastGroup (f : Item → Item) (l : List Timed) : List Timed := (modNewestGroup f l.reverse).reverse

def Timed.dur : Timed → Nat
  | .group it => it.dur
  | .rest d => d
  | .free d => d

def lastDur (l : List Timed) : Nat := (l.getLast?.map Timed.dur).getD 0

def lastGroupDur (l : List Timed) : Nat :=
  ((l.reverse.findSome? fun | .group it => some it.dur | _ => none)).getD 0

/-- a tie of `dd` ticks extends the note: the rule applies to the new total (see `Item`) -/
def Item.tie (σ : St) (it : Item) (dd : Nat) : Item :=
  let total := it.dur + dd
  let a := ruleOf it.art0 total
  let b := ruleOf σ.art total
  { it with dur := total, plain := false, slurred := false,
            onLo := min a b, onHi := if it.slurred then total else max a b,
            afterSep := it.afterSep || it.hadSep, hadSep := it.hadSep || σ.sep }

/-- a slur behind the note: legato -/
def Item.slur (σ : St) (it : Item) : Item :=
  if σ.loopSep then { it with plain := false, onHi := it.dur, afterSep := it.afterSep || it.hadSep }
  else { it with plain := false, slurred := true, onLo := it.dur, onHi := it.dur, afterSep := it.afterSep || it.hadSep }

/-- a reverse rest / the borrow of a grace note takes `dd` ticks from the note -/
def Item.shorten (σ : St) (it : Item) (dd : Nat) : Item :=
  let total := it.dur - dd
  { it with dur := total, plain := false,
            onLo := if it.slurred then total else min (min it.onLo total) (ruleOf σ.art total),
            onHi := min it.onHi total }

/-- a tie behind a rest may have reached this note: only key-on ≤ duration is left (that a NOTE
event is keyed on for at least one tick is checked on every NOTE event by the judge: `sanity`, D6a) -/
def Item.loosen (it : Item) : Item :=
  { it with plain := false, slurred := false, onLo := 0, onHi := it.dur }

def Timed.shorten (σ : St) (dd : Nat) : Timed → Timed
  | .group it => .group (it.shorten σ dd)
  | .rest d => .rest (d - dd)
  | .free d => .free (d - dd)

def Timed.onGroup (f : Item → Item) : Timed → Timed
  | .group it => .group (f it)
  | x => x

/-- may a reverse rest of `dd` ticks be written here?  mml_ref.md: "subtracts the value from the
previous note or rest … if unable (such as if the previous note was at the end of a loop), a
warning is issued" — certain is only: less than what the last timed command wrote (all of it,
for a rest), and not across a loop command -/
def canReverse (σ : St) (dd : Nat) : Bool :=
  dd ≥ 1 && dd ≤ 65535 && !σ.loopSep &&
  match σ.cur with
  | .group => dd < σ.reach
  | .free => dd < σ.reach
  | .rest => dd ≤ σ.reach
  | .none => false

/-- state after a timed command that wrote `dd` ticks onto `cur` -/
def timedSt (σ : St) (cur : Cur) (dd : Nat) (sep : Bool := false) : St :=
  { σ with shuffle := -σ.shuffle, cur := cur, reach := dd, sep := sep, loopSep := false }

/-- written duration of a timed command after shuffle; `none` = outside the literal domain -/
def shuffled (σ : St) (d : Option Nat) : Option Nat :=
  match d with
  | none => none
  | some d => if d ≥ 1 ∧ (d : Int) + σ.shuffle ≥ 1 ∧ (d : Int) + σ.shuffle ≤ 65535 then some ((d : Int) + σ.shuffle).toNat else none

def flip (σ : St) : St := { σ with shuffle := -σ.shuffle }

def setKey (key : List Int) (l : Nat) (v : Int) : List Int := key.set (l % 8) v

def isLoopCmd : Simple → Bool
  | .loopStart | .loopBreak | .loopEnd | .segno | .call => true
  | _ => false

def step (σ : St) (e : Expected) : Cmd → St × Expected
  | .note l a d =>
    match shuffled σ (durTicks σ d) with
    | none => (σ, { e with exact := false })
    | some dd =>
      let p := pitchOf σ l a
      let it : Item := { pitch := p, dur := dd, onLo := onRule σ dd, onHi := onRule σ dd, art0 := σ.art }
      ({ timedSt σ .group dd with memory := p :: σ.memory },
       { e with timed := e.timed ++ [.group it], total := e.total + dd, exact := e.exact && inI16 p && l < 8 && p != 0 })
  | .rest d =>
    match shuffled σ (durTicks σ d) with
    | none => (σ, { e with exact := false })
    | some dd =>
      ({ timedSt σ .rest dd with memory := 0 :: σ.memory },
       { e with timed := e.timed ++ [.rest dd], total := e.total + dd })
  | .tie d =>
    match shuffled σ (durTicks σ d) with
    | none => (σ, { e with exact := false })
    | some dd =>
      match σ.cur with
      | .group =>
        (timedSt σ .group dd,
         { e with timed := modLast (Timed.onGroup fun it => it.tie σ dd) e.timed, total := e.total + dd,
                  exact := e.exact && lastDur e.timed + dd ≤ 65535 })
      | .free =>
        (timedSt σ .free dd,
         { e with timed := modLast (fun | .free t => .free (t + dd) | x => x) e.timed, total := e.total + dd,
                  exact := e.exact && lastDur e.timed + dd ≤ 65535 })
      | _ =>
        -- behind a rest, or nothing: no documented meaning (see `Item`)
        (timedSt σ .free dd,
         { e with timed := modLastGroup Item.loosen e.timed ++ [.free dd], total := e.total + dd,
                  exact := e.exact && lastGroupDur e.timed + dd ≤ 65535 })
  | .slur =>
    ({ σ with sep := true },
     { e with timed := if σ.cur = .group then modLast (Timed.onGroup fun it => it.slur σ) e.timed else e.timed,
              controls := e.controls ++ [(ev_SLUR, 0)] })
  | .octave n => ({ σ with octave := n.v }, { e with exact := e.exact && -100 ≤ n.v && n.v ≤ 100 })
  | .octUp => ({ σ with octave := σ.octave + 1 }, e)
  | .octDown => ({ σ with octave := σ.octave - 1 }, e)
  | .length d =>
    match durTicks σ d with
    | some dd => ({ σ with deflen := dd }, { e with exact := e.exact && 1 ≤ dd && dd ≤ 65535 })
    | none => (σ, { e with exact := false })
  | .quantize n =>
    if 1 ≤ n.v ∧ n.v ≤ 8 then ({ σ with art := .quant n.v.toNat }, e) else (σ, { e with exact := false })
  | .early n =>
    if 1 ≤ n.v ∧ n.v ≤ 65535 then ({ σ with art := .early n.v.toNat }, e)
    else if n.v = 0 then ({ σ with art := .quant 8 }, e)
    else (σ, { e with exact := false })
  | .revRest d =>
    match durTicks σ d with
    | some dd =>
      if canReverse σ dd then
        ({ flip σ with reach := σ.reach - dd },
         { e with timed := modLast (Timed.shorten σ dd) e.timed, total := e.total - dd })
      else (σ, { e with exact := false })
    | none => (σ, { e with exact := false })
  | .grace l a d =>
    match durTicks σ d with
    | some dd =>
      -- the borrow is the written length; the grace note itself is shuffled like any note
      let σr := flip σ
      match shuffled σr (some dd) with
      | none => (σ, { e with exact := false })
      | some dn =>
        if canReverse σ dd then
          let p := pitchOf σ l a
          let it : Item := { pitch := p, dur := dn, onLo := onRule σ dn, onHi := onRule σ dn, art0 := σ.art }
          ({ timedSt σr .group dn with memory := p :: σ.memory },
           { e with timed := modLast (Timed.shorten σ dd) e.timed ++ [.group it], total := e.total - dd + dn,
                    exact := e.exact && inI16 p && l < 8 && p != 0 })
        else (σ, { e with exact := false })
    | none => (σ, { e with exact := false })
  | .measure n =>
    if 1 ≤ n.v ∧ n.v ≤ 65535 then ({ σ with measure := n.v.toNat }, e) else (σ, { e with exact := false })
  | .shuffle n =>
    if inI16 n.v ∧ n.v ≠ -32768 then ({ σ with shuffle := n.v }, e) else (σ, { e with exact := false })
  | .echoSet dl v =>
    if -10 ≤ dl.v ∧ dl.v ≤ 10 ∧ inI16 v.v ∧ v.v ≠ -32768 then
      ({ σ with echoDelay := dl.v.natAbs, echoVol := v.v, memory := if dl.v < 0 then σ.memory else [] }, e)
    else (σ, { e with exact := false })
  | .echo d =>
    match shuffled σ (durTicks σ d) with
    | none => (σ, { e with exact := false })
    | some dd =>
      let pre := if σ.echoVol ≠ 0 then [(ev_VOL_REL, -σ.echoVol)] else []
      let post := if σ.echoVol ≠ 0 then [(ev_VOL_REL, σ.echoVol)] else []
      let p : Int := if σ.echoDelay = 0 then 0 else σ.memory.getD (σ.echoDelay - 1) 0
      -- the volume restore is recorded behind the replayed note / rest
      let sep : Bool := σ.echoVol ≠ 0
      if p = 0 then
        (timedSt σ .rest dd sep,
         { e with timed := e.timed ++ [.rest dd], controls := e.controls ++ pre ++ post, total := e.total + dd })
      else
        let it : Item := { pitch := p, dur := dd, onLo := onRule σ dd, onHi := onRule σ dd, art0 := σ.art }
        (timedSt σ .group dd sep,
         { e with timed := e.timed ++ [.group it], controls := e.controls ++ pre ++ post, total := e.total + dd })
  | .keyScale name =>
    match fifths name with
    | some k => ({ σ with key := (List.range 8).map (scaleSig k) }, e)
    | none => (σ, { e with exact := false })
  | .keyMod gs =>
    ({ σ with key := gs.foldl (fun key g => g.2.foldl (fun key l => setKey key l (if g.1 > 0 then 1 else if g.1 < 0 then -1 else 0)) key) σ.key },
     { e with exact := e.exact && !gs.isEmpty && gs.all (fun g => g.2.all (· < 8)) })
  | .drum n =>
    if inU16 n.v ∧ n.v ≤ 32767 then
      ({ σ with drum := n.v.toNat, sep := true }, { e with controls := e.controls ++ [(ev_DRUM_MODE, n.v)] })
    else (σ, { e with exact := false })
  | .simple s n =>
    let σ' := { σ with sep := true, loopSep := σ.loopSep || isLoopCmd s }
    let need (ty : Nat) : St × Expected :=
      match n with
      | some n => (σ', { e with controls := e.controls ++ [(ty, n.v)], exact := e.exact && inI16 n.v })
      | none => (σ, { e with exact := false })
    let opt (ty : Nat) (dflt sign : Int) : St × Expected :=
      match n with
      | some n => (σ', { e with controls := e.controls ++ [(ty, sign * n.v)], exact := e.exact && inI16 n.v && n.v != -32768 })
      | none => (σ', { e with controls := e.controls ++ [(ty, sign * dflt)] })
    let bare (ty : Nat) : St × Expected :=
      match n with
      | none => (σ', { e with controls := e.controls ++ [(ty, 0)] })
      | some _ => (σ, { e with exact := false })
    match s with
    | .loopStart => bare ev_LOOP_START
    | .loopBreak => bare ev_LOOP_BREAK
    | .loopEnd => opt ev_LOOP_END 2 1
    | .segno => bare ev_SEGNO
    | .call => need ev_JUMP
    | .ins => need ev_INS
    | .vol => need ev_VOL
    | .volDown => opt ev_VOL_REL 1 (-1)
    | .volUp => opt ev_VOL_REL 1 1
    | .volFine => match n with
      | some n => if n.v ≥ 0 then need ev_VOL_FINE else (σ, { e with exact := false })
      | none => need ev_VOL_FINE
    | .volFineUp => match n with
      | some n => if n.v ≥ 0 then need ev_VOL_FINE_REL else (σ, { e with exact := false })
      | none => need ev_VOL_FINE_REL
    | .volFineDown => match n with
      | some n => if n.v ≥ 0 ∧ !n.hex then
          (σ', { e with controls := e.controls ++ [(ev_VOL_FINE_REL, -n.v)], exact := e.exact && inI16 n.v })
        else (σ, { e with exact := false })
      | none => (σ, { e with exact := false })
    | .pan => need ev_PAN
    | .transpose => need ev_TRANSPOSE
    | .transposeRel => need ev_TRANSPOSE_REL
    | .kTranspose => need ev_TRANSPOSE
    | .detune => need ev_DETUNE
    | .env => need ev_VOL_ENVELOPE
    | .pitchEnv => need ev_PITCH_ENVELOPE
    | .panEnv => need ev_PAN_ENVELOPE
    | .porta => need ev_PORTAMENTO
    | .tempoBpm => need ev_TEMPO_BPM
    | .tempo => need ev_TEMPO
    | .platform => need ev_PLATFORM
  | .bar => (σ, e)

def run : St → Expected → List Cmd → St × Expected
  | σ, e, [] => (σ, e)
  | σ, e, c :: cs => let (σ', e') := step σ e c; run σ' e' cs

/-- the denotation of a command list on a fresh track -/
def meaning (cmds : List Cmd) : Expected := (run {} {} cmds).2

end Ctrmml.MmlMeaning
