/-
  The structure of a track: a forest of nodes, obtained from the flat event list by a total
  bracket matcher.  Structural faults are explicit nodes, so `parse` never fails and
  `flatten (parse l) = l` for every list.
-/
import Ctrmml.Model.Event
namespace Ctrmml.Tree
open Ctrmml

inductive Node
  /-- any event that is not a loop bracket or a loop break -/
  | ev (e : Event)
  /-- `LOOP_BREAK` -/
  | brk (e : Event)
  /-- `LOOP_START` … `LOOP_END` -/
  | loop (ls : Event) (body : List Node) (le : Event)
  /-- a `LOOP_END` with no open loop in this track -/
  | strayEnd (e : Event)
  /-- a `LOOP_START` that is never closed (everything up to the end of the track is its body) -/
  | openLoop (ls : Event) (body : List Node)
  deriving Repr

mutual
def flattenN : Node → List Event
  | .ev e => [e]
  | .brk e => [e]
  | .loop ls b le => ls :: (flattenL b ++ [le])
  | .strayEnd e => [e]
  | .openLoop ls b => ls :: flattenL b
def flattenL : List Node → List Event
  | [] => []
  | n :: ns => flattenN n ++ flattenL ns
end

/-- close all loops that are still open at the end of the list -/
def closeAll : List (Event × List Node) → List Node → List Node
  | [], cur => cur.reverse
  | (ls, outer) :: st, cur => closeAll st (Node.openLoop ls cur.reverse :: outer)

/-- bracket matcher: `open_` = stack of (LOOP_START, reversed nodes of the enclosing level),
`cur` = reversed nodes of the current level -/
def parseAux : List (Event × List Node) → List Node → List Event → List Node
  | st, cur, [] => closeAll st cur
  | st, cur, e :: rest =>
    match e.kind with
    | .loopStart => parseAux ((e, cur) :: st) [] rest
    | .loopEnd =>
      match st with
      | [] => parseAux [] (Node.strayEnd e :: cur) rest
      | (ls, outer) :: st' => parseAux st' (Node.loop ls cur.reverse e :: outer) rest
    | .loopBreak => parseAux st (Node.brk e :: cur) rest
    | _ => parseAux st (Node.ev e :: cur) rest

def parse (l : List Event) : List Node := parseAux [] [] l

end Ctrmml.Tree
