/-
  The song fragment of the whole-song theorems of C02/C03 (`C02_song_roundtrip_partial`,
  `C03_song_wellformed_partial`) as an executable predicate, so that the correspondence run can say
  for every generated song whether it is an instance of the theorems' hypotheses.
  `Proofs/SongFragment.lean` proves that the predicate implies them.
-/
import Ctrmml.Model.Event
namespace Ctrmml.Fragment
open Ctrmml Tables

/-- no platform command, no drum mode, no macro track (pan envelope on), no pitch envelope on,
notes inside the MDSDRV range -/
def simpleEvB (e : Event) : Bool :=
  e.type != ev_PLATFORM && e.type != ev_DRUM_MODE && (e.type != ev_PAN_ENVELOPE || e.param == 0) &&
  (e.type != ev_NOTE || (decide (0 ≤ e.param) && decide (e.param < 94))) &&
  (e.type != ev_PITCH_ENVELOPE || e.param == 0)

/-- on/off times as the MML front end sets them -/
def timedB (e : Event) : Bool :=
  decide (e.on ≤ 65535) && decide (e.off ≤ 65535) &&
  (e.type == ev_NOTE || e.type == ev_TIE || e.on == 0) &&
  (e.type == ev_NOTE || e.type == ev_TIE || e.type == ev_REST || e.off == 0) &&
  (e.type != ev_NOTE || decide (1 ≤ e.on))

def evB (e : Event) : Bool :=
  simpleEvB e && timedB e && (e.type != ev_LOOP_END || (decide (0 ≤ e.param) && decide (e.param ≤ 255)))

/-- the track a call names has no loop point -/
def calleeB (song : Song) (e : Event) : Bool :=
  e.kind != .jump ||
    match song.track? (trackIdOfParam e.param) with
    | some t' => t'.all fun x => x.kind != .segno
    | none => true

def sortedB : List Nat → Bool
  | [] => true
  | a :: l => l.all (fun b => decide (a < b)) && sortedB l

def plainSongB (song : Song) : Bool :=
  sortedB (song.tracks.map (·.1)) &&
  song.tracks.all fun p => p.2.all fun e => e.kind != .fin && evB e && calleeB song e

def segCountB (root : List Event) : Bool := decide ((root.filter fun e => decide (e.kind = .segno)).length ≤ 1)

/-- the song is an instance of the hypotheses on the song (every channel track with at most one loop point) -/
def inFragment (song : Song) : Bool :=
  plainSongB song && song.tracks.all fun p => decide (16 ≤ p.1) || segCountB p.2

end Ctrmml.Fragment
