/-
  The song fragment of the whole-song theorems of C02/C03 (`C02_song_roundtrip_partial`,
  `C03_song_wellformed_partial`) as an executable predicate, so that the correspondence run can say
  for every generated song whether it is an instance of the theorems' hypotheses.
  `Proofs/SongFragment.lean` proves that the predicate implies them.
-/
import Ctrmml.Spec.Expand
import Ctrmml.Spec.Timeline
import Ctrmml.Model.MdsCodec
namespace Ctrmml.Fragment
open Ctrmml Ctrmml.Tree Ctrmml.Expand Ctrmml.Mds Tables

/-- notes (and, in drum mode, routine numbers) inside the MDSDRV range (pitch envelopes are inside the
fragment since round 5) -/
def simpleEvB (e : Event) : Bool :=
  (e.type != ev_NOTE || (decide (0 ≤ e.param) && decide (e.param < 94)))

/-- on/off times as the MML front end sets them -/
def timedB (e : Event) : Bool :=
  decide (e.on ≤ 65535) && decide (e.off ≤ 65535) &&
  (e.type == ev_NOTE || e.type == ev_TIE || e.on == 0) &&
  (e.type == ev_NOTE || e.type == ev_TIE || e.type == ev_REST || e.off == 0) &&
  (e.type != ev_NOTE || decide (1 ≤ e.on))

def evB (e : Event) : Bool :=
  simpleEvB e && timedB e && (e.type != ev_LOOP_END || (decide (0 ≤ e.param) && decide (e.param ≤ 255)))

/-- the track a call names has no loop point and no drum-mode switch -/
def calleeB (song : Song) (e : Event) : Bool :=
  e.kind != .jump ||
    match song.track? (trackIdOfParam e.param) with
    | some t' => t'.all fun x => x.kind != .segno && x.type != ev_DRUM_MODE
    | none => true

def sortedB : List Nat → Bool
  | [] => true
  | a :: l => l.all (fun b => decide (a < b)) && sortedB l

/-- drum-mode switches stand outside counted loops -/
def drumTopB (t : List Event) : Bool :=
  (parse t).all fun n =>
    match n with
    | .ev _ => true
    | n => (flattenN n).all fun e => e.type != ev_DRUM_MODE

def plainSongB (song : Song) : Bool :=
  sortedB (song.tracks.map (·.1)) &&
  (song.tracks.all fun p => p.2.all fun e => e.kind != .fin && evB e && calleeB song e) &&
  song.tracks.all fun p => drumTopB p.2

def segCountB (root : List Event) : Bool := decide ((root.filter fun e => decide (e.kind = .segno)).length ≤ 1)

/-- the writer's drum-mode state after a list of events -/
def drumOfE (d : Bool) : List Event → Bool
  | [] => d
  | e :: es => drumOfE (if e.type = ev_DRUM_MODE then decide (e.param ≠ 0) else d) es

/-- at every loop point: the rest of the track ends in the drum-mode state it starts in -/
def loopDrumB : Bool → List Event → Bool
  | _, [] => true
  | d, e :: es =>
    let d' := if e.type = ev_DRUM_MODE then decide (e.param ≠ 0) else d
    (e.kind != .segno || drumOfE d' es == d') && loopDrumB d' es

/-- the forest split at its first top-level note -/
def splitNote : List Node → Option (List Node × Event × List Node)
  | [] => none
  | .ev e :: ns =>
    if e.type = ev_NOTE then some ([], e, ns)
    else (splitNote ns).map fun x => (Node.ev e :: x.1, x.2.1, x.2.2)
  | n :: ns => (splitNote ns).map fun x => (n :: x.1, x.2.1, x.2.2)

/-- the track `p` names is a drum routine of the fragment: before its first note (outside any
loop) only commands without time — no note, tie, rest, call, loop point, drum-mode switch — and its
expansion as `Timeline.ticksOf` calls it is defined -/
def routineB (song : Song) (p : Int) : Bool :=
  match song.track? (trackIdOfParam p) with
  | none => false
  | some tevs =>
    match splitNote (parse tevs) with
    | none => false
    | some (fpre, _, _) =>
      ((flattenL fpre).all fun e => e.type != ev_NOTE && e.type != ev_TIE && e.type != ev_REST &&
        e.type != ev_DRUM_MODE && e.kind != .jump && e.kind != .segno) &&
      (match callK song limit 1 (trackIdOfParam p) with | .ok _ => true | .error _ => false)

/-- every drum-routine key of the converter's subroutine map (`track * 4 + 2`) names a routine track -/
def routinesB (song : Song) (subMap : List (Int × Nat)) : Bool :=
  subMap.all fun kv => kv.1 % 4 != 2 || routineB song ((kv.1 - 2) / 4)

/-- one event of a platform command the theorems cover: `CARRY` (no bytes in a channel track), or a
command with one or two argument bytes that carries no index (not `INS`/`PCM`/`PEG`/`MTAB`) and, if
it is `FLG`, has bit 7 set (the `fm3` command; without it the flag byte would switch drum mode) -/
def platEvB (ev : MEv) : Bool :=
  (ev.type == mds_CARRY && ev.arg == 0) ||
  (((byteArgOps.contains ev.type && ev.type != mds_DMFINISH) || wordArgOps.contains ev.type) &&
    (ev.type != mds_FLG || decide (ev.arg % 256 ≥ 0x80)) && decide (ev.arg < 65536))

/-- what the events of a platform command denote: (opcode, operand as the interpreter reads it) -/
def platSpec (evs : List MEv) : List (Nat × Nat) :=
  evs.flatMap fun e => if e.type = mds_CARRY then [] else [(e.type, if wordArgOps.contains e.type then e.arg else e.arg % 256)]

/-- the converter's platform commands and the timeline's agree -/
def platAgreeB (pl : List (Int × Option (List MEv))) (pf : Timeline.Platform) : Bool :=
  pl.all fun kv =>
    match pl.lookup kv.1 with
    | some (some evs) => evs.all platEvB && pf.lookup kv.1 == some (platSpec evs)
    | _ => true

/-- the song is an instance of the hypotheses on the song (every channel track with at most one loop
point, its loop section ending in the drum-mode state it starts in); `subMap` = the subroutine map
of the converter (which drum routines it registered) -/
def inFragment (song : Song) (subMap : List (Int × Nat)) : Bool :=
  plainSongB song && routinesB song subMap &&
  song.tracks.all fun p => decide (16 ≤ p.1) || (segCountB p.2 && loopDrumB false p.2)

/-! ### the encodable domain and drum routines (repo fix b6d6699)

The note that ends a drum routine may not be inside a `[]` loop: the converter refuses such a song
(`err:drumNoteInLoop`), so it is outside the encodable domain of C02.  The oracle decides this from the
song alone: the routines are those the specification (`Timeline.ticksOf`, execution order) calls. -/

/-- bracket depth at the first note of a track in text order (`none`: no note) -/
def firstNoteDepth : Nat → List Event → Option Nat
  | _, [] => none
  | d, e :: es =>
    if e.type = ev_NOTE then some d
    else if e.kind = .loopStart then firstNoteDepth (d + 1) es
    else if e.kind = .loopEnd then firstNoteDepth (d - 1) es
    else firstNoteDepth d es

/-- the routine numbers a performance calls, drum-mode state followed as `Timeline.ticksOf` does -/
def drumCalls : Bool → List Item → List Int
  | _, [] => []
  | drum, i :: is =>
    if i.ev.type = ev_NOTE then (if drum then i.ev.param :: drumCalls drum is else drumCalls drum is)
    else if i.ev.type = ev_DRUM_MODE then drumCalls (decide (i.ev.param ≠ 0)) is
    else drumCalls drum is

/-- every drum routine the channel calls (first pass and the pass after the loop-back jump) has its
first note outside `[]` loops -/
def routineNotesOutsideLoops (song : Song) (root : List Event) : Bool :=
  match perf song root with
  | .error _ => true
  | .ok items =>
    let again := match Timeline.afterSegno items with
      | some suffix => drumCalls (Timeline.drumAt false items) suffix
      | none => []
    (drumCalls false items ++ again).all fun p =>
      match song.track? (trackIdOfParam p) with
      | none => true
      | some tevs => match firstNoteDepth 0 tevs with | some (_ + 1) => false | _ => true

/-- the items of a routine's expansion in front of its first note carry no time -/
def headTimeless : List Item → Bool
  | [] => true
  | i :: is => if i.ev.type = ev_NOTE then true else (i.src.on + i.src.off == 0) && headTimeless is

/-- every drum routine the channel calls (first pass and the pass after the loop-back jump) plays only
timeless commands in front of its first note, subroutines it calls included.  `Timeline.routineHead`
collects the COMMANDS of a routine; a rest or tie in front of the routine's note takes time in the
`Player` and in the byte stream alike, which the tick string of `Timeline.ticksOf` does not describe:
such songs are outside the oracle's domain (the whole-song theorems carry the same hypothesis,
"routine tracks = timeless commands before the first note"); model and implementation are still
compared on them. -/
def routineHeadsTimeless (song : Song) (root : List Event) : Bool :=
  match perf song root with
  | .error _ => true
  | .ok items =>
    let again := match Timeline.afterSegno items with
      | some suffix => drumCalls (Timeline.drumAt false items) suffix
      | none => []
    (drumCalls false items ++ again).all fun p =>
      match callK song limit 1 (trackIdOfParam p) with
      | .error _ => true
      | .ok ritems => headTimeless ritems

/-! ### optimised songs

The song-side hypotheses of `C01_optimize_preserves` on the ORIGINAL song, as the optimised-song
theorems of C02/C03 (`C02_optimised_song_roundtrip_nodrum_partial`) take them, transcribed as an
executable predicate for the judge: ids ascending and below 32767, no `END` event, breaks without
duration, fewer than 32767 events per track (`SongWF`), every track's expansion defined (`okTrack`),
the subroutine ids the passes allocate stay within `int16_t` (`initialSubId + passes < 32768`; the
judge passes `initialSubId` and the number of passes of the optimiser model's run), no `DRUM_MODE`
event anywhere (`NoDrumSong`). -/
def optOriginalB (song : Song) (initialSubId : Int) (passes : Nat) : Bool :=
  sortedB (song.tracks.map (·.1)) &&
  (song.tracks.all fun p => decide (p.1 < 32767) && decide (p.2.length < 32767) &&
    (p.2.all fun e => e.kind != .fin && (e.type != ev_LOOP_BREAK || (e.on == 0 && e.off == 0)) && e.type != ev_DRUM_MODE) &&
    (match perf song p.2 with | .ok _ => true | .error _ => false)) &&
  decide (initialSubId + (passes : Int) < 32768)

end Ctrmml.Fragment
