/-
  What a track means: the structural expansion of its forest.  This is the specification the
  player, the validator, the optimiser and the converters are measured against.

  An `Item` is one call of the event hook: the event the hook sees and the duration
  (on + off time) that the player will add to the play time for it.

  Rules (DESIGN §3.1): a loop body is played `n` times (`n` = parameter of the `LOOP_END`),
  the part after the first top-level break is skipped on the last pass; `n ≤ 1` plays the
  whole body once; a negative `n` is an error; a `JUMP` plays the callee and resumes; every
  loop and every call occupies one of `limit` stack frames while it is active; a break outside
  a loop of the same track, a stray `LOOP_END`, an unterminated loop, a call to a missing
  track are errors.
-/
import Ctrmml.Spec.Tree
namespace Ctrmml.Expand
open Ctrmml Ctrmml.Tree

structure Item where
  /-- the event the hook sees -/
  ev : Event
  /-- the event that was read from the track at that moment (differs from `ev` only on the
  last pass of a loop with a break: the hook is shown the loop's `LOOP_END` in place of the
  `LOOP_BREAK`) -/
  src : Event
  deriving DecidableEq, Repr

/-- ticks the player adds for an item -/
def Item.dur (i : Item) : Nat := i.src.on + i.src.off

/-- the specification does not distinguish error messages -/
inductive SErr | structure | depth | missing | count
  deriving DecidableEq, Repr

def limit : Nat := Tables.playerMaxStackDepth

def item (e : Event) : Item := { ev := e, src := e }

def hasTopBreak : List Node → Bool
  | [] => false
  | .brk _ :: _ => true
  | _ :: ns => hasTopBreak ns

/-- the first top-level break of a body (`endEvent` if none) — on the last pass the hook sees
the `LOOP_END` event in its place -/
def topBreakEv : List Node → Event
  | [] => endEvent
  | .brk e :: _ => e
  | _ :: ns => topBreakEv ns

def repeatItems : Nat → List Item → List Item
  | 0, _ => []
  | n + 1, l => l ++ repeatItems n l

/-- sequencing of two expansions -/
def seq (a b : Except SErr (List Item)) : Except SErr (List Item) :=
  match a with
  | .error x => .error x
  | .ok x =>
    match b with
    | .error y => .error y
    | .ok y => .ok (x ++ y)

variable (call : Nat → Nat → Except SErr (List Item))

mutual
/-- `expN call depth inLoop n`: `depth` = number of live stack frames, `inLoop` = the node sits
directly in a loop body of the same track -/
def expN (depth : Nat) (inLoop : Bool) : Node → Except SErr (List Item)
  | .ev e =>
    match e.kind with
    | .jump => seq (.ok [item e]) (call depth (trackIdOfParam e.param))
    | _ => .ok [item e]
  | .brk e => if inLoop then .ok [item e] else .error .structure
  | .strayEnd _ => .error .structure
  | .openLoop _ _ => .error .structure
  | .loop ls body le =>
    if depth ≥ limit then .error .depth else
    match expL (depth + 1) true body with
    | .error x => .error x
    | .ok full =>
      if le.param < 0 then .error .count else
      let n := le.param.toNat
      if n ≤ 1 then .ok (item ls :: (full ++ [item le]))
      else if hasTopBreak body then
        match expPre (depth + 1) body with
        | .error x => .error x
        | .ok pre =>
          .ok (item ls :: (repeatItems (n - 1) (full ++ [item le])
                ++ (pre ++ [{ ev := le, src := topBreakEv body }])))
      else .ok (item ls :: repeatItems n (full ++ [item le]))
def expL (depth : Nat) (inLoop : Bool) : List Node → Except SErr (List Item)
  | [] => .ok []
  | n :: ns => seq (expN depth inLoop n) (expL depth inLoop ns)
/-- the part of a loop body before its first top-level break -/
def expPre (depth : Nat) : List Node → Except SErr (List Item)
  | [] => .ok []
  | .brk _ :: _ => .ok []
  | n :: ns => seq (expN depth true n) (expPre depth ns)
end

/-- calls, by recursion on the remaining call budget `k` (never exhausted before `depth`
reaches `limit`, see `Proofs/PlayerRefines`) -/
def callK (song : Song) : Nat → Nat → Nat → Except SErr (List Item)
  | 0, _, _ => .error .depth
  | k + 1, depth, id =>
    if depth ≥ limit then .error .depth else
    match song.track? id with
    | none => .error .missing
    | some evs => expL (callK song k) (depth + 1) false (parse evs)

/-- the performance of a track: its expansion from an empty stack -/
def perf (song : Song) (root : List Event) : Except SErr (List Item) :=
  expL (callK song limit) 0 false (parse root)

def totalDur (items : List Item) : Nat := (items.map (·.dur)).sum

/-- play time at the last loop point (`SEGNO`) of a performance, if any -/
def loopTimeAux : Nat → Option Nat → List Item → Option Nat
  | _, acc, [] => acc
  | t, acc, i :: is => loopTimeAux (t + i.dur) (if i.src.kind = .segno then some t else acc) is

def loopTime (items : List Item) : Option Nat := loopTimeAux 0 none items

end Ctrmml.Expand
