/-
  Spec side of C13: the abstract chunk tree, how a client builds it through the RIFF
  interface, and how a client walks a parsed file.  `build` and `walk` use only the
  public operations of `Model/Riff` (constructors, add_chunk, to_bytes, RIFF(bytes),
  get_id, at_end, get_chunk, get_data) — they are the "client code" of the property.
-/
import Ctrmml.Model.Riff
namespace Ctrmml.Riff
open Ctrmml

inductive Tree
  | chunk (type : Nat) (payload : Bytes)
  | list (type : Nat) (id : Nat) (children : List Tree)
  deriving Repr

mutual
def Tree.beq : Tree → Tree → Bool
  | .chunk t p, .chunk t' p' => t == t' && p == p'
  | .list t i cs, .list t' i' cs' => t == t' && i == i' && Tree.beqL cs cs'
  | _, _ => false
def Tree.beqL : List Tree → List Tree → Bool
  | [], [] => true
  | a :: as, b :: bs => Tree.beq a b && Tree.beqL as bs
  | _, _ => false
end

/- Well-formed: list nodes carry a list type, data chunks do not; types/ids are 32-bit. -/
mutual
def Tree.wf : Tree → Prop
  | .chunk t _ => isList t = false ∧ t < 4294967296
  | .list t i cs => isList t = true ∧ i < 4294967296 ∧ Tree.wfL cs
def Tree.wfL : List Tree → Prop
  | [] => True
  | c :: cs => Tree.wf c ∧ Tree.wfL cs
end

/- Building a tree through the interface: data chunks with `RIFF(type,data)`, lists with
`RIFF(type,id)` followed by one `add_chunk` per child, in order. -/
mutual
def build : Tree → Except Err Riff
  | .chunk t p => .ok (mk2 t p)
  | .list t i cs => buildL (mk3 t i) cs
def buildL (acc : Riff) : List Tree → Except Err Riff
  | [] => .ok acc
  | c :: cs =>
    match build c with
    | .error e => .error e
    | .ok rc =>
      match addChunk acc rc with
      | .error e => .error e
      | .ok acc' => buildL acc' cs
end

def serialize (t : Tree) : Except Err Bytes := (build t).map toBytes

/- Walking a parsed file: `RIFF r(bytes)`; for list types `get_id()` then
`while(!r.at_end()) walk(r.get_chunk())`; otherwise `get_data()`. Fuel bounds the number of
calls; `walkTop` supplies `|bytes|+1`, which `walk_fuel_enough` shows is sufficient for
serialised trees. -/
mutual
def walk : Nat → Bytes → Except Err Tree
  | 0, _ => .error .oob   -- fuel exhausted (never reached with `walkTop`'s fuel on serialised trees)
  | fuel + 1, b =>
    match ofBytes b with
    | .error e => .error e
    | .ok r =>
      if isList r.type then
        match getId r with
        | .error e => .error e
        | .ok id =>
          match walkKids fuel r with
          | .error e => .error e
          | .ok cs => .ok (.list r.type id cs)
      else .ok (.chunk r.type r.data)
def walkKids : Nat → Riff → Except Err (List Tree)
  | 0, _ => .error .oob
  | fuel + 1, r =>
    if atEnd r then .ok [] else
    match getChunk r with
    | .error e => .error e
    | .ok (cb, r') =>
      match walk fuel cb with
      | .error e => .error e
      | .ok c =>
        match walkKids fuel r' with
        | .error e => .error e
        | .ok cs => .ok (c :: cs)
end

def walkTop (b : Bytes) : Except Err Tree := walk (b.length + 1) b

def Tree.typeOf : Tree → Nat
  | .chunk t _ => t
  | .list t _ _ => t

/- The byte layout of the RIFF format as this library writes it: the data vector of a
node, written right-recursively. `layout n cs` is
what the `add_chunk` calls for `cs` append to a vector that currently has `n` bytes. -/
mutual
def Tree.body : Tree → Bytes
  | .chunk _ p => p
  | .list _ i cs => be32 i ++ layout 4 cs
def layout : Nat → List Tree → Bytes
  | _, [] => []
  | n, c :: cs =>
    (if n % 2 == 1 then [0] else []) ++ be32 c.typeOf ++ le32 c.body.length ++ c.body
      ++ layout (n + n % 2 + 8 + c.body.length) cs
end


/-- The serialised file of a tree: type, little-endian size of the data (excluding the pad
byte), the data, and one zero pad byte when the size is odd. -/
def Tree.file (t : Tree) : Bytes :=
  be32 t.typeOf ++ le32 t.body.length ++ t.body ++ (if t.body.length % 2 == 1 then [0] else [])

/-- "Well-formed file" for the re-serialisation clause: header present, the size field
equals the payload length, and an odd payload is followed by exactly one zero pad byte. -/
def fileWf (b : Bytes) : Prop :=
  ∃ t size, rdBe32 b 0 = some t ∧ rdLe32 b 4 = some size ∧
    b.length = 8 + size + size % 2 ∧ (size % 2 = 1 → b[8 + size]? = some 0)

end Ctrmml.Riff
