/-
  Spec for C14: what a wave bank has to guarantee to the client that plays a sample, and
  what "the 8-bit unsigned conversion of the first channel of a WAV file" means.
  Independent of Model/Wave.lean: windows, byte strings, a tiling of the used area, and an
  abstract PCM recording with its canonical RIFF/WAVE rendering.
-/
import Ctrmml.Model.Bytes
namespace Ctrmml.Alloc
open Ctrmml

/-- a playback window: `len` bytes starting at `lo` -/
structure Win where
  lo : Nat
  len : Nat
  deriving DecidableEq, Repr

def Win.hi (w : Win) : Nat := w.lo + w.len

/-- the bytes a player reads through the window -/
def Win.reads (rom : Bytes) (w : Win) : Bytes := (rom.drop w.lo).take w.len

def Win.inside (w : Win) (used : Nat) : Prop := w.lo + w.len ≤ used

def Win.has (w : Win) (x : Nat) : Prop := w.lo ≤ x ∧ x < w.lo + w.len

def Win.disjoint (a b : Win) : Prop := ∀ x, ¬ (a.has x ∧ b.has x)

/-- the window lies inside one bank of `bank` bytes -/
def Win.inBank (bank : Nat) (w : Win) : Prop := ∃ k, k * bank ≤ w.lo ∧ w.lo + w.len ≤ (k + 1) * bank

/-- "no sample small enough to fit a bank crosses a bank boundary" -/
def bankRule (bank : Nat) (w : Win) : Prop := w.len ≤ bank → w.inBank bank

/-- number of pieces (allocated regions and gaps) that contain byte `x` -/
def cover (pieces : List Win) (x : Nat) : Nat := (pieces.map fun p => if p.lo ≤ x ∧ x < p.lo + p.len then 1 else 0).sum

def total (pieces : List Win) : Nat := (pieces.map (·.len)).sum

/-- the pieces tile the used area exactly: every used byte belongs to exactly one piece and
no piece reaches beyond the used area -/
def Tiles (pieces : List Win) (used : Nat) : Prop := ∀ x, cover pieces x = if x < used then 1 else 0

/-! ### PCM recordings and their canonical file -/

/-- a recording: `frames[j][c]` is the raw sample of channel `c` in frame `j` (8-bit files:
unsigned 0..255; 16-bit files: two's complement, raw 0..65535) -/
structure Pcm where
  bits : Nat
  channels : Nat
  rate : Nat
  frames : List (List Nat)

/-- conversion of one raw sample to unsigned 8 bit: 8-bit samples are unsigned already;
a signed 16-bit sample `s` becomes `(s + 32768) / 256` -/
def to8 (bits raw : Nat) : UInt8 :=
  if bits = 8 then byteOf raw else byteOf ((raw + 32768) % 65536 / 256)

/-- what a PCM instrument defined on this recording with start offset `offset` must play -/
def Pcm.wanted (p : Pcm) (offset : Nat) : Bytes :=
  (p.frames.map fun f => to8 p.bits (f.headD 0)).drop offset

def Pcm.sampleBytes (p : Pcm) (raw : Nat) : Bytes := if p.bits = 8 then [byteOf raw] else le16 raw

def Pcm.dataBytes (p : Pcm) : Bytes := p.frames.flatMap fun f => f.flatMap p.sampleBytes

def Pcm.blockAlign (p : Pcm) : Nat := p.channels * (p.bits / 8)

/-- canonical RIFF/WAVE file: `fmt ` (16 bytes, PCM) followed by `data`, pad byte after odd data -/
def Pcm.file (p : Pcm) : Bytes :=
  let d := p.dataBytes
  let pad : Bytes := if d.length % 2 = 1 then [0] else []
  [0x52, 0x49, 0x46, 0x46] ++ le32 (4 + 24 + 8 + d.length + pad.length) ++ [0x57, 0x41, 0x56, 0x45] ++
  [0x66, 0x6d, 0x74, 0x20] ++ le32 16 ++ le16 1 ++ le16 p.channels ++ le32 p.rate ++
  le32 (p.rate * p.blockAlign) ++ le16 p.blockAlign ++ le16 p.bits ++
  [0x64, 0x61, 0x74, 0x61] ++ le32 d.length ++ d ++ pad

/-- well-formed recordings of the property's quantifier -/
structure Pcm.Wf (p : Pcm) : Prop where
  bits : p.bits = 8 ∨ p.bits = 16
  channels : p.channels = 1 ∨ p.channels = 2
  rate : p.rate < 4294967296
  frames : ∀ f ∈ p.frames, f.length = p.channels ∧ ∀ v ∈ f, v < 2 ^ p.bits
  nonempty : p.frames ≠ []
  small : p.frames.length * 4 + 44 < 4294967296

end Ctrmml.Alloc
