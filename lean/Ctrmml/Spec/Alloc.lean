/-
  Spec for C14: what a wave bank has to guarantee to the client that plays a sample, and
  what "the 8-bit unsigned conversion of the first channel of a WAV file" means.
  Independent of Model/Wave.lean: windows, byte strings, a tiling of the used area, and an
  abstract PCM recording with its canonical RIFF/WAVE rendering.
-/
import Ctrmml.Model.Bytes
namespace Ctrmml.Alloc
open Ctrmml

/-- a playback window: `len` bytes starting at `lo` -/
structure Win where
  lo : Nat
  len : Nat
  deriving DecidableEq, Repr

def Win.hi (w : Win) : Nat := w.lo + w.len

/-- the bytes a player reads through the window -/
def Win.reads (rom : Bytes) (w : Win) : Bytes := (rom.drop w.lo).take w.len

def Win.inside (w : Win) (used : Nat) : Prop := w.lo + w.len ≤ used

def Win.has (w : Win) (x : Nat) : Prop := w.lo ≤ x ∧ x < w.lo + w.len

def Win.disjoint (a b : Win) : Prop := ∀ x, ¬ (a.has x ∧ b.has x)

/-- the window lies inside one bank of `bank` bytes -/
def Win.inBank (bank : Nat) (w : Win) : Prop := ∃ k, k * bank ≤ w.lo ∧ w.lo + w.len ≤ (k + 1) * bank

/-- "no sample small enough to fit a bank crosses a bank boundary" -/
def bankRule (bank : Nat) (w : Win) : Prop := w.len ≤ bank → w.inBank bank

/-- number of pieces (allocated regions and gaps) that contain byte `x` -/
def cover (pieces : List Win) (x : Nat) : Nat := (pieces.map fun p => if p.lo ≤ x ∧ x < p.lo + p.len then 1 else 0).sum

def total (pieces : List Win) : Nat := (pieces.map (·.len)).sum

/-- the pieces tile the used area exactly: every used byte belongs to exactly one piece and
no piece reaches beyond the used area -/
def Tiles (pieces : List Win) (used : Nat) : Prop := ∀ x, cover pieces x = if x < used then 1 else 0

/-! ### PCM recordings and their canonical file -/

/-- a recording: `frames[j][c]` is the raw sample of channel `c` in frame `j` (8-bit files:
unsigned 0..255; 16-bit files: two's complement, raw 0..65535) -/
structure Pcm where
  bits : Nat
  channels : Nat
  rate : Nat
  frames : List (List Nat)

/-- conversion of one raw sample to unsigned 8 bit: 8-bit samples are unsigned already;
a signed 16-bit sample `s` becomes `(s + 32768) / 256` -/
def to8 (bits raw : Nat) : UInt8 :=
  if bits = 8 then byteOf raw else byteOf ((raw + 32768) % 65536 / 256)

/-- what a PCM instrument defined on this recording with start offset `offset` must play -/
def Pcm.wanted (p : Pcm) (offset : Nat) : Bytes :=
  (p.frames.map fun f => to8 p.bits (f.headD 0)).drop offset

def Pcm.sampleBytes (p : Pcm) (raw : Nat) : Bytes := if p.bits = 8 then [byteOf raw] else le16 raw

def Pcm.dataBytes (p : Pcm) : Bytes := p.frames.flatMap fun f => f.flatMap p.sampleBytes

def Pcm.blockAlign (p : Pcm) : Nat := p.channels * (p.bits / 8)

/-- well-formed recordings of the property's quantifier (any frame count, including none) -/
structure Pcm.Wf (p : Pcm) : Prop where
  bits : p.bits = 8 ∨ p.bits = 16
  channels : p.channels = 1 ∨ p.channels = 2
  rate : p.rate < 4294967296
  frames : ∀ f ∈ p.frames, f.length = p.channels ∧ ∀ v ∈ f, v < 2 ^ p.bits

/-- a RIFF chunk: four-character id (given as the little-endian number of its four bytes),
little-endian body size, body, and a zero pad byte after a body of odd size -/
def chunk (id : Nat) (body : Bytes) : Bytes :=
  le32 id ++ le32 body.length ++ body ++ (if body.length % 2 = 1 then [0] else [])

def idFmt : Nat := 0x20746d66    -- "fmt "
def idData : Nat := 0x61746164   -- "data"
def idSmpl : Nat := 0x6c706d73   -- "smpl"

/-- a chunk a WAV reader has to skip (LIST, fact, cue, …) -/
structure Other where
  id : Nat
  body : Bytes

def Other.Wf (o : Other) : Prop := o.id < 4294967296 ∧ o.id ≠ idFmt ∧ o.id ≠ idData ∧ o.id ≠ idSmpl

def others (os : List Other) : Bytes := os.flatMap fun o => chunk o.id o.body

/-- body of the 16-byte PCM `fmt ` chunk -/
def Pcm.fmtBody (p : Pcm) : Bytes :=
  le16 1 ++ le16 p.channels ++ le32 p.rate ++ le32 (p.rate * p.blockAlign) ++ le16 p.blockAlign ++ le16 p.bits

/-- body of a `smpl` chunk without loop records: manufacturer, product, period, MIDI unity
note, pitch fraction, SMPTE format, SMPTE offset, number of loops (0), sampler data (0) -/
def smplBody (note : Nat) : Bytes :=
  le32 0 ++ le32 0 ++ le32 0 ++ le32 note ++ le32 0 ++ le32 0 ++ le32 0 ++ le32 0 ++ le32 0

/-- a WAV file of a recording: `fmt ` and `data` in this order, an optional `smpl` chunk (unity
note, no loop) after the data, and any number of other chunks before, between and after -/
structure WavFile where
  pcm : Pcm
  pre : List Other
  mid : List Other
  post : List Other
  note : Option Nat

def WavFile.smpl (w : WavFile) : Bytes :=
  match w.note with
  | some n => chunk idSmpl (smplBody n)
  | none => []

def WavFile.body (w : WavFile) : Bytes :=
  others w.pre ++ chunk idFmt w.pcm.fmtBody ++ others w.mid ++ chunk idData w.pcm.dataBytes ++ w.smpl ++ others w.post

def WavFile.bytes (w : WavFile) : Bytes :=
  [0x52, 0x49, 0x46, 0x46] ++ le32 (4 + w.body.length) ++ [0x57, 0x41, 0x56, 0x45] ++ w.body

structure WavFile.Wf (w : WavFile) : Prop where
  pcm : w.pcm.Wf
  pre : ∀ o ∈ w.pre, o.Wf
  mid : ∀ o ∈ w.mid, o.Wf
  post : ∀ o ∈ w.post, o.Wf
  note : ∀ n, w.note = some n → n < 4294967296
  small : w.bytes.length ≤ 2147483647   -- the largest file `Wave_File::load_file` reads

end Ctrmml.Alloc
