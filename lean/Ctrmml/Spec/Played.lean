/-
  What the optimiser has to preserve of a performance (`Spec/Expand.perf`): the played
  projection (everything except the loop brackets, breaks and calls the optimiser may add or
  remove, each with the on/off time it occupies), the total length and the play time of the
  loop point.  Used by the C01 oracle (`Driver/Opt`) and by the C01 theorems.
-/
import Ctrmml.Spec.Expand
namespace Ctrmml.Expand
open Ctrmml Tables

/-- one item of the played projection: `none` for a bracket/break/call item without duration;
such an item with a duration is kept as a `NOP` placeholder of that duration -/
def playedItem (i : Item) : Option (Nat × Int × Nat × Nat) :=
  let k := i.ev.kind
  if k = .loopStart ∨ k = .loopEnd ∨ k = .loopBreak ∨ k = .jump then
    -- a bracket or call carries no sound; any duration it has still counts
    if i.src.on + i.src.off = 0 then none else some (ev_NOP, 0, i.src.on, i.src.off)
  else some (i.ev.type, i.ev.param, i.src.on, i.src.off)

/-- the played projection of a performance: everything except loop brackets and calls (which the
optimiser is allowed to introduce), with the duration each item occupies -/
def played (items : List Item) : List (Nat × Int × Nat × Nat) := items.filterMap playedItem

/-- what is observable of a performance: what is played, how long it is, where its loop point is -/
abbrev Obs := List (Nat × Int × Nat × Nat) × Nat × Option Nat

def obs (items : List Item) : Obs := (played items, totalDur items, loopTime items)

end Ctrmml.Expand
