/-
  Spec side of C09: an MDS file as a *reader* sees it, and what "every index resolves to the
  thing the song named" means.  Nothing here uses the converter model.

  * `parseFile`: the container shape — RIFF `MDS0` with exactly `ver `, `grp `, `seq `,
    LIST `dblk` (children `glob` / `pcmh`, each a 32-bit little-endian id + content), `pcmd`,
    read with the client-side walker of `Spec/RiffTree`.
  * `seq ` header (as in `Spec/SeqInterp`): [0..1] `base`, [2] volume, [3] track count, 4 bytes
    per track, then at `base` one 16-bit slot per subroutine, macro track and data item, up to
    the first stream.  ONE index space: slot k is either a stream (offset from `base`) or a
    data item (the linker patches slot `id` of every `dblk` entry, bit 31 = extended pitch
    envelope).
  * `resolve`: index → the bytes it denotes (`Ref.stream k`: the chunk from the slot's target
    on, only if no data entry claims the slot; `Ref.data k`: the content of THE entry with that
    id — `none` unless exactly one entry has it).
  * `namedOf`: the references a track's event list makes, in the order the converter emits
    them (every event once, in list order: only the first pass of a loop and not the inside of
    a call is converted; a drum routine ends at its first note).
  * `decodeStream`: the index-bearing operands of a compiled stream, instruction by
    instruction (`SeqWf.instrLen`).
  * `checkFile`: the whole property on one file, given the song and what each instrument /
    envelope id must encode to (`Expect`, supplied from the C11 encoder).
-/
import Ctrmml.Spec.RiffTree
import Ctrmml.Spec.SeqWf
import Ctrmml.Model.Event
namespace Ctrmml.MdsResolve
open Ctrmml Tables

structure Entry where
  kind : Nat          -- chunk type (`glob` / `pcmh`)
  id : Nat            -- low 31 bits of the id word = slot index
  ext : Bool          -- bit 31
  content : List Nat
  deriving Repr, DecidableEq

structure MdsFile where
  version : List Nat
  group : List Nat
  seq : List Nat
  entries : List Entry
  pcm : List Nat
  deriving Repr

def nat (b : Bytes) : List Nat := b.map (·.toNat)

def parseEntry : Riff.Tree → Option Entry
  | .chunk ty p =>
    if ty = mdsFile_glob ∨ ty = mdsFile_pcmh then
      match rdLe32 p 0 with
      | some w => some { kind := ty, id := w % 2147483648, ext := decide (w ≥ 2147483648), content := nat (p.drop 4) }
      | none => none
    else none
  | .list .. => none

/-- the container shape (clause `mds_shape`) -/
def shapeOf : Riff.Tree → Except String MdsFile
  | .list ty id [.chunk t1 ver, .chunk t2 grp, .chunk t3 seq, .list t4 i4 es, .chunk t5 pcm] =>
    if ty ≠ Riff.TYPE_RIFF ∨ id ≠ mdsFile_MDS0 then .error "not RIFF/MDS0"
    else if t1 ≠ mdsFile_ver ∨ t2 ≠ mdsFile_grp ∨ t3 ≠ mdsFile_seq ∨ t4 ≠ Riff.TYPE_LIST ∨ i4 ≠ mdsFile_dblk ∨ t5 ≠ mdsFile_pcmd then
      .error "chunks are not ver,grp,seq,LIST dblk,pcmd in this order"
    else
      match es.mapM parseEntry with
      | none => .error "dblk child that is not glob/pcmh with a 32-bit id"
      | some entries => .ok { version := nat ver, group := nat grp, seq := nat seq, entries := entries, pcm := nat pcm }
  | _ => .error "not a RIFF list with five children"

def parseFile (b : Bytes) : Except String MdsFile :=
  match Riff.walkTop b with
  | .error _ => .error "RIFF walk failed"
  | .ok t => shapeOf t

/-! ## header -/

structure Header where
  base : Nat
  volume : Nat
  tracks : List (Nat × Nat)     -- (channel id, absolute start)
  slots : Nat                   -- number of pointer slots
  deriving Repr

def headerOf (seq : List Nat) : Option Header := do
  let (base, ts) ← Seq.tracksOf seq
  let vol ← Seq.rd seq 2
  let n ← Seq.rd seq 3
  if base ≠ 4 + 4 * n then none else
  let first := match ts with
    | [] => seq.length
    | (_, st) :: _ => st
  if first < base ∨ (first - base) % 2 ≠ 0 ∨ first > seq.length then none else
  pure { base := base, volume := vol, tracks := ts, slots := (first - base) / 2 }

/-! ## resolution -/

inductive Ref
  | stream (slot : Nat)
  | data (slot : Nat)
  deriving Repr, DecidableEq

def entriesWith (f : MdsFile) (k : Nat) : List Entry := f.entries.filter (·.id = k)

/-- THE entry with id `k` (`none` unless exactly one) -/
def entryOf (f : MdsFile) (k : Nat) : Option Entry :=
  match entriesWith f k with
  | [e] => some e
  | _ => none

/-- absolute position of the stream slot `k` points to -/
def streamPos (f : MdsFile) (h : Header) (k : Nat) : Option Nat :=
  if k < h.slots ∧ entriesWith f k = [] then
    match Seq.slotTarget f.seq h.base k with
    | some p => if h.base + 2 * h.slots ≤ p ∧ p < f.seq.length then some p else none
    | none => none
  else none

def resolve (f : MdsFile) (h : Header) : Ref → Option (List Nat)
  | .stream k => (streamPos f h k).map fun p => f.seq.drop p
  | .data k => if k < h.slots then (entryOf f k).map (·.content) else none

/-! ## what a track names -/

inductive Named
  | ins (id : Int)
  | peg (id : Int)               -- 0 = off
  | mtab (track : Int)           -- 0 = off
  | pat (track : Int) (drumEnabled : Bool)
  | drumNote (track : Int)
  | note (n : Int)
  | dmfinish (n : Int)
  deriving Repr, DecidableEq

/-- references of an event list in emission order; `dropped` counts references that the
converter registers but cannot emit (a drum note of on-time 0) -/
def namedOf : List Event → Bool → Bool → List Named × Nat
  | [], _, _ => ([], 0)
  | e :: es, inDrum, drumEn =>
    let cons (n : Named) (r : List Named × Nat) := (n :: r.1, r.2)
    if e.type = ev_NOTE then
      if drumEn then
        if inDrum then ([], 0)        -- a drum routine that itself runs in drum mode: outside the spec
        else if e.on = 0 then let r := namedOf es inDrum drumEn; (r.1, r.2 + 1)
        else cons (.drumNote e.param) (namedOf es inDrum drumEn)
      else if inDrum then ([.dmfinish e.param], 0)     -- the routine ends here
      else if e.on = 0 then namedOf es inDrum drumEn
      else cons (.note e.param) (namedOf es inDrum drumEn)
    else if e.type = ev_INS then cons (.ins e.param) (namedOf es inDrum drumEn)
    else if e.type = ev_PITCH_ENVELOPE then cons (.peg e.param) (namedOf es inDrum drumEn)
    else if e.type = ev_PAN_ENVELOPE then cons (.mtab e.param) (namedOf es inDrum drumEn)
    else if e.type = ev_JUMP then cons (.pat e.param drumEn) (namedOf es inDrum drumEn)
    else if e.type = ev_DRUM_MODE then namedOf es inDrum (decide (e.param ≠ 0))
    else namedOf es inDrum drumEn

/-! ## what a stream holds -/

inductive Op
  | ins (k : Nat) | pcm (k : Nat) | peg (k : Nat) | mtab (k : Nat) | pat (k : Nat)
  | drumNote (k : Nat) | note (n : Nat) | dmfinish (n : Nat)
  deriving Repr, DecidableEq

/-- the operands of the stream at `pc` up to and including its terminator; returns the position
after the terminator -/
def decodeStream (seq : List Nat) : Nat → Nat → Bool → List Op → Option (List Op × Nat)
  | 0, _, _, _ => none
  | fuel + 1, pc, drum, acc =>
    match Seq.rd seq pc, SeqWf.instrLen seq pc with
    | some b, some len =>
      if pc + len > seq.length then none else
      let a := (Seq.rd seq (pc + 1)).getD 0
      if b = mds_FINISH then some (acc.reverse, pc + len)
      else if b = mds_JUMP then some (acc.reverse, pc + len)
      else if b = mds_DMFINISH then some ((Op.dmfinish a :: acc).reverse, pc + len)
      else if mds_NOTE ≤ b ∧ b < mds_SLR then
        decodeStream seq fuel (pc + len) drum ((if drum then Op.drumNote (b - mds_NOTE) else Op.note (b - mds_NOTE)) :: acc)
      else if b = mds_INS then decodeStream seq fuel (pc + len) drum (Op.ins a :: acc)
      else if b = mds_PCM then decodeStream seq fuel (pc + len) drum (Op.pcm a :: acc)
      else if b = mds_PEG then decodeStream seq fuel (pc + len) drum (Op.peg a :: acc)
      else if b = mds_MTAB then decodeStream seq fuel (pc + len) drum (Op.mtab a :: acc)
      else if b = mds_PAT then decodeStream seq fuel (pc + len) drum (Op.pat a :: acc)
      else if b = mds_FLG ∧ a < 0x80 then decodeStream seq fuel (pc + len) (decide (a &&& 8 ≠ 0)) acc
      else decodeStream seq fuel (pc + len) drum acc
    | _, _ => none

/-- a macro track stream: two bytes per command up to `80 xx`; returns the number of commands
that are neither waits (`81`,`82`) nor loop marks (`84`–`86`), and the end position -/
def decodeMacro (seq : List Nat) : Nat → Nat → Nat → Option (Nat × Nat)
  | 0, _, _ => none
  | fuel + 1, pc, n =>
    match Seq.rd seq pc, Seq.rd seq (pc + 1) with
    | some b, some _ =>
      if b = 0x80 then some (n, pc + 2)
      else if b = 0x81 ∨ b = 0x82 ∨ b = 0x84 ∨ b = 0x85 ∨ b = 0x86 then decodeMacro seq fuel (pc + 2) n
      else decodeMacro seq fuel (pc + 2) (n + 1)
    | _, _ => none

/-- events of a track that a macro stream keeps as a value command -/
def macroValueTypes : List Nat :=
  [ev_VOL, ev_VOL_REL, ev_VOL_FINE, ev_VOL_FINE_REL, ev_TRANSPOSE, ev_TRANSPOSE_REL, ev_DETUNE, ev_PORTAMENTO, ev_PAN]

/-! ## the whole check -/

/-- what each id must encode to: instruments `(id, isPcm, bytes)`, pitch envelopes
`(id, extended, bytes)` -/
structure Expect where
  ins : List (Int × Bool × List Nat)
  pitch : List (Int × Bool × List Nat)
  deriving Repr

structure Key where
  track : Int
  inDrum : Bool
  drumEn : Bool
  isMacro : Bool := false
  deriving Repr, DecidableEq

structure Work where
  pos : Nat
  key : Key
  deriving Repr, DecidableEq

structure Acc where
  done : List Work := []
  targeted : List Nat := []      -- slots some operand points to
  dropped : Nat := 0             -- references registered but not emitted
  ends : List (Nat × Nat) := []  -- (start, end) of every stream visited
  deriving Repr

def trackOf (song : Song) (p : Int) : Option (List Event) := song.track? (trackIdOfParam p)

def showNamed (n : Named) : String := reprStr n
def showOp (o : Op) : String := reprStr o

/-- one reference against one operand: the new work it creates and the slot it targets -/
def matchRef (f : MdsFile) (h : Header) (x : Expect) (n : Named) (o : Op) : Except String (List Work × List Nat) :=
  let dataCheck (k : Nat) (isPcm ext : Bool) (want : List Nat) (what : String) : Except String (List Work × List Nat) :=
    match entriesWith f k with
    | [e] =>
      if k ≥ h.slots then .error s!"{what}: index {k} is outside the {h.slots} pointer slots"
      else if e.content ≠ want then .error s!"{what}: entry {k} does not hold the encoding of what the song named"
      else if e.kind ≠ (if isPcm then mdsFile_pcmh else mdsFile_glob) then .error s!"{what}: entry {k} has the wrong chunk type"
      else if e.ext ≠ ext then .error s!"{what}: entry {k} has the wrong extended-envelope flag"
      else if Seq.rd16 f.seq (h.base + 2 * k) ≠ some 0 then .error s!"{what}: slot {k} of a data item is not zero"
      else .ok ([], [k])
    | [] => .error s!"{what}: index {k} resolves to no data entry"
    | _ => .error s!"{what}: index {k} resolves to more than one data entry"
  let streamCheck (k : Nat) (key : Key) (what : String) : Except String (List Work × List Nat) :=
    match streamPos f h k with
    | some p => .ok ([{ pos := p, key := key }], [k])
    | none => .error s!"{what}: index {k} does not resolve to a stream"
  match n, o with
  | .note a, .note b => if (if a < 0 then 0 else a) = (b : Int) then .ok ([], []) else .error s!"note {a} compiled as {b}"
  | .dmfinish a, .dmfinish b => if (if a < 0 then 0 else a) = (b : Int) then .ok ([], []) else .error s!"drum routine note {a} compiled as {b}"
  | .ins id, .ins k =>
    match x.ins.lookup id with
    | some (false, want) => dataCheck k false false want s!"instrument @{id}"
    | _ => .error s!"instrument @{id}: INS emitted for an id that is not an FM/PSG instrument"
  | .ins id, .pcm k =>
    match x.ins.lookup id with
    | some (true, want) => dataCheck k true false want s!"PCM instrument @{id}"
    | _ => .error s!"instrument @{id}: PCM emitted for an id that is not a PCM instrument"
  | .peg id, .peg k =>
    if id = 0 ∨ k = 0 then (if id = 0 ∧ k = 0 then .ok ([], []) else .error s!"pitch envelope @M{id} compiled as operand {k}")
    else match x.pitch.lookup id with
      | some (ext, want) => dataCheck (k - 1) false ext want s!"pitch envelope @M{id}"
      | none => .error s!"pitch envelope @M{id} is not defined"
  | .mtab t, .mtab k =>
    if t = 0 ∨ k = 0 then (if t = 0 ∧ k = 0 then .ok ([], []) else .error s!"macro track *{t} compiled as operand {k}")
    else streamCheck (k - 1) { track := t, inDrum := false, drumEn := false, isMacro := true } s!"macro track *{t}"
  | .pat t en, .pat k => streamCheck k { track := t, inDrum := false, drumEn := en } s!"subroutine *{t}"
  | .drumNote t, .drumNote k => streamCheck k { track := t, inDrum := true, drumEn := false } s!"drum routine *{t}"
  | n, o => .error s!"the song names {showNamed n} where the stream holds {showOp o}"

def matchAll (f : MdsFile) (h : Header) (x : Expect) : List Named → List Op → Except String (List Work × List Nat)
  | [], [] => .ok ([], [])
  | n :: ns, o :: os =>
    match matchRef f h x n o with
    | .error e => .error e
    | .ok (w, t) =>
      match matchAll f h x ns os with
      | .error e => .error e
      | .ok (w', t') => .ok (w ++ w', t ++ t')
  | n :: _, [] => .error s!"the stream ends before {showNamed n}"
  | [], o :: _ => .error s!"the stream holds {showOp o} that the track does not name"

/-- visit streams from a work list until none is left -/
def visit (f : MdsFile) (h : Header) (song : Song) (x : Expect) : Nat → List Work → Acc → Except String Acc
  | 0, _, _ => .error "too many streams"
  | _, [], acc => .ok acc
  | fuel + 1, w :: ws, acc =>
    if acc.done.contains w then visit f h song x fuel ws acc else
    match trackOf song w.key.track with
    | none => .error s!"track *{w.key.track} named by the song does not exist"
    | some evs =>
      if w.key.isMacro then
        match decodeMacro f.seq (f.seq.length + 1) w.pos 0 with
        | none => .error s!"macro track *{w.key.track}: stream at {w.pos} does not decode"
        | some (n, stop) =>
          let want := (evs.filter fun e => macroValueTypes.contains e.type).length
          if n ≠ want then .error s!"macro track *{w.key.track}: stream at {w.pos} holds {n} value commands, the track has {want}"
          else
            let (names, dr) := namedOf evs false false
            let refs := (names.filter fun n => match n with | .note _ => false | .peg 0 => false | .mtab 0 => false | _ => true).length
            visit f h song x fuel ws { acc with done := w :: acc.done, dropped := acc.dropped + refs + dr, ends := (w.pos, stop) :: acc.ends }
      else
        match decodeStream f.seq (f.seq.length + 1) w.pos w.key.drumEn [] with
        | none => .error s!"track *{w.key.track}: stream at {w.pos} does not decode"
        | some (ops, stop) =>
          let (names, dr) := namedOf evs w.key.inDrum w.key.drumEn
          match matchAll f h x names ops with
          | .error e => .error s!"track *{w.key.track} (stream at {w.pos}): {e}"
          | .ok (more, tg) =>
            visit f h song x fuel (more ++ ws)
              { acc with done := w :: acc.done, targeted := tg ++ acc.targeted, dropped := acc.dropped + dr, ends := (w.pos, stop) :: acc.ends }

def channelIds (song : Song) : List Nat := ((song.tracks.map (·.1)).filter (· < 16)).mergeSort (· ≤ ·)

def nodupNat : List Nat → Bool
  | [] => true
  | a :: as => !as.contains a && nodupNat as

/-- streams lie back to back from the end of the header: channel tracks in table order, then
the stream slots in index order -/
def contiguous (f : MdsFile) (h : Header) (acc : Acc) : Except String Unit :=
  let streamSlots := (List.range h.slots).filterMap fun k => if entriesWith f k = [] then streamPos f h k else none
  let starts := h.tracks.map (·.2) ++ streamSlots
  let rec go : Nat → List Nat → Except String Unit
    | _, [] => .ok ()
    | pos, s :: rest =>
      if s ≠ pos then .error s!"a stream starts at {s}, expected {pos}"
      else match acc.ends.lookup s with
        | some e => go e rest
        | none => .ok ()          -- not visited (reported by the slot accounting)
  go (h.base + 2 * h.slots) starts

/-- the property on one file -/
def checkFile (b : Bytes) (song : Song) (x : Expect) (volume : Option Nat) (group : List Nat) : Except String Unit :=
  match parseFile b with
  | .error e => .error s!"shape: {e}"
  | .ok f =>
    if f.version ≠ [MDSDRV_SEQ_VERSION_MAJOR, MDSDRV_SEQ_VERSION_MINOR] then .error "shape: version" else
    if f.group ≠ group then .error "shape: group" else
    match headerOf f.seq with
    | none => .error "header: unreadable"
    | some h =>
      if h.tracks.map (·.1) ≠ channelIds song then .error s!"track table: lists {h.tracks.map (·.1)}, the song has {channelIds song}" else
      if (match volume with | some v => decide (h.volume ≠ min 127 v) | none => false) then .error s!"volume: header holds {h.volume}" else
      if !nodupNat (f.entries.map (·.id)) then .error "ids: two data entries share an id" else
      if f.entries.any (fun e => e.id ≥ h.slots) then .error "ids: a data entry has an id outside the pointer slots" else
      let work := h.tracks.map fun (id, st) => ({ pos := st, key := { track := id, inDrum := false, drumEn := false } } : Work)
      match visit f h song x 4096 work {} with
      | .error e => .error s!"resolve: {e}"
      | .ok acc =>
        let unused := (List.range h.slots).filter fun k => !acc.targeted.contains k
        if unused.length > acc.dropped then .error s!"unused: pointer slots {unused} are the target of no operand" else
        match contiguous f h acc with
        | .error e => .error s!"layout: {e}"
        | .ok _ =>
          if f.entries.any (fun e => decide (e.kind = mdsFile_pcmh) &&
              (match e.content with
               | p0 :: p1 :: p2 :: p3 :: _ :: _ :: _ :: _ :: s0 :: s1 :: s2 :: s3 :: _ =>
                 decide (p0 + 256 * p1 + 65536 * p2 + 16777216 * p3 + (s0 + 256 * s1 + 65536 * s2 + 16777216 * s3) > f.pcm.length)
               | _ => true)) then .error "pcm: a sample header points outside the pcmd chunk"
          else .ok ()

end Ctrmml.MdsResolve
