/-
  Spec side of C18: what the documentation says a `@` table line *means*, written as a
  renderer + denotation over an abstract line, independent of the tokeniser's state machine.

  A line is   lead  item₁ sep₁  item₂ sep₂ … itemₙ sepₙ  [; comment]
  * a separator is any mix of blanks (space, tab, CR, LF) and commas; between two items it is
    not empty;
  * an item is either plain (non-empty, none of NUL blank `"` `,` `;`) or double-quoted with
    backslash escapes (`\n` newline, `\t` tab, `\x` = x for every other byte x);
  * items are separated by blanks and/or ONE comma; each FURTHER comma of a separator adds an
    empty item (`empties`): a separator with k ≥ 1 commas denotes k−1 empty items, also in
    front of the first item and after the last;
  * `;` outside quotes ends the line.
  The comma count is per line (a line break is not part of any separator).
  Shares no code with Model/Tags.
-/
import Ctrmml.Model.Bytes
namespace Ctrmml.TagSpec
open Ctrmml

def isBlank (b : UInt8) : Bool := b == 32 || b == 9 || b == 13 || b == 10
def isSepChar (b : UInt8) : Bool := isBlank b || b == 44
/-- bytes a plain item cannot contain -/
def isSpecial (b : UInt8) : Bool := b == 0 || isBlank b || b == 34 || b == 44 || b == 59

/-- the byte denoted by `\c` -/
def escOf (c : UInt8) : UInt8 := if c == 110 then 10 else if c == 116 then 9 else c

/-- decoding of the text between the quotes; `none` = not a legal quoted text (bare quote,
NUL, or a backslash with nothing after it) -/
def unescape : Bytes → Option Bytes
  | [] => some []
  | b :: rest =>
    if b == 92 then
      match rest with
      | [] => none
      | c :: rest' => if c == 0 then none else (unescape rest').map (escOf c :: ·)
    else if b == 34 || b == 0 then none
    else (unescape rest).map (b :: ·)

inductive Item
  | plain (v : Bytes)
  | quoted (raw : Bytes)
  deriving Repr

def Item.text : Item → Bytes
  | .plain v => v
  | .quoted raw => 34 :: raw ++ [34]

def Item.value : Item → Bytes
  | .plain v => v
  | .quoted raw => (unescape raw).getD []

def Item.wf : Item → Prop
  | .plain v => v ≠ [] ∧ ∀ b ∈ v, isSpecial b = false
  | .quoted raw => (unescape raw).isSome

instance (i : Item) : Decidable i.wf := by
  cases i <;> simp only [Item.wf] <;> infer_instance

structure Line where
  lead : Bytes
  items : List (Item × Bytes)
  comment : Option Bytes
  deriving Repr

def commentText : Option Bytes → Bytes
  | none => []
  | some c => 59 :: c

def Line.render (l : Line) : Bytes :=
  l.lead ++ (l.items.flatMap fun p => p.1.text ++ p.2) ++ commentText l.comment

/-- the empty items denoted by a separator: one per comma after the first -/
def empties (sep : Bytes) : List Bytes := List.replicate (sep.count 44 - 1) []

def Line.denote (l : Line) : List Bytes :=
  empties l.lead ++ l.items.flatMap fun p => p.1.value :: empties p.2

def isSep (s : Bytes) : Prop := ∀ b ∈ s, isSepChar b = true

/-- every item is followed by a non-empty separator, except possibly the last one -/
def sepsOk : List (Item × Bytes) → Prop
  | [] => True
  | [_] => True
  | p :: q :: rest => p.2 ≠ [] ∧ sepsOk (q :: rest)

def Line.wf (l : Line) : Prop :=
  isSep l.lead ∧ (∀ p ∈ l.items, p.1.wf ∧ isSep p.2) ∧ sepsOk l.items ∧
  (∀ c, l.comment = some c → ∀ b ∈ c, b ≠ 0)

/-- a table definition spread over a first line and continuation lines -/
def denoteLines (ls : List Line) : List Bytes := ls.flatMap Line.denote

/-! ### the canonical rendering of an arbitrary value list (every list is renderable) -/
/-- escape one byte inside quotes -/
def escapeByte (b : UInt8) : Bytes := if b == 92 || b == 34 then [92, b] else [b]
def escape (v : Bytes) : Bytes := v.flatMap escapeByte

/-- every value quoted, items separated by one blank -/
def canonLine (vals : List Bytes) : Line :=
  { lead := [], items := vals.map (fun v => (Item.quoted (escape v), [32])), comment := none }

/-! ### `#` lines and keys -/
def isSpace (b : UInt8) : Bool := b == 32 || (9 ≤ b && b ≤ 13)
def lower (b : UInt8) : UInt8 := if 65 ≤ b && b ≤ 90 then b + 32 else b
/-- trailing white space removed -/
def trimRight (v : Bytes) : Bytes := (v.reverse.dropWhile isSpace).reverse

/-- keys in order of first definition -/
def firstDefs (ks : List Bytes) : List Bytes :=
  ks.foldl (fun seen k => if seen.contains k then seen else seen ++ [k]) []

end Ctrmml.TagSpec
