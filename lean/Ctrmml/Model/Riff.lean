/-
  Model of /repo/src/riff.cpp (class RIFF) over `List UInt8`.

  Every C++ member function is one definition here; mutation becomes a returned value.
  Outcomes: `ok`, a C++ exception the code throws on purpose (`outOfRange` from
  `vector::at`/the size check, `invalidArgument`), or `oob` = iterator arithmetic past the
  end of the vector (undefined behaviour; the model makes the check the C++ omits explicit
  so that "no read outside the buffer" is a statement about the model).

  Narrowings made explicit: the `uint32_t` size written by `add_chunk`/`to_bytes` is
  `data.size() mod 2^32` (inside `le32`).  `position` is a `uint32_t` in the C++; the model
  keeps it in `Nat` and assumes vectors shorter than 4 GiB (stated in DESIGN §8).
-/
import Ctrmml.Model.Bytes
import Ctrmml.Generated.Tables
namespace Ctrmml.Riff
open Ctrmml

def TYPE_RIFF : Nat := Tables.riff_TYPE_RIFF
def TYPE_LIST : Nat := Tables.riff_TYPE_LIST
def ID_NONE : Nat := Tables.riff_ID_NONE

inductive Err | outOfRange | invalidArgument | oob
  deriving DecidableEq, Repr

structure Riff where
  type : Nat
  data : Bytes
  position : Nat
  deriving Repr

def isList (t : Nat) : Bool := t == TYPE_RIFF || t == TYPE_LIST

/-- `RIFF::rewind` as the value it assigns. -/
def rewindPos (t : Nat) : Nat := if isList t then 4 else 0

/-- `RIFF(uint32_t chunk_type)` -/
def mk1 (t : Nat) : Riff :=
  { type := t, data := if isList t then be32 ID_NONE else [], position := rewindPos t }

/-- `RIFF(uint32_t chunk_type, const vector& initial_data)` -/
def mk2 (t : Nat) (init : Bytes) : Riff :=
  { type := t, data := (if isList t then be32 ID_NONE else []) ++ init, position := rewindPos t }

/-- `RIFF(uint32_t chunk_type, uint32_t id)` — writes the id whatever the type is. -/
def mk3 (t id : Nat) : Riff :=
  { type := t, data := be32 id, position := rewindPos t }

/-- `RIFF(uint32_t chunk_type, uint32_t id, const vector& initial_data)` -/
def mk4 (t id : Nat) (init : Bytes) : Riff :=
  { type := t, data := be32 id ++ init, position := rewindPos t }

/-- `RIFF(const vector& initial_data)` -/
def ofBytes (b : Bytes) : Except Err Riff :=
  if b.length < 8 then .error .outOfRange else
  match rdBe32 b 0, rdLe32 b 4 with
  | some t, some size =>
    let actual := b.length - 8
    let size := if size > actual then actual else size
    .ok { type := t, data := (b.drop 8).take size, position := rewindPos t }
  | _, _ => .error .outOfRange

def atEnd (r : Riff) : Bool :=
  if r.position ≥ r.data.length then true
  else if r.position % 2 == 1 && r.position ≥ r.data.length - 1 then true
  else false

def getId (r : Riff) : Except Err Nat :=
  if isList r.type then
    match rdBe32 r.data 0 with
    | some v => .ok v
    | none => .error .outOfRange
  else .error .invalidArgument

def pad (d : Bytes) : Bytes := if d.length % 2 == 1 then d ++ [0] else d

/-- `RIFF::add_chunk` -/
def addChunk (r c : Riff) : Except Err Riff :=
  let d := pad r.data
  if isList r.type then
    .ok { r with data := d ++ be32 c.type ++ le32 c.data.length ++ c.data }
  else .error .invalidArgument

/-- `RIFF::add_data` -/
def addData (r : Riff) (n : Bytes) : Except Err Riff :=
  if isList r.type then .error .invalidArgument else .ok { r with data := r.data ++ n }

/-- `RIFF::get_chunk`: returns the child's bytes and the advanced reader. -/
def getChunk (r : Riff) : Except Err (Bytes × Riff) :=
  if !isList r.type then .error .invalidArgument else
  let pos := if r.position % 2 == 1 then r.position + 1 else r.position
  match rdLe32 r.data pos with
  | none => .error .outOfRange
  | some _ =>
    let tyBytes := (r.data.drop pos).take 4
    match rdLe32 r.data (pos + 4) with
    | none => .error .outOfRange
    | some size0 =>
      let pos := pos + 8
      -- the child's header carries the size field as read (`write_le32(chunk_data,4,size)`)
      -- `if(size > data.size() - position) size = data.size() - position;`
      let size := if size0 > r.data.length - pos then r.data.length - pos else size0
      -- iterator arithmetic `data.begin()+position+size`: past-the-end is UB
      if pos + size > r.data.length then .error .oob else
      .ok (tyBytes ++ le32 size0 ++ (r.data.drop pos).take size, { r with position := pos + size })

/-- `RIFF::to_bytes` -/
def toBytes (r : Riff) : Bytes :=
  be32 r.type ++ le32 r.data.length ++ r.data ++ (if r.data.length % 2 == 1 then [0] else [])

end Ctrmml.Riff
