/-
  Byte-level helpers shared by all models: the exact little/big-endian readers and
  writers of /repo/src/util.h over `List UInt8`.

  Narrowing made explicit here: `le32 n`/`be32 n` write `n mod 2^32` (the C++ argument is
  a `uint32_t`), byte `k` is `(n >>> 8k) mod 256`.
-/
namespace Ctrmml

abbrev Bytes := List UInt8

def byteOf (n : Nat) : UInt8 := UInt8.ofNat (n % 256)

/-- `write_le32` appended at the end of a vector. -/
def le32 (n : Nat) : Bytes :=
  [byteOf n, byteOf (n / 256), byteOf (n / 65536), byteOf (n / 16777216)]

/-- `write_be32` appended at the end of a vector. -/
def be32 (n : Nat) : Bytes :=
  [byteOf (n / 16777216), byteOf (n / 65536), byteOf (n / 256), byteOf n]

def be16 (n : Nat) : Bytes := [byteOf (n / 256), byteOf n]
def le16 (n : Nat) : Bytes := [byteOf n, byteOf (n / 256)]

/-- `read_le32(data,pos)`: `none` is the `std::out_of_range` thrown by `vector::at`. -/
def rdLe32 (d : Bytes) (pos : Nat) : Option Nat :=
  match d.drop pos with
  | b0 :: b1 :: b2 :: b3 :: _ =>
      some (b0.toNat + 256 * b1.toNat + 65536 * b2.toNat + 16777216 * b3.toNat)
  | _ => none

/-- `read_be32(data,pos)`. -/
def rdBe32 (d : Bytes) (pos : Nat) : Option Nat :=
  match d.drop pos with
  | b3 :: b2 :: b1 :: b0 :: _ =>
      some (b0.toNat + 256 * b1.toNat + 65536 * b2.toNat + 16777216 * b3.toNat)
  | _ => none

def rdBe16 (d : Bytes) (pos : Nat) : Option Nat :=
  match d.drop pos with
  | b1 :: b0 :: _ => some (b0.toNat + 256 * b1.toNat)
  | _ => none

def rdLe16 (d : Bytes) (pos : Nat) : Option Nat :=
  match d.drop pos with
  | b0 :: b1 :: _ => some (b0.toNat + 256 * b1.toNat)
  | _ => none

@[simp] theorem le32_length (n : Nat) : (le32 n).length = 4 := rfl
@[simp] theorem be32_length (n : Nat) : (be32 n).length = 4 := rfl

theorem byteOf_toNat (n : Nat) : (byteOf n).toNat = n % 256 := by
  simp [byteOf]

theorem rdLe32_le32 (n : Nat) (h : n < 4294967296) (pre rest : Bytes) :
    rdLe32 (pre ++ le32 n ++ rest) pre.length = some n := by
  simp [rdLe32, le32, byteOf_toNat]
  omega

theorem rdBe32_be32 (n : Nat) (h : n < 4294967296) (pre rest : Bytes) :
    rdBe32 (pre ++ be32 n ++ rest) pre.length = some n := by
  simp [rdBe32, be32, byteOf_toNat]
  omega

theorem rdLe32_none_of_short (d : Bytes) (pos : Nat) (h : d.length < pos + 4) :
    rdLe32 d pos = none := by
  unfold rdLe32
  have : (d.drop pos).length < 4 := by simp; omega
  match hd : d.drop pos with
  | [] => rfl
  | [_] => rfl
  | [_, _] => rfl
  | [_, _, _] => rfl
  | _ :: _ :: _ :: _ :: _ => simp [hd] at this; omega

theorem rdLe32_isSome_of_long (d : Bytes) (pos : Nat) (h : pos + 4 ≤ d.length) :
    (rdLe32 d pos).isSome := by
  unfold rdLe32
  have : 4 ≤ (d.drop pos).length := by simp; omega
  match hd : d.drop pos with
  | [] => simp [hd] at this
  | [_] => simp [hd] at this
  | [_, _] => simp [hd] at this
  | [_, _, _] => simp [hd] at this
  | _ :: _ :: _ :: _ :: _ => rfl

theorem rdLe32_lt (d : Bytes) (pos n : Nat) (h : rdLe32 d pos = some n) : n < 4294967296 := by
  unfold rdLe32 at h
  split at h
  · rename_i b0 b1 b2 b3 _ _
    have := b0.toNat_lt; have := b1.toNat_lt; have := b2.toNat_lt; have := b3.toNat_lt
    simp at h; omega
  · simp at h

/-- Hex rendering used by the line protocol. -/
def hexDigit (n : Nat) : Char :=
  if n < 10 then Char.ofNat (48 + n) else Char.ofNat (87 + n)

def hexOfBytes (b : Bytes) : String :=
  String.ofList (b.flatMap fun x => [hexDigit (x.toNat / 16), hexDigit (x.toNat % 16)])

def hexVal (c : Char) : Option Nat :=
  if '0' ≤ c ∧ c ≤ '9' then some (c.toNat - 48)
  else if 'a' ≤ c ∧ c ≤ 'f' then some (c.toNat - 87)
  else if 'A' ≤ c ∧ c ≤ 'F' then some (c.toNat - 55)
  else none

def bytesOfHexAux : List Char → Bytes → Option Bytes
  | [], acc => some acc.reverse
  | [_], _ => none
  | a :: b :: rest, acc =>
    match hexVal a, hexVal b with
    | some x, some y => bytesOfHexAux rest (UInt8.ofNat (x * 16 + y) :: acc)
    | _, _ => none

/-- `-` denotes the empty byte string in the protocol. -/
def bytesOfHex (s : String) : Option Bytes :=
  if s == "-" then some [] else bytesOfHexAux s.toList []

def hexOrDash (b : Bytes) : String := if b.isEmpty then "-" else hexOfBytes b

end Ctrmml
