/-
  Model of `MDSDRV_Converter::convert_track` (src/platform/mdsdrv.cpp): the final pass that
  turns an `MDSDRV_Event` list into sequence bytes, with length compression, 128-tick splitting,
  loop-break back-patching and the loop-back jump.

  Bytes are `Nat`s below 256; every push of a wider value is written `% 256` where the C++
  truncates (`push_back(uint16_t)` into a `vector<uint8_t>`).  `uint16_t` registers wrap
  (`% 65536`).  Outcomes the C++ can reach besides returning: `vector::at` on an empty vector
  (`atEmpty`, a `std::out_of_range` that nothing catches; after the D12-era repairs no path of this
  model produces it) and a loop break / loop end command outside a loop (`stackEmpty`: before
  repository fix 3e0ed67 `std::stack::top()` on an empty stack — undefined behaviour, reachable
  with the raw `cmd` platform command; since the fix an `InputError`).
-/
import Ctrmml.Generated.Tables
namespace Ctrmml.Mds
open Tables

structure MEv where
  type : Nat   -- uint8_t
  arg : Nat    -- uint16_t
  deriving DecidableEq, Repr

inductive CErr | atEmpty | stackEmpty
  deriving DecidableEq, Repr

def U16 : Nat := 65535

structure Enc where
  out : List Nat := []          -- track_data
  segnoPos : Nat := 0
  lastRest : Nat := U16
  lastNote : Nat := U16
  lastType : Nat := mds_REST
  breaks : List Nat := []       -- loop_break_address (top first)
  deriving DecidableEq, Repr

def noteish (t : Nat) : Bool := decide (mds_TIE ≤ t) && decide (t < mds_SLR)

/-- `(last_type >= TIE) && (last_type < SLR) && track_data.size() && (track_data.back() > 0x80)` -/
def needLen (e : Enc) : Except CErr Bool :=
  if noteish e.lastType then
    match e.out.getLast? with
    | none => .ok false          -- `track_data.size() &&` guards the read
    | some b => .ok (decide (b > 0x80))
  else .ok false

/-- the disambiguation step before a bare rest length -/
def disamb (e : Enc) : Except CErr Enc :=
  match needLen e with
  | .error x => .error x
  | .ok true => .ok { e with lastType := mds_REST, out := e.out ++ [e.lastNote % 256] }
  | .ok false => .ok e

/-- `while(arg >= 128)` of the rest branch; `fuel` bounds the iterations (arg < 65536) -/
def restLoop : Nat → Enc → Nat → Except CErr (Enc × Nat)
  | 0, e, arg => .ok (e, arg)
  | fuel + 1, e, arg =>
    if arg ≥ 128 then
      match disamb e with
      | .error x => .error x
      | .ok e1 => restLoop fuel { e1 with out := e1.out ++ [0x7f], lastRest := 0x7f } (arg - 128)
    else .ok (e, arg)

def encRest (e : Enc) (arg0 : Nat) : Except CErr Enc :=
  match restLoop 512 e (arg0 - 1) with
  | .error x => .error x
  | .ok (e1, a) =>
    if a = e1.lastRest then .ok { e1 with out := e1.out ++ [mds_REST] }
    else
      match disamb e1 with
      | .error x => .error x
      | .ok e2 => .ok { e2 with out := e2.out ++ [a % 256], lastRest := a }

def noteLoop : Nat → Enc → Nat → Enc × Nat
  | 0, e, arg => (e, arg)
  | fuel + 1, e, arg =>
    if arg ≥ 128 then
      let e1 := if e.lastNote ≠ 0x7f then { e with out := e.out ++ [0x7f] } else e
      noteLoop fuel { e1 with lastNote := 0x7f, out := e1.out ++ [mds_TIE] } (arg - 128)
    else (e, arg)

def encNote (e : Enc) (ty arg0 : Nat) : Enc :=
  let (e1, a) := noteLoop 512 { e with out := e.out ++ [ty] } (arg0 - 1)
  if a ≠ e1.lastNote then { e1 with out := e1.out ++ [a % 256], lastNote := a } else e1

def byteArgOps : List Nat :=
  [mds_VOL, mds_VOLM, mds_TRS, mds_TRSM, mds_DTN, mds_PTA, mds_PAN, mds_LFO, mds_FLG, mds_DMFINISH,
   mds_COMM, mds_TEMPO, mds_PCMRATE, mds_PCMMODE]

def wordArgOps : List Nat := [mds_FMREG, mds_FMCREG, mds_FMTL, mds_FMTLM]

/-- the `switch(type)` for everything that is not a timed rest/note/tie; `nSubs`, `nMacros` are
`subroutine_list.size()`, `macro_track_list.size()` (for `MTAB` and `get_data_id`) -/
def encOther (nSubs nMacros : Nat) (e : Enc) (ty arg : Nat) : Except CErr Enc :=
  if ty = mds_SEGNO then
    -- a preceding length-less note/tie gets its length first (`track_data.size() &&` guards the read)
    let e1 : Enc :=
      if noteish e.lastType then
        match e.out.getLast? with
        | some b => if b > 0x80 then { e with out := e.out ++ [e.lastNote % 256] } else e
        | none => e
      else e
    .ok { e1 with lastRest := U16, lastNote := U16, segnoPos := e1.out.length % 65536 }
  else if ty = mds_SLR ∨ ty = mds_FINISH then .ok { e with out := e.out ++ [ty] }
  else if byteArgOps.contains ty then .ok { e with out := e.out ++ [ty, arg % 256] }
  else if ty = mds_MTAB then
    .ok { e with out := e.out ++ [ty, if arg ≠ 0 then (arg + nSubs) % 256 else 0] }
  else if ty = mds_INS ∨ ty = mds_PCM then .ok { e with out := e.out ++ [ty, (nSubs + nMacros + arg) % 256] }
  else if ty = mds_PEG then
    .ok { e with out := e.out ++ [ty, if arg ≠ 0 then (nSubs + nMacros + arg) % 256 else 0] }
  else if wordArgOps.contains ty then .ok { e with out := e.out ++ [ty, arg / 256 % 256, arg % 256] }
  else if ty = mds_JUMP then
    let sp := (e.segnoPos + 65536 - (e.out.length + 3) % 65536) % 65536
    .ok { e with segnoPos := sp, out := e.out ++ [mds_JUMP, sp / 256, sp % 256] }
  else if ty = mds_PAT then
    .ok { e with out := e.out ++ [ty, arg % 256], lastRest := U16, lastNote := U16 }
  else if ty = mds_LP then
    .ok { e with out := e.out ++ [ty], breaks := 0 :: e.breaks, lastRest := U16, lastNote := U16 }
  else if ty = mds_LPB then
    match e.breaks with
    | [] => .error .stackEmpty
    | _ :: r => .ok { e with breaks := (e.out.length % 65536) :: r }
  else if ty = mds_LPF then
    match e.breaks with
    | [] => .error .stackEmpty
    | b :: r =>
      let out := e.out ++ [ty, arg % 256]
      if b ≠ 0 then
        let offset := (out.length + 65536 - b) % 65536
        let cmd := if offset < 256 then [mds_LPB, offset] else [mds_LPBL, offset / 256, offset % 256]
        .ok { e with out := out.take b ++ cmd ++ out.drop b, breaks := r, lastRest := U16, lastNote := U16 }
      else .ok { e with out := out, breaks := r }
  else .ok e

/-- one iteration of the `for` loop -/
def encEv (nSubs nMacros : Nat) (e : Enc) (ev : MEv) : Except CErr Enc :=
  -- `if(type == LPB && loop_break_address.size() && loop_break_address.top()) continue;`
  -- (only the first break of a loop gets a break command)
  if ev.type = mds_LPB ∧ e.breaks.head?.getD 0 ≠ 0 then .ok e else
  let r : Except CErr Enc :=
    if ev.type = mds_REST ∧ ev.arg ≠ 0 then encRest e ev.arg
    else if ev.type < mds_SLR ∧ ev.arg ≠ 0 then .ok (encNote e ev.type ev.arg)
    else encOther nSubs nMacros e ev.type ev.arg
  match r with
  | .error x => .error x
  | .ok e' =>
    -- a rest/tie/note of length 0 emits nothing and is not remembered as the last event; nor is a
    -- `CARRY` event, which only `convert_macro_track` encodes (D26, fixed)
    if (ev.type < mds_REST ∧ ev.type ≠ mds_CARRY) ∨ ev.type ≥ mds_SLR ∨ ev.arg ≠ 0 then .ok { e' with lastType := ev.type }
    else .ok e'

def encAll (nSubs nMacros : Nat) : Enc → List MEv → Except CErr Enc
  | e, [] => .ok e
  | e, ev :: rest =>
    match encEv nSubs nMacros e ev with
    | .error x => .error x
    | .ok e' => encAll nSubs nMacros e' rest

/-- `MDSDRV_Converter::convert_track` -/
def convertTrack (nSubs nMacros : Nat) (es : List MEv) : Except CErr (List Nat) :=
  (encAll nSubs nMacros {} es).map (·.out)

end Ctrmml.Mds
