/-
  Model of `MDSDRV_Track_Writer::parse_platform_event` (src/platform/mdsdrv.cpp) for the
  commands `mode`, `lfo`, `lforate`, `fm3`, `write`, `pcmrate`, `pcmmode`, `cmd`, `carry`.
  The register-name commands (`tl1 …`, table `MDSDRV_get_register`) are not modelled: a tag
  whose first word is none of the above is reported as `unmodelled` and the generators do not
  produce it.  `strtol(s, 0, 0)` is modelled for optional sign + decimal or `0x` hexadecimal
  digits (what the generators write); other spellings are `unmodelled`.
-/
import Ctrmml.Model.MdsCodec
namespace Ctrmml.Mds
open Tables

inductive PlatRes | events (l : List MEv) | inputError | unmodelled
  deriving Repr

def digitVal (c : Char) (base : Nat) : Option Nat :=
  let v := if '0' ≤ c ∧ c ≤ '9' then some (c.toNat - 48)
    else if 'a' ≤ c ∧ c ≤ 'f' then some (c.toNat - 87)
    else if 'A' ≤ c ∧ c ≤ 'F' then some (c.toNat - 55) else none
  v.bind fun d => if d < base then some d else none

/-- `strtol(s, 0, base)` for base 0 (decimal / 0x) or an explicit base; trailing junk ignored -/
def strtol (s : String) (base : Nat) : Int :=
  let cs := s.toList.dropWhile (fun c => c == ' ' || c == '\t')
  let (neg, cs) := match cs with
    | '-' :: r => (true, r)
    | '+' :: r => (false, r)
    | r => (false, r)
  let (b, cs) :=
    if base = 0 then
      match cs with
      | '0' :: 'x' :: r => (16, r)
      | '0' :: 'X' :: r => (16, r)
      | '0' :: r => (8, '0' :: r)
      | r => (10, r)
    else (base, cs)
  let rec go (cs : List Char) (acc : Nat) : Nat :=
    match cs with
    | [] => acc
    | c :: r => match digitVal c b with
      | some d => go r (acc * b + d)
      | none => acc
  let v := go cs 0
  if neg then -(v : Int) else v

def lower (s : String) : String := String.ofList (s.toList.map Char.toLower)

def u16i (x : Int) : Nat := (x % 65536).toNat
def u8i (x : Int) : Nat := (x % 256).toNat

def parsePlatform (tag : List String) : PlatRes :=
  match tag with
  | [] => .inputError   -- `if(tag.empty()) error("empty platform command")` (db86e99; was `tag[0]` of an empty vector)
  | w :: args =>
    let k := lower w
    let a (i : Nat) : String := (args[i]?).getD ""
    if k = "mode" then
      if args.length < 1 then .inputError else
      let p := u16i (strtol (a 0) 0)
      .events [⟨mds_LFO, if p = 1 then 0xe7 else if p = 2 then 0xe3 else 0x100⟩]
    else if k = "lfo" then
      if args.length < 2 then .inputError else
      -- (x << 4) | (y & 0x3f): the low 4 bits of x<<4 are zero, so the OR is computed on the 16-bit images
      .events [⟨mds_LFO, (u16i ((strtol (a 0) 0) * 16)) ||| ((u16i (strtol (a 1) 0)) &&& 0x3f)⟩]
    else if k = "lforate" then
      if args.length < 1 then .inputError else
      let p := u8i (strtol (a 0) 0)
      let p := if p ≠ 0 then (p + 7) % 256 else 0
      .events [⟨mds_FMREG, 0x2200 ||| p⟩]
    else if k = "fm3" then
      if args.length < 1 then .inputError else
      .events [⟨mds_FLG, 0x80 ||| ((u16i (strtol (a 0) 2) ^^^ 0x0f) &&& 0x0f)⟩]
    else if k = "write" then
      if args.length < 2 then .inputError else
      let addr := u8i (strtol (a 0) 0)
      let data := (addr * 256) ||| (u16i (strtol (a 1) 0) &&& 0xff)
      .events [⟨if addr ≥ 0x30 then mds_FMCREG else mds_FMREG, data⟩]
    else if k = "pcmrate" then
      if args.length < 1 then .inputError else
      let d := u8i (strtol (a 0) 0)
      if d < 1 ∨ d > 8 then .inputError else .events [⟨mds_PCMRATE, d⟩]
    else if k = "pcmmode" then
      if args.length < 1 then .inputError else
      let d := u8i (strtol (a 0) 0)
      if d < 2 ∨ d > 3 then .inputError else .events [⟨mds_PCMMODE, d⟩]
    else if k = "cmd" then
      if args.length < 1 then .inputError else
      .events [⟨u8i (strtol (a 0) 0), if args.length > 1 then u16i (strtol (a 1) 0) else 0⟩]
    else if k = "carry" then .events [⟨mds_CARRY, 0⟩]
    else .unmodelled

end Ctrmml.Mds
