/-
  Model of the tag side of /repo/src/song.cpp (Song::get_or_make_tag, add_tag, set_tag,
  add_tag_enclosed, add_tag_list, register_platform_command, get_platform_command,
  get_tag_order_list) and of the `#`/`@`/continuation/track-line dispatch of
  /repo/src/mml_input.cpp (MML_Input::parse_line, parse_tag, parse_mml restricted to
  platform-exclusive commands) over `List UInt8`.

  The C++ is byte oriented (`char`, C strings): UTF-8 passes through as bytes.  Facts about
  the C library in the "C" locale that are used and are NOT in /repo: `isspace` = {9..13, 32},
  `isblank` = {9, 32}, `isdigit` = {48..57}, `tolower` maps 65..90 to 97..122 and nothing else
  (bytes >= 0x80 reach these functions as negative `int`s; glibc answers "no"/identity).

  One definition per C++ function; mutation becomes a returned `Song`.
  * `std::map<std::string,Tag>` is an association list in insertion order (`tags`); the driver
    sorts by key when printing.  Keys are unique by construction (`getOrMake`).
  * `add_tag_list` copies `value.c_str()` with `strdup`: the text is cut at the first NUL
    (`cstr`).  `set_tag`/`add_tag` keep the whole `std::string`.
  * `add_tag_list` hands `s+1` (not `nexts+1`) to `add_tag_enclosed`: a quote that is not at
    the start of a token drops the token's first byte and re-reads the rest as quoted text.
    Modelled as is (`s.drop 1`); the rendering spec never produces it.
  * narrowing made explicit: `platform_command_index++` on an `int16_t` wraps (`wrap16`).
  * `add_tag_enclosed` is modelled AFTER the fix 94ac342 (a backslash is an escape only when a
    byte follows); before it the code read past the terminating NUL.
  * `MML_Input`: lines containing a NUL byte, a `*` in the track list, or any MML command other
    than `'…'`, `|`, `;` in a track line are outside the model (`Status.unsupported`).
-/
import Ctrmml.Model.Bytes
import Ctrmml.Generated.Tables
namespace Ctrmml.Tags
open Ctrmml

def ofNats (l : List Nat) : Bytes := l.map UInt8.ofNat

/-! ### C library predicates ("C" locale) -/
def isSpaceC (b : UInt8) : Bool := b == 32 || (9 ≤ b && b ≤ 13)
def isBlankC (b : UInt8) : Bool := b == 32 || b == 9
def isDigitC (b : UInt8) : Bool := 48 ≤ b && b ≤ 57
def toLowerC (b : UInt8) : UInt8 := if 65 ≤ b && b ≤ 90 then b + 32 else b

/-! ### constants of song.cpp / mml_input.cpp (regenerated) -/
def sepSet : Bytes := ofNats Tables.tags_sepSet
def orderKey : Bytes := ofNats Tables.tags_orderKey
def cmdPrefix : Bytes := ofNats Tables.tags_cmdPrefix
def platformKey : Bytes := ofNats Tables.tags_platformKey
def QUOTE : UInt8 := UInt8.ofNat Tables.tags_listQuote
def COMMA : UInt8 := UInt8.ofNat Tables.tags_listComma
def SEMI : UInt8 := UInt8.ofNat Tables.tags_listSemi
def ESC : UInt8 := UInt8.ofNat Tables.tags_escChar
def ENDQUOTE : UInt8 := UInt8.ofNat Tables.tags_quote
def CMDQUOTE : UInt8 := UInt8.ofNat Tables.tags_cmdQuote

/-- `strpbrk` membership -/
def isSepByte (b : UInt8) : Bool := sepSet.contains b
def notSep (b : UInt8) : Bool := !isSepByte b

/-- the in-place translation of the byte after a backslash (`\n`, `\t`, otherwise itself) -/
def escByte (c : UInt8) : UInt8 :=
  match Tables.tags_escapes.find? (fun p => UInt8.ofNat p.1 == c) with
  | some p => UInt8.ofNat p.2
  | none => c

/-- `std::string::c_str()` seen as a C string -/
def cstr (v : Bytes) : Bytes := v.takeWhile (· != 0)

/-- trailing `isspace` removed (`while(!value.empty() && isspace(value.back())) pop_back`) -/
def rtrim (v : Bytes) : Bytes := (v.reverse.dropWhile isSpaceC).reverse

/-- `add_tag_enclosed(tag, s)`: `s` = text after the opening quote.  Returns the pushed value
and the text at the returned `head`. -/
def enclosed : Bytes → Bytes × Bytes
  | [] => ([], [])                                     -- unterminated: `while(*head)` ends
  | b :: rest =>
    if b == ESC then
      match rest with
      | [] => ([b], [])                                -- `head[1] == 0`: the backslash is copied
      | c :: rest' =>
        let r := enclosed rest'
        (escByte c :: r.1, r.2)
    else if b == ENDQUOTE then ([], rest)
    else
      let r := enclosed rest
      (b :: r.1, r.2)

theorem enclosed_rest_le (s : Bytes) : (enclosed s).2.length ≤ s.length := by
  fun_induction enclosed s <;> simp_all +zetaDelta <;> omega

theorem dropWhile_length_le (p : UInt8 → Bool) (s : Bytes) : (s.dropWhile p).length ≤ s.length := by
  induction s with
  | nil => simp
  | cons a t ih => simp only [List.dropWhile]; split <;> simp <;> omega

/-- the `while(*s)` loop of `Song::add_tag_list`; `acc` = the tag's vector, `lastChar` = `last_char` -/
def tagListLoop (s : Bytes) (lastChar : UInt8) (acc : List Bytes) : List Bytes :=
  if hs : s = [] then acc else
  match hd : s.dropWhile notSep with
  | [] => acc ++ [s]                                   -- strpbrk found nothing: push, break
  | c :: rest =>
    let tok := s.takeWhile notSep
    if c == QUOTE then
      let r := enclosed (s.drop 1)                      -- `add_tag_enclosed(tag, s+1)`
      tagListLoop r.2 c (acc ++ [r.1])
    else if tok ≠ [] then
      if c == SEMI then acc ++ [tok] else tagListLoop rest c (acc ++ [tok])
    else if c == COMMA then
      if lastChar == c then tagListLoop rest lastChar (acc ++ [[]]) else tagListLoop rest c acc
    else if c == SEMI then acc
    else tagListLoop rest lastChar acc
termination_by s.length
decreasing_by
  all_goals simp_wf
  · have h1 := enclosed_rest_le (s.drop 1)
    have h2 : s.length ≠ 0 := by
      intro h; exact hs (List.length_eq_zero_iff.mp h)
    simp at h1; omega
  all_goals
    have h1 := dropWhile_length_le notSep s
    rw [hd] at h1
    simp at h1; omega

/-! ### Song -/
structure Song where
  tags : List (Bytes × List Bytes) := []
  cmdIndex : Int := Tables.tags_cmdIndexInit
  deriving Repr

def Song.empty : Song := {}

def lookupTag (t : List (Bytes × List Bytes)) (k : Bytes) : Option (List Bytes) := t.lookup k

def modifyTag (t : List (Bytes × List Bytes)) (k : Bytes) (f : List Bytes → List Bytes) :
    List (Bytes × List Bytes) :=
  t.map fun kv => if kv.1 == k then (kv.1, f kv.2) else kv

/-- `tag_map[k]`: default-construct when absent -/
def ensureTag (t : List (Bytes × List Bytes)) (k : Bytes) : List (Bytes × List Bytes) :=
  if (lookupTag t k).isSome then t else t ++ [(k, [])]

/-- `Song::get_or_make_tag` -/
def getOrMake (s : Song) (k : Bytes) : Song :=
  if (lookupTag s.tags k).isSome then s
  else { s with tags := ensureTag (modifyTag (ensureTag s.tags orderKey) orderKey (· ++ [k])) k }

/-- `Song::get_tag_order_list` (creates the list when absent) -/
def getTagOrderList (s : Song) : Song × List Bytes :=
  let t := ensureTag s.tags orderKey
  ({ s with tags := t }, (lookupTag t orderKey).getD [])

/-- `Song::add_tag` -/
def addTag (s : Song) (k v : Bytes) : Song :=
  let s' := getOrMake s k
  { s' with tags := modifyTag s'.tags k (· ++ [rtrim v]) }

/-- `Song::set_tag` -/
def setTag (s : Song) (k v : Bytes) : Song :=
  let s' := getOrMake s k
  { s' with tags := modifyTag s'.tags k (fun _ => [rtrim v]) }

/-- `Song::add_tag_list` -/
def addTagList (s : Song) (k v : Bytes) : Song :=
  let s' := getOrMake s k
  { s' with tags := modifyTag s'.tags k (fun old => tagListLoop (cstr v) 0 old) }

/-- `int16_t` wrap -/
def wrap16 (x : Int) : Int := (x + 32768) % 65536 - 32768

/-- decimal digits, least significant first -/
def decRev : Nat → Nat → Bytes
  | 0, _ => []
  | f + 1, n => UInt8.ofNat (48 + n % 10) :: (if n / 10 = 0 then [] else decRev f (n / 10))

def natDec (n : Nat) : Bytes := (decRev (n + 1) n).reverse

/-- `stringf("%d", p)` -/
def intDec (p : Int) : Bytes := if p < 0 then 45 :: natDec p.natAbs else natDec p.natAbs

/-- `stringf("cmd_%d", param)` -/
def cmdKey (p : Int) : Bytes := cmdPrefix ++ intDec p

/-- `Song::register_platform_command` → (returned id, song) -/
def registerCmd (s : Song) (param : Int) (v : Bytes) : Int × Song :=
  if param == Tables.tags_cmdAuto then
    let p := s.cmdIndex
    (p, addTagList { s with cmdIndex := wrap16 (s.cmdIndex + 1) } (cmdKey p) v)
  else (param, addTagList s (cmdKey param) v)

/-- `Song::get_platform_command` (`none` = `std::out_of_range`) -/
def getCmd (s : Song) (p : Int) : Option (List Bytes) := lookupTag s.tags (cmdKey p)

/-! ### MML_Input: line dispatch -/
inductive LastCmd | none | tag | mml
  deriving DecidableEq, Repr

inductive Status | ok | inputError | unsupported
  deriving DecidableEq, Repr

structure Inp where
  song : Song := {}
  lastCmd : LastCmd := .none
  tagKey : Bytes := []
  trackList : List Nat := []
  /-- per track (creation order): params of its PLATFORM events -/
  tracks : List (Nat × List Int) := []
  deriving Repr

def ensureTrack (t : List (Nat × List Int)) (id : Nat) : List (Nat × List Int) :=
  if (t.lookup id).isSome then t else t ++ [(id, [])]

def pushEvent (t : List (Nat × List Int)) (id : Nat) (p : Int) : List (Nat × List Int) :=
  t.map fun kv => if kv.1 == id then (kv.1, kv.2 ++ [p]) else kv

/-- `MML_Input::parse_tag` on the rest of the line (`get_line()`) -/
def parseTag (st : Inp) (text : Bytes) : Inp :=
  if st.tagKey.head? == some (UInt8.ofNat Tables.tags_singlePrefix) then
    if st.tagKey == platformKey then { st with lastCmd := .none }   -- set_platform: no tag
    else { st with song := setTag st.song st.tagKey text, lastCmd := .none }
  else { st with song := addTagList st.song st.tagKey text }

/-- `parse_mml_track` restricted to `'…'`, `|`, `;`, blanks.  `q` = inside a quoted command
(bytes so far, reversed). -/
def mmlTrack (id : Nat) : Bytes → Option Bytes → Inp → Inp × Status
  | [], none, st => (st, .ok)
  | [], some _, st => (st, .inputError)               -- unterminated platform-exclusive message
  | b :: t, some q, st =>
    if b == CMDQUOTE then
      let (p, song) := registerCmd st.song Tables.tags_cmdAuto q.reverse
      mmlTrack id t none { st with song := song, tracks := pushEvent st.tracks id p }
    else mmlTrack id t (some (b :: q)) st
  | b :: t, none, st =>
    if isBlankC b || b == 124 then mmlTrack id t none st
    else if b == 59 then (st, .ok)
    else if b == CMDQUOTE then mmlTrack id t (some []) st
    else (st, .unsupported)

/-- `MML_Input::parse_mml`: the same text once per listed track -/
def parseMml (text : Bytes) : List Nat → Inp → Inp × Status
  | [], st => (st, .ok)
  | id :: ids, st =>
    match mmlTrack id text none { st with tracks := ensureTrack st.tracks id } with
    | (st', .ok) => parseMml text ids st'
    | r => r

/-- `get_track_id` on one byte: A–Z → 0..25, digit → 26..35 -/
def trackIdOf (b : UInt8) : Option Nat :=
  if 65 ≤ b && b ≤ 90 then some (b.toNat - 65)
  else if isDigitC b then some (b.toNat - 48 + 26)
  else none

/-- the tail of `parse_line`: `c = get(); if(isblank(c)) { c = get_token(); unget(c); … }` -/
def dispatch (st : Inp) (rem : Bytes) : Inp × Status :=
  match rem with
  | [] => (st, .ok)
  | c :: r =>
    if isBlankC c then
      let text := r.dropWhile isBlankC
      if text = [] then (st, .ok)
      else match st.lastCmd with
        | .none => (st, .ok)
        | .tag => (parseTag st text, .ok)
        | .mml => parseMml text st.trackList st
    else (st, .ok)

/-- `MML_Input::parse_line` (via `read_line`) -/
def parseLine (st : Inp) (line : Bytes) : Inp × Status :=
  if line.contains 0 then (st, .unsupported) else
  match line with
  | [] => (st, .ok)
  | c :: rest =>
    if (trackIdOf c).isSome then
      let ids := (c :: rest).takeWhile (fun b => (trackIdOf b).isSome)
      let rem := (c :: rest).dropWhile (fun b => (trackIdOf b).isSome)
      if rem.head? == some 42 then (st, .unsupported)      -- `*n` in the track list (get_num)
      else dispatch { st with trackList := ids.filterMap trackIdOf, lastCmd := .mml } rem
    else if c == 42 then (st, .unsupported)
    else if (ofNats Tables.tags_prefixes).contains c then
      let key := toLowerC c :: (rest.takeWhile (fun b => !isSpaceC b)).map toLowerC
      dispatch { st with tagKey := key, lastCmd := .tag } (rest.dropWhile (fun b => !isSpaceC b))
    else if c == 59 then (st, .ok)
    else if !isBlankC c then (st, .inputError)            -- "Expected track or tag identifier"
    else dispatch st (c :: rest)

/-- a whole file: stop at the first line that does not end in `ok` -/
def parseLines : Inp → List Bytes → Inp × Status
  | st, [] => (st, .ok)
  | st, l :: ls =>
    match parseLine st l with
    | (st', .ok) => parseLines st' ls
    | r => r

end Ctrmml.Tags
