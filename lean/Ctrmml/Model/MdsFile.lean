/-
  Model of the part of `MDSDRV_Converter` that produces the MDS container
  (src/platform/mdsdrv.cpp): `convert_macro_track`, the one-byte index check of `convert_track`
  (`index_byte`), the constructor (tracks below 16 in key order through the writer of
  `Model/MdsConv`, then header, track table, pointer table and the streams of channel tracks,
  subroutines and macro tracks), `#volume`, and `get_mds` (RIFF assembly over `Model/Riff`).
  The instrument tables and the data bank are COMPUTED here from the song's tags with
  `Model/MdsData` (C11); `pcm` instruments go through `Model/Wave` (C14).

  Reused, not copied: `runWriter`/`getSubroutine`/`getMacroTrack`/`getEnvelope` (Model/MdsConv),
  `encAll`/`convertTrack` (Model/MdsCodec), `addInstrument`/`addPitch`/`addUnique`/`scanKey`
  (Model/MdsData), `addSampleTag` (Model/Wave), `mk2`/`mk3`/`addChunk`/`toBytes` (Model/Riff).
  `MdsConv.convertSong` stops at `macroUnmodelled`; `construct` below re-implements only the
  constructor's final assembly (as structural recursion instead of `for` loops) with macro
  tracks and the index check included.

  Narrowings made explicit:
    * `uint16_t data_base, header_size, offset, track_header_offset`: `% 65536`; a header that
      does not fit 16 bits is an `InputError` since repository fix 5952bf5 (`FErr.headerWrap`;
      before it the pointer table was written over the streams and the file was still written);
      a stream offset above 65535 is an `InputError` (`stream_offset()`, `FErr.seqTooLarge`);
    * `sequence_data[k] = x` stores `x % 256`;
    * `index_byte(uint32_t)`: an index above `Tables.mdsFile_indexMax` is an `InputError`
      (`FErr.indexRange`); the operand bytes themselves are written by `Model/MdsCodec` (`% 256`);
    * macro track: every `push_back` of a wider value is `% 256`; `segno_pos` and the two address
      stacks are `uint16_t`; `(loop_start - (size+1))/2` is evaluated in `size_t` (mod 2^64);
    * `vol = strtoul(..)` narrows `unsigned long` to `int` (low 32 bits, two's complement);
    * the `dblk` id is a `uint32_t`: `(get_data_id + flag) % 2^32`, stored little-endian.
  `top()` of an empty stack in `convert_track` / `convert_macro_track` (`CErr.stackEmpty`, reachable
  with a raw `cmd` platform command) is an `InputError` since repository fix 3e0ed67.
  Undefined behaviour made explicit: `data_bank[i]` outside the bank (`FErr.bankIndex`).
-/
import Ctrmml.Model.MdsConv
import Ctrmml.Model.MdsPlatform
import Ctrmml.Model.MdsData
import Ctrmml.Model.Wave
import Ctrmml.Model.Riff
namespace Ctrmml.MdsFile
open Ctrmml Ctrmml.Mds Ctrmml.Player Tables

inductive FErr
  | data                       -- `read_song` threw an InputError
  | dataUnsupported            -- outside `Model/MdsData` (not an outcome of the C++)
  | writer (e : WErr)
  | codec (e : CErr)
  | indexRange
  | headerWrap
  | seqTooLarge                -- a stream offset does not fit 16 bits (InputError)
  | bankIndex
  | riff (e : Riff.Err)
  deriving Repr

/-! ## the one-byte index check of `convert_track` -/

/-- `index_byte` does not throw for this event (`nSubs = subroutine_list.size()`, …) -/
def idxFits (nSubs nMacros : Nat) (ev : MEv) : Bool :=
  if ev.type = mds_MTAB then ev.arg = 0 || decide (ev.arg + nSubs ≤ mdsFile_indexMax)
  else if ev.type = mds_INS ∨ ev.type = mds_PCM then decide (nSubs + nMacros + ev.arg ≤ mdsFile_indexMax)
  else if ev.type = mds_PEG then ev.arg = 0 || decide (nSubs + nMacros + ev.arg ≤ mdsFile_indexMax)
  else if ev.type = mds_PAT then decide (ev.arg ≤ mdsFile_indexMax)
  else true

/-- `convert_track` with the index check: the events in front of the first offending one are
encoded first (an earlier failure of the codec wins), then `index_byte` throws -/
def convertTrackChk (nSubs nMacros : Nat) (es : List MEv) : Except FErr (List Nat) :=
  if es.all (idxFits nSubs nMacros) then
    match convertTrack nSubs nMacros es with
    | .error e => .error (.codec e)
    | .ok b => .ok b
  else
    match encAll nSubs nMacros {} (es.takeWhile (idxFits nSubs nMacros)) with
    | .error e => .error (.codec e)
    | .ok _ => .error .indexRange

/-! ## `convert_macro_track` -/

structure MEnc where
  out : List Nat := []
  segnoPos : Nat := 0
  breaks : List Nat := []     -- loop_break_address (top first)
  starts : List Nat := []     -- loop_start_address (top first)
  deriving DecidableEq, Repr

/-- `while(arg >= 256) { push(cmd); push(0xff); cmd = next; arg -= 256; }` -/
def macroLong : Nat → List Nat → Nat → Nat → Nat → List Nat × Nat × Nat
  | 0, out, cmd, _, arg => (out, cmd, arg)
  | fuel + 1, out, cmd, next, arg =>
    if arg ≥ 256 then macroLong fuel (out ++ [cmd, 0xff]) next next (arg - 256) else (out, cmd, arg)

def macroIgnored : List Nat :=
  [mds_SLR, mds_PCMMODE, mds_TEMPO, mds_MTAB, mds_DMFINISH, mds_PAT,
   mds_COMM, mds_FLG, mds_INS, mds_PCM, mds_PCMRATE, mds_PEG, mds_FMREG]

def two64 : Nat := 18446744073709551616

/-- one iteration of the `for` loop of `convert_macro_track` -/
def macroEv (e : MEnc) (ev : MEv) : Except CErr MEnc :=
  let ty := ev.type
  let arg := ev.arg
  if ty = mds_REST ∧ arg ≠ 0 then
    let (out, cmd, a) := macroLong 300 e.out 0x81 0x81 (arg - 1)
    .ok { e with out := out ++ [cmd, a % 256] }
  else if ty < mds_SLR ∧ arg ≠ 0 then
    let (out, cmd, a) := macroLong 300 e.out 0x82 0x81 (arg - 1)
    .ok { e with out := out ++ [cmd, a % 256] }
  else if macroIgnored.contains ty then .ok e
  else if ty = mds_SEGNO then .ok { e with segnoPos := e.out.length % 65536 }
  else if ty = mds_CARRY then .ok { e with out := e.out ++ [0x83, 0x00] }
  else if ty = mds_FINISH then .ok { e with out := e.out ++ [0x80, 0x00] }
  else if ty = mds_VOL then .ok { e with out := e.out ++ [0x18, arg % 256] }
  else if ty = mds_VOLM then .ok { e with out := e.out ++ [0x58, arg % 256] }
  else if ty = mds_TRS then .ok { e with out := e.out ++ [0x16, arg % 256] }
  else if ty = mds_TRSM then .ok { e with out := e.out ++ [0x56, arg % 256] }
  else if ty = mds_DTN then .ok { e with out := e.out ++ [0x11, arg % 256] }
  else if ty = mds_PTA then .ok { e with out := e.out ++ [0x17, arg % 256] }
  else if ty = mds_PAN then .ok { e with out := e.out ++ [0x87, arg % 256] }
  else if ty = mds_LFO then
    .ok { e with out := e.out ++ [if arg < 0xc0 then 0x88 else 0x89, arg % 256] }
  else if ty = mds_FMCREG then .ok { e with out := e.out ++ [(0xc0 + arg / 1024) % 256, arg % 256] }
  else if ty = mds_FMTL then .ok { e with out := e.out ++ [(0x36 + arg / 256) % 256, arg % 256] }
  else if ty = mds_FMTLM then .ok { e with out := e.out ++ [(0x76 + arg / 256) % 256, arg % 256] }
  else if ty = mds_JUMP then
    let sp := (e.segnoPos + two64 - (e.out.length + 2)) % 65536
    .ok { e with segnoPos := sp, out := e.out ++ [0x80, sp / 2 % 256] }
  else if ty = mds_LP then
    .ok { e with breaks := 0 :: e.breaks, out := e.out ++ [0x84, 0], starts := ((e.out.length + 2) % 65536) :: e.starts }
  else if ty = mds_LPB then
    match e.breaks with
    | [] => .error .stackEmpty
    | _ :: r => .ok { e with out := e.out ++ [0x85, 0], breaks := ((e.out.length + 2) % 65536) :: r }
  else if ty = mds_LPF then
    match e.starts, e.breaks with
    | st :: sr, b :: br =>
      let out := e.out ++ [0x86]
      let out := out ++ [(st + two64 - (out.length + 1)) / 2 % 256]
      let out := if b ≠ 0 then out.set (b - 1) (((out.length + 65536 - b) % 65536) / 2 % 256) else out
      let out := out.set (st - 1) ((arg + 255) % 256)
      .ok { e with out := out, breaks := br, starts := sr }
    | _, _ => .error .stackEmpty
  else .ok e

def macroAll : MEnc → List MEv → Except CErr MEnc
  | e, [] => .ok e
  | e, ev :: rest =>
    match macroEv e ev with
    | .error x => .error x
    | .ok e' => macroAll e' rest

/-- `MDSDRV_Converter::convert_macro_track` -/
def convertMacroTrack (es : List MEv) : Except FErr (List Nat) :=
  match macroAll {} es with
  | .error e => .error (.codec e)
  | .ok e => .ok e.out

/-! ## `MDSDRV_Data::read_song` with `pcm` instruments -/

structure DState where
  st : MdsData.State
  bank : Option Wave.Bank := none      -- `wave_rom`, created on first use (2 MiB of zeros)
  deriving Repr

def waveBankOf (d : DState) : Wave.Bank := d.bank.getD (Wave.Bank.new mds_dataWaveRom 0)

/-- `add_ins_pcm`: `tag` = the values after the type word; `files` = the files that can be opened -/
def addInsPcm (files : List (String × Bytes)) (d : DState) (id : Nat) (tag : List String) : Except FErr DState :=
  let file := match tag with
    | [] => none
    | name :: _ => files.lookup name
  match Wave.addSampleTag (waveBankOf d) file tag with
  | .error .incomplete | .error .notFound | .error .offsetTooBig | .error .noFit => .error .data
  | .error _ => .error .dataUnsupported
  | .ok (b, idx) =>
    match b.samples[idx]? with
    | none => .error .dataUnsupported
    | some h =>
      match MdsData.addUnique d.st ((Wave.Sample.toBytes h).map (·.toNat)) with
      | .error _ => .error .data
      | .ok (st, bi) =>
        .ok { st := { st with envMap := MdsData.mset st.envMap id bi,
                              tyMap := MdsData.mset st.tyMap id mdsdrv_INS_PCM },
              bank := some b }

def liftData : Except MdsData.Err MdsData.State → Except FErr MdsData.State
  | .ok s => .ok s
  | .error (.input _) => .error .data
  | .error .unsupported => .error .dataUnsupported

/-- the loop of `read_song` over `tag_order` -/
def readTags {α} (A : MdsData.Arith α) (files : List (String × Bytes)) :
    DState → List (String × List String) → Except FErr DState
  | d, [] => .ok d
  | d, (key, tag) :: rest =>
    match MdsData.scanKey key with
    | none => readTags A files d rest
    | some (isPitch, id) =>
      let r : Except FErr DState :=
        if isPitch then (liftData (MdsData.addPitch A d.st id tag)).map fun st => { d with st := st }
        else match tag with
          | ty :: args =>
            if MdsData.lower ty == "pcm" then addInsPcm files d id args
            else (liftData (MdsData.addInstrument A d.st id tag)).map fun st => { d with st := st }
          | [] => (liftData (MdsData.addInstrument A d.st id tag)).map fun st => { d with st := st }
      match r with
      | .error e => .error e
      | .ok d' => readTags A files d' rest

def noextOf (tags : List (String × List String)) : Bool :=
  match tags.find? (·.1 == "#option") with
  | some (_, vals) => vals.contains "noextpitch"
  | none => false

def readSong {α} (A : MdsData.Arith α) (files : List (String × Bytes)) (tags : List (String × List String)) :
    Except FErr DState :=
  readTags A files { st := MdsData.initState (noextOf tags) } tags

/-- map keys are `uint16_t`, event parameters `int16_t`: the key a parameter finds -/
def keyOfId (id : Nat) : Int := if id ≥ 32768 then (id : Int) - 65536 else id

/-- the writer's view of the tables -/
def dataInfoOf (st : MdsData.State) (platform : List (Int × Option (List MEv))) : DataInfo :=
  { insType := st.tyMap.map fun kv => (keyOfId kv.1, kv.2.toNat),
    envelopeMap := st.envMap.map fun kv => (keyOfId kv.1, kv.2.toNat),
    pitchMap := st.pitchMap.map fun kv => (keyOfId kv.1, kv.2.toNat),
    pitchExtend := st.pitchExt.map keyOfId,
    platform := platform }

/-! ## the constructor -/

/-- `parse_track(id)` for every listed id that the song has, in order -/
def parseTracks (song : Song) (d : DataInfo) :
    List Nat → Conv → List (Nat × List MEv) → Except WErr (Conv × List (Nat × List MEv))
  | [], c, tl => .ok (c, tl)
  | id :: ids, c, tl =>
    match song.track? id with
    | none => parseTracks song d ids c tl
    | some evs =>
      match runWriter song d evs 64 20000000 c { drumEnabled := false, inDrum := false, trackId := id } initState with
      | .error x => .error x
      | .ok (c', w) => parseTracks song d ids c' (tl ++ [(id, w.out)])

/-- the ids `parse_track` is called on: keys of the track map below 16, ascending -/
def channelIds (song : Song) : List Nat := (song.tracks.map (·.1)).filter (· < 16)

/-- streams converted one after the other from `sequence_data.size() = pos`; before each one
`stream_offset()` throws when `pos - data_base` does not fit 16 bits; the first failure wins -/
def encodeStreams (enc : List MEv → Except FErr (List Nat)) (dataBase : Nat) :
    Nat → List (List MEv) → Except FErr (List (List Nat))
  | _, [] => .ok []
  | pos, e :: es =>
    if pos - dataBase > 65535 then .error .seqTooLarge else
    match enc e with
    | .error x => .error x
    | .ok b =>
      match encodeStreams enc dataBase (pos + b.length) es with
      | .error x => .error x
      | .ok bs => .ok (b :: bs)

/-- `sequence_data.size()` before each stream is appended -/
def startsFrom : Nat → List (List Nat) → List Nat
  | _, [] => []
  | pos, b :: bs => pos :: startsFrom (pos + b.length) bs

def be16b (n : Nat) : List Nat := [n / 256 % 256, n % 256]

/-- `uint16_t offset = sequence_data.size() - data_base` -/
def off16 (size dataBase : Nat) : Nat := (size + 65536 - dataBase) % 65536

/-- `strtoul(s, NULL, 0)`: blanks, sign, `0x` / `0` prefix, digits; no overflow handling beyond
2^64 wrap of the negation -/
def strtoul0 (s : String) : Nat :=
  let v := Mds.strtol s 0
  (v % (two64 : Int)).toNat

/-- header byte 2: `int vol = strtoul(..); if(vol > 127) vol = 127; sequence_data[2] = vol;` -/
def volByte (volume : Option String) : Nat :=
  match volume with
  | none => 0
  | some s =>
    if s.isEmpty then 0 else
    let v32 := strtoul0 s % 4294967296
    if v32 ≥ 2147483648 then v32 % 256          -- negative `int`: not above 127
    else if v32 > 127 then 127 else v32

structure Built where
  conv : Conv
  trackList : List (Nat × List MEv)
  trackStreams : List (List Nat)
  subStreams : List (List Nat)
  macroStreams : List (List Nat)
  seq : List Nat
  deriving Repr

def headerOf (dataBase vol : Nat) (ids : List Nat) (tStarts sStarts mStarts : List Nat) (nData : Nat) : List Nat :=
  be16b dataBase ++ [vol % 256, ids.length % 256]
    ++ (ids.zip tStarts).flatMap (fun (id, st) => [id % 256, 0] ++ be16b (off16 st dataBase))
    ++ (sStarts ++ mStarts).flatMap (fun st => be16b (off16 st dataBase))
    ++ List.replicate (nData * 2) 0

/-- the constructor after the `parse_track` loop: header, track table, pointer table, streams -/
def assemble (c : Conv) (tl : List (Nat × List MEv)) (volume : Option String) : Except FErr Built :=
  let nS := c.subList.length
  let nM := c.macroList.length
  let nD := c.usedData.length
  let dataBase := 4 + 4 * tl.length
  let headerSize := dataBase + (nS + nM + nD) * 2
  if headerSize ≥ 65536 then .error .headerWrap else
  match encodeStreams (convertTrackChk nS nM) dataBase headerSize (tl.map (·.2)) with
  | .error x => .error x
  | .ok ts =>
    match encodeStreams (convertTrackChk nS nM) dataBase (headerSize + ts.flatten.length) c.subList with
    | .error x => .error x
    | .ok ss =>
      match encodeStreams convertMacroTrack dataBase (headerSize + ts.flatten.length + ss.flatten.length) c.macroList with
      | .error x => .error x
      | .ok ms =>
        let tStarts := startsFrom headerSize ts
        let sStarts := startsFrom (headerSize + ts.flatten.length) ss
        let mStarts := startsFrom (headerSize + ts.flatten.length + ss.flatten.length) ms
        let header := headerOf dataBase (volByte volume) (tl.map (·.1)) tStarts sStarts mStarts nD
        .ok { conv := c, trackList := tl, trackStreams := ts, subStreams := ss, macroStreams := ms,
              seq := header ++ ts.flatten ++ ss.flatten ++ ms.flatten }

/-- `MDSDRV_Converter::MDSDRV_Converter(song)` after `data.read_song(song)` -/
def construct (song : Song) (d : DataInfo) (volume : Option String) : Except FErr Built :=
  match parseTracks song d (channelIds song) {} [] with
  | .error x => .error (.writer x)
  | .ok (c, tl) => assemble c tl volume

/-! ## `get_mds` -/

def toU8 (l : List Nat) : Bytes := l.map fun x => UInt8.ofNat x

/-- `used_data_map` in iteration order of the `std::map` (ascending key) -/
def usedSorted (c : Conv) : List (Nat × Nat) := c.usedData.mergeSort (fun a b => decide (a.1 ≤ b.1))

/-- the 32-bit id in front of a `dblk` entry -/
def entryId (nS nM : Nat) (mapped envId : Nat) : Nat :=
  (nS + nM + envId + (if mapped / mdsFile_extTag % 2 = 1 then mdsFile_extIdBit else 0)) % 4294967296

/-- the loop over `used_data_map` in `get_mds` -/
def addEntries (nS nM : Nat) (bank : List (List Nat)) : Riff.Riff → List (Nat × Nat) → Except FErr Riff.Riff
  | dblk, [] => .ok dblk
  | dblk, (mapped, envId) :: rest =>
    match bank[mapped % (mdsFile_bankMask + 1)]? with
    | none => .error .bankIndex
    | some dat =>
      let d := le32 (entryId nS nM mapped envId) ++ toU8 dat
      let ty := if mapped < mdsFile_pcmTag then mdsFile_glob else mdsFile_pcmh
      match Riff.addChunk dblk (Riff.mk2 ty d) with
      | .error e => .error (.riff e)
      | .ok dblk' => addEntries nS nM bank dblk' rest

def liftRiff : Except Riff.Err Riff.Riff → Except FErr Riff.Riff
  | .ok r => .ok r
  | .error e => .error (.riff e)

/-- `MDSDRV_Converter::get_mds().to_bytes()`; `bank` = `data.data_bank`, `pcm` = the used part of
`wave_rom`, `group` = first value of `#group` -/
def getMds (b : Built) (bank : List (List Nat)) (group : Bytes) (pcm : Bytes) : Except FErr Bytes := do
  let riff := Riff.mk3 Riff.TYPE_RIFF mdsFile_MDS0
  let riff ← liftRiff (Riff.addChunk riff (Riff.mk2 mdsFile_ver (toU8 [MDSDRV_SEQ_VERSION_MAJOR, MDSDRV_SEQ_VERSION_MINOR])))
  let riff ← liftRiff (Riff.addChunk riff (Riff.mk2 mdsFile_grp group))
  let riff ← liftRiff (Riff.addChunk riff (Riff.mk2 mdsFile_seq (toU8 b.seq)))
  let dblk ← addEntries b.conv.subList.length b.conv.macroList.length bank
    (Riff.mk3 Riff.TYPE_LIST mdsFile_dblk) (usedSorted b.conv)
  let riff ← liftRiff (Riff.addChunk riff dblk)
  let riff ← liftRiff (Riff.addChunk riff (Riff.mk2 mdsFile_pcmd pcm))
  pure (Riff.toBytes riff)

/-! ## the whole export -/

structure Input where
  song : Song
  /-- `tag_order` with the values of each tag (definitions and `#option`) -/
  tags : List (String × List String) := []
  files : List (String × Bytes) := []
  platform : List (Int × Option (List MEv)) := []
  volume : Option String := none
  group : String := ""
  deriving Repr

structure Output where
  built : Built
  data : DState
  file : Bytes
  deriving Repr

def pcmOf (d : DState) : Bytes :=
  match d.bank with
  | none => []
  | some b => b.rom.take (b.maxSize - b.freeBytes)

/-- `MDSDRV_Converter conv(song); conv.get_mds().to_bytes()` -/
def exportMds {α} (A : MdsData.Arith α) (inp : Input) : Except FErr Output :=
  match readSong A inp.files inp.tags with
  | .error e => .error e
  | .ok d =>
    match construct inp.song (dataInfoOf d.st inp.platform) inp.volume with
    | .error e => .error e
    | .ok b =>
      match getMds b d.st.bank (inp.group.toUTF8.toList) (pcmOf d) with
      | .error e => .error e
      | .ok f => .ok { built := b, data := d, file := f }

end Ctrmml.MdsFile
