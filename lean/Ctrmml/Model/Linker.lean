/-
  Model of class MDSDRV_Linker (/repo/src/platform/mdsdrv.cpp + mdsdrv.h) as it is after the
  `fix:` commits 81bf063 (get_seq_data keeps no state), 7ae57e5 (short ver/seq chunk),
  b42d7ed (PCM header outside pcmd), 80e619f (pointer slot outside the sequence), 27af62a
  (pitch clamp before narrowing), c8da697 (identifier beginning with a digit), the repair of
  D11 (add_song re-homes the playback window `pcmd[position + start, +size)` of a PCM header and
  passes `start = 0`; same commit as the Wave_Bank repair, see Model/Wave.lean), and 8d72d11 (sample
  index of add_sample kept in an unsigned int).

  One definition per C++ function: `addSong` (chunk walk over Model/Riff, `checkVersion`, patch
  table, PCM re-homing through Model/Wave.addSample, group keying), `getSeqData` (bank layout,
  even alignment, relocation `writeBe16`, song table, bank header, wave table), `getPcmData`,
  `addUnique` / `findUnique`, `pcmHeader`, `keyify`, `uniqueString`, `asmHeader`, `cHeader`,
  `statistics`.  Mutation = returned state; a failed `add_song` returns no state (mdslink stops
  at the first error).  Exceptions / undefined behaviour = `Err`.

  Strings (file names, group names, identifiers, header text) are byte strings.
  `std::map<std::string, …>` is an association list kept in key order (`bytesLt` =
  `std::string::operator<`, i.e. memcmp order then length); `String_Counter` is an unordered
  association list (only lookups matter).

  Narrowings made explicit:
    * `uint32_t addr = seq_sdata + id * 2` is `u32 (sdata + u32 (id * 2))`; it is stored in a
      `uint16_t` pair member: `% 65536`;
    * `uint16_t offset = add_unique_data(..)`: `% 65536` (the result of `wave_rom.add_sample(..)` is an
      `unsigned int` since fix 8d72d11 and indexes the headers as it is);
    * `data_offset[j.second & 0x7fff] | (j.second & 0x8000)` written by `write_be16`: low 16 bits;
    * `write_be16(data, 6, id - 1)`, the `uint16_t value` of `asm_define`/`c_define`: `% 65536`;
    * `write_be32` of offsets and `(position + start) | (cp << 24)`: `% 2^32` inside `be32`.
  NOT narrowed: `int offset` in get_seq_data (banks below 2 GiB).
  Floating point: `float pitch = rate / (17500 / 8.0); cp = (pitch < 8) ? pitch + 0.5 : 8` is
  modelled in integers: `pitch < 8 ⟺ rate < 17500` and `⌊pitch + 0.5⌋ = (16·rate + 17500) / 35000`
  (for integer rates the distance of `rate / 2187.5` to the nearest `k + 0.5` is at least
  1.1e-4, the binary32 rounding error below 8.5 is at most 4.8e-7).
  `isspace/isalnum/toupper` are the "C" locale tables; bytes ≥ 0x80 (negative `char`) are
  neither (glibc defines the tables for them; the C standard does not).
-/
import Ctrmml.Model.Riff
import Ctrmml.Model.Wave
namespace Ctrmml.Linker
open Ctrmml

inductive Err
  | notMds | malformed | version | noFit | tooBig      -- the InputErrors
  | outOfRange | invalidArgument                          -- std exceptions that escape add_song
  | oob | hang | divZero                                  -- undefined behaviour / non-termination
  deriving DecidableEq, Repr

def ofRiffErr : Riff.Err → Err
  | .outOfRange => .outOfRange
  | .invalidArgument => .invalidArgument
  | .oob => .oob

def ofWaveErr : Wave.Err → Err
  | .noFit => .noFit
  | .oob => .oob
  | .hang => .hang
  | .divZero => .divZero
  | _ => .malformed   -- incomplete / notFound / offsetTooBig belong to add_sample(Tag), not reachable here

/-! ### identifiers -/

def isDigit (c : UInt8) : Bool := 48 ≤ c && c ≤ 57
def isUpper (c : UInt8) : Bool := 65 ≤ c && c ≤ 90
def isLower (c : UInt8) : Bool := 97 ≤ c && c ≤ 122
def isSpace (c : UInt8) : Bool := c == 32 || (9 ≤ c && c ≤ 13)

/-- the loop of `keyify_string` -/
def keyifyRaw : Bytes → Bytes
  | [] => []
  | c :: cs =>
    if isSpace c then 95 :: keyifyRaw cs
    else if isDigit c || isUpper c || c == 95 then c :: keyifyRaw cs
    else if isLower c then (c - 32) :: keyifyRaw cs
    else keyifyRaw cs

/-- `MDSDRV_Linker::keyify_string` -/
def keyify (s : Bytes) : Bytes :=
  match keyifyRaw s with
  | [] => []
  | c :: cs => if isDigit c then 95 :: c :: cs else c :: cs

def decAux : Nat → Nat → Bytes → Bytes
  | 0, _, acc => acc
  | f + 1, n, acc =>
    let acc' := UInt8.ofNat (48 + n % 10) :: acc
    if n / 10 = 0 then acc' else decAux f (n / 10) acc'

/-- `std::to_string` of a non-negative value -/
def decimal (n : Nat) : Bytes := decAux (n + 1) n []

abbrev Counter := List (Bytes × Nat)

def Counter.get (m : Counter) (k : Bytes) : Nat :=
  match m with
  | [] => 0
  | (k', v) :: rest => if k' = k then v else Counter.get rest k

/-- `map[str]++` -/
def Counter.bump (m : Counter) (k : Bytes) : Counter :=
  match m with
  | [] => [(k, 1)]
  | (k', v) :: rest => if k' = k then (k', v + 1) :: rest else (k', v) :: Counter.bump rest k

/-- `MDSDRV_Linker::unique_string` on explicit fuel (`none` = fuel exhausted; `Proofs/Linker`
proves this never happens with the fuel `uniqueString` passes) -/
def uniqueGo : Nat → Bytes → Counter → Option (Bytes × Counter)
  | 0, _, _ => none
  | f + 1, input, m =>
    let str := keyify input
    let m1 := m.bump str
    if m1.get str ≠ 1 then uniqueGo f (str ++ [95] ++ decimal (m1.get str - 1)) m1
    else some (str, m1)

def uniqueString (input : Bytes) (m : Counter) : Option (Bytes × Counter) :=
  uniqueGo (m.length + 1) input m

/-! ### the data bank -/

/-- `MDSDRV_Linker::find_unique_data` (`none` = `std::out_of_range`) -/
def findUnique (bank : List Bytes) (d : Bytes) : Option Nat := bank.findIdx? (· == d)

/-- `MDSDRV_Linker::add_unique_data`: (index, bank) -/
def addUnique (bank : List Bytes) (d : Bytes) : Nat × List Bytes :=
  match findUnique bank d with
  | some i => (i, bank)
  | none => (bank.length, bank ++ [d])

/-- pitch code of `get_pcm_header` -/
def pitchCode (rate : Nat) : Nat :=
  let cp := if rate * Tables.link_pitchDiv < Tables.MDSDRV_PCM_RATE * Tables.link_pitchMax
            then (2 * Tables.link_pitchDiv * rate + Tables.MDSDRV_PCM_RATE) / (2 * Tables.MDSDRV_PCM_RATE) % 256
            else Tables.link_pitchMax
  if cp < Tables.link_pitchMin then Tables.link_pitchMin
  else if cp > Tables.link_pitchMax then Tables.link_pitchMax else cp

/-- `MDSDRV_Linker::get_pcm_header` -/
def pcmHeader (s : Wave.Sample) : Bytes :=
  be32 (Wave.u32 (s.position + s.start) ||| (pitchCode s.rate * 16777216)) ++ be32 s.size

/-! ### add_song -/

/-- `Seq_Data` -/
structure SeqData where
  filename : Bytes
  data : Bytes
  patch : List (Nat × Nat)
  deriving Repr, DecidableEq

structure Linker where
  dataBank : List Bytes
  seqBank : List (Bytes × List SeqData)
  wave : Wave.Bank
  deriving Repr

/-- `MDSDRV_Linker::MDSDRV_Linker()` -/
def Linker.new : Linker :=
  { dataBank := [], seqBank := [], wave := Wave.Bank.new Tables.mds_linkWaveRom Tables.mds_linkWaveBank }

/-- `std::string::operator<` -/
def bytesLt : Bytes → Bytes → Bool
  | [], [] => false
  | [], _ :: _ => true
  | _ :: _, [] => false
  | a :: as, b :: bs => if a < b then true else if b < a then false else bytesLt as bs

/-- `seq_bank[key].push_back(sd)` on the key-ordered association list -/
def seqInsert : List (Bytes × List SeqData) → Bytes → SeqData → List (Bytes × List SeqData)
  | [], key, sd => [(key, [sd])]
  | (k, l) :: rest, key, sd =>
    if key = k then (k, l ++ [sd]) :: rest
    else if bytesLt key k then (key, [sd]) :: (k, l) :: rest
    else (k, l) :: seqInsert rest key sd

/-- `MDSDRV_Linker::check_version` -/
def checkVersion (major minor : Nat) : Bool :=
  let c1 := !(major < Tables.MDSDRV_MIN_SEQ_VERSION_MAJOR)
  let c2 := !(major = Tables.MDSDRV_MIN_SEQ_VERSION_MAJOR ∧ minor < Tables.MDSDRV_MIN_SEQ_VERSION_MINOR)
  let c3 := !(major > Tables.MDSDRV_SEQ_VERSION_MAJOR)
  let c4 := if Tables.MDSDRV_MIN_SEQ_VERSION_MAJOR = 0 then
      !(major ≠ 0 ∨ minor < Tables.MDSDRV_MIN_SEQ_VERSION_MINOR ∨ minor > Tables.MDSDRV_SEQ_VERSION_MINOR) else true
  c1 && c2 && c3 && c4

/-- the locals of `add_song` filled by the first chunk loop -/
structure Parts where
  ver : Bytes := [0, 0]
  pcmd : Bytes := []
  seq : Bytes := []
  group : Bytes := []
  dblk : Riff.Riff := Riff.mk1 0

/-- the first `while(!mds.at_end())` loop; fuel = number of bytes (every `get_chunk` advances) -/
def walkTop : Nat → Riff.Riff → Parts → Except Err Parts
  | 0, _, _ => .error .hang
  | fuel + 1, r, p =>
    if Riff.atEnd r then .ok p else
    match Riff.getChunk r with
    | .error e => .error (ofRiffErr e)
    | .ok (cb, r') =>
      match Riff.ofBytes cb with
      | .error e => .error (ofRiffErr e)
      | .ok chunk =>
        if chunk.type = Tables.link_cc_seq then walkTop fuel r' { p with seq := chunk.data }
        else if chunk.type = Tables.link_cc_pcmd then walkTop fuel r' { p with pcmd := chunk.data }
        else if chunk.type = Riff.TYPE_LIST then
          match Riff.getId chunk with
          | .error e => .error (ofRiffErr e)
          | .ok id =>
            if id = Tables.link_cc_dblk then walkTop fuel r' { p with dblk := chunk }
            else walkTop fuel r' p   -- a LIST of another kind matches no later branch
        else if chunk.type = Tables.link_cc_ver then walkTop fuel r' { p with ver := chunk.data }
        else if chunk.type = Tables.link_cc_grp then walkTop fuel r' { p with group := chunk.data }
        else walkTop fuel r' p

/-- the state the second loop of `add_song` works on -/
structure Acc where
  bank : List Bytes
  wave : Wave.Bank
  patch : List (Nat × Nat)

/-- `seq_sdata + id*2` has a pointer slot inside the sequence (fix 80e619f) -/
def slotInside (sdata id seqLen : Nat) : Bool := sdata + (id % 2147483648) * 2 + 2 ≤ seqLen

/-- one `glob` chunk -/
def addGlob (sdata seqLen : Nat) (data : Bytes) (a : Acc) : Except Err Acc :=
  match rdLe32 data 0 with
  | none => .error .outOfRange
  | some id =>
    let addr := Wave.u32 (sdata + Wave.u32 (id * 2))
    if !slotInside sdata id seqLen then .error .malformed else
    let r := addUnique a.bank (data.drop 4)
    let offset := r.1 % 65536
    .ok { a with bank := r.2,
                 patch := a.patch ++ [(addr % 65536, if id ≥ 2147483648 then offset ||| 0x8000 else offset)] }

/-- one `pcmh` chunk -/
def addPcmh (sdata seqLen : Nat) (pcmd data : Bytes) (a : Acc) : Except Err Acc :=
  match rdLe32 data 0 with
  | none => .error .outOfRange
  | some id =>
    let addr := Wave.u32 (sdata + Wave.u32 (id * 2))
    if !slotInside sdata id seqLen then .error .malformed else
    match Wave.Sample.fromBytes (data.drop 4) with
    | none => .error .outOfRange
    | some header =>
      if header.position + header.start + header.size > pcmd.length then .error .malformed else
      let sample := (pcmd.drop (header.position + header.start)).take header.size
      match Wave.addSample a.wave { header with position := 0, start := 0 } sample with
      | .error e => .error (ofWaveErr e)
      | .ok (w, sidx) =>
        match w.samples[sidx]? with
        | none => .error .outOfRange
        | some h2 =>
          let r := addUnique a.bank (pcmHeader h2)
          .ok { bank := r.2, wave := w, patch := a.patch ++ [(addr % 65536, r.1 % 65536)] }

/-- the `while(!dblk.at_end())` loop -/
def walkDblk (sdata seqLen : Nat) (pcmd : Bytes) : Nat → Riff.Riff → Acc → Except Err Acc
  | 0, _, _ => .error .hang
  | fuel + 1, r, a =>
    if Riff.atEnd r then .ok a else
    match Riff.getChunk r with
    | .error e => .error (ofRiffErr e)
    | .ok (cb, r') =>
      match Riff.ofBytes cb with
      | .error e => .error (ofRiffErr e)
      | .ok chunk =>
        if chunk.type = Tables.link_cc_glob then
          match addGlob sdata seqLen chunk.data a with
          | .error e => .error e
          | .ok a' => walkDblk sdata seqLen pcmd fuel r' a'
        else if chunk.type = Tables.link_cc_pcmh then
          match addPcmh sdata seqLen pcmd chunk.data a with
          | .error e => .error e
          | .ok a' => walkDblk sdata seqLen pcmd fuel r' a'
        else walkDblk sdata seqLen pcmd fuel r' a

def defaultGroup : Bytes := Tables.link_defaultGroup.map UInt8.ofNat

def groupKey (group : Bytes) : Bytes :=
  let g := keyify group
  if g.isEmpty then defaultGroup else g

/-- `MDSDRV_Linker::add_song(RIFF& mds, filename)` -/
def addSong (l : Linker) (mds : Riff.Riff) (filename : Bytes) : Except Err Linker :=
  let mds := { mds with position := Riff.rewindPos mds.type }
  if mds.type ≠ Riff.TYPE_RIFF then .error .notMds else
  match Riff.getId mds with
  | .error e => .error (ofRiffErr e)
  | .ok id =>
    if id ≠ Tables.link_cc_MDS0 then .error .notMds else
    match walkTop (mds.data.length + 1) mds {} with
    | .error e => .error e
    | .ok p =>
      if p.ver.length < 2 ∨ p.seq.length < 2 ∨ p.dblk.type ≠ Riff.TYPE_LIST then .error .malformed else
      if !checkVersion (p.ver.getD 0 0).toNat (p.ver.getD 1 0).toNat then .error .version else
      let sdata := (p.seq.getD 0 0).toNat * 256 + (p.seq.getD 1 0).toNat
      let dblk := { p.dblk with position := Riff.rewindPos p.dblk.type }
      match walkDblk sdata p.seq.length p.pcmd (dblk.data.length + 1) dblk
          { bank := l.dataBank, wave := l.wave, patch := [] } with
      | .error e => .error e
      | .ok a =>
        .ok { dataBank := a.bank, wave := a.wave,
              seqBank := seqInsert l.seqBank (groupKey p.group) { filename, data := p.seq, patch := a.patch } }

/-! ### get_seq_data -/

/-- all songs in song-number order (group order, then input order) -/
def Linker.songs (l : Linker) : List SeqData := l.seqBank.flatMap (·.2)

/-- `get_seq_count` -/
def Linker.seqCount (l : Linker) : Nat := l.songs.length

/-- `offset += size; if(offset & 1) offset++` -/
def nextOff (off : Nat) (e : Bytes) : Nat := if (off + e.length) % 2 = 1 then off + e.length + 1 else off + e.length
/-- the alignment byte pushed when the offset became odd -/
def padOf (off : Nat) (e : Bytes) : Bytes := if (off + e.length) % 2 = 1 then [0] else []

/-- the data bank loop: (bytes appended, offset of every entry, offset after the bank) -/
def layoutData : List Bytes → Nat → Except Err (Bytes × List Nat × Nat)
  | [], off => .ok ([], [], off)
  | e :: es, off =>
    if nextOff off e ≥ Tables.link_dataLimit then .error .tooBig else
    match layoutData es (nextOff off e) with
    | .error x => .error x
    | .ok (b, os, fin) => .ok (e ++ padOf off e ++ b, off :: os, fin)

/-- `write_be16(data, pos, v)` (grows the vector when `pos + 2` is beyond its end) -/
def writeBe16 (d : Bytes) (pos v : Nat) : Bytes :=
  let d := if d.length < pos + 2 then d ++ List.replicate (pos + 2 - d.length) 0 else d
  (d.set (pos + 1) (byteOf v)).set pos (byteOf (v / 256))

/-- the relocation loop over one song's patch table; `none` = `data_offset[..]` out of range -/
def patchSong (offs : List Nat) : List (Nat × Nat) → Bytes → Option Bytes
  | [], d => some d
  | (addr, v) :: rest, d =>
    match offs[v % 32768]? with
    | none => none
    | some o => patchSong offs rest (writeBe16 d addr (o ||| (v / 32768 % 2 * 32768)))

/-- the song loop: (bytes appended, offset of every song, offset after the songs) -/
def layoutSongs (offs : List Nat) : List SeqData → Nat → Except Err (Bytes × List Nat × Nat)
  | [], off => .ok ([], [], off)
  | s :: ss, off =>
    match patchSong offs s.patch s.data with
    | none => .error .oob
    | some d =>
      match layoutSongs offs ss (nextOff off d) with
      | .error x => .error x
      | .ok (b, os, fin) => .ok (d ++ padOf off d ++ b, off :: os, fin)

/-- the wave table entries -/
def waveTable (bank : List Bytes) (offs : List Nat) : List Wave.Sample → Except Err Bytes
  | [] => .ok []
  | s :: ss =>
    match findUnique bank (pcmHeader s) with
    | none => .error .outOfRange
    | some i =>
      match offs[i]? with
      | none => .error .oob
      | some o =>
        match waveTable bank offs ss with
        | .error x => .error x
        | .ok b => .ok (be16 o ++ b)

def headerSize (n : Nat) : Nat := Tables.link_headerBase + n * Tables.link_headerPerSong

/-- `MDSDRV_Linker::get_seq_data` (no state is kept between calls: fix 81bf063) -/
def getSeqData (l : Linker) : Except Err Bytes :=
  let n := l.seqCount
  match layoutData l.dataBank (headerSize n - Tables.link_ptrBase) with
  | .error e => .error e
  | .ok (dbytes, offs, off1) =>
    match layoutSongs offs l.songs off1 with
    | .error e => .error e
    | .ok (sbytes, soffs, off2) =>
      match waveTable l.dataBank offs l.wave.samples with
      | .error e => .error e
      | .ok wt =>
        .ok (be32 Tables.link_magic ++
             be16 (Tables.MDSDRV_SEQ_VERSION_MAJOR * 256 ||| Tables.MDSDRV_SEQ_VERSION_MINOR) ++
             be16 n ++ be32 off2 ++ soffs.flatMap be32 ++ dbytes ++ sbytes ++
             be16 l.wave.samples.length ++ wt)

/-- `MDSDRV_Linker::get_pcm_data` -/
def getPcmData (l : Linker) : Bytes := l.wave.rom.take (l.wave.rom.length - l.wave.freeBytes)

def ascii (s : String) : Bytes := s.toList.map fun c => UInt8.ofNat c.toNat

/-- `MDSDRV_Linker::get_statistics` -/
def statistics (l : Linker) : Bytes :=
  ascii "PCM data size: " ++ decimal (l.wave.rom.length - l.wave.freeBytes) ++ ascii " bytes (max " ++
  decimal l.wave.rom.length ++ ascii ")\nGaps: " ++ decimal l.wave.totalGap ++ ascii " bytes, largest " ++
  decimal l.wave.largestGap ++ ascii "\n"

/-! ### the generated headers -/

/-- one identifier definition: (name, value) -/
abbrev Def := Bytes × Nat

/-- the song loop of `get_asm_header` / `get_c_header` inside one group -/
def headerSongs (g : Bytes) : List SeqData → Nat → Counter → Option (List Def × Nat × Counter)
  | [], id, m => some ([], id, m)
  | s :: ss, id, m =>
    match uniqueString (g ++ [95] ++ s.filename) m with
    | none => none
    | some (name, m1) =>
      match headerSongs g ss (id + 1) m1 with
      | none => none
      | some (ds, id', m2) => some ((name, (id + 1) % 65536) :: ds, id', m2)

/-- the group loop -/
def headerGroups : List (Bytes × List SeqData) → Nat → Counter → Option (List Def)
  | [], _, _ => some []
  | (g, ss) :: rest, id, m =>
    match uniqueString (g ++ ascii "_MIN") m with
    | none => none
    | some (nmin, m1) =>
      match headerSongs g ss id m1 with
      | none => none
      | some (ds, id', m2) =>
        match uniqueString (g ++ ascii "_MAX") m2 with
        | none => none
        | some (nmax, m3) =>
          match headerGroups rest id' m3 with
          | none => none
          | some tail => some ((nmin, (id + 1) % 65536) :: ds ++ (nmax, id' % 65536) :: tail)

/-- the definitions both headers carry (`none` = `unique_string` did not return) -/
def headerDefs (l : Linker) : Option (List Def) := headerGroups l.seqBank 0 []

/-- `MDSDRV_Linker::get_asm_header` -/
def asmHeader (l : Linker) : Option Bytes :=
  (headerDefs l).map fun ds => ds.flatMap fun d => d.1 ++ ascii " = " ++ decimal d.2 ++ [10]

/-- `MDSDRV_Linker::get_c_header` -/
def cHeader (l : Linker) : Option Bytes :=
  (headerDefs l).map fun ds => ds.flatMap fun d => ascii "#define " ++ d.1 ++ [32] ++ decimal d.2 ++ [10]

/-! ### histories (what mdslink and the harness do) -/

inductive Op
  | add (filename : Bytes) (file : Bytes)   -- `mds = RIFF(data); linker.add_song(mds, filename)`
  | query                                   -- `get_seq_data()`

/-- runs a history; stops at the first failing `add_song` (index of the op, error) -/
def runOps : List Op → Linker → Except Err Linker
  | [], l => .ok l
  | .query :: rest, l => runOps rest l
  | .add name file :: rest, l =>
    match Riff.ofBytes file with
    | .error e => .error (ofRiffErr e)
    | .ok mds =>
      match addSong l mds name with
      | .error e => .error e
      | .ok l' => runOps rest l'

end Ctrmml.Linker
