/-
  Model of class `Player` (src/player.cpp): `handle_event`, drum mode, `event_hook`,
  `end_hook`, `play_tick`, `skip_ticks`.

  * A thrown `InputError` becomes the sticky field `err`: once set, nothing changes any more
    (the C++ exception leaves the call; the object is not used further).
  * `write_event()` calls are returned as a list of the events it is called with (the base
    class only counts them); `skip_flag` only decides whether that list is reported, so it is a
    parameter of the output-producing functions and never part of the state.
  * `int16_t` arithmetic of the channel variables wraps (`wrap16`).
  * `platform_state`/`platform_update_mask`: `Player::parse_platform_event` returns 0, so the
    base class never changes them; a `PLATFORM` event only checks that the command exists.
    The set of defined platform command ids is a parameter (`platformDefined`).
  * The inner fetch loops `while(is_enabled() && !on_time && !off_time) step_event();` carry a
    step budget; exhausting it sets `err := fuel` (never observed, see correspondence).
-/
import Ctrmml.Model.Player
namespace Ctrmml.PlayerCh
open Ctrmml Player Tables

def wrap16 (x : Int) : Int := ((x + 32768) % 65536) - 32768

structure Chan where
  lastNote : Int := 0
  /-- `track_state[type - CHANNEL_CMD]`, `CHANNEL_CMD_COUNT` entries -/
  trackState : List Int := List.replicate ev_CHANNEL_CMD_COUNT 0
  /-- `track_update_mask` as the set of its bit positions (bit 30 = coarse volume, 31 = BPM) -/
  mask : List Nat := []
  deriving DecidableEq, Repr

structure PS where
  core : Core
  acc : Acc
  ch : Chan := {}
  err : Option PErr := none
  deriving DecidableEq, Repr

def initPS : PS := { core := { track := .root, position := 0, stack := [] }, acc := {} }

def VOL_BIT : Nat := 30
def BPM_BIT : Nat := 31

def setBit (m : List Nat) (b : Nat) : List Nat := if m.contains b then m else b :: m
def clrBit (m : List Nat) (b : Nat) : List Nat := m.filter (· ≠ b)
def chIdx (t : Nat) : Nat := t - ev_CHANNEL_CMD
def getCh (c : Chan) (t : Nat) : Int := (c.trackState[chIdx t]?).getD 0
def setCh (c : Chan) (t : Nat) (v : Int) : Chan :=
  { c with trackState := c.trackState.set (chIdx t) v, mask := setBit c.mask (chIdx t) }

/-- `Player::handle_drum_mode`; returns the state and the (possibly replaced) current event -/
def handleDrumMode (song : Song) (s : PS) (e : Event) : PS × Event :=
  match s.core.stack with
  | f :: rest =>
    if f.type = .drum then
      -- second note: leave the routine with the caller's durations
      ({ s with core := { track := f.track, position := f.position, stack := rest },
                acc := { s.acc with onTime := f.endPosition, offTime := f.loopCount.toNat } }, e)
    else enter
  | [] => enter
where
  enter : PS × Event :=
    let id := trackIdOfParam e.param
    match song.track? id with
    | none => ({ s with err := some .drumTrackMissing }, e)
    | some _ =>
      match push s.core.stack { type := .drum, track := s.core.track, position := s.core.position,
                                endPosition := s.acc.onTime, loopCount := s.acc.offTime } with
      | .error _ => ({ s with err := some .drumTrackMissing }, e)   -- caught and re-thrown as the drum-mode error
      | .ok st =>
        ({ s with core := { track := .id id, position := 0, stack := st },
                  acc := { s.acc with onTime := 0, offTime := 0 } }, { e with type := ev_NOP })

/-- `Player::handle_event` -/
def handleEvent (song : Song) (platformDefined : Int → Bool) (s : PS) (e : Event) : PS × Event :=
  if e.type = ev_NOTE then
    let s1 := { s with ch := { s.ch with lastNote := e.param } }
    if getCh s.ch ev_DRUM_MODE ≠ 0 then handleDrumMode song s1 e else (s1, e)
  else if e.type = ev_PLATFORM then
    if platformDefined e.param then (s, e) else ({ s with err := some .platformMissing }, e)
  else if e.type = ev_TRANSPOSE_REL then
    ({ s with ch := setCh s.ch ev_TRANSPOSE (wrap16 (getCh s.ch ev_TRANSPOSE + e.param)) }, e)
  else if e.type = ev_VOL then
    let c := setCh s.ch ev_VOL_FINE e.param
    ({ s with ch := { c with mask := setBit c.mask VOL_BIT } }, e)
  else if e.type = ev_VOL_REL ∨ e.type = ev_VOL_FINE_REL then
    ({ s with ch := setCh s.ch ev_VOL_FINE (wrap16 (getCh s.ch ev_VOL_FINE + e.param)) }, e)
  else if e.type = ev_TEMPO_BPM then
    let c := setCh s.ch ev_TEMPO e.param
    ({ s with ch := { c with mask := setBit c.mask BPM_BIT } }, e)
  else if e.type ≥ ev_CHANNEL_CMD ∧ e.type < ev_CMD_COUNT then
    let c := setCh s.ch e.type e.param
    let c := if e.type = ev_VOL_FINE then { c with mask := clrBit c.mask VOL_BIT } else c
    let c := if e.type = ev_TEMPO then { c with mask := clrBit c.mask BPM_BIT } else c
    ({ s with ch := c }, e)
  else (s, e)

/-- `step_event` of a `Player`: the base step, then `event_hook` (= `handle_event`, then
`write_event` unless `skip_flag`) or `end_hook` (which calls `write_event` unconditionally).
Returns the events `write_event` is called with. -/
def pstep (song : Song) (root : List Event) (pd : Int → Bool) (skip : Bool) (s : PS) : PS × List Event :=
  if s.err.isSome then (s, []) else
  match step song root true ⟨s.core, s.acc⟩ with
  | .error e => ({ s with err := some e }, [])
  | .ok (bs, em) =>
    let s1 : PS := { s with core := bs.core, acc := bs.acc }
    match em with
    | .nothing => (s1, [])
    | .finish => (s1, [endEvent])
    | .event v =>
      let (s2, v') := handleEvent song pd s1 v
      if s2.err.isSome ∨ skip then (s2, []) else (s2, [v'])

def isSettled (s : PS) : Bool :=
  s.acc.onTime > 0 || s.acc.offTime > 0 || !s.acc.enabled || s.err.isSome

/-- `while(is_enabled() && !on_time && !off_time) step_event();` — `skip` = `skip_flag` -/
def settleO (song : Song) (root : List Event) (pd : Int → Bool) (skip : Bool) : Nat → PS → PS × List Event
  | 0, s => if isSettled s then (s, []) else ({ s with err := some .fuel }, [])
  | fuel + 1, s =>
    if isSettled s then (s, []) else
    let (s1, w) := pstep song root pd skip s
    let (s2, w2) := settleO song root pd skip fuel s1
    (s2, w ++ w2)

@[irreducible] def settleFuel : Nat := 100000

def settle (song : Song) (root : List Event) (pd : Int → Bool) (s : PS) : PS :=
  (settleO song root pd false settleFuel s).1

def restEvent : Event := { type := ev_REST, param := 0, on := 0, off := 0 }

/-- `Player::play_tick` -/
def playTickO (song : Song) (root : List Event) (pd : Int → Bool) (s : PS) : PS × List Event :=
  if s.err.isSome then (s, []) else
  let (s1, w1) : PS × List Event :=
    if s.acc.onTime > 0 then
      let a := { s.acc with onTime := s.acc.onTime - 1, playTime := s.acc.playTime + 1 }
      ({ s with acc := a }, if a.onTime = 0 ∧ a.offTime > 0 then [restEvent] else [])
    else if s.acc.offTime > 0 then
      ({ s with acc := { s.acc with offTime := s.acc.offTime - 1, playTime := s.acc.playTime + 1 } }, [])
    else (s, [])
  let (s2, w2) := settleO song root pd false settleFuel s1
  (s2, w1 ++ w2)

def playTick (song : Song) (root : List Event) (pd : Int → Bool) (s : PS) : PS :=
  (playTickO song root pd s).1

/-- the `while(ticks && is_enabled())` loop of `Player::skip_ticks` followed by
`play_time += ticks` -/
def skipLoopO (song : Song) (root : List Event) (pd : Int → Bool) : Nat → Nat → PS → PS × List Event
  | 0, ticks, s => ({ s with acc := { s.acc with playTime := s.acc.playTime + ticks } }, [])
  | fuel + 1, ticks, s =>
    if s.err.isSome then (s, []) else
    if ticks = 0 ∨ s.acc.enabled = false then
      ({ s with acc := { s.acc with playTime := s.acc.playTime + ticks } }, [])
    else if s.acc.onTime > 0 then
      if s.acc.onTime > ticks then
        ({ s with acc := { s.acc with onTime := s.acc.onTime - ticks, playTime := s.acc.playTime + ticks } }, [])
      else
        let t' := ticks - s.acc.onTime
        let s1 := { s with acc := { s.acc with onTime := 0, playTime := s.acc.playTime + s.acc.onTime } }
        let (s2, w) := settleO song root pd (t' ≠ 0) settleFuel s1
        let (s3, w3) := skipLoopO song root pd fuel t' s2
        (s3, w ++ w3)
    else if s.acc.offTime > 0 then
      if s.acc.offTime > ticks then
        ({ s with acc := { s.acc with offTime := s.acc.offTime - ticks, playTime := s.acc.playTime + ticks } }, [])
      else
        let t' := ticks - s.acc.offTime
        let s1 := { s with acc := { s.acc with offTime := 0, playTime := s.acc.playTime + s.acc.offTime } }
        let (s2, w) := settleO song root pd (t' ≠ 0) settleFuel s1
        let (s3, w3) := skipLoopO song root pd fuel t' s2
        (s3, w ++ w3)
    else
      let (s2, w) := settleO song root pd (ticks ≠ 0) settleFuel s
      let (s3, w3) := skipLoopO song root pd fuel ticks s2
      (s3, w ++ w3)

/-- `Player::skip_ticks` -/
def skipTicksO (song : Song) (root : List Event) (pd : Int → Bool) (ticks : Nat) (s : PS) : PS × List Event :=
  if s.err.isSome then (s, []) else
  if s.acc.enabled = false then ({ s with acc := { s.acc with playTime := s.acc.playTime + ticks } }, [])
  else skipLoopO song root pd (ticks + 2) ticks s

def skipTicks (song : Song) (root : List Event) (pd : Int → Bool) (ticks : Nat) (s : PS) : PS :=
  (skipTicksO song root pd ticks s).1

/-- `get_loop_count()` -/
def loopCountOf (s : PS) : Int := min s.acc.loopResetCount s.acc.loopCount

end Ctrmml.PlayerCh
