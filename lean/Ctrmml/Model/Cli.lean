/-
  Model of the PURE logic of the two command-line tools, mirroring the code as it is:

    src/mmlc.cpp              main (argument loop, format lookup, exit status), output_filename
    src/platform/mdslink.cpp  main (argument loop, exit status), get_extension, get_filename
    src/stringf.cpp           iequal

  Strings are `List Char` (`Str`).  Everything the tools obtain from the library (parsing,
  validating, optimising, exporting, linking) and from the file system is an *oracle*
  argument (`MmlcLib`, `LinkLib`, `writable`): C19 is about what the tools do with those
  answers, not about the answers.

  C-level facts made explicit (so that "never crashes" can be stated and has to be proved):
  * `argv[i]` is read through `argAt`: index `argc` is the terminating NULL pointer, assigning
    it to a `std::string` is undefined behaviour (`Foreign.nullString`); beyond that is out of
    bounds (`Foreign.oob`).  The loops are written with the index arithmetic of the C++
    (`arg`, `++arg`), not by pattern matching on the list, so that the bound checks of the code
    are what keeps the model away from `nullString`.
  * `std::string::substr(pos, n)` throws `std::out_of_range` when `pos > size`
    (`Foreign.uncaught`), and `size_t` arithmetic in `get_filename` wraps modulo 2^64.
  * `return -1` from `main` is exit status 255 (`Tables.cli_fail_status`).
  * A `std::ofstream` that cannot be opened is not diagnosed by either tool: the status is
    still 0 and no file appears (`Result.files`).
  * `std::tolower` is modelled on `'A'..'Z'` only ("C" locale; bytes ≥ 0x80 are passed to
    `tolower` as negative `int`s by `iequal`, which glibc tolerates).

  The functions `…V0` are the code as it was before the `fix:` commits recorded in
  known_findings.txt (D13); they are kept only for the counterexample theorems.
-/
import Ctrmml.Generated.Tables
namespace Ctrmml.Cli
open Ctrmml.Tables

abbrev Str := List Char

/-- undefined behaviour / abnormal termination sites -/
inductive Foreign
  | nullString   -- std::string assigned from argv[argc] == NULL
  | oob          -- argv read beyond argc
  | nullDeref    -- strncat(NULL, …)
  | bufOverflow  -- access beyond the 256-byte static buffer
  | uncaught     -- exception that no handler catches (terminate)
  | fuel         -- the model's loop fuel ran out (proved impossible)
  deriving DecidableEq, Repr

/-- bytes produced by the library, opaque here: a size and an identity -/
structure Blob where
  size : Nat
  tag : String
  deriving DecidableEq, Repr

/-- how a library call failed: `InputError` or any other `std::exception` -/
inductive LibErr | input | other
  deriving DecidableEq, Repr

/-- what a finished process did -/
structure Result where
  status : Nat
  stderr : Bool                    -- something was written to stderr
  writes : List (Str × Blob)       -- ofstream(name) + write(bytes), in program order
  deriving DecidableEq, Repr

inductive Outcome
  | done (r : Result)
  | foreign (k : Foreign)
  deriving DecidableEq, Repr

/-- the files that exist afterwards, given which names can be opened for writing -/
def Result.files (r : Result) (writable : Str → Bool) : List (Str × Blob) :=
  r.writes.filter fun w => writable w.1

def failR (ws : List (Str × Blob) := []) : Result := { status := cli_fail_status, stderr := true, writes := ws }
/-- `print_usage` (stdout) + `return -1` -/
def helpR : Result := { status := cli_fail_status, stderr := false, writes := [] }

/-- `argv[i]` converted to `std::string` -/
def argAt (argv : List Str) (i : Nat) : Except Foreign Str :=
  match argv[i]? with
  | some s => .ok s
  | none => if i = argv.length then .error .nullString else .error .oob

/-! ### stringf.cpp -/

def toLowerC (c : Char) : Char :=
  if 'A'.toNat ≤ c.toNat ∧ c.toNat ≤ 'Z'.toNat then Char.ofNat (c.toNat + 32) else c

/-- `iequal`: same length and `tolower`-equal element by element -/
def iequal : Str → Str → Bool
  | [], [] => true
  | a :: as, b :: bs => toLowerC a == toLowerC b && iequal as bs
  | _, _ => false

/-! ### string searching -/

/-- `rfind(c)` / `strrchr`: index of the last `c` -/
def lastIdx (c : Char) : Str → Option Nat
  | [] => none
  | x :: xs =>
    match lastIdx c xs with
    | some i => some (i + 1)
    | none => if x = c then some 0 else none

/-! ### mmlc -/

/-- `output_filename` (after the fixes): the last dot is cut unless a '/' follows it -/
def outputFilename (inp ext : Str) : Str :=
  let str :=
    match lastIdx '.' inp with
    | some d => if (inp.drop d).contains '/' then inp else inp.take d
    | none => inp
  str ++ ['.'] ++ ext

/-- `output_filename` as it was (D13): 256-byte static buffer, `strrchr` over the whole path,
`strncat(last_dot, …)` with `last_dot == NULL` when there is no dot.  Lengths in characters
(= bytes for ASCII names). -/
def outputFilenameV0 (inp ext : Str) : Except Foreign Str :=
  if inp.length ≥ 256 then .error .bufOverflow            -- strncpy leaves no terminator, strrchr reads on
  else
    match lastIdx '.' inp with
    | none => .error .nullDeref                            -- strncat(NULL, ".", 256)
    | some d =>
      let r := inp.take d ++ ['.'] ++ ext
      if r.length ≥ 256 then .error .bufOverflow           -- strncat writes past str[255]
      else .ok r

structure MmlcOpts where
  inFile : Str := []
  outFile : Str := []
  format : Str := []
  optimize : Bool := false
  verbose : Bool := false
  defaultArgs : Nat := 0
  deriving DecidableEq, Repr

inductive Parsed (α : Type)
  | opts (o : α)
  | exit (help : Bool)      -- main returns before touching the library: usage text (help) or a diagnosed argument error
  deriving Repr

/-- the argument loop of `mmlc` `main`; `fuel` bounds the number of iterations -/
def mmlcArgs (argv : List Str) : Nat → Nat → MmlcOpts → Except Foreign (Parsed MmlcOpts)
  | 0, arg, o => if arg < argv.length then .error .fuel else .ok (.opts o)
  | fuel + 1, arg, o =>
    if arg < argv.length then
      match argAt argv arg with
      | .error f => .error f
      | .ok a =>
        if cli_mmlc_needs_operand.contains a && arg + 1 ≥ argv.length then .ok (.exit false)
        else if cli_mmlc_out.contains a && arg < argv.length then
          match argAt argv (arg + 1) with
          | .error f => .error f
          | .ok v => mmlcArgs argv fuel (arg + 2) { o with outFile := v }
        else if cli_mmlc_fmt.contains a && arg < argv.length then
          match argAt argv (arg + 1) with
          | .error f => .error f
          | .ok v => mmlcArgs argv fuel (arg + 2) { o with format := v }
        else if cli_mmlc_opt.contains a then mmlcArgs argv fuel (arg + 1) { o with optimize := true }
        else if cli_mmlc_verbose.contains a then mmlcArgs argv fuel (arg + 1) { o with verbose := true }
        else if cli_mmlc_help.contains a then .ok (.exit true)
        else if o.defaultArgs < 1 then
          mmlcArgs argv fuel (arg + 1) { o with defaultArgs := o.defaultArgs + 1, inFile := a }
        else mmlcArgs argv fuel (arg + 1) o
    else .ok (.opts o)

/-- the loop as it was (D13): no operand check before `argv[++arg]` -/
def mmlcArgsV0 (argv : List Str) : Nat → Nat → MmlcOpts → Except Foreign (Parsed MmlcOpts)
  | 0, arg, o => if arg < argv.length then .error .fuel else .ok (.opts o)
  | fuel + 1, arg, o =>
    if arg < argv.length then
      match argAt argv arg with
      | .error f => .error f
      | .ok a =>
        if cli_mmlc_out.contains a && arg < argv.length then
          match argAt argv (arg + 1) with
          | .error f => .error f
          | .ok v => mmlcArgsV0 argv fuel (arg + 2) { o with outFile := v }
        else if cli_mmlc_fmt.contains a && arg < argv.length then
          match argAt argv (arg + 1) with
          | .error f => .error f
          | .ok v => mmlcArgsV0 argv fuel (arg + 2) { o with format := v }
        else if cli_mmlc_opt.contains a then mmlcArgsV0 argv fuel (arg + 1) { o with optimize := true }
        else if cli_mmlc_verbose.contains a then mmlcArgsV0 argv fuel (arg + 1) { o with verbose := true }
        else if cli_mmlc_help.contains a then .ok (.exit true)
        else if o.defaultArgs < 1 then
          mmlcArgsV0 argv fuel (arg + 1) { o with defaultArgs := o.defaultArgs + 1, inFile := a }
        else mmlcArgsV0 argv fuel (arg + 1) o
    else .ok (.opts o)

/-- the format lookup loop of `main`: returns the (possibly defaulted) format string and the
index at which the loop stopped (`= list length` when nothing matched) -/
def findFormat : List Str → Str → Nat → Str × Nat
  | [], f, n => (f, n)
  | x :: xs, f, n =>
    let f' := if f = [] then x else f
    if iequal x f' then (f', n) else findFormat xs f' (n + 1)

/-- what the library answers for one input file (oracle) -/
structure MmlcLib where
  /-- `convert_file`: `MML_Input::open_file` + `Song_Validator`; on success the names of the
  platform's export formats -/
  convert : Str → Except LibErr (List Str)
  /-- `Optimizer(song).optimize()` -/
  optimize : Str → Except LibErr Unit
  /-- `get_export_data(song, format_id)` of the (optimised?) song -/
  exportData : Str → Bool → Nat → Except LibErr Blob

/-- `mmlc` `main` (after the fixes: every `std::exception` is reported) -/
def mmlcMain (lib : MmlcLib) (argv : List Str) : Outcome :=
  match mmlcArgs argv argv.length 1 {} with
  | .error f => .foreign f
  | .ok (.exit help) => .done (if help then helpR else failR)
  | .ok (.opts o) =>
    if o.inFile = [] then .done failR
    else
      match lib.convert o.inFile with
      | .error _ => .done failR
      | .ok fmts =>
        let (format, id) := findFormat fmts o.format 0
        if id = fmts.length then .done failR
        else
          let outName := if o.outFile = [] then outputFilename o.inFile format else o.outFile
          match (if o.optimize then lib.optimize o.inFile else .ok ()) with
          | .error _ => .done failR
          | .ok _ =>
            match lib.exportData o.inFile o.optimize id with
            | .error _ => .done failR
            | .ok b => .done { status := 0, stderr := false, writes := if b.size ≠ 0 then [(outName, b)] else [] }

/-! ### mdslink -/

def npos : Nat := 2 ^ 64 - 1

/-- `std::string::substr(pos, n)` -/
def substr (s : Str) (pos n : Nat) : Except Foreign Str :=
  if pos > s.length then .error .uncaught else .ok ((s.drop pos).take n)

/-- `get_extension`: from the last dot (included) to the end -/
def getExtension (s : Str) : Str :=
  match lastIdx '.' s with
  | some p => s.drop p
  | none => []

/-- `get_filename` with its `size_t` arithmetic (POSIX build: only '/' separates) -/
def getFilename (s : Str) : Except Foreign Str :=
  let epos := (lastIdx '.' s).getD npos
  match lastIdx '/' s with
  | some spos => substr s (spos + 1) ((epos + 2 ^ 64 - spos - 1) % 2 ^ 64)
  | none => substr s 0 epos

structure LinkOpts where
  inputs : List Str := []          -- in command-line order
  seq : Str := cli_link_seq_default
  pcm : Str := cli_link_pcm_default
  cHeader : Str := []
  asmHeader : Str := []
  deriving DecidableEq, Repr

def linkArgs (argv : List Str) : Nat → Nat → LinkOpts → Except Foreign (Parsed LinkOpts)
  | 0, arg, o => if arg < argv.length then .error .fuel else .ok (.opts o)
  | fuel + 1, arg, o =>
    if arg < argv.length then
      match argAt argv arg with
      | .error f => .error f
      | .ok a =>
        let operands := if cli_link_two_operands.contains a then 2 else if cli_link_one_operand.contains a then 1 else 0
        if arg + operands ≥ argv.length then .ok (.exit false)
        else if cli_link_out.contains a && arg + 1 < argv.length then
          match argAt argv (arg + 1), argAt argv (arg + 2) with
          | .ok s, .ok p => linkArgs argv fuel (arg + 3) { o with seq := s, pcm := p }
          | .error f, _ => .error f
          | _, .error f => .error f
        else if cli_link_cheader.contains a && arg < argv.length then
          match argAt argv (arg + 1) with
          | .error f => .error f
          | .ok v => linkArgs argv fuel (arg + 2) { o with cHeader := v }
        else if cli_link_asmheader.contains a && arg < argv.length then
          match argAt argv (arg + 1) with
          | .error f => .error f
          | .ok v => linkArgs argv fuel (arg + 2) { o with asmHeader := v }
        else linkArgs argv fuel (arg + 1) { o with inputs := o.inputs ++ [a] }
    else .ok (.opts o)

/-- the loop as it was (D13): `-o` checked for one operand only, `-h`/`-i` not at all -/
def linkArgsV0 (argv : List Str) : Nat → Nat → LinkOpts → Except Foreign (Parsed LinkOpts)
  | 0, arg, o => if arg < argv.length then .error .fuel else .ok (.opts o)
  | fuel + 1, arg, o =>
    if arg < argv.length then
      match argAt argv arg with
      | .error f => .error f
      | .ok a =>
        if cli_link_out.contains a && arg + 1 < argv.length then
          match argAt argv (arg + 1), argAt argv (arg + 2) with
          | .ok s, .ok p => linkArgsV0 argv fuel (arg + 3) { o with seq := s, pcm := p }
          | .error f, _ => .error f
          | _, .error f => .error f
        else if cli_link_cheader.contains a && arg < argv.length then
          match argAt argv (arg + 1) with
          | .error f => .error f
          | .ok v => linkArgsV0 argv fuel (arg + 2) { o with cHeader := v }
        else if cli_link_asmheader.contains a && arg < argv.length then
          match argAt argv (arg + 1) with
          | .error f => .error f
          | .ok v => linkArgsV0 argv fuel (arg + 2) { o with asmHeader := v }
        else linkArgsV0 argv fuel (arg + 1) { o with inputs := o.inputs ++ [a] }
    else .ok (.opts o)

/-- one input of the linker as `main` hands it to the library: path, "is read as .mds",
song name passed to `add_song` -/
structure LinkItem where
  path : Str
  isMds : Bool
  name : Str
  deriving DecidableEq, Repr

/-- what the library answers for a list of inputs (oracle): the loading loop (compile or
read + `add_song` for every item) and the four generators, each called at most once and in
this order by `main` -/
structure LinkLib where
  load : List LinkItem → Except LibErr Unit
  seq : List LinkItem → Except LibErr Blob
  pcm : List LinkItem → Except LibErr Blob
  asmHeader : List LinkItem → Except LibErr Blob
  cHeader : List LinkItem → Except LibErr Blob

def linkItems : List Str → Except Foreign (List LinkItem)
  | [] => .ok []
  | p :: ps =>
    match getFilename p, linkItems ps with
    | .ok n, .ok r => .ok ({ path := p, isMds := iequal (getExtension p) cli_link_mds_ext, name := n } :: r)
    | .error f, _ => .error f
    | _, .error f => .error f

/-- the output phase: each requested file is generated and written in turn; a failing
generator ends the run with the files written so far -/
def linkWrite (acc : List (Str × Blob)) : List (Str × Except LibErr Blob) → Result
  | [] => { status := 0, stderr := false, writes := acc }
  | (name, gen) :: rest =>
    if name = [] then linkWrite acc rest
    else
      match gen with
      | .error _ => failR acc
      | .ok b => linkWrite (acc ++ [(name, b)]) rest

/-- `mdslink` `main` (after the fixes) -/
def linkMain (lib : LinkLib) (argv : List Str) : Outcome :=
  match linkArgs argv argv.length 1 {} with
  | .error f => .foreign f
  | .ok (.exit help) => .done (if help then helpR else failR)
  | .ok (.opts o) =>
    if o.inputs = [] then .done failR
    else
      match linkItems o.inputs with
      | .error _ => .done failR        -- std::out_of_range from substr: reported like any std::exception
      | .ok items =>
        match lib.load items with
        | .error _ => .done failR
        | .ok _ =>
          .done (linkWrite [] [(o.seq, lib.seq items), (o.pcm, lib.pcm items),
                               (o.asmHeader, lib.asmHeader items), (o.cHeader, lib.cHeader items)])

end Ctrmml.Cli
