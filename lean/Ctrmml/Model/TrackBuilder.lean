/-
  class Track of /repo/src/track.cpp + track.h — the event builder behind the MML reader
  (shared by C05, C06, C17).  One Lean definition per C++ member function, code as it is.

  Representation
  * `uint16_t` members and arguments are `UInt16` and every `uint16_t` operation wraps exactly
    like the C++ (`old_duration + duration`, `it->on_time += it->off_time`, `duration - on_time`,
    `on_time(new) - old`, …).
  * `int16_t` members (`shuffle`, `echo_volume`, `Event::param`) are `Int` kept in range by
    `wrapS16` at every store; `int` members (`octave`, the `note` argument) are `Int`.  Since the
    repairs a16b488 / a22a11c the octave arithmetic is done in `unsigned` and converted back:
    `add_note` stores `(int)((unsigned)note + (unsigned)octave * 12u)` = `wrapS32 (note + octave*12)`
    and `change_octave` stores `(int)((unsigned)octave + (unsigned)param)` = `wrapS32 (octave + param)`
    (two's complement, 32 bit).  The one `int` addition left is `note += drum_mode` (drum mode):
    `Track.opUB` says when it would overflow (undefined behaviour; UBSan aborts) and
    `Track.applyOp` reports `ub:signed-overflow` there — reachable through the API only
    (`read_note` hands `add_note` a value in −1..12, `drum_mode` is a `uint16_t`).
  * `uint8_t sharp_mask/flat_mask` are `Nat < 256`.
  * `std::vector<Event> events` is stored NEWEST FIRST in `revEvents` (`add_event` = cons;
    the reverse-iterator walks of `add_slur` / `reverse_rest` are structural recursion from
    the head).  `Track.events` is the vector in C++ order; `Track.getEvents` the same as
    `Ctrmml.Event`s.  `last_note_pos` (`int`, −1 = none) is `Option Nat` holding the C++ index.
  * every event carries `ref`, the `reference` member at the time of `add_event`
    (`set_reference`), for C17.  `Event::play_time` is not modelled (set by players).
  * `std::deque<uint16_t> echo_buffer` is a `List UInt16`, front first.

  Narrowings made explicit (diff them against the source)
  * `add_event(type, int16_t param, …)`                       `wrapS16 param`
  * `add_note`: `(int)((unsigned)note + (unsigned)octave*12u)`   `wrapS32 (note + octave*12)`
  * `change_octave`: `(int)((unsigned)octave + (unsigned)param)` `wrapS32 (octave + param)`
  * `add_note`: `push_echo_note(uint16_t note)` from `int`      `UInt16.ofNat (wrapU16 note)`
  * `add_shuffle`: `uint16_t` return of `int duration+shuffle`   `UInt16.ofNat` (mod 65536)
  * `shuffle = -shuffle` on `int16_t`                            `wrapS16 (-s)`  (−32768 stays)
  * `on_time`: `uint16_t` return of `int (d*quantize)/parts`     `UInt16.ofNat`
  * `add_echo`: `add_event(NOTE, uint16_t note)`, `-echo_volume`  `wrapS16`
  * `set_drum_mode`: `add_event(DRUM_MODE, uint16_t param)`      `wrapS16`
  * `modify/get_key_signature`: `note = tolower(note) - 'a'` on `char`   `wrapS8`

  Sites that are not `InputError`s
  * `modify_key_signature` / `get_key_signature` throw `std::invalid_argument` for a letter
    above `h` (`KeyRes.invalidArgument`) and shift by a negative amount for a character below
    `a` (`KeyRes.ubShift`: undefined behaviour).
  * `reverse_rest` throws `std::length_error` / `std::domain_error` AFTER negating `shuffle`.
  * `on_time` divides by `quantize_parts`, which is never 0 (`set_quantize` refuses 0; initial 8);
    `d*quantize` is an `int` product: no overflow while `quantize <= 32768` (MML: always <= 8).
  * `add_tie` uses `events.at(last_note_pos)`; `last_note_pos` is always a valid index
    (`Track.Wf`, preserved by every operation), the impossible branch leaves the track unchanged.
-/
import Ctrmml.Model.Event
import Ctrmml.Model.Lexer
namespace Ctrmml.TrackBuilder
open Ctrmml.Tables Ctrmml.Lexer

/-- `struct Event` as stored by the builder -/
structure BEvent where
  type : Nat
  param : Int
  on : UInt16
  off : UInt16
  ref : Option Ref
  deriving DecidableEq, Repr, Inhabited

def BEvent.toEvent (e : BEvent) : Event :=
  { type := e.type, param := e.param, on := e.on.toNat, off := e.off.toNat }

structure Track where
  drumMode : UInt16
  revEvents : List BEvent
  lastNotePos : Option Nat
  octave : Int
  measureLen : UInt16
  defaultDuration : UInt16
  quantize : UInt16
  quantizeParts : UInt16
  earlyRelease : UInt16
  shuffle : Int
  sharpMask : Nat
  flatMask : Nat
  echoDelay : UInt16
  echoVolume : Int
  echoBuffer : List UInt16
  reference : Option Ref
  deriving DecidableEq, Repr, Inhabited

namespace Track

/-- `Track::Track(ppqn)` -/
def new (ppqn : Nat := trackDefaultMeasureLen / trackCtorPpqnDivisor) : Track :=
  let ml : UInt16 := UInt16.ofNat (ppqn * trackCtorMeasureMul)
  { drumMode := 0, revEvents := [], lastNotePos := none, octave := trackDefaultOctave,
    measureLen := ml, defaultDuration := ml / UInt16.ofNat trackCtorDurationDiv,
    quantize := UInt16.ofNat trackDefaultQuantize, quantizeParts := UInt16.ofNat trackDefaultQuantizeParts,
    earlyRelease := 0, shuffle := 0, sharpMask := 0, flatMask := 0, echoDelay := 0, echoVolume := 0,
    echoBuffer := [], reference := none }

/-- the event vector in C++ order -/
def events (t : Track) : List BEvent := t.revEvents.reverse
/-- `Track::get_events()` as `Ctrmml.Event`s -/
def getEvents (t : Track) : List Event := t.events.map BEvent.toEvent
/-- `Track::get_event_count()` -/
def getEventCount (t : Track) : Nat := t.revEvents.length

/-- `Track::add_event(type,param,on_time,off_time)` -/
def addEvent (t : Track) (type : Nat) (param : Int := 0) (on off : UInt16 := 0) : Track :=
  { t with revEvents := { type := type, param := wrapS16 param, on := on, off := off, ref := t.reference } :: t.revEvents }

/-- `Track::set_reference` -/
def setReference (t : Track) (r : Option Ref) : Track := { t with reference := r }

/-- `Track::in_drum_mode` -/
def inDrumMode (t : Track) : Bool := t.drumMode != 0

/-- `Track::get_duration(duration)` -/
def getDuration (t : Track) (d : UInt16 := 0) : UInt16 := if d == 0 then t.defaultDuration else d

def getMeasureLen (t : Track) : UInt16 := t.measureLen
def getShuffle (t : Track) : Int := t.shuffle
def getEchoDelay (t : Track) : UInt16 := t.echoDelay
def getEchoVolume (t : Track) : Int := t.echoVolume

/-- `Track::on_time(duration)` -/
def onTime (t : Track) (d : UInt16) : UInt16 :=
  if t.earlyRelease != 0 then
    if t.earlyRelease ≥ d then 1 else d - t.earlyRelease
  else UInt16.ofNat (d.toNat * t.quantize.toNat / t.quantizeParts.toNat)

/-- `Track::off_time(duration)` -/
def offTime (t : Track) (d : UInt16) : UInt16 := d - t.onTime d

/-- `Track::add_shuffle(duration)` ("with underflow clamping") -/
def addShuffle (t : Track) (d : UInt16) : UInt16 :=
  if (d.toNat : Int) + t.shuffle < 0 then 0 else UInt16.ofNat ((d.toNat : Int) + t.shuffle).toNat

/-- `shuffle = -shuffle;` -/
def flipShuffle (t : Track) : Track := { t with shuffle := wrapS16 (-t.shuffle) }

/-- `Track::push_echo_note(note)` -/
def pushEchoNote (t : Track) (note : UInt16) : Track :=
  { t with echoBuffer := (note :: t.echoBuffer).take trackEchoBufferSize }

/-- the `int` value `add_note` stores: `(int)((unsigned)note + (unsigned)octave * 12u)` (wraps
to 32 bits, fix a16b488) or `note + drum_mode` -/
def notePitch (t : Track) (note : Int) : Int :=
  if !t.inDrumMode then wrapS32 (note + t.octave * 12) else note + t.drumMode.toNat

/-- `Track::add_note(note,duration)` -/
def addNote (t : Track) (note : Int) (duration : UInt16 := 0) : Track :=
  let d := t.addShuffle (t.getDuration duration)
  let t := t.flipShuffle
  let n := t.notePitch note
  let t := t.pushEchoNote (UInt16.ofNat (wrapU16 n))
  let t := { t with lastNotePos := some t.revEvents.length }
  t.addEvent ev_NOTE n (t.onTime d) (t.offTime d)

/-- modify the event at C++ index `p` -/
def modifyAt (t : Track) (p : Nat) (f : BEvent → BEvent) : Track :=
  { t with revEvents := t.revEvents.modify (t.revEvents.length - 1 - p) f }

/-- which of the cases of `add_tie` ran (for the branch histogram and the lemmas) -/
inductive TieCase | extend | splitTie | splitRest | fresh | impossible
  deriving DecidableEq, Repr

def tieCase (t : Track) (duration : UInt16) : TieCase :=
  let d := t.addShuffle (t.getDuration duration)
  match t.lastNotePos with
  | none => .fresh
  | some p =>
    if p ≥ t.revEvents.length then .impossible else
    match t.revEvents[t.revEvents.length - 1 - p]? with
    | none => .impossible
    | some last =>
      let old := last.on + last.off
      let new := old + d
      if p + 1 = t.revEvents.length then .extend
      else if t.onTime new > old then .splitTie else .splitRest

/-- `Track::add_tie(duration)` (always returns 0) -/
def addTie (t : Track) (duration : UInt16 := 0) : Track :=
  let d := t.addShuffle (t.getDuration duration)
  let t := t.flipShuffle
  match t.lastNotePos with
  | none => t.addEvent ev_TIE 0 (t.onTime d) (t.offTime d)
  | some p =>
    if p ≥ t.revEvents.length then t else
    match t.revEvents[t.revEvents.length - 1 - p]? with
    | none => t
    | some last =>
      let old := last.on + last.off
      let new := old + d
      if p + 1 = t.revEvents.length then
        t.modifyAt p fun e => { e with on := t.onTime new, off := t.offTime new }
      else if t.onTime new > old then
        let n := t.revEvents.length
        let t := t.modifyAt p fun e => { e with on := old, off := 0 }
        let t := { t with lastNotePos := some n }
        t.addEvent ev_TIE 0 (t.onTime new - old) (t.offTime new)
      else
        let t := t.modifyAt p fun e => { e with on := t.onTime new, off := old - t.onTime new }
        let t := { t with lastNotePos := none }
        t.addEvent ev_REST 0 0 d

/-- `Track::add_rest(duration)` -/
def addRest (t : Track) (duration : UInt16 := 0) : Track :=
  let d := t.addShuffle (t.getDuration duration)
  let t := t.flipShuffle
  let t := t.pushEchoNote 0
  t.addEvent ev_REST 0 0 d

/-- the reverse-iterator walk of `add_slur`: `some l'` = a NOTE/TIE was made legato (return 0),
`none` = return −1 -/
def slurBack : List BEvent → Option (List BEvent)
  | [] => none
  | e :: es =>
    if e.type = ev_NOTE ∨ e.type = ev_TIE then some ({ e with on := e.on + e.off, off := 0 } :: es)
    else if e.type = ev_REST ∨ e.type = ev_SEGNO ∨ e.type = ev_LOOP_END then none
    else (slurBack es).map (e :: ·)

/-- `Track::add_slur()`: the track and the return value (0 / −1) -/
def addSlur (t : Track) : Track × Int :=
  let t := t.addEvent ev_SLUR
  match slurBack t.revEvents with
  | some l => ({ t with revEvents := l }, 0)
  | none => (t, -1)

/-- `Track::add_echo(duration)` -/
def addEcho (t : Track) (duration : UInt16) : Track :=
  let d := t.addShuffle (t.getDuration duration)
  let t := t.flipShuffle
  let t := if t.echoVolume != 0 then t.addEvent ev_VOL_REL (-t.echoVolume) 0 0 else t
  let t :=
    if t.echoDelay == 0 || t.echoBuffer.length < t.echoDelay.toNat then t.addEvent ev_REST 0 0 d
    else
      let note := t.echoBuffer[t.echoDelay.toNat - 1]?.getD 0
      if note == 0 then t.addEvent ev_REST 0 0 d
      else
        let t := { t with lastNotePos := some t.revEvents.length }
        t.addEvent ev_NOTE note.toNat (t.onTime d) (t.offTime d)
  if t.echoVolume != 0 then t.addEvent ev_VOL_REL t.echoVolume 0 0 else t

inductive RRes | done | lengthError | domainError
  deriving DecidableEq, Repr

/-- the reverse-iterator walk of `reverse_rest` -/
def rrBack (d : UInt16) : List BEvent → RRes × List BEvent
  | [] => (.domainError, [])
  | e :: es =>
    if e.type = ev_NOTE ∨ e.type = ev_TIE ∨ e.type = ev_REST then
      if d > e.off then
        if d - e.off < e.on then (.done, { e with off := 0, on := e.on - (d - e.off) } :: es)
        else (.lengthError, e :: es)
      else (.done, { e with off := e.off - d } :: es)
    else if e.type = ev_SEGNO ∨ e.type = ev_LOOP_END then (.domainError, e :: es)
    else
      let (r, es') := rrBack d es
      (r, e :: es')

/-- `Track::reverse_rest(duration)`: `.lengthError` = `std::length_error`, `.domainError` =
`std::domain_error`; the shuffle sign is flipped in every case -/
def reverseRest (t : Track) (duration : UInt16 := 0) : Track × RRes :=
  let t := t.flipShuffle
  ({ t with revEvents := (rrBack duration t.revEvents).2 }, (rrBack duration t.revEvents).1)

def setOctave (t : Track) (p : Int) : Track := { t with octave := p }
/-- `Track::change_octave(param)`: `octave = (int)((unsigned)octave + (unsigned)param)` (fix a22a11c) -/
def changeOctave (t : Track) (p : Int) : Track := { t with octave := wrapS32 (t.octave + p) }
def setDuration (t : Track) (p : UInt16) : Track := { t with defaultDuration := p }

/-- `Track::set_quantize(param, parts)`: track and return value -/
def setQuantize (t : Track) (param : UInt16) (parts : UInt16 := UInt16.ofNat trackSetQuantizeDefaultParts) : Track × Int :=
  if param > parts || parts == 0 then (t, -1)
  else
    let param := if param == 0 then parts else param
    ({ t with quantize := param, quantizeParts := parts, earlyRelease := 0 }, 0)

def setEarlyRelease (t : Track) (p : UInt16) : Track :=
  { t with quantize := t.quantizeParts, earlyRelease := p }

def setDrumMode (t : Track) (p : UInt16) : Track :=
  ({ t with drumMode := p }).addEvent ev_DRUM_MODE p.toNat

def setEcho (t : Track) (delay : UInt16) (volume : Int) : Track :=
  let delay := if delay > UInt16.ofNat trackEchoBufferSize then UInt16.ofNat trackEchoBufferSize else delay
  { t with echoDelay := delay, echoVolume := wrapS16 volume }

def clearEchoBuffer (t : Track) : Track := { t with echoBuffer := [] }
def setMeasureLen (t : Track) (p : UInt16) : Track := { t with measureLen := p }
def setShuffle (t : Track) (p : Int) : Track := { t with shuffle := wrapS16 p }

/-! ### key signature -/

inductive KeyRes (α : Type) | ok (a : α) | invalidArgument (a : α) | ubShift
  deriving Repr

def bit (n : Nat) : Nat := 2 ^ n
def clearBit (m n : Nat) : Nat := if m / bit n % 2 = 1 then m - bit n else m
def setBit (m n : Nat) : Nat := if m / bit n % 2 = 1 then m else m + bit n
def testBit (m n : Nat) : Bool := m / bit n % 2 = 1

/-- `note = std::tolower(note) - 'a'` on a `char` -/
def noteIndex (note : Int) : Int := wrapS8 (toLower note - 97)

/-- `Track::modify_key_signature(note, modifier)`; `.invalidArgument t'` carries the track as
the C++ leaves it when it throws -/
def modifyKeySignature (t : Track) (note : Int) (modifier : Int) : KeyRes Track :=
  let n := noteIndex note
  if n > 7 then .invalidArgument t
  else if n < 0 then .ubShift
  else
    let k := n.toNat
    let t := { t with sharpMask := clearBit t.sharpMask k, flatMask := clearBit t.flatMask k }
    if modifier = 1 then .ok { t with sharpMask := setBit t.sharpMask k }
    else if modifier = -1 then .ok { t with flatMask := setBit t.flatMask k }
    else if modifier ≠ 0 then .invalidArgument t
    else .ok t

/-- `Track::get_key_signature(note)` -/
def getKeySignature (t : Track) (note : Int) : KeyRes Int :=
  let n := noteIndex note
  if n > 7 then .invalidArgument 0
  else if n < 0 then .ubShift
  else if testBit t.sharpMask n.toNat then .ok 1
  else if testBit t.flatMask n.toNat then .ok (-1)
  else .ok 0

/-- the characters the `do … while(k)` loop of `set_key_signature` handles: `k = *key` first,
then `k = *key++` re-reads the first character -/
def keySigHandled : List Nat → List Nat
  | [] => [0]
  | k :: rest => k :: k :: rest

def keySigLoop (t : Track) (modifier : Int) : List Nat → KeyRes Track
  | [] => .ok t
  | k :: ks =>
    let c := schar k
    if c = 43 then keySigLoop t 1 ks
    else if c = 45 then keySigLoop t (-1) ks
    else if c = 61 then keySigLoop t 0 ks
    else if isAlpha c then
      match t.modifyKeySignature c modifier with
      | .ok t' => keySigLoop t' modifier ks
      | r => r
    else .invalidArgument t

/-- `Track::set_key_signature(key)`; `key` = the bytes of the C string (no NUL inside) -/
def setKeySignature (t : Track) (key : List Nat) : KeyRes Track :=
  let k : Int := match key with
    | [] => 0
    | k :: _ => schar k
  if isAlpha k then
    match keySignatureTable.find? (fun r => strBytes r.2.2.1 == key || strBytes r.2.2.2 == key) with
    | some r => .ok { t with sharpMask := r.1, flatMask := r.2.1 }
    | none => .invalidArgument t
  else keySigLoop t 0 (keySigHandled key)

/-! ### the public API as data (stream `track.api`, and the command level of the C05 spec) -/

inductive Op
  | addEvent (type : Nat) (param : Int) (on off : UInt16)
  | addNote (note : Int) (d : UInt16)
  | addTie (d : UInt16)
  | addRest (d : UInt16)
  | addSlur
  | addEcho (d : UInt16)
  | reverseRest (d : UInt16)
  | setReference (r : Option Ref)
  | setOctave (p : Int)
  | changeOctave (p : Int)
  | setDuration (d : UInt16)
  | setQuantize (p parts : UInt16)
  | setEarlyRelease (p : UInt16)
  | setDrumMode (p : UInt16)
  | setEcho (delay : UInt16) (vol : Int)
  | clearEchoBuffer
  | setMeasureLen (p : UInt16)
  | setShuffle (p : Int)
  | setKeySignature (key : List Nat)
  | modifyKeySignature (note : Int) (modifier : Int)
  | getKeySignature (note : Int)
  deriving Repr

/-- does the C++ `int` arithmetic of the operation overflow (undefined behaviour)?  Only
`note += drum_mode` of `add_note` in drum mode is still an `int` addition. -/
def opUB (t : Track) : Op → Bool
  | .addNote note _ => t.inDrumMode && !(inInt32 (note + t.drumMode.toNat))
  | _ => false

/-- one API call: the track afterwards and what the call reported (return value or the
exception it threw); `.error` = undefined behaviour -/
def applyOp (t : Track) (op : Op) : Except Err (Track × String) :=
  if t.opUB op then .error (.foreign "ub:signed-overflow") else
  match op with
  | .addEvent ty p a b => .ok (t.addEvent ty p a b, "")
  | .addNote n d => .ok (t.addNote n d, "")
  | .addTie d => .ok (t.addTie d, "")
  | .addRest d => .ok (t.addRest d, "")
  | .addSlur => let (t', r) := t.addSlur; .ok (t', s!"slur={r}")
  | .addEcho d => .ok (t.addEcho d, "")
  | .reverseRest d =>
    match t.reverseRest d with
    | (t', .done) => .ok (t', "")
    | (t', .lengthError) => .ok (t', "exc:length_error")
    | (t', .domainError) => .ok (t', "exc:domain_error")
  | .setReference r => .ok (t.setReference r, "")
  | .setOctave p => .ok (t.setOctave p, "")
  | .changeOctave p => .ok (t.changeOctave p, "")
  | .setDuration d => .ok (t.setDuration d, "")
  | .setQuantize p parts => let (t', r) := t.setQuantize p parts; .ok (t', s!"quantize={r}")
  | .setEarlyRelease p => .ok (t.setEarlyRelease p, "")
  | .setDrumMode p => .ok (t.setDrumMode p, "")
  | .setEcho d v => .ok (t.setEcho d v, "")
  | .clearEchoBuffer => .ok (t.clearEchoBuffer, "")
  | .setMeasureLen p => .ok (t.setMeasureLen p, "")
  | .setShuffle p => .ok (t.setShuffle p, "")
  | .setKeySignature key =>
    match t.setKeySignature key with
    | .ok t' => .ok (t', "")
    | .invalidArgument t' => .ok (t', "exc:invalid_argument")
    | .ubShift => .error (.foreign "ub:shift-negative")
  | .modifyKeySignature n m =>
    match t.modifyKeySignature n m with
    | .ok t' => .ok (t', "")
    | .invalidArgument t' => .ok (t', "exc:invalid_argument")
    | .ubShift => .error (.foreign "ub:shift-negative")
  | .getKeySignature n =>
    match t.getKeySignature n with
    | .ok v => .ok (t, s!"keysig={v}")
    | .invalidArgument _ => .ok (t, "exc:invalid_argument")
    | .ubShift => .error (.foreign "ub:shift-negative")

end Track
end Ctrmml.TrackBuilder
