/-
  Model of `MDSDRV_Data` (src/platform/mdsdrv.cpp): `read_song`, `add_instrument`,
  `add_unique_data`, `add_ins_fm_4op`, `add_ins_fm_2op`, `add_ins_psg`,
  `add_pitch_envelope`, `add_extended_pitch_envelope`, `add_pitch_node`,
  `add_pitch_vibrato` — one definition per C++ function, quirks included.

  Bytes are `Nat` values < 256 (`List Nat`); every `uint8_t` narrowing of the C++ is an
  explicit `u8`:  tag_data[i] (FM, 2op), fm_data[29] = (tr+24)<<1, the packed FM fields
  (written with / and % instead of << & |), PSG `initial`/`target`/`length`/`val`,
  `0x1f - val`, the loop position bytes, the pitch node bytes; `int16_t` narrowing of
  `env_initial`/`env_delta` is `i16`.

  Floating point.  The slide computations are written over an arithmetic dictionary
  `Arith α` (the operations the C++ performs on `double`).  Three instances exist:
  `Arith.float` (Lean `Float` = IEEE-754 binary64, what the C++ runs; used by the driver;
  opaque to the kernel), `Arith.rat` (exact rationals `Q`, kernel-evaluable) and `Arith.b64`
  (`B64`: binary64 written out in Lean — sign, 53-bit significand, exponent, every operation
  the exact result rounded to nearest, ties to even, by `B64.round`; kernel-evaluable and open to
  proof; faithful wherever no result overflows, is subnormal or is a NaN, which no operation of
  this file reaches on tokens of fewer than 300 digits; the sign of zero is not kept).  The
  driver runs every request with `Arith.float` AND with `Arith.b64` and the check compares both
  with the C++.  Theorems quantify over *every* dictionary; clauses that depend on the arithmetic
  carry an explicit hypothesis about the dictionary (`Properties/C11.lean`), which is proved for
  `Arith.b64` (`C11_psg_slide_binary64`).

  Undefined behaviour in the C++ that the model makes explicit:
  * `int16_t env_initial = counter*256` with a value outside int16 (a pitch of 128 semitones or
    more in magnitude, outside the property's quantifier): modelled as what g++/x86-64 emits
    (convert to int32, keep the low 16 bits) = `i16`.
  No longer undefined (repository fixes followed by this model):
  * the per-frame step `trunc(delta*256)` of a pitch node is range-checked as a `double` before
    it is narrowed to `int16_t` (f788cbf): outside -32768..32767 `add_pitch_node` throws
    InputError (`PErr.tooSteep`), in both forms and under `noextpitch`, before the
    `invalid_argument` test and before any `push_back` of the iteration; `chunkDelta` is therefore
    the un-narrowed integer and every stored step is exactly it (or its signed-byte cap under
    `noextpitch`);
  * `add_ins_psg` throws InputError when the loop position does not fit its byte (ff36345):
    `psgEnd`; `psgFinish` (the two end commands) is only reached with `loopPos ≤ 255`;
  * `add_instrument` on an empty tag (`@1` with no type) is an InputError (696884e);
  * `add_ins_fm_2op` only accepts a base whose `ins_type` is `INS_FM` (45b84a6) — the base entry
    is then always a 30-byte FM image (`Proofs/MdsBase: FmInv`, theorem `C11_fm_base_inv`), so the former out-of-size
    indexing `fm_data[27]`/`[29]` of a PSG envelope no longer exists (`fm2opBytes` is still
    written with `mapIdx`, which on a 30-byte image is exactly the three assignments);
  * the FM transpose byte is computed in `unsigned long` (4b9aa87): `u8 ((v + 24) * 2)` for every
    `long` value `v`, `strtol` saturation included;
  * `add_pitch_vibrato` doubles the rate in `long long` (a95256a); the product is rendered with
    `%lld` and read back by `add_pitch_node` into an `int` (`i32`, implementation-defined
    conversion, modular on g++);
  * `add_pitch_node` throws InputError as soon as `env_data` holds more than 256 nodes (54bd60e):
    `PErr.tooLong`; the check sits after the `push_back`s and after the `invalid_argument` test
    of the same iteration, and is modelled in that order;
  * a loop position above 255 (256 nodes, then the mark) is an InputError in both end commands
    (1772c47): `addPitch` tests it before `pitchFinish` / `pitchFinishExt`, which therefore only
    ever see `lp ≤ 255` — the hypothesis `lp < 256` of `C11_pitch_decode_compact/_extended`.
  Narrowings of `strtol` results: `int length` / `int vibrato_rate` = `i32`; `unsigned default_len`
  = `% 2^32`; `uint8_t` = `u8`.  `strtol` saturates at `LONG_MIN`/`LONG_MAX` (`clampLong`).
  Not modelled: `pcm` instruments (Wave_Bank, property C14) → `Err.unsupported`;
  `strtod` beyond `[-]digits[.digits]` (no exponent / hex / inf / nan): a pitch envelope with a
  node or vibrato token that holds one of the letters e, x, i, n (any case) is answered
  `Err.unsupported` as a whole (`outsideStrtod`; conservative: the real `strtod` would read
  `1e9`, `0x10`, `-inf`, `-nan` there — since f788cbf an infinite or NaN step is an InputError,
  before it was an undefined conversion).
-/
import Ctrmml.Generated.Tables
namespace Ctrmml.MdsData

abbrev NBytes := List Nat

def u8 (x : Int) : Nat := (x % 256).toNat
def i16 (x : Int) : Int := (x + 32768) % 65536 - 32768
/-- `long` → `int` (g++: modular) -/
def i32 (x : Int) : Int := (x + 2147483648) % 4294967296 - 2147483648
/-- `strtol` saturates at `LONG_MIN` / `LONG_MAX` (LP64) -/
def clampLong (v : Int) : Int :=
  if v > 9223372036854775807 then 9223372036854775807 else if v < -9223372036854775808 then -9223372036854775808 else v

/-! ## exact rationals (instance `Arith.rat`) -/
structure Q where
  num : Int
  den : Nat
deriving Repr, DecidableEq

namespace Q
def norm (n : Int) (d : Nat) : Q :=
  let g := Nat.gcd n.natAbs d
  if g = 0 then ⟨0, 1⟩ else ⟨n / (g : Int), d / g⟩
def ofInt (n : Int) : Q := ⟨n, 1⟩
def add (a b : Q) : Q := norm (a.num * b.den + b.num * a.den) (a.den * b.den)
def neg (a : Q) : Q := ⟨-a.num, a.den⟩
def sub (a b : Q) : Q := add a (neg b)
def divNat (a : Q) (n : Nat) : Q := norm a.num (a.den * n)
def mulNat (a : Q) (n : Nat) : Q := norm (a.num * n) a.den
def abs (a : Q) : Q := ⟨a.num.natAbs, a.den⟩
def beq (a b : Q) : Bool := a.num * b.den == b.num * a.den
def lt (a b : Q) : Bool := a.num * b.den < b.num * a.den
/-- truncation toward zero -/
def trunc (a : Q) : Int := Int.tdiv a.num a.den
/-- round half away from zero -/
def lround (a : Q) : Int :=
  let n2 := 2 * a.num.natAbs + a.den
  let q : Int := (n2 / (2 * a.den) : Nat)
  if a.num < 0 then -q else q
/-- round half to even to `k` decimals, as `printf("%f")` does on the exact value; returns the
numerator over 10^k -/
def roundDec (a : Q) (k : Nat) : Int :=
  let s := a.num.natAbs * 10 ^ k
  let q := s / a.den
  let r := s % a.den
  let q' := if 2 * r > a.den then q + 1 else if 2 * r = a.den then (if q % 2 = 0 then q else q + 1) else q
  if a.num < 0 then -(q' : Int) else q'
end Q

/-! ## the arithmetic dictionary -/
structure Arith (α : Type) where
  ofInt : Int → α
  add : α → α → α
  sub : α → α → α
  neg : α → α
  /-- `x / (double)n` -/
  divNat : α → Nat → α
  /-- `x * 256` -/
  mul256 : α → α
  /-- `x / 2.0` -/
  halve : α → α
  /-- the literal `0.5` -/
  half : α
  /-- `(int)x`, `std::trunc` -/
  trunc : α → Int
  /-- `std::lround` -/
  lround : α → Int
  abs : α → α
  beq : α → α → Bool
  /-- `strtod` of `[-]m` with `k` fractional digits -/
  ofDec : Bool → Nat → Nat → α
  /-- `strtod(stringf("%f", x))` -/
  fmt6 : α → α

def Arith.rat : Arith Q where
  ofInt := Q.ofInt
  add := Q.add
  sub := Q.sub
  neg := Q.neg
  divNat := Q.divNat
  mul256 := fun a => Q.mulNat a 256
  halve := fun a => Q.divNat a 2
  half := ⟨1, 2⟩
  trunc := Q.trunc
  lround := Q.lround
  abs := Q.abs
  beq := Q.beq
  ofDec := fun neg m k => Q.norm (if neg then -(m : Int) else m) (10 ^ k)
  fmt6 := fun a => Q.norm (Q.roundDec a 6) (10 ^ 6)

/-! ## IEEE-754 binary64 written out (instance `Arith.b64`) -/
/-- a finite binary64 value `(-1)^neg * m * 2^e`; zero is `⟨false, 0, 0⟩`, every other value is
normalised: `2^52 ≤ m < 2^53` (so equal values are equal structures and `2^e` is the unit in the
last place).  No exponent limits: overflow, subnormals, infinities and NaN are not represented. -/
structure B64 where
  neg : Bool
  m : Nat
  e : Int
deriving Repr, DecidableEq

namespace B64
def p52 : Nat := 4503599627370496
def p53 : Nat := 9007199254740992
def zero : B64 := ⟨false, 0, 0⟩

/-- the scale `k` with `2^52 ≤ ⌊n * 2^k / den⌋ < 2^53` (for `n, den > 0`): `52 - (log2 n - log2 den)`
or one more -/
def scale (n den : Nat) : Int :=
  let k0 : Int := 52 - ((Nat.log2 n : Int) - (Nat.log2 den : Int))
  if (n <<< k0.toNat) / (den <<< (-k0).toNat) < p52 then k0 + 1 else k0

/-- quotient `q`, remainder `r` of a division by `b`: the quotient rounded to nearest, ties to even -/
def rne (q r b : Nat) : Nat :=
  if 2 * r > b then q + 1 else if 2 * r = b then (if q % 2 = 0 then q else q + 1) else q

/-- a carry out of the rounding (`2^53`) moves to the next exponent -/
def pack (neg : Bool) (q : Nat) (e : Int) : B64 := if q = p53 then ⟨neg, p52, e + 1⟩ else ⟨neg, q, e⟩

/-- `± (n / den) * 2^ex` rounded to 53 significant bits, to nearest, ties to even — the one
rounding step every IEEE operation ends with: quotient and remainder of `n * 2^k / den` at the
scale `k` that leaves 53 bits, rounded by `rne`. -/
def round (neg : Bool) (n den : Nat) (ex : Int) : B64 :=
  if n = 0 ∨ den = 0 then zero else
  let k := scale n den
  let a := n <<< k.toNat
  let b := den <<< (-k).toNat
  pack neg (rne (a / b) (a % b) b) (ex - k)

/-- `a + b`: the exact sum at the smaller exponent, rounded -/
def add (a b : B64) : B64 :=
  let em := if a.e ≤ b.e then a.e else b.e
  let x := a.m <<< (a.e - em).toNat
  let y := b.m <<< (b.e - em).toNat
  if a.neg == b.neg then round a.neg (x + y) 1 em
  else if x ≥ y then round a.neg (x - y) 1 em else round b.neg (y - x) 1 em

def negate (a : B64) : B64 := if a.m = 0 then a else ⟨!a.neg, a.m, a.e⟩

/-- `⌊|a|⌋` -/
def truncNat (a : B64) : Nat := if a.e ≥ 0 then a.m <<< a.e.toNat else a.m >>> (-a.e).toNat

/-- `(int)a` / `std::trunc`, saturating at the `int64` range like `Float.toInt64` -/
def trunc (a : B64) : Int :=
  let v : Int := if a.neg then -(truncNat a : Int) else truncNat a
  if v > 9223372036854775807 then 9223372036854775807 else if v < -9223372036854775808 then -9223372036854775808 else v

/-- `std::lround`: half away from zero (saturating like `trunc`) -/
def lround (a : B64) : Int :=
  let r : Nat := if a.e ≥ 0 then a.m <<< a.e.toNat else (a.m + (1 <<< ((-a.e).toNat - 1))) >>> (-a.e).toNat
  let v : Int := if a.neg then -(r : Int) else r
  if v > 9223372036854775807 then 9223372036854775807 else if v < -9223372036854775808 then -9223372036854775808 else v

/-- exact value as a rational (not in lowest terms) -/
def toQ (a : B64) : Q :=
  let s : Int := if a.neg then -(a.m : Int) else a.m
  if a.e ≥ 0 then ⟨s * ((1 <<< a.e.toNat : Nat) : Int), 1⟩ else ⟨s, 1 <<< (-a.e).toNat⟩
end B64

/-- IEEE-754 binary64 in Lean (see the header).  `ofDec` = the correctly rounded quotient
`m / 10^k` (what a correctly rounding `strtod` returns); `fmt6` = `strtod(printf("%f"))`: the
exact value rounded half-even to 6 decimals, read back. -/
def Arith.b64 : Arith B64 where
  ofInt := fun n => B64.round (decide (n < 0)) n.natAbs 1 0
  add := B64.add
  sub := fun a b => B64.add a (B64.negate b)
  neg := B64.negate
  divNat := fun a n => B64.round a.neg a.m n a.e
  mul256 := fun a => if a.m = 0 then a else ⟨a.neg, a.m, a.e + 8⟩
  halve := fun a => if a.m = 0 then a else ⟨a.neg, a.m, a.e - 1⟩
  half := ⟨false, B64.p52, -53⟩
  trunc := B64.trunc
  lround := B64.lround
  abs := fun a => ⟨false, a.m, a.e⟩
  beq := fun a b => a == b
  ofDec := fun neg m k => B64.round neg m (10 ^ k) 0
  fmt6 := fun a =>
    let n := Q.roundDec (B64.toQ a) 6
    B64.round (decide (n < 0)) n.natAbs (10 ^ 6) 0

/-- exact value of a finite binary64 as a rational -/
def floatToQ (x : Float) : Q :=
  if x == 0 then ⟨0, 1⟩ else
  let (m, e) := x.frExp
  let i : Int := (m.scaleB 53).toInt64.toInt
  let e' : Int := e - 53
  if e' ≥ 0 then ⟨i * 2 ^ e'.toNat, 1⟩ else Q.norm i (2 ^ (-e').toNat)

def floatOfDec (neg : Bool) (m k : Nat) : Float :=
  let v := Float.ofNat m / Float.ofNat (10 ^ k)
  if neg then -v else v

/-- IEEE-754 binary64, round to nearest even: the arithmetic the C++ runs. `ofDec` is the
correctly rounded quotient of two exactly representable integers (m < 2^53, k ≤ 22), which
is what a correctly rounding `strtod` returns. -/
def Arith.float : Arith Float where
  ofInt := Float.ofInt
  add := (· + ·)
  sub := (· - ·)
  neg := fun a => -a
  divNat := fun a n => a / Float.ofNat n
  mul256 := fun a => a * 256
  halve := fun a => a / 2
  half := 0.5
  trunc := fun a => a.toInt64.toInt
  lround := fun a => a.round.toInt64.toInt
  abs := Float.abs
  beq := fun a b => a == b
  ofDec := floatOfDec
  fmt6 := fun a =>
    let n := Q.roundDec (floatToQ a) 6
    floatOfDec (n < 0 || (n == 0 && a < 0)) n.natAbs 6

/-! ## C library pieces -/
def isDigit (c : Char) : Bool := '0' ≤ c ∧ c ≤ '9'

def takeDigits : List Char → Nat → Nat → Nat × Nat × List Char
  | c :: cs, acc, cnt => if isDigit c then takeDigits cs (acc * 10 + (c.toNat - 48)) (cnt + 1) else (acc, cnt, c :: cs)
  | [], acc, cnt => (acc, cnt, [])

/-- `strtol(s, &end, 10)` on a token without leading blanks: optional sign, digits; no digits
⇒ value 0 and `end = s`; a value outside `long` saturates (`end` still behind the digits). -/
def strtol (s : List Char) : Int × List Char :=
  let (neg, body) := match s with
    | '-' :: r => (true, r)
    | '+' :: r => (false, r)
    | _ => (false, s)
  let (v, cnt, rest) := takeDigits body 0 0
  if cnt = 0 then (0, s) else (clampLong (if neg then -(v : Int) else v), rest)

/-- `strtod(s, &end)` restricted to `[+-]digits[.digits]`. -/
def strtod {α} (A : Arith α) (s : List Char) : α × List Char :=
  let (neg, body) := match s with
    | '-' :: r => (true, r)
    | '+' :: r => (false, r)
    | _ => (false, s)
  let (iv, ic, rest) := takeDigits body 0 0
  match rest with
  | '.' :: fr =>
    let (fv, fc, rest') := takeDigits fr iv 0
    if ic + fc = 0 then (A.ofInt 0, s) else (A.ofDec neg fv fc, rest')
  | _ => if ic = 0 then (A.ofInt 0, s) else (A.ofDec neg iv 0, rest)

/-! ## state -/
inductive Err
  | input (msg : String)
  | unsupported
deriving Repr, DecidableEq

structure State where
  bank : List NBytes := []
  envMap : List (Nat × Int) := []
  trMap : List (Nat × Int) := []
  tyMap : List (Nat × Int) := []
  pitchMap : List (Nat × Int) := []
  pitchExt : List Nat := []
  useExt : Bool := true
deriving Repr, DecidableEq

def mset (m : List (Nat × Int)) (k : Nat) (v : Int) : List (Nat × Int) :=
  if m.any (·.1 == k) then m.map (fun kv => if kv.1 == k then (k, v) else kv) else m ++ [(k, v)]

def mget (m : List (Nat × Int)) (k : Nat) : Option Int := (m.find? (·.1 == k)).map (·.2)

def findIdx (bank : List NBytes) (d : NBytes) : Option Nat :=
  let i := bank.findIdx (· == d)
  if i < bank.length then some i else none

/-- `add_unique_data` -/
def addUnique (st : State) (d : NBytes) : Except Err (State × Nat) :=
  match findIdx st.bank d with
  | some i => .ok (st, i)
  | none =>
    if st.bank.length ≥ Tables.mdsdrv_data_count_max then .error (.input "maximum amount of data table entries reached")
    else .ok ({ st with bank := st.bank ++ [d] }, st.bank.length)

/-! ## FM -/
def nth (l : List Nat) (i : Nat) : Nat := l.getD i 0

/-- operator slot `i` (hardware order 1,3,2,4) → offset of the operator's row in tag_data -/
def opBase (i : Nat) : Nat := 2 + (if i / 2 % 2 = 1 then 10 else 0) + (if i % 2 = 1 then 20 else 0)

def fmField (td : List Nat) (f i : Nat) : Nat :=
  let op := opBase i
  match f with
  | 0 => (nth td (op + 8) % 16) * 16 + nth td (op + 7) % 16          -- DT,MUL
  | 1 => (nth td (op + 6) % 4) * 64 + nth td (op + 0) % 32           -- KS,AR
  | 2 => nth td (op + 1) % 32 + (if nth td (op + 9) ≥ 100 then 128 else 0)  -- AM,DR
  | 3 => nth td (op + 2) % 32                                       -- SR
  | 4 => (nth td (op + 4) % 16) * 16 + nth td (op + 3) % 16          -- SL,RR
  | 5 => (nth td (op + 9) % 100) % 16                               -- SSG-EG
  | _ => nth td (op + 5)                                            -- TL

/-- the 30-byte register image built by `add_ins_fm_4op` from the 42 parameter bytes and the
transpose byte -/
def fm4opBytes (td : List Nat) (trByte : Nat) : NBytes :=
  ((List.range 7).flatMap fun f => (List.range 4).map fun i => fmField td f i)
  ++ [(nth td 1 % 32) * 8 + nth td 0 % 8, trByte]

def tokVal (t : String) : Int := (strtol t.toList).1

def addInsFm4op (st : State) (id : Nat) (tag : List String) : Except Err State :=
  if tag.length < 42 then .error (.input "not enough parameters for fm instrument") else
  let td := (tag.take 42).map fun t => u8 (tokVal t)
  let trByte := match tag[42]? with
    | some t => u8 ((tokVal t + 24) * 2)
    | none => 48
  match addUnique st (fm4opBytes td trByte) with
  | .error e => .error e
  | .ok (st, idx) =>
    .ok { st with envMap := mset st.envMap id idx, trMap := mset st.trMap id (Int.ofNat (trByte / 2) - 24),
                  tyMap := mset st.tyMap id Tables.mdsdrv_INS_FM }

/-- slot `i` → index of its multiplier in the 2op tag (1,3,2,4) -/
def mulIdx (i : Nat) : Nat := 1 + (i % 2) * 2 + (i / 2) % 2

/-- the register image built by `add_ins_fm_2op` from the base image and the 6 tag bytes
(the base is a 30-byte FM image: `addInsFm2op` checks the type of the referenced instrument). -/
def fm2opBytes (base : NBytes) (td : List Nat) : NBytes :=
  let b1 := base.mapIdx fun j x => if j < 4 then (x / 16) * 16 + nth td (mulIdx j) % 16 else x
  let b2 := b1.mapIdx fun j x => if j = 27 then nth b1 26 else x
  b2.mapIdx fun j x => if j = 29 then u8 (((nth td 5 : Nat) + 24) * 2) else x

def addInsFm2op (st : State) (id : Nat) (tag : List String) : Except Err State :=
  if tag.length < 6 then .error (.input "not enough parameters for 2op fm instrument") else
  let td := (tag.take 6).map fun t => u8 (tokVal t)
  let missing : Except Err State :=
    .error (.input s!"2op ins @{id} is referencing instrument @{nth td 0} which does not exist\n")
  -- `ins_type.at(ins_id) != INS_FM` (missing or another type), then `envelope_map.at`, `data_bank.at`
  if mget st.tyMap (nth td 0) != some (Tables.mdsdrv_INS_FM : Int) then missing else
  match mget st.envMap (nth td 0) with
  | none => missing
  | some bi =>
    match st.bank[bi.toNat]? with
    | none => missing
    | some base =>
      match addUnique st (fm2opBytes base td) with
      | .error _ => missing
      | .ok (st, idx) =>
        .ok { st with envMap := mset st.envMap id idx, trMap := mset st.trMap id (nth td 5),
                      tyMap := mset st.tyMap id Tables.mdsdrv_INS_FM }

/-! ## PSG -/
structure PsgSt where
  env : NBytes := []
  loopPos : Int := -1
  lastPos : Nat := 0
  last : Int := -1
  defLen : Nat := 1
deriving Repr, DecidableEq

def setAt (l : NBytes) (i : Nat) (v : Nat) : NBytes := l.set i v

/-- the body of the `while(length--)` loop once `val` is known: add the frame to the duration
of the previous byte (same value, fewer than 15 frames, no loop mark in between) or push a byte -/
def pushVal (st : PsgSt) (val : Nat) : PsgSt :=
  let st :=
    if (val : Int) == st.last && nth st.env st.lastPos < 0xf0 && st.loopPos != (st.env.length : Int) then
      { st with env := setAt st.env st.lastPos (nth st.env st.lastPos + 0x10) }
    else
      { st with lastPos := st.env.length, env := st.env ++ [u8 (0x1f - (val : Int))] }
  { st with last := val }

/-- `val` of one iteration; `n` = value of `length` after the decrement: the last frame is
always the slide target -/
def frameVal {α} (A : Arith α) (target : Nat) (n : Nat) (counter : α) : Nat :=
  if n ≠ 0 then u8 (A.trunc counter) else target

def psgFrames {α} (A : Arith α) (target : Nat) (delta : α) : Nat → α → PsgSt → PsgSt
  | 0, _, st => st
  | n + 1, c, st => psgFrames A target delta n (A.add c delta) (pushVal st (frameVal A target n c))

def clamp15 (x : Nat) : Nat := if x > 15 then 15 else x

/-- the value branch of `add_ins_psg`: parse `initial[>target][:length]`, returns
`(initial, target, length)` after the clamps and the uint8 narrowing of `length` -/
def psgParseValue (s : List Char) (defLen : Nat) : Nat × Nat × Nat :=
  let (iv, s) := strtol s
  let initial := u8 iv
  let (target, s) := match s with
    | '>' :: r => if r.isEmpty then (initial, r) else let (t, s') := strtol r; (u8 t, s')
    | _ => (initial, s)
  let target := clamp15 target
  let initial := clamp15 initial
  let length := u8 defLen
  let length := if target ≠ initial then u8 (((target : Int) - initial).natAbs + 1) else length
  let length := match s with
    | ':' :: r => if r.isEmpty then length else u8 (strtol r).1
    | _ => length
  (initial, target, length)

def psgValue {α} (A : Arith α) (st : PsgSt) (initial target length : Nat) : PsgSt :=
  let length := if length = 0 then 1 else length
  let delta := if length > 1 then A.divNat (A.ofInt ((target : Int) - initial)) (length - 1) else A.ofInt 0
  psgFrames A target delta length (A.add (A.ofInt initial) A.half) st

/-- `|` -/
def psgLoop (st : PsgSt) : PsgSt := { st with loopPos := st.env.length }

/-- `/`: a sustain with no value in front of it gets a frame of maximum volume first -/
def psgSustain (st : PsgSt) : PsgSt :=
  let env := if st.last == -1 then st.env ++ [0x10] else st.env
  { st with env := env ++ [0x01], last := -1 }

def psgToken {α} (A : Arith α) (st : PsgSt) (tok : String) : Except Err PsgSt :=
  let s := tok.toList
  match s with
  | '|' :: _ => .ok (psgLoop st)
  | '/' :: _ => .ok (psgSustain st)
  | _ =>
    -- `*s == 'l' && *++s == ':' && isdigit(*++s)` advances `s` while it fails
    let (isLen, s) := match s with
      | 'l' :: ':' :: d :: r => if isDigit d then (true, d :: r) else (false, d :: r)
      | 'l' :: ':' :: [] => (false, [])
      | 'l' :: r => (false, r)
      | _ => (false, s)
    if isLen then .ok { st with defLen := ((strtol s).1 % 4294967296).toNat }
    else match s with
      | c :: _ =>
        if isDigit c then
          let (i, t, n) := psgParseValue s st.defLen
          .ok (psgValue A st i t n)
        else .error (.input "undefined envelope value")
      | [] => .error (.input "undefined envelope value")

def psgFinish (st : PsgSt) : NBytes :=
  if st.loopPos == -1 then st.env ++ [0x00] else st.env ++ [0x02, u8 st.loopPos]

/-- the end of `add_ins_psg`: in the loop branch of the end command the loop position must fit
its byte (`if(loop_pos > 255) throw InputError`, ff36345) -/
def psgEnd (id : Nat) (st : PsgSt) : Except Err NBytes :=
  if st.loopPos > (Tables.mdsdrv_psg_loop_max : Int) then
    .error (.input (Tables.mdsdrv_msg_psg_loop.1 ++ toString id ++ Tables.mdsdrv_msg_psg_loop.2))
  else .ok (psgFinish st)

def psgCompile {α} (A : Arith α) (id : Nat) (tag : List String) : Except Err NBytes :=
  (tag.foldlM (psgToken A) {}).bind (psgEnd id)

def addInsPsg {α} (A : Arith α) (st : State) (id : Nat) (tag : List String) : Except Err State :=
  if tag.isEmpty then .ok st else
  match psgCompile A id tag with
  | .error e => .error e
  | .ok env =>
    match addUnique st env with
    | .error e => .error e
    | .ok (st, idx) =>
      .ok { st with envMap := mset st.envMap id idx, trMap := mset st.trMap id 0,
                    tyMap := mset st.tyMap id Tables.mdsdrv_INS_PSG }

/-! ## pitch envelopes -/
/-- one iteration of the `while(length > 0)` loop of `add_pitch_node`: `env_initial` (after the
0x7eff cap), `env_delta` (as pushed), `env_len` -/
structure RawChunk where
  start : Int
  delta : Int
  len : Int
deriving Repr, DecidableEq

/-- `env_initial` of an iteration -/
def chunkStart {α} (A : Arith α) (counter : α) : Int :=
  let e := i16 (A.trunc (A.mul256 counter))
  if e > 0x7eff then 0x7eff else e

/-- `step = trunc(((target-counter)/length) * 256)` of an iteration: the value that is
range-checked and then stored in `env_delta` (no narrowing: the check precedes it) -/
def chunkDelta {α} (A : Arith α) (target counter : α) (length : Int) : Int :=
  A.trunc (A.mul256 (A.divNat (A.sub target counter) length.toNat))

def clamp8 (d : Int) : Int := if d > 127 then 127 else if d < -128 then -128 else d

inductive PErr
  | input             -- InputError "undefined envelope value"
  | invalidArgument   -- std::invalid_argument("add_pitch_node"): retried in the extended form
  | tooLong           -- InputError "pitch envelope is too long (more than 256 nodes)"
  | tooSteep          -- InputError "pitch envelope slide is too steep (the step per frame does not fit 16 bits)"
deriving Repr, DecidableEq

/-- bytes per node: `(extend ? 6u : 4u)` -/
def nodeSize (extend : Bool) : Nat := if extend then Tables.mdsdrv_pitch_node_size_ext else Tables.mdsdrv_pitch_node_size

/-- the loop of `add_pitch_node` as the list of its iterations; `size` = `env_data->size()` at
the top of the iteration.
`tooSteep` = the InputError thrown when the step is outside `int16_t` (first test of the iteration);
`invalidArgument` = `std::invalid_argument("add_pitch_node")` (compact form, extended allowed,
step does not fit a signed byte), thrown before the node is pushed;
`tooLong` = the InputError thrown after the push when `env_data` then holds more than
`(extend ? 6u : 4u) * 256` bytes. -/
def nodeChunks {α} (A : Arith α) (useExt extend : Bool) (target : α) :
    Nat → Nat → Int → α → Except PErr (List RawChunk)
  | 0, _, _, _ => .ok []
  | fuel + 1, size, length, counter =>
    if length ≤ 0 then .ok [] else
    let envLen : Int := if length > 255 then 255 else length
    let envInitial := chunkStart A counter
    let envDelta := chunkDelta A target counter length
    let d := if extend then envDelta else if !useExt then clamp8 envDelta else envDelta
    if envDelta < Tables.mdsdrv_pitch_step_min || envDelta > Tables.mdsdrv_pitch_step_max then .error .tooSteep
    else if !extend && useExt && (envDelta > 127 || envDelta < -128) then .error .invalidArgument
    else if size + nodeSize extend > nodeSize extend * Tables.mdsdrv_pitch_node_max then .error .tooLong
    else
      (nodeChunks A useExt extend target fuel (size + nodeSize extend) (length - envLen)
        (A.add counter (A.ofInt (Int.tdiv (d * envLen) 256)))).map (⟨envInitial, d, envLen⟩ :: ·)

/-- the `push_back`s of one iteration -/
def pushChunk (extend : Bool) (env : NBytes) (c : RawChunk) : NBytes :=
  if extend then
    let env := env ++ [u8 (c.start / 256), u8 c.start, u8 (c.delta / 256), u8 c.delta, u8 (c.len - 1)]
    env ++ [u8 (((env.length + 1) / 6 : Nat))]
  else env ++ [u8 (c.start / 256), u8 c.start, u8 c.delta, u8 (c.len - 1)]

/-- the node length `add_pitch_node` uses -/
def pitchLength {α} (A : Arith α) (initial target : α) (explicit : Option Int) : Int :=
  let l : Int := if A.beq target initial then 0 else (A.lround (A.add (A.abs (A.sub target initial)) (A.ofDec false 15 1))) / 16
  let l := explicit.getD l
  if l < 1 then l + 1 else l

/-- a parsed token of a pitch envelope -/
inductive PItem (α : Type)
  | node (initial target : α) (explicit : Option Int)
  | vib (base depth : α) (rate : Int)
  | loop

/-- the iterations of `add_pitch_node(initial>target:explicit)` on an `env_data` of `size` bytes -/
def nodeOf {α} (A : Arith α) (useExt extend : Bool) (size : Nat) (initial target : α) (explicit : Option Int) :
    Except PErr (List RawChunk) :=
  let length := pitchLength A initial target explicit
  nodeChunks A useExt extend target length.toNat size length initial

def pitchNodeVals {α} (A : Arith α) (useExt extend : Bool) (initial target : α) (explicit : Option Int)
    (env : NBytes) : Except PErr NBytes :=
  (nodeOf A useExt extend env.length initial target explicit).map fun cs => cs.foldl (pushChunk extend) env

/-- the three nodes of `add_pitch_vibrato`: they go through `stringf("%f>%f:%d")` and back through
`strtod`/`strtol`, i.e. through `fmt6`; `depth` is already `depth/2 + base`.  The doubled rate is
`(long long)vibrato_rate*2` printed with `%lld` and read back into `int length` (`i32`). -/
def vibNodes {α} (A : Arith α) (base depth : α) (rate : Int) : List (α × α × Option Int) :=
  let fb := A.fmt6 base
  let fd := A.fmt6 depth
  let fnd := A.fmt6 (A.neg depth)
  [(fb, fd, some rate), (fd, fnd, some (i32 (rate * 2))), (fnd, fb, some rate)]

/-- parsing of one token; `none` = "undefined envelope value" -/
def pitchParse {α} (A : Arith α) (tok : String) : Option (PItem α) :=
  match tok.toList with
  | '|' :: _ => some .loop
  | c :: cs =>
    if isDigit c || c == '-' then
      -- `add_pitch_node(const char* s, …)`
      let (initial, s) := strtod A (c :: cs)
      let (target, s) := match s with
        | '>' :: r => if r.isEmpty then (initial, r) else strtod A r
        | _ => (initial, s)
      let explicit := match s with
        | ':' :: r => if r.isEmpty then none else some (i32 (strtol r).1)   -- `int length = strtol(…)`
        | _ => none
      some (.node initial target explicit)
    else if c == 'V' then
      -- `add_pitch_vibrato`
      let s := cs
      let (base, s) := match s with
        | c :: _ => if isDigit c || c == '-' then strtod A s else (A.ofInt 0, s)
        | [] => (A.ofInt 0, s)
      let (depth, s) := match s with
        | ':' :: r => if r.isEmpty then (A.half, r) else let (d, s') := strtod A r; (A.halve d, s')
        | _ => (A.half, s)
      let rate : Int := match s with
        | ':' :: r => if r.isEmpty then 5 else i32 (strtol r).1   -- `int vibrato_rate = strtol(…)`
        | _ => 5
      some (.vib base (A.add depth base) rate)
    else none
  | [] => none

/-- one parsed item applied to `(env_data, loop_pos)` -/
def pitchItem {α} (A : Arith α) (useExt extend : Bool) (st : NBytes × Int) : PItem α → Except PErr (NBytes × Int)
  | .loop => .ok (st.1, ((st.1.length / (if extend then 6 else 4) : Nat) : Int))
  | .node i t e => (pitchNodeVals A useExt extend i t e st.1).map fun env => (env, st.2)
  | .vib b d r =>
    ((vibNodes A b d r).foldlM (fun env n => pitchNodeVals A useExt extend n.1 n.2.1 n.2.2 env) st.1).map
      fun env => (env, ((st.1.length / (if extend then 6 else 4) : Nat) : Int))

/-- the token loop shared by `add_pitch_envelope` (`extend = false`, node size 4) and
`add_extended_pitch_envelope` (`extend = true`, node size 6) -/
def pitchTokens {α} (A : Arith α) (useExt extend : Bool) :
    List String → NBytes → Int → Except PErr (NBytes × Int)
  | [], env, lp => .ok (env, lp)
  | tok :: rest, env, lp =>
    match pitchParse A tok with
    | none => .error .input
    | some it =>
      match pitchItem A useExt extend (env, lp) it with
      | .error e => .error e
      | .ok (env, lp) => pitchTokens A useExt extend rest env lp

/-- end command of the compact form -/
def pitchFinish (env : NBytes) (lp : Int) : NBytes :=
  if lp == -1 then env.set (env.length - 1) 0xff else env ++ [0x7f, u8 lp]

def pitchFinishExt (env : NBytes) (lp : Int) : NBytes :=
  if lp == -1 then (env.set (env.length - 2) 0xff).set (env.length - 1) (u8 ((nth env (env.length - 1) : Int) - 1))
  else env.set (env.length - 1) (u8 lp)

/-- a token handed to `add_pitch_node` / `add_pitch_vibrato` on which the real `strtod` may leave
the grammar `[+-]digits[.digits]` of the `strtod` above: exponent, hexadecimal, `inf`, `nan` -/
def outsideStrtod (tok : String) : Bool :=
  match tok.toList with
  | c :: cs => (isDigit c || c == '-' || c == 'V') && (c :: cs).any fun x => "eExXiInN".toList.contains x
  | [] => false

def addPitch {α} (A : Arith α) (st : State) (id : Nat) (tag : List String) : Except Err State :=
  -- empty tag: early return, then `dump_data(id, pitch_map[id])` default-creates the entry
  if tag.isEmpty then .ok (if (mget st.pitchMap id).isNone then { st with pitchMap := mset st.pitchMap id 0 } else st) else
  if tag.any outsideStrtod then .error .unsupported else
  let store (st : State) (env : NBytes) (ext : Bool) : Except Err State :=
    match addUnique st env with
    | .error e => .error e
    | .ok (st, idx) =>
      .ok { st with pitchMap := mset st.pitchMap id idx,
                    pitchExt := if ext && !st.pitchExt.contains id then st.pitchExt ++ [id] else st.pitchExt }
  -- `if(loop_pos > 255) throw InputError(…)` in the loop branch of the end command (both forms)
  let loopErr : Except Err State :=
    .error (.input (Tables.mdsdrv_msg_pitch_loop.1 ++ toString id ++ Tables.mdsdrv_msg_pitch_loop.2))
  match pitchTokens A st.useExt false tag [] (-1) with
  | .ok (env, lp) =>
    if lp == -1 && env.isEmpty then .error (.input "pitch envelope has no nodes")
    else if lp > (Tables.mdsdrv_pitch_loop_max : Int) then loopErr
    else store st (pitchFinish env lp) false
  | .error .input => .error (.input "undefined envelope value")
  | .error .tooLong => .error (.input Tables.mdsdrv_msg_pitch_too_long)
  | .error .tooSteep => .error (.input Tables.mdsdrv_msg_pitch_step)
  | .error .invalidArgument =>
    match pitchTokens A st.useExt true tag [] (-1) with
    | .ok (env, lp) => if lp > (Tables.mdsdrv_pitch_loop_max : Int) then loopErr else store st (pitchFinishExt env lp) true
    | .error .tooLong => .error (.input Tables.mdsdrv_msg_pitch_too_long)
    | .error .tooSteep => .error (.input Tables.mdsdrv_msg_pitch_step)
    | .error _ => .error (.input "undefined envelope value")

/-! ## read_song -/
def lower (s : String) : String := String.ofList (s.toList.map Char.toLower)

def addInstrument {α} (A : Arith α) (st : State) (id : Nat) (tag : List String) : Except Err State :=
  match tag with
  | [] => .error (.input (Tables.mdsdrv_msg_no_ins_type.1 ++ toString id ++ Tables.mdsdrv_msg_no_ins_type.2))   -- `tag.empty()`
  | ty :: rest =>
    let ty := lower ty
    -- after a successful add, `dump_data(id, envelope_map[id])` default-creates the entry (0) when
    -- the adder returned early on an empty tag
    let touch (r : Except Err State) : Except Err State :=
      r.map fun st => if (mget st.envMap id).isNone then { st with envMap := mset st.envMap id 0 } else st
    if ty == "fm" then addInsFm4op st id rest
    else if ty == "2op" then addInsFm2op st id rest
    else if ty == "psg" then touch (addInsPsg A st id rest)
    else if ty == "pcm" then .error .unsupported
    else .error (.input "unknown envelope type")

/-- `sscanf(key, "@%hu")` / `sscanf(key, "@m%hu")`: `(isPitch, id)` -/
def scanKey (key : String) : Option (Bool × Nat) :=
  let num (s : List Char) : Option Nat :=
    let (v, rest) := strtol s
    if rest.length == s.length then none else some (v % 65536).toNat
  match key.toList with
  | '@' :: 'm' :: r => (num r).map fun n => (true, n)
  | '@' :: r => (num r).map fun n => (false, n)
  | _ => none

def readTags {α} (A : Arith α) : State → List (String × List String) → State × Option Err
  | st, [] => (st, none)
  | st, (key, tag) :: rest =>
    match scanKey key with
    | none => readTags A st rest
    | some (isPitch, id) =>
      match (if isPitch then addPitch A st id tag else addInstrument A st id tag) with
      | .ok st' => readTags A st' rest
      | .error e => (st, some e)

def initState (noext : Bool) : State :=
  { bank := [[0x10, 0x01, 0x1f, 0x00]], envMap := [(0, 0)], trMap := [(0, 0)],
    tyMap := [(0, Tables.mdsdrv_INS_UNDEFINED)], useExt := !noext }

/-- `read_song` on a fresh `MDSDRV_Data`: `tags` in `tag_order`; `noext` = `#option` holds the
item `noextpitch`. Returns the state reached and the exception, if any. -/
def readSong {α} (A : Arith α) (noext : Bool) (tags : List (String × List String)) : State × Option Err :=
  readTags A (initState noext) tags

end Ctrmml.MdsData
