/-
  Model of /repo/src/conf.cpp: `Conf::parse_token` and `Conf::from_string`, as the code is
  after the two `fix:` commits recorded in known_findings.txt; the two functions as they
  were before those commits are kept in `namespace Pre` at the end (only for the
  counterexample theorems D14/D17).

  Representation.  The `const char*` walk becomes a walk over `List Char`: the list is the
  characters from `head` up to (not including) the terminating NUL, so `*head == 0` is
  `head = []`.  A C string cannot contain NUL; the driver cuts the request text at the first
  NUL exactly as the harness does.  A read past the terminating NUL is the explicit outcome
  `Err.oob` (undefined behaviour in the C++).

  `parse_token` is a member function that pushes at most one element on `this->subkeys`
  and returns the new `head`; here it returns `(pushed : Option Conf, head)` and the caller
  appends (mutation becomes returned state).  Its `while(*head && *head != '}')` loop with
  the locals `k`, `read_key` is `loop`; one trip through the loop body is `loopBody`.  The
  nested `while(*head && *head != '}') head = subkey.parse_token(head);` of the `{` case is
  `block`; the `while(*str)` loop of `from_string` is `top`.

  Loops and recursion carry explicit fuel (one unit per loop iteration / call); running
  out of fuel is the outcome `Err.fuel` = "did not finish within the budget".
  `from_string` gives `2·|s|+2`; `C20_conf_terminates` proves that this budget is never
  exhausted, i.e. every loop of the code terminates on every input.

  Exceptions: `throw std::runtime_error("missing }")` = `Err.missingBrace`,
  `throw std::runtime_error("unexpected }")` = `Err.strayBrace`.

  libc: `strpbrk(head, S)` = first character of `head` that is in `S`
  (`Tables.conf_breakChars`, regenerated from conf.cpp); `isspace` in the "C" locale =
  `' '` and `\t \n \v \f \r`.  For `char` values ≥ 0x80 the code passes a negative `int`
  to `isspace` (formally undefined; glibc answers "no") — modelled as `false`.
  No integer narrowing occurs in this file.
-/
import Ctrmml.Model.ConfTree
import Ctrmml.Generated.Tables
namespace Ctrmml.ConfModel
open Ctrmml

inductive Err | missingBrace | strayBrace | oob | fuel
  deriving DecidableEq, Repr

/-- result of one `parse_token` call: the subkey pushed on `this` (if any) and the new head -/
abbrev Res := Except Err (Option Conf × List Char)
/-- result of the `{`-loop: the subkeys pushed on `subkey` and the new head -/
abbrev BRes := Except Err (List Conf × List Char)

/-- membership in the `strpbrk` set `" \t\r\n\":,;{}"` -/
def isBreak (c : Char) : Bool := Tables.conf_breakChars.contains c

/-- `isspace` ("C" locale) -/
def isSpace (c : Char) : Bool :=
  c == ' ' || c == '\t' || c == '\n' || c == Char.ofNat 11 || c == Char.ofNat 12 || c == '\r'

/-- `tail = strpbrk(head, …)` (or the end): `(std::string(head, tail-head), tail)` -/
def spanWord : List Char → List Char × List Char
  | [] => ([], [])
  | c :: cs =>
    if isBreak c then ([], c :: cs)
    else ((c :: (spanWord cs).1), (spanWord cs).2)

/-- the `while(*++head)` loop of the quoted-key case.  The argument is the text *after*
the character `head` points at; the result is the key and the new `head`.
Quirks mirrored: `\n` gives a newline, a backslash before a literal TAB gives a TAB (the
code compares with `'\t'`, not `'t'`, so `\t` written with the letter gives the letter
`t`), a backslash before CR gives nothing, a backslash before anything else gives that
character; an unterminated quote ends at the NUL without complaint; a backslash directly
before the NUL ends the key (fix 7587463; before it: `Pre.quoted`). -/
def quoted : List Char → List Char → List Char × List Char
  | k, [] => (k, [])
  | k, c :: cs =>
    if c = '\\' then
      match cs with
      | [] => (k, [])                                   -- `if(!c) break;`
      | d :: ds =>
        if d = 'n' then quoted (k ++ ['\n']) ds
        else if d = '\t' then quoted (k ++ ['\t']) ds
        else if d ≠ '\r' then quoted (k ++ [d]) ds
        else quoted k ds
    else if c = '"' then (k, cs)                         -- `head++; break;`
    else quoted (k ++ [c]) cs

/-- `while((*head != '\n' && *head != '\r') && *++head);` -/
def skipComment : List Char → List Char
  | [] => []
  | c :: cs => if c = '\n' ∨ c = '\r' then c :: cs else skipComment cs

/-- the code after the loop: `if(read_key) subkeys.push_back(Conf(k)); return head;` -/
def finish (k : List Char) (rk : Bool) (head : List Char) : Res :=
  .ok (if rk then some (.mk k []) else none, head)

/-- one trip through `while(*head && *head != '}') { … }` of `parse_token`, with the
recursive uses abstracted: `recLoop k rk head` = the rest of this loop,
`recLoop [] false head` = a fresh `subkey.parse_token(head)`, `recBlock` = the `{` loop. -/
def loopBody (recLoop : List Char → Bool → List Char → Res) (recBlock : List Conf → List Char → BRes)
    (k : List Char) (rk : Bool) (head : List Char) : Res :=
  match head with
  | [] => finish k rk []
  | c :: cs =>
    if c = '}' then finish k rk head
    else if isBreak c = false then                        -- tail > head: a bare word
      if rk then finish k rk head
      else recLoop (spanWord head).1 true (spanWord head).2
    else if c = '"' then                                  -- quote-enclosed key
      if rk then finish k rk head
      else recLoop (quoted k cs).1 true (quoted k cs).2
    else if c = ':' then                                  -- assign subkey
      match recLoop [] false cs with
      | .ok (sub, tl) => .ok (some (.mk k sub.toList), tl)
      | .error e => .error e
    else if c = ',' then .ok (some (.mk k []), cs)        -- end of key
    else if c = ';' then recLoop k rk (skipComment head)  -- comment
    else if c = '{' then                                  -- list of subkeys
      match recBlock [] cs with
      | .ok (subs, tl) =>
        match tl with
        | d :: tl' => if d = '}' then .ok (some (.mk k subs), tl') else .error .missingBrace
        | [] => .error .missingBrace
      | .error e => .error e
    else recLoop k rk (cs.dropWhile isSpace)              -- `while(*++head && isspace(*head));`

/-- one trip through `while(*head && *head != '}') head = subkey.parse_token(head);` -/
def blockBody (recLoop : List Char → Bool → List Char → Res) (recBlock : List Conf → List Char → BRes)
    (acc : List Conf) (head : List Char) : BRes :=
  match head with
  | [] => .ok (acc, [])
  | c :: _ =>
    if c = '}' then .ok (acc, head)
    else
      match recLoop [] false head with
      | .ok (o, tl) => recBlock (acc ++ o.toList) tl
      | .error e => .error e

mutual
/-- the loop of `parse_token` from the state `(k, read_key, head)` -/
def loop : Nat → List Char → Bool → List Char → Res
  | 0 => fun _ _ _ => .error .fuel
  | n + 1 => loopBody (loop n) (block n)
/-- the `{` loop from the state `(subkey.subkeys, head)` -/
def block : Nat → List Conf → List Char → BRes
  | 0 => fun _ _ => .error .fuel
  | n + 1 => blockBody (loop n) (block n)
end

/-- `Conf::parse_token(head)` on an object whose `subkeys` the caller keeps -/
def parseToken (fuel : Nat) (head : List Char) : Res := loop fuel [] false head

/-- the `while(*str)` loop of `from_string` (fix 0496ec2: a `}` here throws) -/
def top : Nat → List Conf → List Char → Except Err (List Conf)
  | 0, _, _ => .error .fuel
  | _ + 1, acc, [] => .ok acc
  | n + 1, acc, c :: cs =>
    if c = '}' then .error .strayBrace
    else
      match parseToken n (c :: cs) with
      | .ok (o, tl) => top n (acc ++ o.toList) tl
      | .error e => .error e

/-- `Conf::from_string(str)` -/
def fromString (s : List Char) : Except Err Conf :=
  match top (2 * s.length + 2) [] s with
  | .ok subs => .ok (.mk [] subs)
  | .error e => .error e

/-! ### The code before the `fix:` commits (for the counterexample theorems only) -/
namespace Pre

/-- `quoted` before fix 7587463: after a backslash `c = *++head` may be the NUL; it is
pushed on the key and `while(*++head)` then reads the byte after the NUL. -/
def quoted : List Char → List Char → Except Err (List Char × List Char)
  | k, [] => .ok (k, [])
  | k, c :: cs =>
    if c = '\\' then
      match cs with
      | [] => .error .oob
      | d :: ds =>
        if d = 'n' then quoted (k ++ ['\n']) ds
        else if d = '\t' then quoted (k ++ ['\t']) ds
        else if d ≠ '\r' then quoted (k ++ [d]) ds
        else quoted k ds
    else if c = '"' then .ok (k, cs)
    else quoted (k ++ [c]) cs

/-- `top` before fix 0496ec2: no test for `}`; `parse_token` returns its argument. -/
def top (pt : Nat → List Char → Res) : Nat → List Conf → List Char → Except Err (List Conf)
  | 0, _, _ => .error .fuel
  | _ + 1, acc, [] => .ok acc
  | n + 1, acc, c :: cs =>
    match pt n (c :: cs) with
    | .ok (o, tl) => top pt n (acc ++ o.toList) tl
    | .error e => .error e

end Pre

end Ctrmml.ConfModel
