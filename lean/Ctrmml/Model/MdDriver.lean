/-
  Model of the Mega Drive playback driver for the PLAIN SUBSET (property C07):
  /repo/src/platform/md.cpp  (MD_Driver: ctor, play_song, seq_update, play_step, is_playing,
  get_loop_count, reset_loop_count, bpm_to_delta; MD_Channel: ctor, update, write_event,
  update_tempo, update_pitch, key_on, key_off, set_pitch, set_vol, set_ins, write_fm_4op,
  get_fm_pitch, get_psg_pitch, get_psg_volume; MD_FM, MD_PSG, MD_PSGMelody, MD_PSGNoise and
  MD_Dummy virtuals incl. the PSG envelope stepper), /repo/src/driver.cpp (ym2612_w,
  sn76489_w) and `Platform::vgm_export` of /repo/src/song.cpp, on top of the `Player` model
  (Model/PlayerCh.lean) and the VGM writer model (Model/Vgm.lean).

  One definition per C++ function.  Register writes are returned as `Vgm.Op`s in the order the
  C++ issues them; the bytes of the file are `Vgm.run` of that list.

  Outside the subset (→ `DErr.unsupported`, never produced by the C07 generators):
  PLATFORM events (InputError: no platform command is ever registered), portamento, pitch envelope, macro track (PAN_ENVELOPE ≠ 0),
  FM3 special mode, software PCM mixing (`pcm_mode` is 0: `MDSDRV_Platform(0)`, the default platform).

  PCM instruments in `pcm_mode` 0 (property C08): `MDSDRV_Data::wave_rom` / `wave_map` are the
  `bank` / `waveMap` fields of `Data` (a `Wave.Bank`, Model/Wave.lean); `play_song` writes the used
  part of the rom as one type-0 data block followed by the DAC stream setup; `key_on_pcm` /
  `key_off_pcm` issue `ym2612_w(0, 0x2b, …)` immediately followed by `dac_start` / `dac_stop` —
  modelled as the `dac` field of that write (`Wr.toOps` puts the stream command right after it).
  `sample.position + sample.start` is `uint32_t` arithmetic (`Wave.u32`).

  Narrowings of the C++ made explicit here:
    note_pitch, pitch, last_pitch : uint16_t  (`% 65536`)
    ins_transpose : int8_t, `(int8_t) get_var(PAN)`                       (`wrap8`)
    (after the `fix:` commits 1e7d217 / 4eed0c2 the FM total level and the PSG attenuation are
     computed in `int` and clamped, no 8-bit wrap; `get_psg_volume` takes a `uint16_t`)
    tempo_delta : uint8_t (`% 256`), tempo_counter 7 bits, env_pos : uint8_t
    bpm_to_delta: `uint16_t bpm`; the double expression `(bpm/base)*256 + 0.5 - 1` is
      `(128·bpm − 75)/150` exactly (its distance to an integer is ≥ 1/150), truncated.
  Floating point: `seq_delta`, `pcm_delta`, the two counters and the returned delta are
  doubles in the C++; in the subset they are integers (multiples of 147, `Proofs/MdDriver`),
  modelled in `Int`.  The `|next_delta| < 1/10000` branch would leave the integers and is the
  explicit error `DErr.nonInteger` (proved unreachable).
  `elapsed_time < max_time` (one hour of samples): reaching it is `DErr.tooLong`.
  Not modelled: `printf` progress output, `MDSDRV_Data::message`.
-/
import Ctrmml.Model.PlayerCh
import Ctrmml.Model.Vgm
import Ctrmml.Model.Wave
namespace Ctrmml.MdDriver
open Ctrmml Ctrmml.Player Ctrmml.PlayerCh Tables

inductive DErr
  | input        -- InputError (player errors, "Unsupported panning value", PSG panning)
  | oob          -- std::out_of_range from `vector::at`
  | unsupported  -- outside the modelled subset
  | nonInteger   -- play_step would return a non-integer delta
  | tooLong      -- the export reached max_seconds
  | vgm (e : Vgm.Err)
  deriving DecidableEq, Repr

/-- what `MDSDRV_Data` holds for one instrument id after `read_song` -/
structure Ins where
  type : Nat            -- MDSDRV_Data::InstrumentType
  data : List Nat       -- data_bank[envelope_map[id]]
  transpose : Int       -- ins_transpose[id]
  deriving DecidableEq, Repr

structure Data where
  ins : List (Nat × Ins)
  /-- `data_bank.at(0)`: the default PSG envelope `read_song` registers first -/
  env0 : List Nat := md_default_psg_env
  /-- `wave_rom` after `read_song` (every `@n pcm` tag added in tag order) -/
  bank : Wave.Bank := Wave.Bank.new mds_dataWaveRom 0
  /-- `wave_map`: PCM instrument id → index into `wave_rom.get_sample_headers()` -/
  waveMap : List (Nat × Nat) := []
  deriving Repr

/-- `ins_type[id]` etc.: `std::map::operator[]` default-constructs a missing entry -/
def Data.get (d : Data) (id : Nat) : Ins :=
  (d.ins.lookup id).getD { type := mdsdrv_INS_UNDEFINED, data := d.env0, transpose := 0 }

inductive Kind | fm (bank id : Nat) | psg (id : Nat) | noise | dummy
  deriving DecidableEq, Repr

def u16 (x : Int) : Nat := (x % 65536).toNat
def u8 (x : Int) : Nat := (x % 256).toNat
def wrap8 (x : Int) : Int := ((x + 128) % 256) - 128

/-! ### Driver::ym2612_w / sn76489_w (driver.cpp) -/
/-- the DAC stream command `key_on_pcm` / `key_off_pcm` issue right after their register write -/
inductive Dac
  | none
  | start (pos len rate : Nat)   -- `vgm->dac_start(0x00, pos, len, rate)`
  | stop                         -- `vgm->dac_stop(0x00)`
  deriving DecidableEq, Repr

/-- one `Driver::write(command, port, reg, data)` (+ the DAC stream command that directly
follows it): all that channels can emit -/
structure Wr where
  cmd : Nat
  port : Nat
  reg : Nat
  data : Nat
  dac : Dac := .none
  deriving DecidableEq, Repr

def Wr.toOp (w : Wr) : Vgm.Op := .write w.cmd w.port w.reg w.data

/-- the operations on the `VGM_Writer`, in order -/
def Wr.toOps (w : Wr) : List Vgm.Op :=
  w.toOp :: (match w.dac with
    | .none => []
    | .start p l r => [Vgm.Op.dacStart 0 p l r]
    | .stop => [Vgm.Op.dacStop 0])

abbrev Op := Wr

/-- `Driver::ym2612_w(port, reg, ch, op, data)` for the register classes the subset uses
(the `reg ≥ 0xa8` operator-frequency remapping belongs to FM3 mode) -/
def ymW (port reg ch op data : Nat) : List Op :=
  if reg = 0x28 then [Wr.mk 0x52 0 reg ((data * 16 + (ch ||| (port * 4))) % 65536) .none]
  else if 0x30 ≤ reg ∧ reg < 0xa0 then [Wr.mk 0x52 port ((reg + op * 4 + ch) % 256) data .none]
  else if 0xa0 ≤ reg ∧ reg < 0xb0 then
    [Wr.mk 0x52 port ((reg + ch) % 256 + 4) (data / 256) .none, Wr.mk 0x52 port ((reg + ch) % 256) (data % 256) .none]
  else if reg ≥ 0xb0 then [Wr.mk 0x52 port ((reg + ch) % 256) data .none]
  else [Wr.mk 0x52 0 reg data .none]

/-- `Driver::sn76489_w(reg, ch, data)` -/
def snW (reg ch data : Nat) : List Op :=
  if reg = 0 then
    let d := data % 1024
    let cmd1 := ((d % 16) ||| (ch * 32) ||| 0x80) % 256
    [Wr.mk 0x50 0 0 cmd1 .none] ++ (if ch < 3 then [Wr.mk 0x50 0 0 ((d / 16) % 256) .none] else [])
  else if reg = 1 then [Wr.mk 0x50 0 0 (((data % 16) ||| (ch * 32) ||| 0x90) % 256) .none]
  else []

/-! ### pitch and volume tables -/
def tab (t : List Nat) (i : Nat) : Nat := t.getD i 0

/-- `MD_Channel::get_fm_pitch` -/
def fmPitch (pitch : Nat) : Nat :=
  let note := pitch / 256 % 256
  let octave := note / 12
  let detune := pitch % 256
  let b0 := tab md_fm_freqtab (note % 12)
  let b1 := tab md_fm_freqtab (note % 12 + 1)
  (b0 + ((b1 - b0) * detune) / 256 + (octave % (md_fm_block_mask + 1)) * 2 ^ md_fm_block_shift) % 65536

/-- `MD_Channel::get_psg_pitch` (`(base[1]-base[0])*detune >> 8` on a negative `int` is an
arithmetic shift: floor division) -/
def psgPitch (pitch : Nat) : Nat :=
  let note := pitch / 256 % 256
  let octave := note / 12
  let detune := pitch % 256
  let b0 : Int := tab md_psg_freqtab (note % 12)
  let b1 : Int := tab md_psg_freqtab (note % 12 + 1)
  u16 (b0 + ((b1 - b0) * detune) / 256) / 2 ^ octave

/-- `MD_Channel::get_psg_volume` -/
def psgVolume (v : Nat) : Nat :=
  match md_psg_volume_rule with
  | [a, b, c, d, e, f, g, h, i] =>
    if v < a then b else if v ≥ c then d else if v ≥ e then f else (v - g) * h / i
  | _ => 0

/-- the attenuation a coarse or fine volume setting adds to the carriers (`MD_FM::v_set_vol`) -/
def fmVolAdd (coarse : Bool) (v : Int) : Int :=
  if coarse then
    let x : Int := if v > 15 then 0 else 15 - v
    md_fm_vol_formula.1 + x * md_fm_vol_formula.2.1 - x / md_fm_vol_formula.2.2   -- x ≥ 0: C++ `/` = floor
  else v

/-- the value `MD_FM::v_set_vol` writes to operator `op` (`int max_tl`, clamped to 0..127) -/
def fmTl (tl con : Nat) (op : Nat) (add : Int) : Nat :=
  let m : Int := if op ≥ tab md_opn_con_op con then (tl : Int) + add else tl
  if m > md_fm_tl_max then md_fm_tl_max else if m < 0 then 0 else m.toNat

/-- the value `MD_PSGMelody::v_set_vol` / `MD_PSGNoise::v_set_vol` writes (`int vol`) -/
def psgAtt (coarse : Bool) (v : Int) (envDelay : Nat) : Nat :=
  let a : Int := if coarse then (if v > 15 then 0 else 15 - v) else psgVolume (if v < 0 then 0 else v.toNat)
  let vol := a + (envDelay % 16 : Nat)
  if vol > 15 then 15 else vol.toNat

/-- `MD_Driver::bpm_to_delta` with `ppqn = 24`, `seq_rate = 60` -/
def bpmToDelta (bpm : Nat) : Nat :=
  let base := md_bpm_base_num * md_seq_rate_ntsc / song_default_ppqn     -- 300
  min 255 ((256 * bpm * 2 - base) / (2 * base))

/-! ### channels -/
structure Ch where
  kind : Kind
  root : List Event
  ps : PS
  /-- `MD_Channel::channel_id` (= the track id) -/
  chanId : Nat := 0
  /-- `Player::event.type` -/
  evType : Nat := ev_NOP
  slur : Bool := false
  keyOn : Bool := false
  notePitch : Nat := 0xffff
  lastPitch : Nat := 0xffff
  pitch : Nat := 0
  insTranspose : Int := 0
  con : Nat := 0
  tl : List Nat := [0, 0, 0, 0]
  envData : List Nat := []
  envKeyoff : Bool := false
  envPos : Nat := 3
  envDelay : Nat := 0
  deriving Repr

/-- driver-wide state the channels write to -/
structure G where
  tempoDelta : Nat
  loopTrigger : Bool
  err : Option DErr := none
  /-- `MD_Driver::last_pcm_channel` (`none` = -1) -/
  lastPcm : Option Nat := none
  deriving Repr

def G.fail (g : G) (e : DErr) : G := if g.err.isSome then g else { g with err := some e }

def Ch.var (c : Ch) (t : Nat) : Int := getCh c.ps.ch t
def Ch.flag (c : Ch) (t : Nat) : Bool := c.ps.ch.mask.contains (chIdx t)
def Ch.clearFlag (c : Ch) (t : Nat) : Ch :=
  { c with ps := { c.ps with ch := { c.ps.ch with mask := clrBit c.ps.ch.mask (chIdx t) } } }
def Ch.coarse (c : Ch) : Bool := c.ps.ch.mask.contains VOL_BIT
def Ch.bpm (c : Ch) : Bool := c.ps.ch.mask.contains BPM_BIT
def Ch.enabled (c : Ch) : Bool := c.ps.acc.enabled

def isPsg : Kind → Option Nat
  | .psg id => some id
  | .noise => some 3
  | _ => none

/-- `MD_Channel` constructor (channel variables) + the derived class' constructor writes -/
def mkCh (d : Data) (id : Nat) (root : List Event) : Ch × List Op :=
  let vars : Chan :=
    { trackState := ((List.replicate ev_CHANNEL_CMD_COUNT (0 : Int)).set (chIdx ev_VOL_FINE) md_initial_vol).set (chIdx ev_PAN) md_initial_pan,
      mask := [VOL_BIT] }
  let ps : PS := { initPS with ch := vars }
  if id < 6 then
    let bank := id / 3
    let cid := id % 3
    ({ kind := .fm bank cid, root := root, ps := ps, chanId := id },
     ymW bank 0x40 cid 0 0x7f ++ ymW bank 0x40 cid 1 0x7f ++ ymW bank 0x40 cid 2 0x7f ++ ymW bank 0x40 cid 3 0x7f
       ++ ymW bank 0x28 cid 0 0 ++ ymW bank 0xb4 cid 0 0xc0)
  else if id < 9 then
    ({ kind := .psg ((id - 6) % 4), root := root, ps := ps, chanId := id, envData := d.env0 }, snW 1 ((id - 6) % 4) 15)
  else if id < 10 then
    ({ kind := .noise, root := root, ps := ps, chanId := id, envData := d.env0 }, snW 1 3 15)
  else ({ kind := .dummy, root := root, ps := ps, chanId := id }, [])

/-- `v_set_vol` -/
def vSetVol (c : Ch) : List Op :=
  match c.kind with
  | .fm bank id =>
    let add := fmVolAdd c.coarse (c.var ev_VOL_FINE)
    [3, 2, 1, 0].flatMap fun op => ymW bank 0x40 id op (fmTl (tab c.tl op) c.con op add)
  | .psg id => snW 1 id (psgAtt c.coarse (c.var ev_VOL_FINE) c.envDelay)
  | .noise => snW 1 3 (psgAtt c.coarse (c.var ev_VOL_FINE) c.envDelay)
  | .dummy => []

/-- `MD_Channel::set_vol` (not FM3, `pcm_channel_enable` false) -/
def setVol (c : Ch) : Ch × List Op := (c.clearFlag ev_VOL_FINE, vSetVol c)

/-- `MD_Channel::write_fm_4op` + the `MD_FM::v_set_ins` wrapper; `MD_PSG*::v_set_ins` -/
def vSetIns (d : Data) (c : Ch) : Ch × List Op :=
  let i := d.get (u16 (c.var ev_INS))
  match c.kind with
  | .fm bank id =>
    if i.type ≠ mdsdrv_INS_FM then (c, []) else
    let at_ (k : Nat) : Nat := tab i.data k
    let opw (op : Nat) : List Op :=
      ymW bank 0x30 id op (at_ op) ++ ymW bank 0x50 id op (at_ (4 + op)) ++ ymW bank 0x60 id op (at_ (8 + op))
        ++ ymW bank 0x70 id op (at_ (12 + op)) ++ ymW bank 0x80 id op (at_ (16 + op)) ++ ymW bank 0x90 id op (at_ (20 + op))
    ({ c with tl := [at_ 24, at_ 25, at_ 26, at_ 27], con := at_ 28 % 8, insTranspose := wrap8 i.transpose },
     ymW bank 0x40 id 0 0x7f ++ ymW bank 0x40 id 1 0x7f ++ ymW bank 0x40 id 2 0x7f ++ ymW bank 0x40 id 3 0x7f
       ++ ymW bank 0x28 id 0 0 ++ opw 0 ++ opw 1 ++ opw 2 ++ opw 3 ++ ymW bank 0xb0 id 0 (at_ 28))
  | .psg _ | .noise =>
    if i.type ≠ mdsdrv_INS_PSG then (c, []) else ({ c with envData := i.data, envPos := 0, envDelay := 15 }, [])
  | .dummy => (c, [])

/-- `MD_Channel::set_ins` (`pcm_mode` 0: a PCM instrument takes the same path as any other —
`pcm_channel_enable` is never set — and `v_set_ins` ignores it) -/
def setIns (d : Data) (g : G) (c : Ch) : G × Ch × List Op :=
  (g, ((setVol (vSetIns d c).1).1).clearFlag ev_INS, (vSetIns d c).2 ++ (setVol (vSetIns d c).1).2)

/-- `MD_Channel::key_off_pcm` (`pcm_mode` 0): the channel that started the DAC stream stops it -/
def keyOffPcm (g : G) (c : Ch) : G × List Op :=
  if g.lastPcm = some c.chanId then ({ g with lastPcm := none }, [Wr.mk 0x52 0 0x2b 0 .stop]) else (g, [])

/-- `MD_Channel::key_on_pcm` (`pcm_mode` 0): DAC enable and `dac_start` over the sample's window -/
def keyOnPcm (d : Data) (g : G) (c : Ch) : G × List Op :=
  if (d.get (u16 (c.var ev_INS))).type = mdsdrv_INS_PCM then
    match d.bank.samples[(d.waveMap.lookup (u16 (c.var ev_INS))).getD 0]? with
    | none => (g.fail .oob, [])
    | some s => ({ g with lastPcm := some c.chanId },
                 [Wr.mk 0x52 0 0x2b 0x80 (.start (Wave.u32 (s.position + s.start)) s.size s.rate)])
  else (g, [])

/-- the `v_key_off` part of `MD_Channel::key_off` (not FM3); `key_off_pcm` runs before it -/
def keyOff (c : Ch) : Ch × List Op :=
  match c.kind with
  | .fm bank id => (c, ymW bank 0x28 id 0 0)
  | .psg id => ({ c with evType := ev_REST, envKeyoff := true }, if c.evType = ev_END then snW 1 id 15 else [])
  | .noise => ({ c with evType := ev_REST, envKeyoff := true }, if c.evType = ev_END then snW 1 3 15 else [])
  | .dummy => (c, [])

/-- `v_set_pan` -/
def vSetPan (g : G) (c : Ch) : G × List Op :=
  match c.kind with
  | .fm bank id =>
    let p := wrap8 (c.var ev_PAN)
    if 0 ≤ p ∧ p < 4 then (g, ymW bank 0xb4 id 0 (p.toNat * 64)) else (g.fail .input, [])
  | .psg _ | .noise => (g.fail .input, [])
  | .dummy => (g, [])

/-- `MD_Channel::update_tempo` -/
def updateTempo (g : G) (c : Ch) : G × Ch :=
  let t := c.var ev_TEMPO
  ({ g with tempoDelta := if c.bpm then bpmToDelta (u16 t) else u8 t }, c.clearFlag ev_TEMPO)

/-- `case Event::NOTE:` up to the fall-through into `case Event::TIE:` -/
def noteStart (g : G) (c : Ch) (e : Event) : G × Ch × List Op :=
  let c1 : Ch := { c with notePitch := u16 ((e.param + c.var ev_TRANSPOSE) * 256 + c.var ev_DETUNE), keyOn := true }
  if !c1.slur then
    ((if (keyOff c1).1.var ev_PAN_ENVELOPE ≠ 0 then (keyOffPcm g c1).1.fail .unsupported else (keyOffPcm g c1).1), (keyOff c1).1,
     (keyOffPcm g c1).2 ++ (keyOff c1).2)
  else (g, c1, [])

/-- `case Event::TIE:` (shared with `NOTE`): pending instrument or volume change -/
def insOrVol (d : Data) (g : G) (c : Ch) : G × Ch × List Op :=
  if c.flag ev_INS then ((setIns d g c).1, { (setIns d g c).2.1 with keyOn := true }, (setIns d g c).2.2)
  else if c.flag ev_VOL_FINE then (g, (setVol c).1, (setVol c).2)
  else (g, c, [])

/-- `MD_Channel::write_event`; `c.evType` is `event.type` -/
def writeEvent (d : Data) (g : G) (c : Ch) (e : Event) : G × Ch × List Op :=
  let t := c.evType
  if t = ev_SEGNO then ({ g with loopTrigger := true }, c, [])
  else if t = ev_NOTE then
    ((insOrVol d (noteStart g c e).1 (noteStart g c e).2.1).1, (insOrVol d (noteStart g c e).1 (noteStart g c e).2.1).2.1,
     (noteStart g c e).2.2 ++ (insOrVol d (noteStart g c e).1 (noteStart g c e).2.1).2.2)
  else if t = ev_TIE then insOrVol d g c
  else if t = ev_END then ({ (keyOffPcm g c).1 with loopTrigger := true }, (keyOff c).1, (keyOffPcm g c).2 ++ (keyOff c).2)
  else if t = ev_REST then ((keyOffPcm g c).1, (keyOff c).1, (keyOffPcm g c).2 ++ (keyOff c).2)
  else if t = ev_SLUR then (g, { c with slur := true }, [])
  else if t = ev_TEMPO ∨ t = ev_TEMPO_BPM then ((updateTempo g c).1, (updateTempo g c).2, [])
  else if t = ev_PLATFORM then (g.fail .unsupported, c, [])
  else if t = ev_PAN then ((vSetPan g c).1, c, (vSetPan g c).2)
  else if t = ev_PAN_ENVELOPE then
    if c.var ev_PAN_ENVELOPE ≠ 0 then (g.fail .unsupported, c, []) else (g, c, [])
  else (g, c, [])

/-- one `step_event` of the channel's player followed by its `write_event` call, if any -/
def chStep (d : Data) (song : Song) (g : G) (c : Ch) : G × Ch × List Op :=
  let r := pstep song c.root (fun _ => false) false c.ps
  if r.1.err.isSome then (g.fail .input, { c with ps := r.1 }, [])
  else
    match r.2 with
    | [] => (g, { c with ps := r.1, evType := ev_END }, [])
    | e :: _ => writeEvent d g { c with ps := r.1, evType := e.type } e

/-- `while(is_enabled() && !on_time && !off_time) step_event();` -/
def chSettle (d : Data) (song : Song) : Nat → G → Ch → G × Ch × List Op
  | 0, g, c => if isSettled c.ps || g.err.isSome then (g, c, []) else (g.fail .unsupported, c, [])
  | fuel + 1, g, c =>
    if isSettled c.ps || g.err.isSome then (g, c, []) else
    let (g, c, o1) := chStep d song g c
    let (g, c, o2) := chSettle d song fuel g c
    (g, c, o1 ++ o2)

/-- `on_time--; play_time++` / `off_time--; play_time++` -/
def Ch.decOn (c : Ch) : Ch :=
  { c with ps := { c.ps with acc := { c.ps.acc with onTime := c.ps.acc.onTime - 1, playTime := c.ps.acc.playTime + 1 } } }
def Ch.decOff (c : Ch) : Ch :=
  { c with ps := { c.ps with acc := { c.ps.acc with offTime := c.ps.acc.offTime - 1, playTime := c.ps.acc.playTime + 1 } } }

/-- the count-down part of `Player::play_tick` (a synthetic `REST` goes to `write_event`) -/
def chDec (d : Data) (g : G) (c : Ch) : G × Ch × List Op :=
  if c.ps.acc.onTime > 0 then
    if c.ps.acc.onTime - 1 = 0 ∧ c.ps.acc.offTime > 0 then writeEvent d g { c.decOn with evType := ev_REST } restEvent
    else (g, c.decOn, [])
  else if c.ps.acc.offTime > 0 then (g, c.decOff, [])
  else (g, c, [])

/-- `Player::play_tick` with `MD_Channel::write_event` as the event handler -/
def chTick (d : Data) (song : Song) (g : G) (c : Ch) : G × Ch × List Op :=
  if g.err.isSome then (g, c, []) else
  let r1 := chDec d g c
  let r2 := chSettle d song settleFuel r1.1 r1.2.1
  (r2.1, r2.2.1, r1.2.2 ++ r2.2.2)

def chTicks (d : Data) (song : Song) : Nat → G → Ch → G × Ch × List Op
  | 0, g, c => (g, c, [])
  | n + 1, g, c =>
    let (g, c, o1) := chTick d song g c
    let (g, c, o2) := chTicks d song n g c
    (g, c, o1 ++ o2)

/-- `MD_PSG::v_update_envelope`, first statement: a key-on that is not slurred restarts the envelope -/
def psgEnvRestart (c : Ch) : Ch :=
  if c.keyOn ∧ !c.slur then { c with envPos := 0, envDelay := 0x1f, envKeyoff := false } else c

/-- `MD_PSG::v_update_envelope`: sustain / loop command at the current envelope position;
`none` = `vector::at` throws -/
def psgEnvCmd (c : Ch) (d0 : Nat) : Option Ch :=
  if d0 = 0x01 ∧ c.envKeyoff then some { c with envPos := (c.envPos + 1) % 256, envKeyoff := false }
  else if d0 = 0x02 ∧ !c.envKeyoff then
    match c.envData[c.envPos + 1]? with
    | none => none
    | some p => some { c with envPos := p }
  else some c

/-- `MD_PSG::v_update_envelope`: the byte at the (new) position — a level with its delay, or the
end of the envelope -/
def psgEnvValue (g : G) (c : Ch) (id : Nat) : G × Ch × List Op :=
  match c.envData[c.envPos]? with
  | none => (g.fail .oob, c, [])
  | some d1 =>
    if d1 > 0x0f then
      (g, { c with envDelay := d1, envPos := (c.envPos + 1) % 256 }, vSetVol { c with envDelay := d1 })
    else if c.evType = ev_REST ∧ c.envKeyoff then
      (g, { c with envKeyoff := false, envPos := 0xff }, snW 1 id 15)
    else (g, c, [])

/-- `MD_PSG::v_update_envelope`, the envelope stepper -/
def psgEnvBody (g : G) (c : Ch) (id : Nat) : G × Ch × List Op :=
  if c.envDelay < 0x20 ∨ c.envKeyoff then
    if c.envPos = 0xff then (g, c, []) else
    match c.envData[c.envPos]? with
    | none => (g.fail .oob, c, [])
    | some d0 =>
      match psgEnvCmd c d0 with
      | none => (g.fail .oob, c, [])
      | some c => psgEnvValue g c id
  else (g, { c with envDelay := c.envDelay - 0x10 }, [])

/-- `MD_PSG::v_update_envelope` -/
def psgEnvelope (g : G) (c : Ch) (id : Nat) : G × Ch × List Op :=
  if !c.enabled then (g, c, []) else psgEnvBody g (psgEnvRestart c) id

/-- `v_set_pitch` -/
def vSetPitch (c : Ch) : List Op :=
  match c.kind with
  | .fm bank id => ymW bank 0xa0 id 0 (fmPitch c.pitch)
  | .psg id => snW 0 id (psgPitch c.pitch)
  | .noise => snW 0 3 (c.pitch / 256 % 8)
  | .dummy => []

/-- `v_key_on` (`pcm_channel_enable` false) -/
def vKeyOn (c : Ch) : List Op :=
  match c.kind with
  | .fm bank id => ymW bank 0x28 id 0 15
  | _ => []

/-- `v_update_envelope()` -/
def chEnv (g : G) (c : Ch) : G × Ch × List Op :=
  match isPsg c.kind with
  | some id => psgEnvelope g c id
  | none => (g, c, [])

/-- `update_pitch(); if(pitch != last_pitch) set_pitch(); last_pitch = pitch;` (no portamento,
no pitch envelope) -/
def chPitch (c : Ch) : Ch × List Op :=
  let p := u16 ((c.notePitch : Int) + c.insTranspose * 256)
  ({ c with pitch := p, lastPitch := p }, if p ≠ c.lastPitch then vSetPitch { c with pitch := p } else [])

/-- `if(key_on_flag) { if(!slur_flag) key_on(); slur_flag = false; key_on_flag = false; }` -/
def chKeyOn (c : Ch) : Ch × List Op :=
  (if c.keyOn then { c with slur := false, keyOn := false } else c, if c.keyOn ∧ !c.slur then vKeyOn c else [])

/-- the `key_on_pcm()` call of `MD_Channel::key_on`, made under the same condition as `v_key_on` -/
def chKeyOnPcm (d : Data) (g : G) (c : Ch) : G × List Op :=
  if c.keyOn ∧ !c.slur then keyOnPcm d g c else (g, [])

/-- the part of `MD_Channel::update` after the tick loop -/
def chAfter (d : Data) (g : G) (c : Ch) : G × Ch × List Op :=
  if g.err.isSome then (g, c, []) else
  let r1 := chEnv g c
  let g2 := if r1.2.1.var ev_PORTAMENTO ≠ 0 ∨ r1.2.1.var ev_PITCH_ENVELOPE ≠ 0 then r1.1.fail .unsupported else r1.1
  let r2 := chPitch r1.2.1
  let rp := chKeyOnPcm d g2 r2.1
  let r3 := chKeyOn r2.1
  (rp.1, r3.1, r1.2.2 ++ r2.2 ++ rp.2 ++ r3.2)

/-- `MD_Channel::update(seq_ticks)` -/
def chUpdate (d : Data) (song : Song) (n : Nat) (g : G) (c : Ch) : G × Ch × List Op :=
  let r1 := chTicks d song n g c
  let r2 := chAfter d r1.1 r1.2.1
  (r2.1, r2.2.1, r1.2.2 ++ r2.2.2)

/-! ### the driver -/
structure Drv where
  chans : List Ch
  g : G
  tempoCounter : Nat := 0
  ticks : Nat := 0
  seqCounter : Int := 0
  pcmCounter : Int := 0
  deriving Repr

def seqDelta : Int := (vgm_export_rate / md_seq_rate_ntsc : Nat)
def pcmDelta : Int := (vgm_export_rate / md_pcm_rate_default : Nat)

/-- the tempo accumulator of `MD_Driver::seq_update`: `(tempo_step, new tempo_counter)` -/
def tempoStep (counter delta : Nat) : Nat × Nat :=
  ((counter + delta + 1) / 2 ^ md_tempo_shift, (counter + delta + 1) % 2 ^ md_tempo_shift)

def updateAll (d : Data) (song : Song) (n : Nat) : G → List Ch → G × List Ch × List Op
  | g, [] => (g, [], [])
  | g, c :: cs =>
    let (g, c, o1) := if c.enabled then chUpdate d song n g c else (g, c, [])
    let (g, cs, o2) := updateAll d song n g cs
    (g, c :: cs, o1 ++ o2)

/-- `MD_Driver::seq_update` -/
def seqUpdate (d : Data) (song : Song) (s : Drv) : Drv × List Op :=
  let (step, counter) := tempoStep s.tempoCounter s.g.tempoDelta
  let (g, cs, o) := updateAll d song step s.g s.chans
  ({ s with chans := cs, g := g, tempoCounter := counter, ticks := s.ticks + step }, o)

/-- `MD_Driver::is_playing` -/
def isPlaying (s : Drv) : Bool := s.chans.any (·.enabled)

def intMax : Int := 2147483647

/-- `MD_Driver::get_loop_count` -/
def loopCount (s : Drv) : Int :=
  if s.chans.isEmpty then 0 else
  s.chans.foldl (fun m c => if c.enabled ∧ loopCountOf c.ps < m then loopCountOf c.ps else m) intMax

/-- `Basic_Player::reset_loop_count` -/
def resetLoopCh (c : Ch) : Ch :=
  let a := c.ps.acc
  if a.loopCount ≠ -1 then
    let rp : Int := if c.ps.core.position ≠ 0 then (c.ps.core.position : Int) - 1 else 0
    let a' : Acc := { a with loopCount := 0, loopResetCount := 0, loopResetPosition := rp }
    { c with ps := { c.ps with acc := a' } }
  else c

/-- the time bookkeeping at the end of `MD_Driver::play_step`: new counters and the returned
delta; `none` = the `|next_delta| < 1/10000` branch -/
def advance (seqC pcmC : Int) : Option (Int × Int × Int) :=
  let n0 := max seqDelta pcmDelta
  let n1 := if seqC + n0 > 0 then n0 - (seqC + n0) else n0
  let n2 := if pcmC + n1 > 0 then n1 - (pcmC + n1) else n1
  if n2 = 0 then none else some (seqC + n2, pcmC + n2, n2)

/-- `if(seq_counter >= 0) { seq_counter -= seq_delta; seq_update(); }` -/
def stepSeq (d : Data) (song : Song) (s : Drv) : Drv × List Op :=
  if s.seqCounter ≥ 0 then seqUpdate d song { s with seqCounter := s.seqCounter - seqDelta } else (s, [])

/-- `if(pcm_counter >= 0) { pcm_counter -= pcm_delta; pcm.update(); }` (PCM mode 0: no write) -/
def stepPcm (s : Drv) : Drv :=
  if s.pcmCounter ≥ 0 then { s with pcmCounter := s.pcmCounter - pcmDelta } else s

/-- `if(loop_trigger && get_loop_count() == 0) { set_loop(); reset_loop_count(); loop_trigger = 0; }` -/
def stepLoop (s : Drv) : Drv × List Vgm.Op :=
  if s.g.loopTrigger ∧ loopCount s = 0 then
    ({ s with chans := s.chans.map resetLoopCh, g := { s.g with loopTrigger := false } }, [Vgm.Op.setLoop])
  else (s, [])

/-- `MD_Driver::play_step` -/
def playStep (d : Data) (song : Song) (s : Drv) : Drv × List Vgm.Op × Int :=
  let r1 := stepSeq d song s
  let r3 := stepLoop (stepPcm r1.1)
  match advance r3.1.seqCounter r3.1.pcmCounter with
  | none => ({ r3.1 with g := r3.1.g.fail .nonInteger }, r1.2.flatMap Wr.toOps ++ r3.2, 0)
  | some (sc, pc, dl) => ({ r3.1 with seqCounter := sc, pcmCounter := pc }, r1.2.flatMap Wr.toOps ++ r3.2, dl)

/-- `MD_Driver::play_song` (after `data.read_song`): data block, DAC stream setup, channels in
track-map order -/
def playSong (d : Data) (song : Song) : Drv × List Vgm.Op :=
  let mk := song.tracks.foldl (fun (acc : List Ch × List Op) (t : Nat × List Event) =>
    if t.1 < 16 then
      let (c, o) := mkCh d t.1 t.2
      (acc.1 ++ [c], acc.2 ++ o)
    else acc) ([], [])
  ({ chans := mk.1, g := { tempoDelta := md_initial_tempo_delta, loopTrigger := false } },
   [Vgm.Op.datablock 0 (d.bank.rom.take (d.bank.rom.length - d.bank.freeBytes)) d.bank.rom.length 0 0,
    Vgm.Op.dacSetup (tab md_dac_setup_args 0) (tab md_dac_setup_args 1) (tab md_dac_setup_args 2)
      (tab md_dac_setup_args 3) (tab md_dac_setup_args 4)] ++ mk.2.flatMap Wr.toOps)

def maxTime : Int := (vgm_export_max_seconds * vgm_export_rate : Nat)

/-- the `while(elapsed_time < max_time)` loop of `Platform::vgm_export` -/
def exportLoop (d : Data) (song : Song) : Nat → Drv → Int → Int → List Vgm.Op → Drv × List Vgm.Op
  | 0, s, _, _, acc => ({ s with g := s.g.fail .tooLong }, acc)
  | fuel + 1, s, elapsed, delta, acc =>
    if elapsed ≥ maxTime then ({ s with g := s.g.fail .tooLong }, acc) else
    let (s, o, dl) := playStep d song s
    let acc := acc ++ (Vgm.Op.delay delta.toNat :: o)
    if s.g.err.isSome then (s, acc)
    else if !isPlaying s ∨ loopCount s ≥ (vgm_export_num_loops : Int) then (s, acc)
    else exportLoop d song fuel s (elapsed + dl) dl acc

/-- enough iterations for one hour of 147-sample steps -/
def exportFuel : Nat := 1100000

/-- header pokes of the `MD_Driver` constructor -/
def ctorPokes : List Vgm.Op :=
  md_vgm_pokes.map fun (w, off, v) =>
    Vgm.Op.poke off (if w = 4 then le32 v else if w = 2 then le16 v else [byteOf v])

/-- `Platform::vgm_export`: the operations performed on the `VGM_Writer` -/
def exportOps (d : Data) (song : Song) (tags : Vgm.Tags) : Except DErr (List Vgm.Op) :=
  let (s, o0) := playSong d song
  let (s, o1) := exportLoop d song exportFuel s 0 0 []
  match s.g.err with
  | some e => .error e
  | none => .ok (ctorPokes ++ o0 ++ o1 ++ [Vgm.Op.stop, Vgm.Op.writeTag tags])

/-- the exported file.  `std::range_error` (a tag that is not valid UTF-8, thrown by the GD3
conversion inside `write_tag`) is caught in `vgm_export` and rethrown as `InputError`. -/
def exportVgm (d : Data) (song : Song) (tags : Vgm.Tags) : Except DErr Bytes :=
  match exportOps d song tags with
  | .error e => .error e
  | .ok ops =>
    match Vgm.run vgm_export_version vgm_export_header_size ops with
    | .error .rangeError => .error .input
    | .error e => .error (.vgm e)
    | .ok b => .ok b

/-! ### tags (`get_tags` of song.cpp, defaults of `VGM_Writer::write_tag`) -/

/-- the song's tag map as `get_tags` reads it: key ↦ values -/
abbrev TagMap := List (String × List Bytes)

/-- `safe_get_tag`: the first value of the tag, or the empty string -/
def safeGetTag (m : TagMap) (k : String) : Bytes :=
  match m.lookup k with
  | some (v :: _) => v
  | _ => []

/-- `get_tags` -/
def getTags (m : TagMap) : Vgm.Tags :=
  let author := if (safeGetTag m "#composer").isEmpty then safeGetTag m "#author" else safeGetTag m "#composer"
  let creator0 := if (safeGetTag m "#programmer").isEmpty then safeGetTag m "#programer" else safeGetTag m "#programmer"
  { title := safeGetTag m "#title", titleJ := safeGetTag m "#titlej", game := safeGetTag m "#game", gameJ := safeGetTag m "#gamej",
    system := safeGetTag m "#system", systemJ := safeGetTag m "#systemj", author := author, authorJ := safeGetTag m "#composerj",
    date := safeGetTag m "#vgmdate", creator := if creator0.isEmpty then author else creator0, notes := safeGetTag m "#comment" }

/-- the two strings `write_tag` takes from outside the song: wall clock and build stamp -/
structure Stamps where
  clock : Bytes
  build : Bytes
  deriving Repr

/-- the eleven strings `write_tag` emits for a song: an empty date is replaced by the clock, an
empty notes string by the build stamp (`std::string::size() == 0`) -/
def finalTags (m : TagMap) (st : Stamps) : Vgm.Tags :=
  let t := getTags m
  { t with date := if t.date.isEmpty then st.clock else t.date, notes := if t.notes.isEmpty then st.build else t.notes }

/-- `Platform::get_export_data(song, 0)` for a song whose instrument data is `d` -/
def exportSong (d : Data) (song : Song) (m : TagMap) (st : Stamps) : Except DErr Bytes :=
  exportVgm d song (finalTags m st)

end Ctrmml.MdDriver
