/-
  Line_Buffer / Line_Input of /repo/src/input.cpp + input.h  (shared by C05, C06, C17).

  One Lean definition per C++ member function, mirroring the code as it is.

  Representation
  * a line is a `List Nat` of bytes (0..255): `std::string` contents.  `char` is signed on the
    target, so `get` returns `schar b` (bytes >= 0x80 come back negative, exactly like
    `int c = (*buffer)[column++]`).  An embedded NUL byte is returned as 0 like the end of line.
  * `column` is a `Nat` (C++: `unsigned int`; lines of 2^32 characters are outside the model).
  * C++ exceptions / undefined behaviour are explicit:
      - `std::out_of_range("unget too many")`        -> `Err.foreign "out_of_range:unget"`
      - `unget(c)` storing past the end of the string  -> `Err.foreign "ub:unget-store-past-end"`
      - `get_num` with `column > size` (pointer past the terminating NUL handed to `strtol`)
                                                       -> `Err.foreign "ub:get_num-past-end"`
      - `get_line` with `column > size` (`std::string(str,pos)` throws) -> `Err.foreign "out_of_range:get_line"`
      - `std::invalid_argument("expected number")` is NOT an error of the model function: `getNum`
        returns `none` together with the buffer *as the C++ leaves it* (blanks and a `$`/`x`
        prefix stay consumed), because every caller catches it or lets it escape explicitly.
  * `InputError` (thrown through `Input::parse_error`) is `Err.input msg ref`; `what()` is
    rendered by `Err.what` (`"%s:%d:%d: %s"` with line+1, column+1; 200-byte `snprintf` cut).

  Narrowings made explicit
  * `int ret = strtol(..)`: `long` -> `int` by `wrapS32` (after `strtol`'s own clamp to
    `LONG_MIN/LONG_MAX`).
  * `(*buffer)[--column] = c`: `int` -> `char` by `ucharOf` (mod 256).

  `strtol` is modelled for the "C" locale: leading `isspace` bytes (9..13, 32), optional sign,
  in base 16 an optional `0x`/`0X` that is followed by a hex digit, a non-empty digit run;
  value clamped to the range of `long` (64 bit).  No digits => no conversion (`endptr == ptr`).
-/
namespace Ctrmml.Lexer

/-- `(file,) line, column` of `InputRef` (0-based as stored; `what()` prints both +1) -/
structure Ref where
  line : Nat
  column : Nat
  deriving DecidableEq, Repr, Inhabited

inductive Err
  /-- `InputError` raised by `Input::parse_error(msg)` at `get_reference()` -/
  | input (msg : String) (ref : Ref)
  /-- any other C++ exception type escaping, or an undefined-behaviour site (`ub:…`) -/
  | foreign (kind : String)
  deriving DecidableEq, Repr, Inhabited

/-- `InputError::what()` for an empty file name -/
def Err.what : Err → String
  | .input msg r => (s!":{r.line + 1}:{r.column + 1}: {msg}").take 199 |>.toString
  | .foreign k => k

/-- value of a byte read through a (signed) `char` -/
def schar (b : Nat) : Int := if b % 256 < 128 then ((b % 256 : Nat) : Int) else ((b % 256 : Nat) : Int) - 256

/-- `(char)c` stored back into the string -/
def ucharOf (c : Int) : Nat := (c % 256).toNat

def isBlank (c : Int) : Bool := c == 32 || c == 9
def isSpace (c : Int) : Bool := c == 32 || (9 ≤ c && c ≤ 13)
def isDigit (c : Int) : Bool := 48 ≤ c && c ≤ 57
def isUpper (c : Int) : Bool := 65 ≤ c && c ≤ 90
def isLower (c : Int) : Bool := 97 ≤ c && c ≤ 122
def isAlpha (c : Int) : Bool := isUpper c || isLower c
def toLower (c : Int) : Int := if isUpper c then c + 32 else c

/-- the bytes of an ASCII string literal -/
def strBytes (s : String) : List Nat := s.toList.map Char.toNat

structure LineBuffer where
  buf : List Nat
  column : Nat
  deriving DecidableEq, Repr, Inhabited

namespace LineBuffer

/-- `Line_Buffer::get` -/
def get (b : LineBuffer) : Int × LineBuffer :=
  (match b.buf[b.column]? with
   | some c => schar c
   | none => 0,
   { b with column := b.column + 1 })

/-- number of leading blank bytes (space, tab) -/
def countBlanks : List Nat → Nat
  | [] => 0
  | c :: cs => if isBlank (schar c) then countBlanks cs + 1 else 0

/-- `Line_Buffer::get_token`: `do c = get(); while(isblank(c));` — written as "skip the blank
run, then `get`" (the loop stops at the end of the buffer because `get` returns 0 there). -/
def getToken (b : LineBuffer) : Int × LineBuffer :=
  get { b with column := b.column + countBlanks (b.buf.drop b.column) }

/-- `Line_Buffer::unget(c)`, including the write-back of a non-zero `c` -/
def unget (b : LineBuffer) (c : Int := 0) : Except Err LineBuffer :=
  if b.column = 0 then .error (.foreign "out_of_range:unget")
  else if c = 0 then .ok { b with column := b.column - 1 }
  else if b.column - 1 < b.buf.length then
    .ok { buf := b.buf.set (b.column - 1) (ucharOf c), column := b.column - 1 }
  else .error (.foreign "ub:unget-store-past-end")

def tell (b : LineBuffer) : Nat := b.column
def seek (b : LineBuffer) (pos : Nat) : LineBuffer := { b with column := pos }

/-- `Line_Buffer::get_line`: `std::string(*buffer, column)` -/
def getLine (b : LineBuffer) : Except Err (List Nat) :=
  if b.column ≤ b.buf.length then .ok (b.buf.drop b.column) else .error (.foreign "out_of_range:get_line")

end LineBuffer

/-! ### `strtol` -/

def digitVal (base : Nat) (c : Nat) : Option Nat :=
  let v := if 48 ≤ c ∧ c ≤ 57 then c - 48
           else if 97 ≤ c ∧ c ≤ 122 then c - 87
           else if 65 ≤ c ∧ c ≤ 90 then c - 55
           else 99
  if v < base then some v else none

def countSpaces : List Nat → Nat
  | [] => 0
  | c :: cs => if isSpace (schar c) then countSpaces cs + 1 else 0

/-- the maximal run of base-`base` digits at the head, as digit values -/
def takeDigits (base : Nat) : List Nat → List Nat
  | [] => []
  | c :: cs => match digitVal base c with
    | some v => v :: takeDigits base cs
    | none => []

def digitsValue (base : Nat) (ds : List Nat) : Nat := ds.foldl (fun a d => a * base + d) 0

def longMax : Int := 9223372036854775807
def longMin : Int := -9223372036854775808

/-- the optional sign: (negative?, bytes consumed) -/
def signSplit : List Nat → Bool × Nat
  | 45 :: _ => (true, 1)
  | 43 :: _ => (false, 1)
  | _ => (false, 0)

/-- length of a recognised `0x`/`0X` prefix (base 16 only, and only before a hex digit) -/
def hexPrefix (base : Nat) (s : List Nat) : Nat :=
  if base == 16 then
    match s with
    | 48 :: x :: h :: _ => if (x == 120 || x == 88) && (digitVal 16 h).isSome then 2 else 0
    | _ => 0
  else 0

/-- `strtol(ptr,&end,base)` on the bytes from `ptr` (a NUL or the end of the list terminates):
`some (value, end - ptr)`, or `none` when no conversion is performed (`end == ptr`). -/
def strtol (s : List Nat) (base : Nat) : Option (Int × Nat) :=
  let ws := countSpaces s
  let sg := signSplit (s.drop ws)
  let s2 := (s.drop ws).drop sg.2
  let px := hexPrefix base s2
  let ds := takeDigits base (s2.drop px)
  if ds.isEmpty then none else
  let mag : Int := digitsValue base ds
  let v : Int := if sg.1 then (if -mag < longMin then longMin else -mag)
                 else (if mag > longMax then longMax else mag)
  some (v, ws + sg.2 + px + ds.length)

/-- `long`/`int` -> `int` (two's complement, 32 bit) -/
def wrapS32 (v : Int) : Int := (v + 2147483648) % 4294967296 - 2147483648
/-- `long long` -> `unsigned int` (mod 2^32) -/
def wrapU32 (v : Int) : Nat := (v % 4294967296).toNat
/-- -> `int16_t` -/
def wrapS16 (v : Int) : Int := (v + 32768) % 65536 - 32768
/-- -> `int8_t` -/
def wrapS8 (v : Int) : Int := (v + 128) % 256 - 128
/-- -> `uint16_t` -/
def wrapU16 (v : Int) : Nat := (v % 65536).toNat

def inInt32 (v : Int) : Bool := -2147483648 ≤ v && v ≤ 2147483647

namespace LineBuffer

/-- `Line_Buffer::get_num`.  `.ok (some v, b')`: number read; `.ok (none, b')`:
`std::invalid_argument("expected number")` thrown with the buffer left as `b'`;
`.error`: an undefined-behaviour site. -/
def getNum (b : LineBuffer) : Except Err (Option Int × LineBuffer) := do
  let (c, b1) := b.getToken
  let (base, b2) ← if c == 36 || c == 120 then pure (16, b1) else do
    let b2 ← b1.unget c
    pure (10, b2)
  if b2.column = b2.buf.length then return (none, b2)
  if b2.column > b2.buf.length then throw (.foreign "ub:get_num-past-end")
  match strtol (b2.buf.drop b2.column) base with
  | none => return (none, b2)
  | some (v, n) => return (some (wrapS32 v), { b2 with column := b2.column + n })

end LineBuffer

/-! ### `Line_Input` -/

/-- `Line_Input`: the buffer plus the current line number (file name is constant) -/
structure LineInput where
  lb : LineBuffer
  line : Nat
  deriving DecidableEq, Repr, Inhabited

/-- `Line_Input::get_reference()` -/
def LineInput.getReference (i : LineInput) : Ref := { line := i.line, column := i.lb.column }

/-- the assignments of `Line_Input::read_line(input_line, line_number)` before `parse_line()` -/
def LineInput.readLine (_i : LineInput) (text : List Nat) (lineNumber : Nat) : LineInput :=
  { lb := { buf := text, column := 0 }, line := lineNumber }

end Ctrmml.Lexer
