/-
  Model of `Basic_Player` (src/player.cpp): `step_event`, the stack helpers, and
  `Track_Validator`.

  The C++ `step_event` is factored here into two pieces that are composed again in `step`:
  * `coreStep` — the part that decides control flow: current track, position, stack.  It
    never reads the accumulators.
  * `accStep`  — what the same call does to the accumulators (`play_time`, `on_time`,
    `off_time`, `loop_play_time`, `loop_position`, `loop_reset_position`, `loop_count`,
    `loop_reset_count`, `enabled`) given what `coreStep` reports.  Only the final decision
    at a root `END` reads them.
  `loop_begin_depth` is derived (number of LOOP frames whose count is still 0) instead of
  being kept as a counter; `is_inside_loop()` computed from it is compared against the real
  one on every step of every trace by the correspondence check.
  `stack_depth[type]` is likewise derived from the stack.
  `play_time` is an `unsigned int` in the C++ and a `Nat` here (tracks shorter than 2^32
  ticks assumed); `Event::play_time` stamping and the `LOOP_BREAK` param write-back into the
  song do not influence this machine and are modelled in C16.
-/
import Ctrmml.Model.Event
namespace Ctrmml.Player
open Ctrmml Tables

inductive FType | loop | jump | drum
  deriving DecidableEq, Repr

structure Frame where
  type : FType
  track : TRef
  position : Nat
  endPosition : Nat
  loopCount : Int
  deriving DecidableEq, Repr

/-- every message `Basic_Player::error` is called with (all are `InputError`s) -/
inductive PErr
  | stackOverflow | unterminatedLoop | unexpectedLoopEnd | drumNoNote | invalidLoopCount
  | jumpMissing | drumTrackMissing | platformMissing
  | impossible   -- `vector::at` on a state no run can reach (documented at its use)
  | fuel         -- model artefact: step budget exhausted (shown unreachable)
  deriving DecidableEq, Repr

/-- `stack_underflow(type)` -/
def underflowErr : FType → PErr
  | .loop => .unterminatedLoop
  | .jump => .unexpectedLoopEnd
  | .drum => .drumNoNote

/-- `stack_top(type)`; `stack_pop(type)` fails in exactly the same cases. -/
def stackTop (st : List Frame) (ty : FType) : Except PErr Frame :=
  match st with
  | [] => .error (underflowErr ty)
  | f :: _ => if f.type = ty then .ok f else .error (underflowErr f.type)

structure Core where
  track : TRef
  position : Nat
  stack : List Frame
  deriving DecidableEq, Repr

/-- what one `step_event` reports to the rest of the player -/
inductive Out
  /-- `event_hook()` is called with `visible` as the current event; `fetched` is the event
  read from the track (they differ only on the final-pass break, where the hook sees the
  loop's `LOOP_END`) -/
  | hook (visible fetched : Event)
  /-- `END` popped a return frame: no hook -/
  | ret (fetched : Event)
  /-- `END` with an empty stack: the accumulators decide between loop-back and stop -/
  | rootEnd (fetched : Event)
  deriving DecidableEq, Repr

def Out.fetched : Out → Event
  | .hook _ f => f
  | .ret f => f
  | .rootEnd f => f

def maxStack : Nat := playerMaxStackDepth

/-- `stack_push` -/
def push (st : List Frame) (f : Frame) : Except PErr (List Frame) :=
  if st.length ≥ maxStack then .error .stackOverflow else .ok (f :: st)

def fetch (code : List Event) (pos : Nat) : Event := (code[pos]?).getD endEvent

/-- control part of `Basic_Player::step_event` -/
def coreStep (song : Song) (root : List Event) (c : Core) : Except PErr (Core × Out) :=
  let code := codeOf song root c.track
  let e := fetch code c.position
  let pos := c.position + 1
  match e.kind with
  | .loopStart =>
    match push c.stack { type := .loop, track := c.track, position := pos, endPosition := 0, loopCount := 0 } with
    | .error err => .error err
    | .ok st => .ok ({ c with position := pos, stack := st }, .hook e e)
  | .loopBreak =>
    match stackTop c.stack .loop with
    | .error err => .error err
    | .ok f =>
      if f.loopCount = 1 then
        -- `event = track->get_event(end_position - 1)`; `vector::at` cannot fail here in a
        -- reachable state (a count of 1 is only ever stored together with `end_position`)
        match code[f.endPosition - 1]? with
        | none => .error .impossible
        | some le => .ok ({ c with position := f.endPosition, stack := c.stack.tail }, .hook le e)
      else .ok ({ c with position := pos }, .hook e e)
  | .loopEnd =>
    match stackTop c.stack .loop with
    | .error err => .error err
    | .ok f =>
      let cnt := if f.loopCount = 0 then e.param else f.loopCount
      if cnt < 0 then .error .invalidLoopCount
      else if cnt - 1 > 0 then
        .ok ({ c with position := f.position,
                      stack := { f with endPosition := pos, loopCount := cnt - 1 } :: c.stack.tail }, .hook e e)
      else .ok ({ c with position := pos, stack := c.stack.tail }, .hook e e)
  | .segno => .ok ({ c with position := pos }, .hook e e)
  | .jump =>
    let id := trackIdOfParam e.param
    match song.track? id with
    | none => .error .jumpMissing
    | some _ =>
      -- `event_hook()` runs before the push; an `InputError` from the push is caught by the
      -- surrounding `catch(std::exception&)` and re-thrown as "jump destination doesn't exist"
      match push c.stack { type := .jump, track := c.track, position := pos, endPosition := 0, loopCount := 0 } with
      | .error _ => .error .jumpMissing
      | .ok st => .ok ({ track := .id id, position := 0, stack := st }, .hook e e)
  | .fin =>
    match c.stack with
    | [] => .ok ({ c with position := pos }, .rootEnd e)
    | _ :: _ =>
      match stackTop c.stack .jump with
      | .error err => .error err
      | .ok f => .ok ({ track := f.track, position := f.position, stack := c.stack.tail }, .ret e)
  | .other => .ok ({ c with position := pos }, .hook e e)

/-- the accumulators of `Basic_Player` -/
structure Acc where
  playTime : Nat := 0
  onTime : Nat := 0
  offTime : Nat := 0
  loopPlayTime : Int := -1
  loopPosition : Int := -1
  loopResetPosition : Int := -1
  loopCount : Int := -1
  loopResetCount : Int := 0
  enabled : Bool := true
  /-- `last_loop_jump_time`: `play_time` at the last jump back to the loop point (-1 = none yet) -/
  lastLoopJump : Int := -1
  deriving DecidableEq, Repr

/-- what the hooks of a derived player are told -/
inductive Emit | event (e : Event) | finish | nothing
  deriving DecidableEq, Repr

/-- accumulator part of `step_event`: `posBefore` is `position` on entry, `c'` the control
state `coreStep` produced, `loopHook` the value `loop_hook()` returns. Returns the new
accumulators, the possibly redirected control state (loop-back at a root `END`) and what the
derived class sees. -/
def accStep (loopHook : Bool) (a : Acc) (posBefore : Nat) (c' : Core) (o : Out) : Acc × Core × Emit :=
  let a1 : Acc := { a with
    playTime := a.playTime + a.onTime + a.offTime,
    loopResetCount := if (posBefore : Int) = a.loopResetPosition then a.loopCount else a.loopResetCount,
    onTime := o.fetched.on, offTime := o.fetched.off }
  match o with
  | .hook v f =>
    if f.kind = .segno then
      ({ a1 with loopCount := 0, loopResetCount := 0, loopPosition := posBefore + 1,
                 loopResetPosition := posBefore + 1, loopPlayTime := a1.playTime }, c', .event v)
    else (a1, c', .event v)
  | .ret _ => (a1, c', .nothing)
  | .rootEnd _ =>
    -- no jump if no time has passed since the last one: the next pass would be the same
    if a1.loopPosition ≠ -1 ∧ (a1.playTime : Int) ≠ a1.loopPlayTime ∧ (a1.playTime : Int) ≠ a1.lastLoopJump ∧ loopHook then
      ({ a1 with loopCount := a1.loopCount + 1, lastLoopJump := a1.playTime },
       { c' with position := a1.loopPosition.toNat }, .nothing)
    else ({ a1 with enabled := false }, c', .finish)

structure PState where
  core : Core
  acc : Acc
  deriving DecidableEq, Repr

def initState : PState := { core := { track := .root, position := 0, stack := [] }, acc := {} }

/-- `Basic_Player::step_event` -/
def step (song : Song) (root : List Event) (loopHook : Bool) (s : PState) : Except PErr (PState × Emit) :=
  match coreStep song root s.core with
  | .error e => .error e
  | .ok (c', o) =>
    let (a', c'', em) := accStep loopHook s.acc s.core.position c' o
    .ok ({ core := c'', acc := a' }, em)

/-- `is_inside_loop()` with `loop_begin_depth` derived from the stack -/
def insideLoop (st : List Frame) : Bool :=
  let loops := st.filter (·.type = .loop)
  loops.length ≠ 0 && loops.length ≠ (loops.filter (·.loopCount = 0)).length

/-- `is_inside_jump()` -/
def insideJump (st : List Frame) : Bool := (st.filter (·.type = .jump)).length ≠ 0

/-- `Track_Validator`: `while(is_enabled()) step_event();` then the three numbers it exposes.
`loop_hook()` returns 0. -/
structure Validated where
  playTime : Nat
  loopPlayTime : Int
  loopLength : Nat
  deriving DecidableEq, Repr

def runValidator (song : Song) (root : List Event) : Nat → PState → Except PErr PState
  | 0, _ => .error .fuel
  | fuel + 1, s =>
    if !s.acc.enabled then .ok s else
    match step song root false s with
    | .error e => .error e
    | .ok (s', _) => runValidator song root fuel s'

def validatedOf (s : PState) : Validated :=
  { playTime := s.acc.playTime, loopPlayTime := s.acc.loopPlayTime,
    -- `end_hook`: `if(loop_play_time >= 0) loop_time = get_play_time() - loop_play_time;`
    loopLength := if s.acc.loopPlayTime ≥ 0 then s.acc.playTime - s.acc.loopPlayTime.toNat else 0 }

end Ctrmml.Player

namespace Ctrmml.Player
/-- `get_stack_type() == Player_Stack::LOOP` -/
def topIsLoop (st : List Frame) : Bool :=
  match st with
  | f :: _ => f.type == .loop
  | [] => false

/-- the stack as `event_hook()` sees it: `JUMP` calls the hook before pushing, every other
event after its stack update -/
def hookStack (c c' : Core) (o : Out) : List Frame :=
  match o with
  | .hook _ f => if f.kind = .jump then c.stack else c'.stack
  | _ => c'.stack

/-- what a tracing subclass of `Basic_Player` records in `event_hook`/`end_hook` -/
structure TraceItem where
  ev : Event
  on : Nat
  off : Nat
  insideLoop : Bool
  insideJump : Bool
  /-- `get_stack_type() == Player_Stack::LOOP` as the hook sees it -/
  topLoop : Bool := false
  deriving Repr

/-- A `JUMP` to an existing track calls `event_hook()` *before* the push that may overflow:
in that one case the hook has seen the event although the step ends in an error. -/
def hookBeforeError (song : Song) (root : List Event) (s : PState) : Option TraceItem :=
  let e := fetch (codeOf song root s.core.track) s.core.position
  if e.kind = .jump ∧ (song.track? (trackIdOfParam e.param)).isSome then
    some { ev := e, on := e.on, off := e.off,
           insideLoop := insideLoop s.core.stack, insideJump := insideJump s.core.stack,
           topLoop := topIsLoop s.core.stack }
  else none

/-- `step_event` + the hook's view; `none` for steps that call no hook, `some none` = end hook;
on an error, the hook call that preceded it (if any) -/
def stepTrace (song : Song) (root : List Event) (loopHook : Bool) (s : PState) :
    Except (PErr × Option TraceItem) (PState × Option (Option TraceItem)) :=
  match coreStep song root s.core with
  | .error e => .error (e, hookBeforeError song root s)
  | .ok (c', o) =>
    let (a', c'', em) := accStep loopHook s.acc s.core.position c' o
    let st := hookStack s.core c' o
    let t := match em with
      | .event v => some (some { ev := v, on := a'.onTime, off := a'.offTime,
                                 insideLoop := insideLoop st, insideJump := insideJump st,
                                 topLoop := topIsLoop st })
      | .finish => some none
      | .nothing => none
    .ok ({ core := c'', acc := a' }, t)
end Ctrmml.Player
