/-
  Model of `MDSDRV_Track_Writer` (event_hook / end_hook / check_instrument / bpm_to_delta) and
  of the `MDSDRV_Converter` constructor (index spaces, recursive `get_subroutine` /
  `get_macro_track`, `get_envelope`, header and pointer tables) — src/platform/mdsdrv.cpp.

  * The instrument/envelope tables that `MDSDRV_Data::read_song` produces are an input here
    (`DataInfo`): which ids exist, their type, and the data-bank index they map to.  Their
    construction is modelled separately (C11).
  * `parse_platform_event`: the register-name commands and `strtol` parsing are outside this
    model; platform commands are given as already-resolved event lists (`platform`), or absent.
  * `int16_t param` narrowing where the C++ assigns an `int` to it is explicit (`wrap16`);
    `uint16_t` arguments wrap (`u16`).  `rest_time` is a `uint16_t` and wraps.
  * `bpm_to_delta` is evaluated in exact rationals: `trunc((128·bpm·ppqn/24 − 75)/150)` for the
    only `ppqn` the front end can produce (24); compared against the binary64 evaluation of the
    real code on all 65 536 arguments by the correspondence check on every run.
  * Recursion `event_hook → get_subroutine → writer → event_hook` carries a budget (number of
    distinct subroutine keys is finite; exhausting it is the model error `fuel`).
-/
import Ctrmml.Model.Player
import Ctrmml.Model.MdsCodec
namespace Ctrmml.Mds
open Ctrmml Player Tables

def wrap16 (x : Int) : Int := ((x + 32768) % 65536) - 32768
def u16 (x : Int) : Nat := (x % 65536).toNat

structure DataInfo where
  /-- `ins_type` : instrument id ↦ InstrumentType -/
  insType : List (Int × Nat) := []
  /-- `envelope_map` : instrument id ↦ data-bank index -/
  envelopeMap : List (Int × Nat) := []
  /-- `pitch_map` -/
  pitchMap : List (Int × Nat) := []
  /-- `pitch_extend` (set) -/
  pitchExtend : List Int := []
  /-- platform commands: id ↦ the MDSDRV events `parse_platform_event` emits (`none` = the tag
  exists but makes the writer throw an input error) -/
  platform : List (Int × Option (List MEv)) := []
  deriving Repr

inductive WErr
  | player (e : PErr)
  | noteRange | drumNoteInLoop | drumMissing | subMissing | platformMissing | platformBad | insMissing | insType
  | macroMissing | pitchMissing
  | fuel
  deriving DecidableEq, Repr

structure Conv where
  usedData : List (Nat × Nat) := []      -- used_data_map : mapped_id ↦ env_id (insertion order kept)
  subMap : List (Int × Nat) := []        -- subroutine_map
  macroMap : List (Int × Nat) := []      -- macro_track_map
  subList : List (List MEv) := []
  macroList : List (List MEv) := []
  deriving Repr

/-- `get_envelope` -/
def getEnvelope (c : Conv) (mapped : Nat) : Conv × Nat :=
  match c.usedData.lookup mapped with
  | some i => (c, i)
  | none => ({ c with usedData := c.usedData ++ [(mapped, c.usedData.length)] }, c.usedData.length)

/-- `bpm_to_delta` for ppqn = 24 -/
def bpmToDelta (bpm : Nat) : Nat :=
  let num : Int := 128 * (bpm : Int) - 75
  let t : Int := if num < 0 then 0 else num / 150
  min 255 t.toNat

structure WState where
  out : List MEv := []       -- converted_events
  inLoop : Bool := false     -- set by SEGNO
  restTime : Nat := 0
  drumEnabled : Bool
  inDrum : Bool
  trackId : Int
  disabled : Bool := false   -- `disable()` called from the hook
  deriving Repr

/-- `check_instrument` -/
def checkInstrument (d : DataInfo) (trackId : Int) (param : Int) : Except WErr Unit :=
  match d.insType.lookup param with
  | none => .ok ()
  | some ty0 =>
    let ty := if ty0 > mdsIns_INS_PCM then mdsIns_INS_UNDEFINED else ty0
    if (0 ≤ trackId ∧ trackId < 5 ∧ ty ≠ mdsIns_INS_FM) ∨
       (trackId = 5 ∧ ty ≠ mdsIns_INS_FM ∧ ty ≠ mdsIns_INS_PCM) then .error .insType
    else if 6 ≤ trackId ∧ trackId < 10 ∧ ty ≠ mdsIns_INS_PSG then .error .insType
    else if 10 ≤ trackId ∧ trackId < 12 ∧ ty ≠ mdsIns_INS_PCM then .error .insType
    else .ok ()

def flushRest (w : WState) : WState :=
  if w.restTime ≠ 0 then { w with out := w.out ++ [⟨mds_REST, w.restTime⟩], restTime := 0 } else w

def push (w : WState) (ty : Nat) (arg : Int) : WState := { w with out := w.out ++ [⟨ty % 256, u16 arg⟩] }

mutual
/-- `MDSDRV_Track_Writer::event_hook` for one hook call -/
def hook (song : Song) (d : DataInfo) : Nat → Conv → WState → TraceItem → Except WErr (Conv × WState)
  | 0, _, _, _ => .error .fuel
  | fuel + 1, c, w, it =>
    let e := it.ev
    if it.insideLoop ∨ it.insideJump then
      if e.type = ev_INS then
        match checkInstrument d w.trackId e.param with
        | .error x => .error x
        | .ok _ => .ok (c, w)
      else .ok (c, w)
    else
      let w := if e.type ≠ ev_REST then flushRest w else w
      -- `rest_time` is 16 bits wide: flushed before it would wrap
      let w := if w.restTime + it.off > 0xffff then flushRest w else w
      let w := { w with restTime := (w.restTime + it.off) % 65536 }
      let param := e.param
      if e.type = ev_TIE then .ok (c, push w mds_TIE it.on)
      else if e.type = ev_NOTE then
        -- drum mode: the note number selects a routine
        let r : Except WErr (Conv × Int) :=
          if w.drumEnabled then
            match getSubroutine song d fuel c param true false with
            | .error x => .error x
            | .ok (c', id) => .ok (c', wrap16 id)
          else .ok (c, param)
        match r with
        | .error x => .error x
        | .ok (c, param) =>
          let param := if param < 0 then 0 else param
          if w.inDrum then
            -- the note ends the routine: inside a `[]` loop that would leave the loop open (D25)
            if it.topLoop then .error .drumNoteInLoop
            else if param > 255 then .error .noteRange
            else .ok (c, { (push w mds_DMFINISH param) with disabled := true })
          else if param ≥ (mds_SLR - mds_NOTE : Nat) then .error .noteRange
          else .ok (c, push w (mds_NOTE + param.toNat) it.on)
      else if e.type = ev_LOOP_START then .ok (c, push w mds_LP 0)
      else if e.type = ev_LOOP_BREAK then .ok (c, push w mds_LPB 0)
      else if e.type = ev_LOOP_END then .ok (c, push w mds_LPF param)
      else if e.type = ev_SEGNO then .ok (c, { (push w mds_SEGNO 0) with inLoop := true })
      else if e.type = ev_JUMP then
        match getSubroutine song d fuel c param false w.drumEnabled with
        | .error x => .error x
        | .ok (c', id) => .ok (c', push w mds_PAT id)
      else if e.type = ev_SLUR then .ok (c, push w mds_SLR 0)
      else if e.type = ev_PLATFORM then
        match d.platform.lookup param with
        | none => .error .platformMissing
        | some none => .error .platformBad
        | some (some evs) => .ok (c, { w with out := w.out ++ evs })
      else if e.type = ev_TRANSPOSE_REL then .ok (c, push w mds_TRSM param)
      else if e.type = ev_VOL then .ok (c, push w mds_VOL (Int.ofNat (u16 param ||| 0x80)))
      else if e.type = ev_VOL_REL ∨ e.type = ev_VOL_FINE_REL then .ok (c, push w mds_VOLM param)
      else if e.type = ev_TEMPO_BPM then .ok (c, push w mds_TEMPO (bpmToDelta (u16 param)))
      else if e.type = ev_INS then
        match checkInstrument d w.trackId param with
        | .error x => .error x
        | .ok _ =>
          match d.insType.lookup param, d.envelopeMap.lookup param with
          | some ty, some idx =>
            if ty ≠ mdsIns_INS_PCM then
              let (c', i) := getEnvelope c idx
              .ok (c', push w mds_INS i)
            else
              let (c', i) := getEnvelope c (0x20000 + idx)
              .ok (c', push w mds_PCM i)
          | _, _ => .error .insMissing
      else if e.type = ev_TRANSPOSE then .ok (c, push w mds_TRS param)
      else if e.type = ev_DETUNE then .ok (c, push w mds_DTN param)
      else if e.type = ev_VOL_FINE then .ok (c, push w mds_VOL (Int.ofNat (u16 param &&& 0x7f)))
      else if e.type = ev_PAN then .ok (c, push w mds_PAN (param * 64))
      else if e.type = ev_PAN_ENVELOPE then
        if param ≠ 0 then
          match getMacroTrack song d fuel c param with
          | .error x => .error x
          | .ok (c', id) => .ok (c', push w mds_MTAB (wrap16 (id + 1)))
        else .ok (c, push w mds_MTAB 0)
      else if e.type = ev_PITCH_ENVELOPE then
        if param ≠ 0 then
          match d.pitchMap.lookup param with
          | none => .error .pitchMissing
          | some idx =>
            let (c', i) := getEnvelope c (if d.pitchExtend.contains param then 0x10000 + idx else idx)
            .ok (c', push w mds_PEG (wrap16 (i + 1)))
        else .ok (c, push w mds_PEG 0)
      else if e.type = ev_PORTAMENTO then .ok (c, push w mds_PTA param)
      else if e.type = ev_DRUM_MODE then
        .ok (c, { (push w mds_FLG (if param ≠ 0 then 8 else 0)) with drumEnabled := param ≠ 0 })
      else if e.type = ev_TEMPO then .ok (c, push w mds_TEMPO param)
      else .ok (c, w)

/-- run a writer over a track until it stops: `while(writer.is_enabled()) writer.step_event();` -/
def runWriter (song : Song) (d : DataInfo) (root : List Event) :
    Nat → Nat → Conv → WState → PState → Except WErr (Conv × WState)
  | _, 0, _, _, _ => .error .fuel
  | 0, _, _, _, _ => .error .fuel
  | fuel + 1, steps + 1, c, w, s =>
    if !s.acc.enabled ∨ w.disabled then .ok (c, w) else
    match stepTrace song root false s with
    | .error (e, h) =>
      -- the hook call that precedes a failing JUMP push still runs (and may fail first)
      match h with
      | some it =>
        match hook song d fuel c w it with
        | .error x => if x ≠ .fuel then .error (.player .jumpMissing) else .error x
        | .ok _ => .error (.player e)
      | none => .error (.player e)
    | .ok (s', t) =>
      match t with
      | none => runWriter song d root (fuel + 1) steps c w s'
      | some none =>
        -- end_hook: a loop section without any note or rest time is dropped
        let w := flushRest w
        let zeroLoop : Bool := decide ((s'.acc.playTime : Int) = s'.acc.loopPlayTime)
        let w := if w.inLoop ∧ !zeroLoop then push w mds_JUMP 0 else push w mds_FINISH 0
        .ok (c, w)
      | some (some it) =>
        match hook song d fuel c w it with
        | .error x =>
          -- `step_event` calls the hook of a JUMP inside `try { … } catch(std::exception&)`:
          -- whatever the hook throws (InputError included) is re-thrown as
          -- "jump destination doesn't exist"
          if it.ev.type = ev_JUMP ∧ x ≠ .fuel then .error (.player .jumpMissing) else .error x
        | .ok (c', w') => runWriter song d root (fuel + 1) steps c' w' s'

/-- `get_subroutine(track_id, in_drum_mode, drum_mode_enabled)` -/
def getSubroutine (song : Song) (d : DataInfo) : Nat → Conv → Int → Bool → Bool → Except WErr (Conv × Int)
  | 0, _, _, _, _ => .error .fuel
  | fuel + 1, c, trackId, inDrum, drumEnabled =>
    let mapped : Int := trackId * 4 + (if inDrum then 2 else 0) + (if drumEnabled then 1 else 0)
    match c.subMap.lookup mapped with
    | some id => .ok (c, id)
    | none =>
      let subId := c.subList.length
      let c1 := { c with subMap := c.subMap ++ [(mapped, subId)], subList := c.subList ++ [[]] }
      match song.track? (trackIdOfParam trackId) with
      | none => .error (if inDrum then .drumMissing else .subMissing)
      | some evs =>
        match runWriter song d evs fuel 20000000 c1
            { drumEnabled := drumEnabled, inDrum := inDrum, trackId := trackId } initState with
        | .error x => .error x
        | .ok (c2, w) => .ok ({ c2 with subList := c2.subList.set subId w.out }, subId)

/-- `get_macro_track(track_id)` -/
def getMacroTrack (song : Song) (d : DataInfo) : Nat → Conv → Int → Except WErr (Conv × Int)
  | 0, _, _ => .error .fuel
  | fuel + 1, c, trackId =>
    match c.macroMap.lookup trackId with
    | some id => .ok (c, id)
    | none =>
      let subId := c.macroList.length
      let c1 := { c with macroMap := c.macroMap ++ [(trackId, subId)], macroList := c.macroList ++ [[]] }
      match song.track? (trackIdOfParam trackId) with
      | none => .error .macroMissing
      | some evs =>
        match runWriter song d evs fuel 20000000 c1
            { drumEnabled := false, inDrum := false, trackId := trackId } initState with
        | .error x => .error x
        | .ok (c2, w) => .ok ({ c2 with macroList := c2.macroList.set subId w.out }, subId)
end

end Ctrmml.Mds

namespace Ctrmml.Mds
open Ctrmml Player Tables

structure Converted where
  conv : Conv
  trackList : List (Nat × List MEv)
  seq : List Nat
  deriving Repr

inductive ConvErr
  | writer (e : WErr)
  | codec (e : CErr)
  | macroUnmodelled
  deriving Repr

def be16b (n : Nat) : List Nat := [n / 256 % 256, n % 256]

/-- the `MDSDRV_Converter` constructor after `data.read_song`: tracks below 16 in key order,
then the sequence header, track table, pointer table and streams. `volume` = value of the
`#volume` tag already parsed (`strtoul`), if present. -/
def convertSong (song : Song) (d : DataInfo) (volume : Option Nat) : Except ConvErr Converted := do
  -- parse_track for every id < 16
  let ids := (song.tracks.map (·.1)).filter (· < 16)
  let mut c : Conv := {}
  let mut tl : List (Nat × List MEv) := []
  for id in ids do
    match song.track? id with
    | none => pure ()
    | some evs =>
      match runWriter song d evs 64 20000000 c { drumEnabled := false, inDrum := false, trackId := id } initState with
      | .error x => throw (.writer x)
      | .ok (c', w) =>
        c := c'
        tl := tl ++ [(id, w.out)]
  if !c.macroList.isEmpty then throw .macroUnmodelled
  let nSubs := c.subList.length
  let nMacros := c.macroList.length
  let dataBase := (4 + 4 * tl.length) % 65536
  let headerSize := (dataBase + (nSubs + nMacros + c.usedData.length) * 2) % 65536
  let mut body : List Nat := []
  let mut table : List Nat := []
  for (id, evs) in tl do
    let off := (headerSize + body.length - dataBase) % 65536
    table := table ++ [id % 256, 0] ++ be16b off
    match convertTrack nSubs nMacros evs with
    | .error x => throw (.codec x)
    | .ok bytes => body := body ++ bytes
  let mut slots : List Nat := []
  for evs in c.subList do
    let off := (headerSize + body.length - dataBase) % 65536
    slots := slots ++ be16b off
    match convertTrack nSubs nMacros evs with
    | .error x => throw (.codec x)
    | .ok bytes => body := body ++ bytes
  let vol := match volume with
    | none => 0
    | some v => if v > 127 then 127 else v
  let header := be16b dataBase ++ [vol % 256, tl.length % 256] ++ table ++ slots
    ++ List.replicate ((nMacros + c.usedData.length) * 2) 0
  pure { conv := c, trackList := tl, seq := header ++ body }

end Ctrmml.Mds
