/-
  C15 — the pipeline of `mmlc` / `mdslink` (src/mmlc.cpp `main`, src/platform/mdslink.cpp `main`)
  as a composition of the stage models this tree has, each with a three-valued outcome
  `ok | inputError msg | foreign kind`:

      text ──parse──▶ MmlState ──(tags)──▶ song + definitions ──validate──▶ [optimise] ──▶ export mds | vgm [──▶ link]

  stage        C++                                              model (owner)
  ---------    ---------------------------------------------    ------------------------------------------
  parse        `MML_Input::open_file` → `Line_Input::parse_file`  `MmlFix.readLines` over `Model/Mml`, `Lexer`,
               → `parse_line` per `std::getline` line             `TrackBuilder` (C05/C06/C17)
  tags         `Song::set_tag` / `add_tag_list` (run inside       `Model/Tags` through `replayTags` (C18); total
               parse, no exception of their own)                  functions
  validate     `Song_Validator(song)`                             `Player.runValidator` per track (C04)
  optimise     `Optimizer(song,1).optimize()` (only with -O)      `Opt.optimize` (C01) with `Song_Validator` = the
                                                                  validate stage
  export mds   `MDSDRV_Converter(song).get_mds().to_bytes()`      `MdsFile.exportMds` (C09) = `MdsData` tables
                                                                  (C11) + `Wave` (C14) + `MdsConv` writer (C02/C03)
                                                                  + `MdsCodec` + `Riff` (C13)
  export vgm   `Platform::vgm_export`: `MD_Driver::play_song`     `MdsFile.readSong` for the definitions, then
               (= `MDSDRV_Data::read_song`, then the player),     `MdDriver.exportSong` (C07/C08: play loop, PCM in
               `play_step` loop, `VGM_Writer`                     `pcm_mode` 0, `VGM_Writer`, GD3 tags) for the
                                                                  songs of its subset; outside it (platform commands,
                                                                  portamento, pitch envelopes, macro tracks, an
                                                                  export that reaches `max_seconds`) →
                                                                  `Residual.vgmPlay`
  link         `MDSDRV_Linker::add_song`, `get_seq_data`,         `Linker.runOps [add "in" file]` on the exported
               `get_pcm_data`, `get_statistics`, headers          container (C10), then `getSeqData`, `getPcmData`,
                                                                  `statistics`, `asmHeader`, `cHeader`

  What has no model is a field of `Residual` (a PARAMETER of the pipeline, a HYPOTHESIS of the
  theorems in Properties/C15):
    * `vgmPlay`  — the VGM play loop for a song outside the subset of Model/MdDriver;
    * `mdsGap`   — inputs the C09/C11 models do not cover (`FErr.dataUnsupported`: an instrument
                   definition outside Model/MdsData's grammar; a platform command outside
                   Model/MdsPlatform, i.e. the register-name commands `tl1 …`);
  (C04's theorems are about songs without explicit `END` events; the reader emits none —
  `parseStage_noEnd`, Proofs/PipelineNoEnd — so the validate stage needs no such case.)

  Classification of the model errors (what the C++ does at that point):
    input error  `Lexer.Err.input`; every `Player.PErr` raised through `Basic_Player::error`;
                 `OptResult.validated = false` (the `Song_Validator` inside `optimize` threw);
                 `Opt.OErr.missingDrum` (after fix 0e6e685 a drum routine that does not exist is an
                 `InputError`); `FErr.data`, `FErr.writer` (except its fuel), `FErr.indexRange`,
                 `FErr.seqTooLarge`
    foreign      `Lexer.Err.foreign` (another exception type or an undefined-behaviour site of the
                 reader), `PErr.impossible` (`vector::at`), `PErr.fuel`/`OErr.fuel`/`WErr.fuel`
                 (a loop that does not end), `OErr.stackListOOB`, `OErr.missingTrack`
                 (`std::out_of_range` from `Song::get_track`; unreachable after validation:
                 `optimizeStage_routed`), `FErr.codec .atEmpty` (`at()` on an empty
                 stream; never produced), `FErr.bankIndex`, `FErr.riff`, `Linker.Err.outOfRange`/
                 `invalidArgument` (std exceptions that escape `add_song`) / `oob`/`hang`/`divZero`,
                 `MdDriver.DErr.oob` (`vector::at` in the PSG envelope stepper / sample lookup),
                 `nonInteger`, `vgm` (a `VGM_Writer` fault)

  Not modelled here and named in the evidence: the file system (the MML text and the side files
  are given as byte strings; `include_path` only decides where a side file is looked up), the
  warnings printed to stderr, `std::bad_alloc`.
-/
import Ctrmml.Model.Refs
import Ctrmml.Model.MdsFile
import Ctrmml.Model.Optimizer
import Ctrmml.Model.MdDriver
import Ctrmml.Model.Linker
namespace Ctrmml.Pipeline
open Ctrmml

/-! ### outcomes -/

/-- what a stage (and the whole pipeline) can end in: a value, the library's `InputError`
with its message, or anything else (`foreign`: another exception type, undefined behaviour, a
loop that does not end) -/
inductive Out (α : Type) where
  | ok (a : α)
  | inputError (msg : String)
  | foreign (kind : String)
  deriving Repr

def Out.bind {α β : Type} (x : Out α) (f : α → Out β) : Out β :=
  match x with
  | .ok a => f a
  | .inputError m => .inputError m
  | .foreign k => .foreign k

def Out.map {α β : Type} (f : α → β) (x : Out α) : Out β := x.bind fun a => .ok (f a)

/-- "output or a diagnosed input error": a value, or an `InputError` carrying a message -/
def Out.routed {α : Type} : Out α → Prop
  | .ok _ => True
  | .inputError m => m ≠ ""
  | .foreign _ => False

/-! ### parse -/

/-- the lines `std::getline` hands to `read_line`: split at LF, no empty line after a final LF -/
def splitLinesAux : List Nat → List Nat → List (List Nat)
  | [], cur => if cur.isEmpty then [] else [cur.reverse]
  | c :: rest, cur => if c = 10 then cur.reverse :: splitLinesAux rest [] else splitLinesAux rest (c :: cur)

def splitLines (text : List Nat) : List (List Nat) := splitLinesAux text []

/-- `MML_Input::open_file` on a file that exists and holds `text` -/
def parseStage (text : List Nat) : Out Mml.MmlState :=
  match MmlFix.readLines 0 (splitLines text) Mml.MmlState.init with
  | .ok _ st => .ok st
  | .err (.input msg _) _ => .inputError msg
  | .err (.foreign k) _ => .foreign k

/-- the song the later stages see -/
def songOf (st : Mml.MmlState) : Song := (Refs.rsongOf st.song).erase

/-! ### tags (C18): the definitions and options the exporters read -/

def strOf (b : Bytes) : String := Refs.bytesStr b

/-- the tag map as `read_song` walks it: `tag_order` with the values of each key -/
def tagListOf (s : Tags.Song) : List (String × List String) :=
  ((Tags.lookupTag s.tags Tags.orderKey).getD []).map fun k =>
    (strOf k, ((Tags.lookupTag s.tags k).getD []).map strOf)

def tagFront (s : Tags.Song) (key : String) : Option String :=
  match (tagListOf s).lookup key with
  | some (v :: _) => some v
  | _ => none

/-- platform commands: `cmd_<n>` tags through `parse_platform_event` (Model/MdsPlatform);
`true` in the second component = some command is outside that model -/
def platformOf (tags : List (String × List String)) : List (Int × Option (List Mds.MEv)) × Bool :=
  tags.foldl (fun (acc : List (Int × Option (List Mds.MEv)) × Bool) (kv : String × List String) =>
    if kv.1.startsWith "cmd_" then
      match (kv.1.drop 4).toString.toInt? with
      | none => acc
      | some id =>
        match kv.2 with
        | [] => (acc.1 ++ [(id, none)], acc.2)      -- fix d4781ad: an empty command is an input error
        | ws =>
          match Mds.parsePlatform ws with
          | .events l => (acc.1 ++ [(id, some l)], acc.2)
          | .inputError => (acc.1 ++ [(id, none)], acc.2)
          | .unmodelled => (acc.1, true)
    else acc) ([], false)

/-- the converter's input (`MdsFile.Input`) from a parsed file and the side files -/
def mdsInputOf (st : Mml.MmlState) (files : List (String × Bytes)) : MdsFile.Input × Bool :=
  let ts := Refs.replayTags st.song.tagCalls
  let tags := tagListOf ts
  let pf := platformOf tags
  ({ song := songOf st, tags := tags, files := files, platform := pf.1,
     volume := tagFront ts "#volume", group := (tagFront ts "#group").getD "" }, pf.2)

/-! ### validate (C04) -/

/-- the messages of `Basic_Player::error` (regenerated texts) -/
def playerMsg (e : Player.PErr) : String := Refs.playerMsg e

/-- `Track_Validator(song, track)` run to completion with a step budget -/
def validateTrack (song : Song) (root : List Event) (fuel : Nat) : Out Unit :=
  match Player.runValidator song root fuel Player.initState with
  | .ok _ => .ok ()
  | .error .fuel => .foreign "hang"
  | .error .impossible => .foreign "out_of_range"
  | .error e => .inputError (playerMsg e)

/-- `Song_Validator(song)`: every track of the map as a root, first error wins -/
def validateTracks (song : Song) (fuel : Nat) : List (Nat × List Event) → Out Unit
  | [] => .ok ()
  | (_, evs) :: rest => (validateTrack song evs fuel).bind fun _ => validateTracks song fuel rest

def validateSong (song : Song) (fuel : Nat) : Out Unit := validateTracks song fuel song.tracks

/-- does the song hold an explicit `END` event (outside C04's domain; the reader emits none: `parseStage_noEnd`) -/
def hasEndEvent (song : Song) : Bool :=
  song.tracks.any fun p => p.2.any fun e => e.kind == .fin

/-! ### optimise (C01) -/

def validBool (fuel : Nat) (s : Song) : Bool :=
  match validateSong s fuel with
  | .ok _ => true
  | _ => false

/-- `Optimizer(song, 1).optimize()`; `passes` bounds the pass loop -/
def optimizeStage (song : Song) (fuel passes : Nat) : Out Song :=
  match Opt.optimize (validBool fuel) Tables.opt_min_score passes song (Opt.initialSubId song) [] with
  | .ok r =>
    if r.validated then .ok r.song
    else
      -- the `Song_Validator` after a pass threw: its exception leaves `optimize`
      match validateSong r.song fuel with
      | .ok _ => .foreign "MODEL:validator-disagrees"
      | .inputError m => .inputError m
      | .foreign k => .foreign k
  | .error .missingTrack => .foreign "out_of_range"     -- `Song::get_track` on a missing track: nothing catches it
  | .error (.missingDrum _) => .inputError "drum mode error: track is not defined"
  | .error .stackListOOB => .foreign "ub:stack-list-oob"
  | .error .fuel => .foreign "hang"

/-! ### the parts without a model -/

/-- stages and input classes that have no Lean model in this tree, as parameters -/
structure Residual where
  /-- the VGM play loop (`MD_Driver` + `VGM_Writer`) after `read_song` succeeded, for a song outside
  the subset of Model/MdDriver -/
  vgmPlay : MdsFile.Input → MdsFile.DState → Out Bytes
  /-- the mds export of an input outside Model/MdsData / Model/MdsPlatform -/
  mdsGap : MdsFile.Input → Out Bytes

/-! ### export -/

/-- the outcome class of a converter error -/
def ferrOut {α : Type} (inp : MdsFile.Input) (gap : MdsFile.Input → Out α) : MdsFile.FErr → Out α
  | .data => .inputError "instrument or envelope definition rejected"
  | .dataUnsupported => gap inp
  | .writer .fuel => .foreign "hang"
  | .writer (.player .fuel) => .foreign "hang"
  | .writer (.player .impossible) => .foreign "out_of_range"
  | .writer (.player e) => .inputError (playerMsg e)
  | .writer _ => .inputError "MDSDRV: command rejected by the track writer"
  | .codec .atEmpty => .foreign "out_of_range"
  | .codec .stackEmpty => .inputError "MDSDRV: loop break or loop end command without a loop start"   -- fix 3e0ed67
  | .indexRange => .inputError "MDSDRV: index does not fit in a byte"
  | .headerWrap => .inputError "MDSDRV: sequence header too large"   -- fix 5952bf5
  | .seqTooLarge => .inputError "MDSDRV: sequence data too large"
  | .bankIndex => .foreign "ub:bank-index"
  | .riff _ => .foreign "riff"

/-- `MDSDRV_Converter conv(song); conv.get_mds().to_bytes()` -/
def exportMdsStage (u : Residual) (inp : MdsFile.Input) (gap : Bool) : Out Bytes :=
  if gap then u.mdsGap inp else
  match MdsFile.exportMds MdsData.Arith.float inp with
  | .ok o => .ok o.file
  | .error e => ferrOut inp u.mdsGap e

/-- the export leaves the converter's models (then `exportMdsStage` is the residual `mdsGap`) -/
def mdsOutside (inp : MdsFile.Input) (gap : Bool) : Bool :=
  gap || match MdsFile.exportMds MdsData.Arith.float inp with
    | .error .dataUnsupported => true
    | _ => false

/-! ### export vgm: the driver model of C07/C08 -/

/-- is this tag a `pcm` instrument definition `@<id> pcm …` (its id) -/
def pcmIdOf (kv : String × List String) : Option Nat :=
  match MdsData.scanKey kv.1 with
  | some (false, id) =>
    match kv.2 with
    | ty :: _ => if MdsData.lower ty == "pcm" then some id else none
    | [] => none
  | _ => none

/-- `wave_map`: the index `add_sample` returned for every `pcm` instrument, replayed over the tags in
`tag_order` on a fresh `wave_rom` (the same calls `MdsFile.readSong` makes; it has succeeded) -/
def waveMapOf (files : List (String × Bytes)) (tags : List (String × List String)) : Wave.Bank × List (Nat × Nat) :=
  tags.foldl (fun (acc : Wave.Bank × List (Nat × Nat)) kv =>
    match pcmIdOf kv with
    | none => acc
    | some id =>
      let args := kv.2.drop 1
      match Wave.addSampleTag acc.1 (match args with | n :: _ => files.lookup n | [] => none) args with
      | .error _ => acc
      | .ok (b, idx) => (b, (id, idx) :: acc.2.filter (·.1 ≠ id))) (Wave.Bank.new Tables.mds_dataWaveRom 0, [])

/-- what `MD_Driver` reads from `MDSDRV_Data` after `read_song` -/
def driverDataOf (d : MdsFile.DState) (files : List (String × Bytes)) (tags : List (String × List String)) : MdDriver.Data :=
  let wm := waveMapOf files tags
  { ins := d.st.tyMap.map fun (id, ty) =>
      (id, { type := ty.toNat,
             data := d.st.bank.getD ((MdsData.mget d.st.envMap id).getD 0).toNat [],
             -- `add_ins_pcm` sets `ins_transpose[id] = 0`
             transpose := if ty = (Tables.mdsdrv_INS_PCM : Int) then 0 else (MdsData.mget d.st.trMap id).getD 0 }),
    bank := wm.1, waveMap := wm.2 }

/-- the wall-clock and build strings of `write_tag` (they do not change the outcome class) -/
def vgmStamps : MdDriver.Stamps :=
  { clock := "0000-00-00 00:00:00".toUTF8.toList, build := "ctrmml".toUTF8.toList }

/-- the song's tag map as `get_tags` reads it -/
def tagMapOf (s : Tags.Song) : MdDriver.TagMap :=
  ((Tags.lookupTag s.tags Tags.orderKey).getD []).map fun k => (strOf k, (Tags.lookupTag s.tags k).getD [])

/-- `Platform::vgm_export`: `read_song`, then `MD_Driver` + `VGM_Writer` (Model/MdDriver); a song
outside that model's subset goes to the residual -/
def exportVgmStage (u : Residual) (inp : MdsFile.Input) (tm : MdDriver.TagMap) : Out Bytes :=
  match MdsFile.readSong MdsData.Arith.float inp.files inp.tags with
  | .ok d =>
    -- Model/MdDriver plays songs without registered platform commands (a `PLATFORM` event is an input
    -- error there); a parsed song registers every command it uses: outside the subset
    if inp.song.tracks.any (fun p => p.2.any fun e => e.type == Tables.ev_PLATFORM) then u.vgmPlay inp d else
    match MdDriver.exportSong (driverDataOf d inp.files inp.tags) inp.song tm vgmStamps with
    | .ok b => .ok b
    | .error .input => .inputError "vgm export: input error"
    | .error .unsupported => u.vgmPlay inp d
    | .error .tooLong => u.vgmPlay inp d
    | .error .oob => .foreign "out_of_range"
    | .error .nonInteger => .foreign "ub:non-integer-delta"
    | .error (.vgm _) => .foreign "ub:vgm-writer"
  | .error .data => .inputError "instrument or envelope definition rejected"
  | .error _ => u.mdsGap inp

/-! ### link: the linker model of C10 -/

def linkErrOut {α : Type} : Linker.Err → Out α
  | .notMds => .inputError "mdslink: not an MDS file"
  | .malformed => .inputError "mdslink: malformed MDS file"
  | .version => .inputError "mdslink: unsupported sequence version"
  | .noFit => .inputError "mdslink: sample does not fit"
  | .tooBig => .inputError "mdslink: data too large"
  | .outOfRange => .foreign "out_of_range"
  | .invalidArgument => .foreign "invalid_argument"
  | .oob => .foreign "ub:out-of-bounds"
  | .hang => .foreign "hang"
  | .divZero => .foreign "ub:division-by-zero"

/-- mdslink on one file: `add_song`, `get_seq_data`, `get_pcm_data`, `get_statistics`, the two headers -/
def linkStage (mds : Bytes) : Out Unit :=
  match Linker.runOps [.add (Linker.ascii "in") mds] Linker.Linker.new with
  | .error e => linkErrOut e
  | .ok l =>
    match Linker.getSeqData l with
    | .error e => linkErrOut e
    | .ok _ =>
      -- `get_pcm_data` and `get_statistics` are total; the headers end when `unique_string` does
      match Linker.asmHeader l, Linker.cHeader l with
      | some _, some _ => .ok ()
      | _, _ => .foreign "hang"

/-! ### the tools -/

inductive Format | mds | vgm | link
  deriving DecidableEq, Repr

structure Budget where
  /-- steps of one `Track_Validator` run -/
  steps : Nat
  /-- passes of the optimiser -/
  passes : Nat

/-- the stage an outcome comes from (the names the harness prints) -/
inductive Stage | parse | validate | optimize | «export» | link
  deriving DecidableEq, Repr

/-- `mmlc [-O] -f mds|vgm in.mml` and `mdslink in.mml`, up to the bytes that would be written,
together with the stage that produced the outcome -/
def pipelineS (u : Residual) (files : List (String × Bytes)) (opt : Bool) (fmt : Format) (b : Budget)
    (text : List Nat) : Stage × Out Bytes :=
  match parseStage text with
  | .inputError m => (.parse, .inputError m)
  | .foreign k => (.parse, .foreign k)
  | .ok st =>
    match validateSong (songOf st) b.steps with
    | .inputError m => (.validate, .inputError m)
    | .foreign k => (.validate, .foreign k)
    | .ok _ =>
      match (if opt then optimizeStage (songOf st) b.steps b.passes else .ok (songOf st)) with
      | .inputError m => (.optimize, .inputError m)
      | .foreign k => (.optimize, .foreign k)
      | .ok song' =>
        let inp : MdsFile.Input := { (mdsInputOf st files).1 with song := song' }
        let gap := (mdsInputOf st files).2
        match fmt with
        | .mds => (.export, exportMdsStage u inp gap)
        | .vgm => (.export, exportVgmStage u inp (tagMapOf (Refs.replayTags st.song.tagCalls)))
        | .link =>
          -- an input outside the converter's models: the residual stands for the rest of the run
          if mdsOutside inp gap then (.export, u.mdsGap inp) else
          match exportMdsStage u inp gap with
          | .inputError m => (.export, .inputError m)
          | .foreign k => (.export, .foreign k)
          | .ok mds => (.link, (linkStage mds).map fun _ => mds)

def pipeline (u : Residual) (files : List (String × Bytes)) (opt : Bool) (fmt : Format) (b : Budget)
    (text : List Nat) : Out Bytes :=
  (pipelineS u files opt fmt b text).2

/-! ### sample files (C14), as a stage of its own -/

/-- `Wave_File::load_file` + `read`: `load_file` refuses a file of 2 GiB or more -/
def loadWav (f : Bytes) : Except Wave.Err (Option Wave.WaveFile) :=
  if f.length > 0x7fffffff then .ok none else Wave.readWav f

/-- loading one PCM sample up to the decoded file -/
def loadSample (file : Option Bytes) : Out Wave.WaveFile :=
  match file with
  | none => .inputError "file not found"
  | some f =>
    match loadWav f with
    | .ok (some w) => .ok w
    | .ok none => .inputError "file not found"
    | .error .oob => .foreign "out-of-bounds read"
    | .error .hang => .foreign "hang"
    | .error _ => .foreign "model"

end Ctrmml.Pipeline
