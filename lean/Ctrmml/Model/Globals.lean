/-
  C16 — the hidden inputs of a compilation, made explicit.

  In a pure model "same input ⇒ same output" holds by construction.  What the property is
  about is that the C++ has no input besides the song: process-global state, leftovers of
  earlier compilations, uninitialised heap, the clock.  Each becomes a parameter here:

  (a) `Globals` — every variable with static storage duration in /repo/src that is not a
      constant table.  The list is REGENERATED from the clang AST by tools/tables/d_statics.py
      (`Tables.static_vars`) and `statics_known` below fails to build when the source gains a
      static this model does not know.  Of the eight entries only two are written after
      start-up by library code: `MD_PCMDriver::tables_initialized` and `MD_PCMDriver::vol_table`
      (src/platform/md.cpp, MD_PCMDriver::MD_PCMDriver); two are the tools' filename buffers
      (src/mmlc.cpp); `check_instrument()::strings` is an array of four pointers that is never
      assigned; three are `const` objects with guarded dynamic initialisation from literals.
  (b) per-object state that survives a call: the players' write-backs into the `Song`
      (`LOOP_BREAK` param := end position, `Event::play_time` stamps: `wbStep`), `safe_get_tag`'s
      insertion of empty tags (`tagsAfterVgm`).  `Song::platform_command_index`, `Wave_Bank` and the
      converter's maps live in objects that one export creates and destroys.
  (c) indeterminate heap bytes — `Model/Vgm.lean` cells (`none` = never written since realloc);
      `concretize fill` is what a process whose allocator hands out memory filled by `fill` would
      put into the file.
  (d) the clock: `Clock.timestamp` (`strftime` of `std::time` in `write_tag`) and
      `Clock.buildStamp` (`"ctrmml (built " __DATE__ " " __TIME__ ")"`), used only when the
      `#vgmdate` / `#comment` tags are empty.

  The part of the VGM export that is not modelled in Lean in this tree (MD_Driver and its channels)
  enters as an arbitrary function `DriverFn` of the input AND of the only mutable statics it can
  read (the volume table): the theorems hold for every such function.

  Narrowings: `vol_table` entries are `int8_t` (`int8`); `(ivol * tvol) >> 8` is an arithmetic
  shift of an `int` (`Int.shiftRight` = floor division by 256), the result always fits `int8_t`.
-/
import Ctrmml.Generated.Tables
import Ctrmml.Model.Vgm
import Ctrmml.Model.MdsConv
namespace Ctrmml.Globals
open Ctrmml

/-! ### (a) statics -/

/-- the statics this model accounts for (file, qualified name, type, class) -/
def knownStatics : List (String × String × String × String) := [
  ("src/mmlc.cpp", "get_extension()::str", "char[256]", "mutable"),
  ("src/platform/md.cpp", "MD_PCMDriver::tables_initialized", "bool", "mutable"),
  ("src/platform/md.cpp", "MD_PCMDriver::vol_table", "int8_t[16][256]", "mutable"),
  ("src/platform/mdsdrv.cpp", "MDSDRV_Platform::get_export_formats()::out", "const Platform::Format_List", "const-dynamic"),
  ("src/platform/mdsdrv.cpp", "MDSDRV_Track_Writer::check_instrument()::strings", "const char *[4]", "mutable"),
  ("src/platform/mdsdrv.cpp", "MDSDRV_get_register()::lookup", "const std::map<std::string, uint8_t>", "const-dynamic"),
  ("src/song.cpp", "Platform::get_export_formats()::out", "const Platform::Format_List", "const-dynamic")
]

/-- shape check: the regenerated list of statics is exactly the known one -/
theorem statics_known : Tables.static_vars = knownStatics := by decide

/-- the clock is read once (`std::time` in `write_tag`), the build stamp once (`__DATE__`, `__TIME__`) -/
theorem clock_known : Tables.clock_reads = 1 ∧ Tables.build_stamp_reads = 2 := by decide

structure Globals where
  /-- `MD_PCMDriver::tables_initialized` -/
  tablesInitialized : Bool
  /-- `MD_PCMDriver::vol_table[16][256]` -/
  volTable : List (List Int)
  /-- `get_extension()::str` (mmlc.cpp) -/
  extBuf : Bytes
  deriving DecidableEq, Repr

def zeroTable : List (List Int) := List.replicate 16 (List.replicate 256 0)

/-- static storage is zero-initialised -/
def initial : Globals :=
  { tablesInitialized := false, volTable := zeroTable,
    extBuf := List.replicate 256 0 }

/-- conversion to `int8_t` -/
def int8 (n : Nat) : Int := if n % 256 < 128 then (n % 256 : Nat) else ((n % 256 : Nat) : Int) - 256

/-- one row: `int8_t ivol = i ^ 0x80; vol_table[tab][i] = (ivol * tvol) >> 8;` -/
def volRow (tvol : Nat) : List Int :=
  (List.range 256).map fun i => (int8 (i ^^^ 0x80) * (tvol : Int)) >>> 8

/-- the table the constructor computes from `volt[16]` -/
def constVolTable : List (List Int) := Tables.md_pcm_volt.map volRow

/-- the static part of `MD_PCMDriver::MD_PCMDriver` -/
def pcmCtor (g : Globals) : Globals :=
  if g.tablesInitialized then g
  else { g with tablesInitialized := true, volTable := constVolTable }

/-- `strncpy(str, input, 256)`: exactly 256 bytes are written (NUL padding); an input of 256 or
more bytes leaves the buffer unterminated (`none`: the following `strrchr` runs off the end —
C19's subject) -/
def strncpy256 (src : Bytes) : Option Bytes :=
  let s := Vgm.cstr src
  if s.length < 256 then some (s ++ List.replicate (256 - s.length) 0) else none

/-- text after the last dot of a NUL-terminated buffer (`strrchr(str, '.')`, then `+ 1`) -/
def afterLastDot (buf : Bytes) : Bytes :=
  let s := Vgm.cstr buf
  match (s.reverse.takeWhile (· ≠ 46)) with
  | t => if t.length = s.length then [] else t.reverse

/-- `get_extension` (mmlc.cpp) with its static buffer -/
def getExtension (g : Globals) (name : Bytes) : Globals × Option Bytes :=
  match strncpy256 name with
  | none => (g, none)
  | some b => ({ g with extBuf := b }, some (afterLastDot b))

/-! ### (c), (d) heap and clock -/

structure Clock where
  timestamp : Bytes
  buildStamp : Bytes
  deriving Repr

/-- the bytes a process writes whose allocator fills fresh memory with `fill` -/
def concretize (fill : Nat → UInt8) (cells : List Vgm.Cell) : Bytes :=
  (List.range cells.length).zipWith (fun i c => c.getD (fill i)) cells

/-- `get_tags` + the defaults of `write_tag`: the clock is used only for an empty date tag,
the build stamp only for an empty notes tag -/
def defaulted (t : Vgm.Tags) (clk : Clock) : Vgm.Tags :=
  { t with date := if (Vgm.cstr t.date).isEmpty ∨ t.date.isEmpty then clk.timestamp else t.date,
           notes := if t.notes.isEmpty then clk.buildStamp else t.notes }

/-- everything `MD_Driver` does between its construction and `stop()`: an arbitrary function of
the input and of the volume table (the only mutable static library code can read) -/
abbrev DriverFn (α : Type) := List (List Int) → α → List Vgm.Op

/-- the constructor's header pokes (regenerated) -/
def mdPokes : List Vgm.Op :=
  Tables.md_vgm_pokes.map fun (w, off, v) =>
    .poke off (if w = 4 then le32 v else if w = 2 then le16 v else [byteOf v])

/-- the cells `get_buffer` copies (without the determinacy check of `Vgm.getBuffer`) -/
def getCells (s : Vgm.W) : Except Vgm.Err (List Vgm.Cell) :=
  if s.completed then (Vgm.poke32 s 0x04 (s.pos - 4)).map (·.mem) else .ok s.mem

/-- the operations `Platform::vgm_export` performs on its `VGM_Writer` -/
def exportOps {α} (drv : DriverFn α) (table : List (List Int)) (inp : α) (tags : Vgm.Tags) (clk : Clock) : List Vgm.Op :=
  mdPokes ++ drv table inp ++ [.stop, .writeTag (defaulted tags clk)]

/-- `Platform::vgm_export` with every hidden input explicit; returns the new globals and the file -/
def compileVgm {α} (drv : DriverFn α) (g : Globals) (fill : Nat → UInt8) (clk : Clock) (inp : α) (tags : Vgm.Tags) :
    Globals × Except Vgm.Err Bytes :=
  let g' := pcmCtor g
  (g', match Vgm.ctor Tables.vgm_export_version Tables.vgm_export_header_size with
       | .error e => .error e
       | .ok s => match Vgm.steps s (exportOps drv g'.volTable inp tags clk) with
         | .error e => .error e
         | .ok s' => (getCells s').map (concretize fill))

/-- the MDS export (`MDSDRV_Converter`): reads no static at all -/
def compileMds (g : Globals) (song : Song) (d : Mds.DataInfo) (vol : Option Nat) : Globals × Option (List Nat) :=
  (g, match Mds.convertSong song d vol with | .ok c => some c.seq | .error _ => none)

/-- one compilation request of a process: a VGM export or an MDS export -/
inductive Job (α : Type)
  | vgm (inp : α) (tags : Vgm.Tags)
  | mds (song : Song) (d : Mds.DataInfo) (vol : Option Nat)

abbrev JobOut := Except Vgm.Err Bytes ⊕ Option (List Nat)

def runJob {α} (drv : DriverFn α) (g : Globals) (fill : Nat → UInt8) (clk : Clock) : Job α → Globals × JobOut
  | .vgm inp tags => let r := compileVgm drv g fill clk inp tags; (r.1, .inl r.2)
  | .mds song d vol => let r := compileMds g song d vol; (r.1, .inr r.2)

/-- a process compiling a list of songs one after the other: the globals are threaded through -/
def runJobs {α} (drv : DriverFn α) (fill : Nat → UInt8) (clk : Clock) : Globals → List (Job α) → Globals × List JobOut
  | g, [] => (g, [])
  | g, j :: js =>
    let r := runJob drv g fill clk j
    let rs := runJobs drv fill clk r.1 js
    (rs.1, r.2 :: rs.2)

/-- Globals reachable from the zero-initialised statics by any sequence of VGM exports (any
input, tags, heap fill, clock), MDS exports and tool calls -/
inductive Reachable {α} (drv : DriverFn α) : Globals → Prop
  | init : Reachable drv initial
  | vgm {g} (fill : Nat → UInt8) (clk : Clock) (inp : α) (tags : Vgm.Tags) :
      Reachable drv g → Reachable drv (compileVgm drv g fill clk inp tags).1
  | mds {g} (song : Song) (d : Mds.DataInfo) (vol : Option Nat) :
      Reachable drv g → Reachable drv (compileMds g song d vol).1
  | tool {g} (name : Bytes) : Reachable drv g → Reachable drv (getExtension g name).1

/-! ### (b) what a player leaves in the `Song` -/

/-- `LOOP_BREAK` params are scratch space of the players: normal form with all of them 0 -/
def normE (e : Event) : Event := if e.type = Tables.ev_LOOP_BREAK then { e with param := 0 } else e

def normCode (l : List Event) : List Event := l.map normE

def normSong (s : Song) : Song := { tracks := s.tracks.map fun p => (p.1, normCode p.2) }

/-- two songs that differ only in `LOOP_BREAK` params -/
def BrkEq (s s' : Song) : Prop := normSong s = normSong s'

/-- an event together with its `play_time` stamp -/
structure SEvent where
  ev : Event
  playTime : Nat
  deriving DecidableEq, Repr

def setAt {α} (l : List α) (i : Nat) (f : α → α) : List α :=
  match l[i]? with
  | some a => l.set i (f a)
  | none => l

/-- the write-backs of one `Basic_Player::step_event` into the track it reads from
(`track_event->play_time = min(...)`, `track_event->param = stack.top().end_position`) -/
def stampEvent (s : Player.PState) (e : SEvent) : SEvent :=
  let pt := s.acc.playTime + s.acc.onTime + s.acc.offTime
  if e.playTime > pt then { e with playTime := pt } else e

def brkEvent (s : Player.PState) (e : SEvent) : SEvent :=
  if e.ev.kind = .loopBreak then
    match Player.stackTop s.core.stack .loop with
    | .ok f => { e with ev := { e.ev with param := f.endPosition } }
    | .error _ => e
  else e

def wbEvent (s : Player.PState) (e : SEvent) : SEvent := brkEvent s (stampEvent s e)

def wbStep (s : Player.PState) (code : List SEvent) : List SEvent := setAt code s.core.position (wbEvent s)

/-- `safe_get_tag` uses `operator[]`: the VGM export inserts an empty tag for every name it asks
for; `tags` is the tag map as an association list in key order -/
def vgmTagNames : List String :=
  ["#title", "#titlej", "#composer", "#composerj", "#system", "#systemj", "#game", "#gamej", "#programmer",
   "#comment", "#vgmdate", "#author", "#programer"]

end Ctrmml.Globals
