/-
  Model of /repo/src/vgm.cpp (class VGM_Writer) as a pure state machine over a cell buffer.

  Buffer representation.  The C++ object owns `buffer[0 .. buffer_alloc)` obtained from
  `calloc(initial_buffer_alloc)` and grown by `realloc(buffer, 2*buffer_alloc)`.  A cell is
  `Option UInt8`: `some b` = determinate byte, `none` = indeterminate (never written since a
  `realloc` produced it).  The writer only ever stores at `buffer_pos` (sequentially) or, by
  `poke*`, below `buffer_pos`; therefore every cell at an index `≥ buffer_pos` is untouched
  and its content is given by `fresh`: `some 0` below `initial_buffer_alloc` (calloc),
  `none` above (realloc growth is not zeroed).  The state keeps the cells below
  `buffer_pos` (`mem`, so `buffer_pos - buffer = mem.length`) and `alloc = buffer_alloc`;
  the whole buffer is `mem ++ [fresh i | mem.length ≤ i < alloc]`.  Advancing `buffer_pos`
  without storing (`buffer_pos += k`) appends the untouched cells (`skip`).

  One definition per C++ member function.  Outcomes: `ok`, or
    `heapOverflow`  – a store / pointer advance beyond `buffer + buffer_alloc` (UB in the C++),
    `indeterminate` – `get_buffer` would copy a cell that was never written (UB-ish read of
                      uninitialised heap; the file content then depends on the allocator),
    `rangeError`    – `std::range_error` thrown by `wstring_convert::from_bytes` (invalid UTF-8),
    `delayOverflow` – `int delay = floor(curr_delay)` with `curr_delay ≥ 2^31` (UB),
    `pokeOutside`   – a `poke*` at or above `buffer_pos` (not done by any caller; unmodelled).

  Narrowings made explicit: every stored byte is `byteOf n = n mod 256`; `sample_count` and
  the header fields are `uint32_t` (`% 2^32`); `uint16_t finalcommand`.  Not modelled:
  `uint32_t` wrap of `buffer_alloc*2` and `dbsize + 100` (files are assumed < 2 GiB);
  `curr_delay` is a `double` in the C++ — the model takes integer delays (the fractional part
  never reaches the file; DESIGN §3), the destructor's file output, the Windows branch.
-/
import Ctrmml.Model.Bytes
import Ctrmml.Generated.Tables
namespace Ctrmml.Vgm
open Ctrmml

inductive Err | heapOverflow | indeterminate | rangeError | delayOverflow | pokeOutside
  deriving DecidableEq, Repr

abbrev Cell := Option UInt8

def initialAlloc : Nat := Tables.vgm_initial_buffer_alloc

/-- content of a cell that was never stored to -/
def fresh (i : Nat) : Cell := if i < initialAlloc then some 0 else none

structure W where
  mem : List Cell
  alloc : Nat
  pending : Nat        -- curr_delay (integer part; see header)
  samples : Nat        -- sample_count
  loopSample : Nat     -- loop_sample
  loopSet : Bool       -- loop_set
  completed : Bool
  deriving Repr

def W.pos (s : W) : Nat := s.mem.length

/-- the `while(buffer_alloc - pos < bytes) buffer_alloc *= 2` loop of `reserve` -/
def grow (alloc need : Nat) : Nat :=
  if alloc < need ∧ 0 < alloc then grow (alloc * 2) need else alloc
termination_by need - alloc
decreasing_by omega

/-- `VGM_Writer::reserve` (a failing `realloc` — `bad_alloc` — is not modelled) -/
def reserve (s : W) (bytes : Nat) : W := { s with alloc := grow s.alloc (s.pos + bytes) }

/-- `*buffer_pos++ = b` for each byte / `my_memcpy` -/
def put (s : W) (bs : Bytes) : Except Err W :=
  if s.pos + bs.length ≤ s.alloc then .ok { s with mem := s.mem ++ bs.map some }
  else .error .heapOverflow

/-- `buffer_pos += k` without storing -/
def skip (s : W) (k : Nat) : Except Err W :=
  if s.pos + k ≤ s.alloc then
    .ok { s with mem := s.mem ++ (List.range k).map fun i => fresh (s.pos + i) }
  else .error .heapOverflow

def setCells (m : List Cell) (off : Nat) (bs : Bytes) : List Cell :=
  m.take off ++ bs.map some ++ m.drop (off + bs.length)

/-- `poke32/16/8` restricted to offsets below `buffer_pos` -/
def poke (s : W) (off : Nat) (bs : Bytes) : Except Err W :=
  if off + bs.length ≤ s.pos then .ok { s with mem := setCells s.mem off bs }
  else .error .pokeOutside

def poke32 (s : W) (off v : Nat) : Except Err W := poke s off (le32 v)

/-- `VGM_Writer(filename, version, header_size)`: calloc, "Vgm ", skip 4, version, 0x01,
`poke32(0x34, header_size-0x34)`, `buffer_pos = buffer + header_size`.  The header cells
are the calloc'ed cells with those stores applied. -/
def ctor (version headerSize : Nat) : Except Err W :=
  if headerSize < 0x38 then .error .pokeOutside
  else if headerSize > initialAlloc then .error .heapOverflow
  else
    let h0 : List Cell := (List.range headerSize).map fresh
    let h1 := setCells h0 0 [0x56, 0x67, 0x6d, 0x20]
    let h2 := setCells h1 8 [byteOf version, 0x01]
    let h3 := setCells h2 0x34 (le32 (headerSize - 0x34))
    .ok { mem := h3, alloc := initialAlloc, pending := 0, samples := 0, loopSample := 0,
          loopSet := false, completed := false }

def delayChunk : Nat := Tables.vgm_delay_chunk
def delayShortMax : Nat := Tables.vgm_delay_short_max

/-- the bytes `add_delay` emits for an integer delay `d` -/
def delayBytes (d : Nat) : Bytes :=
  let fin := d % delayChunk
  (List.replicate (d / delayChunk) [0x61, 0xff, 0xff]).flatten ++
    (if fin > delayShortMax then 0x61 :: le16 fin
     else if fin > 0 then [byteOf (0x70 + fin - 1)] else [])

/-- `VGM_Writer::add_delay` -/
def addDelay (s : W) : Except Err W :=
  if s.pending ≥ 1 then
    if s.pending ≥ 2147483648 then .error .delayOverflow else
    let d := s.pending
    let s := { s with pending := 0, samples := (s.samples + d) % 4294967296 }
    let s := reserve s (d / delayChunk * Tables.vgm_reserve_delay_per + Tables.vgm_reserve_delay_extra)
    put s (delayBytes d)
  else .ok s

/-- `VGM_Writer::delay` -/
def delay (s : W) (n : Nat) : W := { s with pending := s.pending + n }

/-- bytes of one `write(command, port, reg, data)`; arguments already narrowed to
`uint8_t`/`uint16_t` by the call -/
def writeBytes (cmd port reg data : Nat) : Bytes :=
  if cmd = 0xe1 then [byteOf cmd, byteOf (reg / 256), byteOf reg, byteOf (data / 256), byteOf data]
  else if cmd > 0x50 ∧ cmd < 0x60 then [byteOf (cmd + port), byteOf reg, byteOf data]
  else if cmd = 0x50 ∨ cmd = 0x30 then [byteOf cmd, byteOf data]
  else [byteOf cmd, byteOf port, byteOf reg, byteOf data]

/-- `VGM_Writer::write` -/
def write (s : W) (cmd port reg data : Nat) : Except Err W := do
  let s ← addDelay s
  put (reserve s Tables.vgm_reserve_write) (writeBytes cmd port reg data)

def dacSetupBytes (sid chip port reg db : Nat) : Bytes :=
  [0x90, byteOf sid, byteOf chip, byteOf port, byteOf reg, 0x91, byteOf sid, byteOf db, 1, 0]

/-- `VGM_Writer::dac_setup` -/
def dacSetup (s : W) (sid chip port reg db : Nat) : Except Err W := do
  let s ← addDelay s
  put (reserve s Tables.vgm_reserve_dac_setup) (dacSetupBytes sid chip port reg db)

def dacStartBytes (sid start len freq : Nat) : Bytes :=
  [0x92, byteOf sid] ++ le32 freq ++ [0x93, byteOf sid] ++ le32 start ++ [0x01] ++ le32 len

/-- `VGM_Writer::dac_start` -/
def dacStart (s : W) (sid start len freq : Nat) : Except Err W := do
  let s ← addDelay s
  put (reserve s Tables.vgm_reserve_dac_start) (dacStartBytes sid start len freq)

/-- `VGM_Writer::dac_stop` -/
def dacStop (s : W) (sid : Nat) : Except Err W := do
  let s ← addDelay s
  put (reserve s Tables.vgm_reserve_dac_stop) [0x94, byteOf sid]

/-- `VGM_Writer::set_loop` -/
def setLoop (s : W) : Except Err W := do
  let s ← addDelay s
  poke32 { s with loopSample := s.samples, loopSet := true } 0x1c (s.pos - 0x1c)

/-- ROM/RAM image dump types carry `romsize, offset` before the data -/
def isRomDump (dbtype : Nat) : Bool := dbtype ≥ 0x80 && dbtype < 0xc0

def datablockBytes (dbtype : Nat) (payload : Bytes) (maxsize flags offset : Nat) : Bytes :=
  if isRomDump dbtype then
    [0x67, 0x66, byteOf dbtype] ++ le32 ((payload.length ||| flags) + 8) ++ le32 maxsize ++ le32 offset ++ payload
  else
    [0x67, 0x66, byteOf dbtype] ++ le32 (payload.length ||| flags) ++ payload

/-- `VGM_Writer::datablock` (+ `add_datablockcmd`) -/
def datablock (s : W) (dbtype : Nat) (payload : Bytes) (maxsize flags offset : Nat) : Except Err W := do
  let s ← addDelay s
  put (reserve s (payload.length + Tables.vgm_reserve_datablock_extra))
    (datablockBytes dbtype payload maxsize flags offset)

/-- `VGM_Writer::stop` -/
def stop (s : W) : Except Err W := do
  let s ← addDelay s
  let s ← put (reserve s Tables.vgm_reserve_stop) [0x66]
  let s ← poke32 s 0x18 s.samples
  let s ← if s.loopSet then poke32 s 0x20 ((s.samples + 4294967296 - s.loopSample) % 4294967296) else pure s
  pure { s with completed := true }

/-! ### UTF-8 → UTF-16 (`std::wstring_convert<std::codecvt_utf8_utf16<char16_t>>::from_bytes`,
libstdc++): code units as `Nat < 65536`.  Malformed input = `rangeError`; an incomplete
sequence at the very end is dropped silently (libstdc++ reports `partial`, which
`from_bytes` does not treat as an error). -/

def isCont (b : UInt8) : Bool := b.toNat / 64 == 2

def unitsOf (cp : Nat) : List Nat :=
  if cp < 0x10000 then [cp]
  else [0xD800 + (cp - 0x10000) / 1024, 0xDC00 + (cp - 0x10000) % 1024]

def utf8ToUtf16 : Bytes → Except Err (List Nat)
  | [] => .ok []
  | c1 :: rest =>
    let n1 := c1.toNat
    if n1 < 0x80 then (utf8ToUtf16 rest).map (n1 :: ·)
    else if n1 < 0xC2 then .error .rangeError
    else if n1 < 0xE0 then
      match rest with
      | c2 :: r =>
        if !isCont c2 then .error .rangeError
        else (utf8ToUtf16 r).map ((n1 * 64 + c2.toNat - 0x3080) :: ·)
      | _ => .ok []
    else if n1 < 0xF0 then
      match rest with
      | c2 :: c3 :: r =>
        if !isCont c2 then .error .rangeError
        else if n1 = 0xE0 ∧ c2.toNat < 0xA0 then .error .rangeError
        else if !isCont c3 then .error .rangeError
        else (utf8ToUtf16 r).map ((n1 * 4096 + c2.toNat * 64 + c3.toNat - 0xE2080) :: ·)
      | _ => .ok []
    else if n1 < 0xF5 then
      match rest with
      | c2 :: c3 :: c4 :: r =>
        if !isCont c2 then .error .rangeError
        else if n1 = 0xF0 ∧ c2.toNat < 0x90 then .error .rangeError
        else if n1 = 0xF4 ∧ c2.toNat ≥ 0x90 then .error .rangeError
        else if !isCont c3 then .error .rangeError
        else if !isCont c4 then .error .rangeError
        else (utf8ToUtf16 r).map
          (unitsOf (n1 * 262144 + c2.toNat * 4096 + c3.toNat * 64 + c4.toNat - 0x3C82080) ++ ·)
      | _ => .ok []
    else .error .rangeError

def gd3MaxUnits : Nat := Tables.vgm_gd3_max_units

/-- C string semantics of `.c_str()`: the tag ends at its first NUL -/
def cstr (s : Bytes) : Bytes := s.takeWhile (· ≠ 0)

def unitsBytes (us : List Nat) : Bytes := us.flatMap fun u => le16 u

/-- `VGM_Writer::add_gd3`: at most 256 code units, then the two terminator bytes -/
def addGd3 (s : W) (str : Bytes) : Except Err W :=
  match utf8ToUtf16 (cstr str) with
  | .error e => .error e
  | .ok us => put s (unitsBytes (us.take gd3MaxUnits) ++ [0, 0])

/-- the eleven strings in the order `write_tag` emits them (`date`/`notes` already
defaulted by the caller of the model: the clock and the build stamp are inputs) -/
structure Tags where
  title : Bytes
  titleJ : Bytes
  game : Bytes
  gameJ : Bytes
  system : Bytes
  systemJ : Bytes
  author : Bytes
  authorJ : Bytes
  date : Bytes
  creator : Bytes
  notes : Bytes
  deriving Repr

def Tags.toList (t : Tags) : List Bytes :=
  [t.title, t.titleJ, t.game, t.gameJ, t.system, t.systemJ, t.author, t.authorJ, t.date, t.creator, t.notes]

def addGd3All (s : W) : List Bytes → Except Err W
  | [] => .ok s
  | t :: ts => match addGd3 s t with
    | .error e => .error e
    | .ok s' => addGd3All s' ts

def gd3Magic : Bytes := [0x47, 0x64, 0x33, 0x20, 0x00, 0x01, 0x00, 0x00]

/-- `VGM_Writer::write_tag` -/
def writeTag (s : W) (t : Tags) : Except Err W := do
  let s := reserve s Tables.vgm_reserve_write_tag
  let s ← poke32 s 0x14 (s.pos - 0x14)
  let s ← put s gd3Magic
  let lenS := s.pos
  let s ← skip s 4
  let s ← addGd3All s t.toList
  poke32 s lenS (s.pos - lenS - 4)

def cellsToBytes : List Cell → Except Err Bytes
  | [] => .ok []
  | none :: _ => .error .indeterminate
  | some b :: r => (cellsToBytes r).map (b :: ·)

/-- `VGM_Writer::get_buffer` -/
def getBuffer (s : W) : Except Err Bytes := do
  let s ← if s.completed then poke32 s 0x04 (s.pos - 4) else pure s
  cellsToBytes s.mem

/-- the public operations, for operation sequences -/
inductive Op
  | write (cmd port reg data : Nat)
  | dacSetup (sid chip port reg db : Nat)
  | dacStart (sid start len freq : Nat)
  | dacStop (sid : Nat)
  | setLoop
  | datablock (dbtype : Nat) (payload : Bytes) (maxsize flags offset : Nat)
  | delay (n : Nat)
  | stop
  | poke (off : Nat) (bs : Bytes)
  | writeTag (t : Tags)
  deriving Repr

def step (s : W) : Op → Except Err W
  | .write c p r d => write s c p r d
  | .dacSetup a b c d e => dacSetup s a b c d e
  | .dacStart a b c d => dacStart s a b c d
  | .dacStop a => dacStop s a
  | .setLoop => setLoop s
  | .datablock t p m f o => datablock s t p m f o
  | .delay n => .ok (delay s n)
  | .stop => stop s
  | .poke o bs => poke s o bs
  | .writeTag t => writeTag s t

def steps (s : W) : List Op → Except Err W
  | [] => .ok s
  | o :: os => match step s o with
    | .error e => .error e
    | .ok s' => steps s' os

/-- construct, apply the operations, `get_buffer` -/
def run (version headerSize : Nat) (ops : List Op) : Except Err Bytes :=
  match ctor version headerSize with
  | .error e => .error e
  | .ok s => match steps s ops with
    | .error e => .error e
    | .ok s' => getBuffer s'

end Ctrmml.Vgm
