/-
  Model of /repo/src/wave.cpp (+ wave.h): `Wave_File::read` / `parse_chunk`,
  `Wave_Bank::encode_sample`, `add_sample(Tag)`, `add_sample(header, data)`, `find_gap`,
  `fit_sample`, `find_duplicate`, `Sample::to_bytes` / `from_bytes`, the accessors.
  One definition per C++ function, mirroring the code as it is (after the `fix:` commits to
  `find_duplicate`, `Wave_File::read`/`parse_chunk` and `add_sample`, including the repair of the
  `offset=` defect D11: a fresh placement stores the playback window `[start, start + size)` of
  the sample data and hands out a header with `start = 0`).

  Mutation = returned state.  Exceptions / undefined behaviour = `Err`:
    incomplete / notFound / offsetTooBig / noFit / tooLong   the five `InputError`s
    oob      a read or write outside a buffer (heap overflow in the C++)
    hang     a loop of the C++ that never terminates
    divZero  `start / bank_size` with `bank_size == 0` (only `Wave_Bank(0, 0)`)

  Narrowings made explicit (`u32 x = x mod 2^32`):
    * every `uint32_t` header field and local (`start`, `start_pos`, `sample_end`,
      `start_bank`, `end_bank`, `wavesize`, `chunksize + 8`, `pos + chunksize`);
    * `(start + 0x1f) & 0xffffffe0` is `u32 (start + 31) / 32 * 32`;
    * `int16_t` samples are kept as their 16 raw bits (a `Nat` below 65536):
      `(b ^ 0x80) << 8` narrows to `((b ^ 0x80) * 256) mod 65536`, and
      `(i >> 8) ^ 0x80` narrowed to `uint8_t` only depends on those bits;
    * `int32_t transpose` is kept as its 32 raw bits;
    * `"%u"` of `sscanf` is `strtoul` reduced mod 2^32 (saturating at 2^64).
  NOT narrowed: `int best_gap_size = max_size` and `int gap_size = end - start` in
  `find_gap` are the identity for banks below 1 GiB (the bound used by the theorems) with `gap.start ≤ gap.end`
  (`Proofs/Wave.lean` proves the latter for every reachable bank); larger banks are outside
  the model.  `unsigned long` members (`max_size`, `current_size`, `bank_size`, gaps) are `Nat`.
-/
import Ctrmml.Model.Bytes
import Ctrmml.Generated.Tables
namespace Ctrmml.Wave
open Ctrmml

inductive Err
  | incomplete | notFound | offsetTooBig | noFit | tooLong | oob | hang | divZero
  deriving DecidableEq, Repr

def u32 (n : Nat) : Nat := n % 4294967296

def NO_FIT : Nat := Tables.wave_NO_FIT

/-- `Wave_Bank::Sample` -/
structure Sample where
  position : Nat
  start : Nat
  size : Nat
  loopStart : Nat
  loopEnd : Nat
  rate : Nat
  transpose : Nat
  flags : Nat
  deriving DecidableEq, Repr

/-- `Sample::to_bytes` -/
def Sample.toBytes (s : Sample) : Bytes :=
  le32 s.position ++ le32 s.start ++ le32 s.size ++ le32 s.loopStart ++ le32 s.loopEnd ++
  le32 s.rate ++ le32 s.transpose ++ le32 s.flags

/-- `Sample::from_bytes`; `none` = `std::out_of_range` from `vector::at` -/
def Sample.fromBytes (b : Bytes) : Option Sample := do
  let position ← rdLe32 b 0
  let start ← rdLe32 b 4
  let size ← rdLe32 b 8
  let loopStart ← rdLe32 b 12
  let loopEnd ← rdLe32 b 16
  let rate ← rdLe32 b 20
  let transpose ← rdLe32 b 24
  let flags ← rdLe32 b 28
  pure { position, start, size, loopStart, loopEnd, rate, transpose, flags }

/-- `Wave_Bank::Gap` (also used for allocated regions in the proofs) -/
structure Gap where
  start : Nat
  stop : Nat
  deriving DecidableEq, Repr

structure Bank where
  maxSize : Nat
  currentSize : Nat
  bankSize : Nat
  rom : Bytes
  gaps : List Gap
  samples : List Sample
  deriving Repr

/-- `Wave_Bank::Wave_Bank(max_size, bank_size)` -/
def Bank.new (maxSize bankSize : Nat) : Bank :=
  { maxSize, currentSize := 0, bankSize := if bankSize = 0 then maxSize else bankSize,
    rom := List.replicate maxSize 0, gaps := [], samples := [] }

/-- the bank-crossing adjustment of `Wave_Bank::fit_sample` (its first two `if`s) -/
def fitStart (bank size start : Nat) : Nat :=
  let sampleEnd := u32 (start + size)
  let startBank := u32 (start / bank)
  let endBank := u32 (sampleEnd / bank)
  if startBank ≠ endBank ∧ size > bank then u32 (start + (Tables.wave_align - 1)) / Tables.wave_align * Tables.wave_align
  else if startBank ≠ endBank ∧ start % bank ≠ 0 then u32 ((startBank + 1) * bank)
  else start

/-- `Wave_Bank::fit_sample(header, start, end)` with `header.size = size`. -/
def fitSample (bank size start stop : Nat) : Nat :=
  if u32 (fitStart bank size start + size) > stop then NO_FIT else fitStart bank size start

/-- loop of `find_gap`: index and aligned start of the smallest gap that fits -/
def findGapGo (bank size : Nat) : List Gap → Nat → Option (Nat × Nat) → Nat → Option (Nat × Nat)
  | [], _, best, _ => best
  | g :: gs, i, best, bestSize =>
    let gapSize := g.stop - g.start
    let sp := fitSample bank size (u32 g.start) (u32 g.stop)
    if sp ≠ NO_FIT ∧ gapSize < bestSize then findGapGo bank size gs (i + 1) (some (i, sp)) gapSize
    else findGapGo bank size gs (i + 1) best bestSize

/-- `Wave_Bank::find_gap` -/
def findGap (b : Bank) (size : Nat) : Option (Nat × Nat) :=
  findGapGo b.bankSize size b.gaps 0 none b.maxSize

/-- the test inside the loop of `find_duplicate` (after the fix commits) -/
def dupTest (b : Bank) (h : Sample) (data : Bytes) (i : Sample) : Bool :=
  decide (i.position + data.length ≤ b.rom.length) &&
  decide (data.length ≤ i.size) &&
  decide (i.loopStart ≤ h.loopStart) &&
  decide (fitSample b.bankSize h.size (u32 (i.position + h.start)) (u32 b.rom.length) = u32 (i.position + h.start)) &&
  decide ((b.rom.drop i.position).take data.length = data)

/-- `Wave_Bank::find_duplicate` -/
def findDuplicate (b : Bank) (h : Sample) (data : Bytes) : Option Nat :=
  b.samples.findIdx? (dupTest b h data)

/-- `operator==(Sample, Sample)`: comparison of the serialised headers; every field is a
`uint32_t` and `to_bytes` writes all eight of them, so this is equality of the fields -/
def sameHeader (a c : Sample) : Bool := decide (a = c)

/-- `std::copy_n(sample.begin(), n, rom.begin() + at)` -/
def writeAt (rom : Bytes) (at_ : Nat) (src : Bytes) (n : Nat) : Bytes :=
  rom.take at_ ++ src.take n ++ rom.drop (at_ + n)

/-- the placement decision of `add_sample`: (proposed start, aligned start, gaps after shrinking the reused gap) -/
def placeFresh (b : Bank) (size : Nat) : Nat × Nat × List Gap :=
  match findGap b size with
  | some (gid, sp) =>
    let g := b.gaps.getD gid ⟨0, 0⟩
    (u32 g.start, sp, b.gaps.set gid { g with start := u32 (sp + size) })
  | none => (u32 b.currentSize, fitSample b.bankSize size (u32 b.currentSize) (u32 b.maxSize), b.gaps)

/-- the "create a new entry" branch of `add_sample`:
`copy_n(sample.begin() + header.start, header.size, rom.begin() + start_pos)`, then
`header.position = start_pos; header.start = 0` -/
def addFresh (b : Bank) (h : Sample) (data : Bytes) : Except Err (Bank × Nat) :=
  let p := placeFresh b h.size
  if p.2.1 = NO_FIT then .error .noFit else
  if data.length < h.start + h.size ∨ b.rom.length < p.2.1 + h.size then .error .oob else
  .ok ({ b with currentSize := if p.2.1 ≥ b.currentSize then u32 (p.2.1 + h.size) else b.currentSize,
                gaps := if p.2.1 > p.1 then p.2.2 ++ [⟨p.1, p.2.1⟩] else p.2.2,
                rom := writeAt b.rom p.2.1 (data.drop h.start) h.size,
                samples := b.samples ++ [{ h with position := p.2.1, start := 0 }] }, b.samples.length)

/-- `Wave_Bank::add_sample(Sample header, const vector<uint8_t>& sample)`; the first test is
`(uint64_t)header.start + header.size > sample.size()` (two 32-bit fields: the sum is exact) -/
def addSample (b : Bank) (h : Sample) (data : Bytes) : Except Err (Bank × Nat) :=
  if h.start + h.size > data.length then .error .tooLong else
  if b.bankSize = 0 then .error .divZero else
  match findDuplicate b h data with
  | some d =>
    let h' := { h with position := (b.samples.getD d h).position }
    match b.samples.findIdx? (fun s => sameHeader s h') with
    | some r => .ok (b, r)
    | none => .ok ({ b with samples := b.samples ++ [h'] }, b.samples.length)
  | none => addFresh b h data

/-- accessors -/
def Bank.freeBytes (b : Bank) : Nat := u32 (b.maxSize + 4294967296 * 4294967296 - b.currentSize)
def Bank.totalGap (b : Bank) : Nat := u32 (b.gaps.foldl (fun a g => a + (g.stop - g.start)) 0)
def Bank.largestGap (b : Bank) : Nat := b.gaps.foldl (fun a g => if u32 (g.stop - g.start) > a then u32 (g.stop - g.start) else a) 0

/-! ### Wave_File -/

structure WaveFile where
  channels : Nat := 0
  stype : Nat := 1
  sbits : Nat := 0
  srate : Nat := 0
  slength : Nat := 0      -- uninitialised in the C++ until a fmt/data/smpl chunk sets it; never read before
  step : Nat := 0
  useSmpl : Bool := false
  transpose : Nat := 0
  lstart : Nat := 0
  lend : Nat := 0
  data0 : List Nat := []  -- data[0], raw int16 bits
  ndata : Nat := 0        -- data.size()
  deriving Repr

/-- checked reads: `.error .oob` = the C++ would read outside the file buffer -/
def rd32 (f : Bytes) (p : Nat) : Except Err Nat :=
  match rdLe32 f p with
  | some v => .ok v
  | none => .error .oob

def rd16 (f : Bytes) (p : Nat) : Except Err Nat :=
  match rdLe16 f p with
  | some v => .ok v
  | none => .error .oob

/-- the frame loop of the `data` case: `for(d = fdata+8; d + step <= fdata+8+chunksize;)`.
`rest` = the file from `d` on, `remaining` = bytes left before the end of the chunk.  Each
frame pushes the first sample of the frame to `data[0]` and advances `d` by `step` bytes
(the other channel is read and pushed to `data[1]`; reading it outside the buffer is `oob`).
A sample width other than 8/16 would never advance `d` (`hang`); `fmt` rejects those. -/
def decodeFrames (sbits step : Nat) : Nat → Bytes → Nat → List Nat → Except Err (List Nat)
  | 0, _, _, _ => .error .hang
  | fuel + 1, rest, remaining, acc =>
    if remaining < step then .ok acc.reverse else
    if sbits = 8 then
      match rest, rest.drop (step - 1) with
      | v :: _, _ :: r => decodeFrames sbits step fuel r (remaining - step) ((((v.toNat ^^^ 0x80) * 256) % 65536) :: acc)
      | _, _ => .error .oob
    else if sbits = 16 then
      match rest, rest.drop (step - 1) with
      | b0 :: b1 :: _, _ :: r => decodeFrames sbits step fuel r (remaining - step) ((b0.toNat + 256 * b1.toNat) :: acc)
      | _, _ => .error .oob
    else .error .hang

/-- `case 'fmt '` of `parse_chunk`; `.ok none` = return 0.  `step = ((uint32_t)sbits * channels) / 8`
narrowed to `uint16_t`: the product of two 16-bit values fits 32 bits (it was computed in promoted
`int` and could overflow before the repair). -/
def parseFmt (f : Bytes) (pos chunksize : Nat) (w : WaveFile) : Except Err (Option WaveFile) :=
  if chunksize < Tables.wave_fmtMin then .ok none else
  match rd16 f (pos + 0x08), rd16 f (pos + 0x0a), rd16 f (pos + 0x16), rd32 f (pos + 0x0c) with
  | .ok stype, .ok channels, .ok sbits, .ok srate =>
    let step := (sbits * channels) / 8 % 65536
    if stype ≠ 1 ∨ channels > 2 ∨ step = 0 ∨ (sbits ≠ 8 ∧ sbits ≠ 16) then .ok none
    else .ok (some { w with stype, channels, sbits, step, srate, slength := 0, ndata := channels })
  | _, _, _, _ => .error .oob

/-- `case 'data'` -/
def parseData (f : Bytes) (pos chunksize : Nat) (w : WaveFile) : Except Err (Option WaveFile) :=
  if w.step = 0 then .ok none else
  match decodeFrames w.sbits w.step (chunksize / w.step + 1) (f.drop (pos + 8)) chunksize [] with
  | .error e => .error e
  | .ok d0 => .ok (some { w with data0 := w.data0 ++ d0, slength := u32 (w.data0 ++ d0).length, lstart := 0, lend := 0 })

/-- `case 'smpl'` -/
def parseSmpl (f : Bytes) (pos chunksize : Nat) (w : WaveFile) : Except Err (Option WaveFile) :=
  let w1 := { w with useSmpl := true }
  match (if chunksize ≥ 0x10 then (rd32 f (pos + 0x14)).map fun t =>
            { w1 with transpose := if t = 0 then u32 (t + 4294967296 - 60) else t }
         else .ok w1 : Except Err WaveFile) with
  | .error e => .error e
  | .ok w2 =>
    if chunksize ≥ 0x34 then
      match rd32 f (pos + 0x24) with
      | .error e => .error e
      | .ok nloops =>
        if nloops ≠ 0 then
          match rd32 f (pos + 0x2c + 8), rd32 f (pos + 0x2c + 12) with
          | .ok ls, .ok le => .ok (some { w2 with lstart := ls, lend := u32 (le + 1), slength := u32 (le + 1) })
          | _, _ => .error .oob
        else .ok (some w2)
    else .ok (some w2)

/-- `Wave_File::parse_chunk(filebuf + pos)`; the result `0` ("failed") is `.ok none`
(the normal result `chunksize + 8` is never 0). -/
def parseChunk (f : Bytes) (pos : Nat) (w : WaveFile) : Except Err (Option WaveFile) :=
  match rd32 f pos, rd32 f (pos + 4) with
  | .ok chunkid, .ok chunksize =>
    if chunkid = Tables.wave_id_fmt then parseFmt f pos chunksize w
    else if chunkid = Tables.wave_id_data then parseData f pos chunksize w
    else if chunkid = Tables.wave_id_smpl then parseSmpl f pos chunksize w
    else .ok (some w)
  | _, _ => .error .oob

/-- the chunk loop of `Wave_File::read`:
`while(pos < wavesize && pos < filesize && filesize - pos >= 8)` -/
def readChunks (f : Bytes) (wavesize : Nat) : Nat → Nat → WaveFile → Except Err (Option WaveFile)
  | 0, _, _ => .error .hang
  | fuel + 1, pos, w =>
    if pos < wavesize ∧ pos < f.length ∧ f.length - pos ≥ 8 then
      match rd32 f (pos + 4) with
      | .error e => .error e
      | .ok chunksize =>
        if chunksize > f.length - pos - 8 then .ok none else
        match parseChunk f pos w with
        | .error e => .error e
        | .ok none => .ok none
        | .ok (some w') =>
          let pos1 := u32 (pos + (chunksize + 8))
          readChunks f wavesize fuel (if pos1 % 2 = 1 then u32 (pos1 + 1) else pos1) w'
    else .ok (some w)

/-- `Wave_File::read` on the contents of an existing file; `.ok none` = return value −1.
The first test is `load_file`: a file of more than `0x7fffffff` bytes is not read (−1), so the
`uint32_t filesize` holds the exact size and `pos`, `pos + chunksize + 8` (≤ filesize) and the
pad increment `pos++` (≤ filesize + 1 ≤ 2^31) never wrap.  (Without that limit a file of exactly
2^32 − 1 bytes whose last chunk ends at the odd position `0xffffffff` would wrap `pos++` to 0
and walk the file again from its first byte, for ever; a file of 2^32 bytes or more would be
read with a truncated size.)
Fuel: every iteration of the chunk loop consumes at least 8 bytes. -/
def readWav (f : Bytes) : Except Err (Option WaveFile) :=
  if f.length > Tables.wave_maxFileSize then .ok none else
  if f.length < Tables.wave_minFileSize then .ok none else
  if f.take 4 ≠ [0x52, 0x49, 0x46, 0x46] then .ok none else
  match rd32 f 4 with
  | .error e => .error e
  | .ok sz =>
    let wavesize := u32 (sz + 8)
    if (f.drop 8).take 4 ≠ [0x57, 0x41, 0x56, 0x45] then .ok none else
    match readChunks f wavesize (f.length / 8 + 1) 12 {} with
    | .error e => .error e
    | .ok none => .ok none
    | .ok (some w) => if w.ndata = 0 then .ok none else .ok (some w)

/-- `Wave_Bank::encode_sample` -/
def encodeSample (input : List Nat) : Bytes :=
  input.map fun i => byteOf ((i / 2 ^ Tables.wave_encShift) ^^^ Tables.wave_encXor)

/-! `sscanf(s, "rate = %u", &param) == 1` -/
def skipWs : List Char → List Char
  | c :: cs => if c = ' ' ∨ c = '\t' ∨ c = '\n' ∨ c = '\x0b' ∨ c = '\x0c' ∨ c = '\r' then skipWs cs else c :: cs
  | [] => []

def matchLit : List Char → List Char → Option (List Char)
  | [], s => some s
  | l :: ls, c :: cs => if l = c then matchLit ls cs else none
  | _ :: _, [] => none

def takeDigits : List Char → Nat → Nat → Nat × Nat
  | c :: cs, acc, n => if '0' ≤ c ∧ c ≤ '9' then takeDigits cs (acc * 10 + (c.toNat - 48)) (n + 1) else (acc, n)
  | [], acc, n => (acc, n)

/-- `%u`: optional blanks, optional sign, at least one digit; value as `strtoul` would give, stored in 32 bits -/
def scanU (s : List Char) : Option Nat :=
  let s := skipWs s
  let (neg, s) := match s with
    | '-' :: r => (true, r)
    | '+' :: r => (false, r)
    | _ => (false, s)
  let (v, n) := takeDigits s 0 0
  if n = 0 then none else
  let v64 := if v ≥ 18446744073709551616 then 18446744073709551615 else if neg then (18446744073709551616 - v) % 18446744073709551616 else v
  some (u32 v64)

/-- `sscanf(arg, "<key> = %u", &param) == 1` -/
def scanKey (key : String) (arg : String) : Option Nat := do
  let r ← matchLit key.toList arg.toList
  let r ← matchLit ['='] (skipWs r)
  scanU (skipWs r)

/-- the override loop of `add_sample(Tag)` -/
def applyArgs : List String → Sample → Except Err Sample
  | [], h => .ok h
  | a :: as, h =>
    match scanKey "rate" a with
    | some p => applyArgs as { h with rate := p }
    | none =>
      match scanKey "offset" a with
      | some p =>
        if p > h.size then .error .offsetTooBig
        else applyArgs as { h with start := u32 (h.start + p), size := h.size - p }
      | none => applyArgs as h

/-- `Wave_Bank::add_sample(const Tag&)`; `file = none` when no file of that name can be opened
(one include path, as set up by default) -/
def addSampleTag (b : Bank) (file : Option Bytes) (tag : List String) : Except Err (Bank × Nat) :=
  match tag with
  | [] => .error .incomplete
  | _ :: args =>
    match file with
    | none => .error .notFound
    | some f =>
      match readWav f with
      | .error e => .error e
      | .ok none => .error .notFound
      | .ok (some wf) =>
        let sample := encodeSample wf.data0
        let header : Sample := { position := 0, start := 0, size := wf.slength, loopStart := wf.lstart, loopEnd := wf.lend,
                                 rate := wf.srate, transpose := wf.transpose, flags := 0 }
        match applyArgs args header with
        | .error e => .error e
        | .ok h => addSample b h sample

end Ctrmml.Wave
