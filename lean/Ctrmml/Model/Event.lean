/-
  Events, tracks and songs (src/track.h `struct Event`, src/song.h track map).

  `Event.type` is the numeric value of `Event::Type` (numbering regenerated into
  `Tables.ev_*`); `param` is the `int16_t` parameter as an `Int`; `on`/`off` are the
  `uint16_t` on/off times.  `Event::play_time` and `reference` are not part of the
  control semantics and are modelled where a property needs them (C16/C17).
-/
import Ctrmml.Generated.Tables
namespace Ctrmml
open Tables

structure Event where
  type : Nat
  param : Int
  on : Nat
  off : Nat
  deriving DecidableEq, Repr, Inhabited

/-- Control classification of an event, as the `switch` in `Basic_Player::step_event`. -/
inductive Kind | loopStart | loopBreak | loopEnd | segno | jump | fin | other
  deriving DecidableEq, Repr

def kindOfType (t : Nat) : Kind :=
  if t = ev_LOOP_START then .loopStart
  else if t = ev_LOOP_BREAK then .loopBreak
  else if t = ev_LOOP_END then .loopEnd
  else if t = ev_SEGNO then .segno
  else if t = ev_JUMP then .jump
  else if t = ev_END then .fin
  else .other

def Event.kind (e : Event) : Kind := kindOfType e.type

/-- the event `step_event` synthesises when reading past the end of a track -/
def endEvent : Event := { type := ev_END, param := 0, on := 0, off := 0 }

/-- `std::map<uint16_t,Track>` as an association list (lookup = first match; the harness
sends tracks in key order without duplicates). -/
structure Song where
  tracks : List (Nat × List Event)
  deriving Repr

def Song.track? (s : Song) (id : Nat) : Option (List Event) := s.tracks.lookup id

/-- `song->get_track(event.param)`: the `int16_t` parameter converts to `uint16_t`. -/
def trackIdOfParam (p : Int) : Nat := (p % 65536).toNat

/-- which track a player position refers to: the track the player was constructed on
(which need not be in the song map) or a track of the song reached by `JUMP`/drum mode -/
inductive TRef | root | id (n : Nat)
  deriving DecidableEq, Repr

def codeOf (s : Song) (root : List Event) : TRef → List Event
  | .root => root
  | .id n => (s.track? n).getD []

end Ctrmml
