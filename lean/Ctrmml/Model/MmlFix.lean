/-
  Historical note.  While repository fix 1763cac ("a '%' platform command event carries its own
  position": `MML_Input::parse_mml_track` does `unget(c); set_reference(get_reference()); get();`
  before adding the `PLATFORM` event of a `%n` command) was not yet merged into Model/Mml, this
  file re-stated `parse_mml_track` and the functions above it in the call chain with that one
  branch changed.  Model/Mml has taken the fixed branch since; the names below are now plain
  re-exports of `Ctrmml.Mml` (kept so that `Ctrmml.MmlFix.readLines` etc. still resolve).
-/
import Ctrmml.Model.Mml
namespace Ctrmml.MmlFix
export Ctrmml.Mml (parseMmlTrackF trackFuel parseMmlTrack parseMmlLoop parseMml runLastCmd parseLine
  readLine readLines)
end Ctrmml.MmlFix
