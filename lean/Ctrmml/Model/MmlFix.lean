/-
  The MML reader after repository fix 1763cac ("a '%' platform command event carries its own
  position"): `MML_Input::parse_mml_track` now does `unget(c); set_reference(get_reference()); get();`
  before adding the `PLATFORM` event of a `%n` command.  Model/Mml (owned by C05) still has the
  old branch (the event kept the previous command's reference, or none at the start of a track);
  this file re-states `parse_mml_track` and the functions above it in the call chain
  (`parse_mml`, `parse_line`, `read_line`, `parse_file`) VERBATIM from Model/Mml with that one
  branch changed.  Everything else (commands, lexer, builder) is imported, not copied.
  When the fix is merged, the `%` branch of `Ctrmml.Mml.parseMmlTrackF` takes the text below and
  this file reduces to re-exports.
-/
import Ctrmml.Model.Mml
namespace Ctrmml.MmlFix
open Ctrmml.Tables Ctrmml.Lexer Ctrmml.TrackBuilder Ctrmml.Mml

/-- `MML_Input::parse_mml_track()` on explicit fuel -/
def parseMmlTrackF : Nat → P Unit
  | 0 => fail (.foreign "MODEL:fuel")
  | fuel + 1 => do
    let c ← getTokenC
    let s ← getS
    if c == 124 then parseMmlTrackF fuel
    else if c == 59 then pure ()
    else if (c == 47 || c == 125) && s.conditionalBlock then do
      conditionalBlockEnd c
      parseMmlTrackF fuel
    else if c == 123 && !s.conditionalBlock then do
      conditionalBlockBegin
      parseMmlTrackF fuel
    else if c == 37 then do
      -- fix 1763cac: `unget(c); set_reference(get_reference()); get();` before the event
      ungetC c
      let s ← getS
      trackOp (.setReference (some s.inp.getReference))
      let _ ← getC
      trackOp (.addEvent ev_PLATFORM (← expectParameter) 0 0)
      parseMmlTrackF fuel
    else if c == 0 then pure ()
    else do
      ungetC c
      let s ← getS
      trackOp (.setReference (some s.inp.getReference))
      if (← mmlBasic) == false then parseMmlTrackF fuel
      else if (← mmlControl) == false then parseMmlTrackF fuel
      else if (← mmlEnvelope) == false then parseMmlTrackF fuel
      else parseError "unknown MML command"

def trackFuel (s : MmlState) : Nat := s.inp.lb.buf.length + 2 - s.inp.lb.column

/-- `MML_Input::parse_mml_track()` -/
def parseMmlTrack : P Unit := do
  let s ← getS
  parseMmlTrackF (trackFuel s)

/-- the body of the `for` loop of `parse_mml` for the tracks `l`, the first having index `i` -/
def parseMmlLoop (col : Nat) : Nat → List Nat → P Unit
  | _, [] => pure ()
  | i, id :: rest => do
    seekC col
    modifyS fun s => { s with trackId := id, trackOffset := i % 65536, song := s.song.makeTrack id, conditionalBlock := false }
    parseMmlTrack
    if (← getS).conditionalBlock then parseError "unterminated conditional block"
    parseMmlLoop col (i + 1) rest

/-- `MML_Input::parse_mml()` -/
def parseMml : P Unit := do
  let col ← tellC
  let s ← getS
  parseMmlLoop col 0 s.trackList

def runLastCmd : P Unit := do
  match (← getS).lastCmd with
  | .null => pure ()
  | .parseMml => parseMml
  | .parseTag => parseTag

/-- `MML_Input::parse_line()` -/
def parseLine : P Unit := do
  let c ← getTrackId
  let continue? : Bool ←
    if c != -1 then do
      let s ← getS
      let l ← trackListLoop (s.inp.lb.buf.length + 2) c []
      modifyS fun s => { s with trackList := l, lastCmd := .parseMml }
      pure true
    else do
      let c ← getC
      if c == 35 || c == 64 then do
        let s ← getS
        let b := s.inp.lb
        let (key, n, e) := tagKeyScan c (b.buf.drop b.column)
        modifyS fun s => { setLb s { b with column := b.column + n } with tagKey := key, lastCmd := .parseTag }
        ungetC e
        pure true
      else if c == 59 then pure false
      else if !isBlank c then do
        if c != 0 then parseError "Expected track or tag identifier"
        pure false
      else do
        ungetC c
        pure true
  if continue? then do
    let c ← getC
    if isBlank c then do
      let c ← getTokenC
      ungetC c
      if c == 0 then pure ()
      else runLastCmd

/-- `Line_Input::read_line(text, line_number)` -/
def readLine (text : List Nat) (lineNumber : Nat) : P Unit := do
  modifyS fun s => { s with inp := s.inp.readLine text lineNumber }
  parseLine

/-- feed the lines of a file (`Line_Input::parse_file`): stops at the first exception -/
def readLines : Nat → List (List Nat) → P Unit
  | _, [] => pure ()
  | n, l :: ls => do
    readLine l n
    readLines (n + 1) ls

end Ctrmml.MmlFix
