/-
  Model of class `Optimizer` (src/optimizer.cpp): `analyze_stack` / `Stack_Analyzer::analyze_track`,
  `find_match_length`, `find_match`, `find_best_match`, `apply_match`, `find_subroutines`,
  `replace_with_subroutine`, `add_event`, and the pass loop of `optimize` (with the
  `Song_Validator` run after every pass abstracted as a parameter `valid`).

  * the song is an association list kept in key order (`std::map<uint16_t,Track>` iteration);
  * `stack_analyzer` is a `std::map<int, Stack_Analyzer>` keyed by track id or by the `int16_t`
    parameter of a `JUMP`/drum note — an `Int` key here; `operator[]` creating a default entry is
    `getSA` on a missing key; `int16_t` fields (`base_usage`, `max_usage`, list entries) wrap
    (`wrap16`);
  * `song.get_track(param)` on a missing track is a `std::out_of_range` that nothing in the
    optimiser catches: `OErr.missingTrack`;
  * `event_list[dst_end]` beyond the analysed list (undefined behaviour in the C++) is
    `OErr.stackListOOB`;
  * every loop of the C++ is bounded by the sizes of the tracks; the recursion of
    `analyze_track` carries a budget (`fuel`), exhausting it is `OErr.fuel`.
-/
import Ctrmml.Model.Event
namespace Ctrmml.Opt
open Ctrmml Tables

def wrap16 (x : Int) : Int := ((x + 32768) % 65536) - 32768

inductive OErr | missingTrack | stackListOOB | fuel
  /-- `InputError` "drum mode error: track *%d is not defined" (the validator does not follow drum routines) -/
  | missingDrum (param : Int)
  deriving DecidableEq, Repr

structure SA where
  parsing : Bool := false
  baseUsage : Int := 0
  maxUsage : Int := 0
  eventList : List Int := []
  deriving Repr

abbrev SAMap := List (Int × SA)

def getSA (m : SAMap) (k : Int) : SA := (m.lookup k).getD {}
def setSA (m : SAMap) (k : Int) (v : SA) : SAMap :=
  if m.any (·.1 == k) then m.map (fun p => if p.1 == k then (k, v) else p) else m ++ [(k, v)]

def maxStackDepth : Nat := 6      -- Optimizer::max_stack_depth (unused by the code paths below)
def minSubScore : Nat := Tables.opt_min_sub_score
def minLoopScore : Nat := Tables.opt_min_loop_score
def maxSubStack : Int := Tables.opt_max_sub_stack
def maxLoopStack : Int := Tables.opt_max_loop_stack
def maxLoopCount : Nat := Tables.opt_max_loop_count   -- Optimizer::max_loop_count
/-- `Optimizer::max_src_stack`: the stack budget of the phrase a subroutine is made from (repair of
D18: the source occurrence is replaced by a call as well) — the depth limit of the song validator -/
def maxSrcStack : Int := Tables.opt_max_src_stack
/-- `max_fold` of `apply_match`: the number of repetitions one fold erases at most (the first
repetition stays in the track as the loop body) -/
def maxFold : Nat := maxLoopCount - Tables.opt_loop_fold_kept

/-- `Stack_Analyzer::analyze_track`; `self` is the key of the analyser in the map -/
def analyzeTrack (song : Song) : Nat → SAMap → Int → List Event → Int → Except OErr (SAMap × Int)
  | 0, _, _, _, _ => .error .fuel
  | fuel + 1, m0, self, events, drum0 =>
    let m1 := setSA m0 self { getSA m0 self with eventList := [], parsing := true }
    let rec go (evs : List Event) (m : SAMap) (loopDepth : Int) (drum : Int) : Except OErr (SAMap × Int) :=
      match evs with
      | [] => .ok (setSA m self { getSA m self with parsing := false }, drum)
      | e :: rest =>
        let loopDepth := if e.type = ev_LOOP_START then loopDepth + 1 else loopDepth
        let jumpDepth : Int := (if e.type = ev_JUMP then 1 else 0) + (if drum ≠ 0 ∧ e.type = ev_NOTE then 1 else 0)
        let usage0 := jumpDepth + loopDepth * 2
        let callee (drumArg : Int) (keepDrum : Bool) (isDrum : Bool) : Except OErr (SAMap × Int × Int) :=
          -- returns (map, usage, drum)
          let key := e.param
          let dest := getSA m key
          let base := (getSA m self).baseUsage
          if dest.baseUsage < usage0 + base then
            let m' := setSA m key { dest with baseUsage := wrap16 (usage0 + base) }
            if !dest.parsing then
              match song.track? (trackIdOfParam e.param) with
              | none => .error (if isDrum then .missingDrum e.param else .missingTrack)
              | some cevs =>
                match analyzeTrack song fuel m' key cevs drumArg with
                | .error x => .error x
                | .ok (m'', d') => .ok (m'', usage0 + (getSA m'' key).maxUsage, if keepDrum then d' else drum)
            else .ok (m', usage0 + (getSA m' key).maxUsage, drum)
          else .ok (m, usage0 + dest.maxUsage, drum)
        let step : Except OErr (SAMap × Int × Int × Int) :=
          -- (map, usage, drum, loopDepth)
          if e.type = ev_JUMP then
            match callee drum true false with
            | .error x => .error x
            | .ok (m', u, d') => .ok (m', u, d', loopDepth)
          else if e.type = ev_NOTE ∧ drum ≠ 0 then
            match callee 0 false true with
            | .error x => .error x
            | .ok (m', u, d') => .ok (m', u, d', loopDepth)
          else if e.type = ev_DRUM_MODE then .ok (m, usage0, e.param, loopDepth)
          else if e.type = ev_LOOP_END then .ok (m, usage0, drum, loopDepth - 1)
          else .ok (m, usage0, drum, loopDepth)
        match step with
        | .error x => .error x
        | .ok (m', usage, drum', loopDepth') =>
          let s := getSA m' self
          let u := wrap16 usage
          go rest (setSA m' self { s with eventList := s.eventList ++ [u], maxUsage := if u > s.maxUsage then u else s.maxUsage })
            loopDepth' drum'
    go events m1 0 drum0

/-- the `base_usage` that marks an unused macro track ("don't optimize unused tracks": 100, far above
every stack limit) -/
def unusedBase : Int := Tables.opt_unused_base

/-- the body of the loop over the track map of `Optimizer::analyze_stack`; the state is the analyser
map and the vector `unused` (the macro tracks that were analysed as roots) -/
def analyzeStackStep (song : Song) (st : SAMap × List Int) (p : Nat × List Event) : Except OErr (SAMap × List Int) :=
  let key : Int := p.1
  -- `stack_analyzer[id]` creates the entry
  let m := if st.1.any (·.1 == key) then st.1 else st.1 ++ [(key, {})]
  if (getSA m key).baseUsage = 0 then
    match analyzeTrack song (song.tracks.length + 2) m key p.2 0 with
    | .error x => .error x
    | .ok (m', _) => .ok (m', if p.1 > Tables.opt_first_macro_above then st.2 ++ [key] else st.2)
  else .ok (m, st.2)

/-- the second loop of `analyze_stack` (repair of D28): `stack_analyzer[id].base_usage = 100` for every
collected id — the unused macro tracks are marked only after ALL tracks have been analysed -/
def markUnused (m : SAMap) (unused : List Int) : SAMap :=
  unused.foldl (fun m id => setSA m id { getSA m id with baseUsage := unusedBase }) m

/-- `Optimizer::analyze_stack` -/
def analyzeStack (song : Song) : Except OErr SAMap :=
  match song.tracks.foldlM (analyzeStackStep song) ([], []) with
  | .error x => .error x
  | .ok (m, unused) => .ok (markUnused m unused)

def sameEvent (a b : Event) : Bool :=
  (a.type == b.type && a.param == b.param && a.on == b.on && a.off == b.off) ||
  (a.type == b.type && a.type == ev_LOOP_BREAK)

/-- `find_match_length`: returns (match length up to the last depth-0 boundary, value left in
`*loop_length`).  `track` = the `loop_length` pointer is still non-null: once the stack budget for
loops is exceeded the pointer is nulled and the caller's variable keeps the last value written. -/
def findMatchLength (song : Song) (m : SAMap) (srcT srcStart dstT dstStart : Nat) (wantLoop : Bool) :
    Except OErr (Nat × Nat) :=
  match song.track? srcT, song.track? dstT with
  | some src, some dst =>
    let sa := getSA m dstT
    let rec go (fuel : Nat) (se de : Nat) (depth : Int) (safe : Nat) (track : Bool) (loopLen : Nat) : Except OErr (Nat × Nat) :=
      match fuel with
      | 0 => .ok (safe - dstStart, loopLen)
      | fuel + 1 =>
        match src[se]?, dst[de]? with
        | some s, some d =>
          match sa.eventList[de]? with
          | none => .error .stackListOOB
          | some u =>
            let stackDepth := u + sa.baseUsage
            let track := if stackDepth ≥ maxLoopStack then false else track
            if stackDepth ≥ maxSubStack then .ok (safe - dstStart, loopLen)
            else if d.type = ev_SEGNO ∨ d.type = ev_DRUM_MODE then .ok (safe - dstStart, loopLen)
            else if (d.type = ev_LOOP_END ∨ d.type = ev_LOOP_BREAK) ∧ depth = 0 then .ok (safe - dstStart, loopLen)
            else
              let depth := if d.type = ev_LOOP_START then depth + 1 else if d.type = ev_LOOP_END then depth - 1 else depth
              if sameEvent s d then
                if depth = 0 then
                  go fuel (se + 1) (de + 1) depth (de + 1) track (if track then de + 1 - dstStart else loopLen)
                else go fuel (se + 1) (de + 1) depth safe track loopLen
              else .ok (safe - dstStart, loopLen)
        | _, _ => .ok (safe - dstStart, loopLen)
    go (src.length + dst.length + 1) srcStart dstStart 0 dstStart wantLoop 0
  | _, _ => .error .missingTrack

structure Match where
  trackId : Nat := 0
  position : Nat := 0
  loopPosition : Nat := 0
  loopLength : Nat := 0
  subLength : Nat := 0
  subRepeats : Nat := 0
  subScore : Int := 0
  deriving Repr, DecidableEq

def Match.loopScore (m : Match) : Int := (m.loopLength : Int) - 2
def Match.bestScore (m : Match) : Int := if m.subScore > m.loopScore then m.subScore else m.loopScore

abbrev Counter := List (Nat × Nat)   -- std::map<uint32_t,uint32_t>, kept in key order on read

def cGet (c : Counter) (k : Nat) : Nat := (c.lookup k).getD 0
def cSet (c : Counter) (k v : Nat) : Counter :=
  if c.any (·.1 == k) then c.map (fun p => if p.1 == k then (k, v) else p) else c ++ [(k, v)]

/-- the `balanced` vector of `find_match`: prefix lengths of the source phrase that end outside of any
nested loop; the vector ends where the loop structure of the track ends (`depth < 0`) and — repair
of D18 — where the source phrase has no room on the stack for a call (`sa` = the analyser of the
source track; `i` = the index of the event in the track) -/
def sourcePrefixes (sa : SA) (src : List Event) (start : Nat) : Except OErr (List Bool) :=
  let rec go (evs : List Event) (i : Nat) (depth : Int) (acc : List Bool) : Except OErr (List Bool) :=
    match evs with
    | [] => .ok acc.reverse
    | e :: rest =>
      if depth < 0 then .ok acc.reverse else
      match sa.eventList[i]? with
      | none => .error .stackListOOB
      | some u =>
        if u + sa.baseUsage ≥ maxSrcStack then .ok acc.reverse else
        let depth := if e.type = ev_LOOP_START then depth + 1 else if e.type = ev_LOOP_END then depth - 1 else depth
        go rest (i + 1) depth ((depth == 0) :: acc)
  match go (src.drop start) start 0 [] with
  | .error x => .error x
  | .ok l => .ok (true :: l)

/-- `find_match` -/
def findMatch (song : Song) (m : SAMap) (srcT srcStart : Nat) : Except OErr Match := do
  let src ← match song.track? srcT with | some s => pure s | none => throw OErr.missingTrack
  -- `Stack_Analyzer& src_stack = stack_analyzer[src_track]`
  let srcSA := getSA m srcT
  let balanced ← sourcePrefixes srcSA src srcStart
  let isBal (len : Nat) : Bool := (balanced[len]?).getD false
  let mut mt : Match := {}
  let mut subCount : Counter := []
  for (dstT, dst) in song.tracks do
    let mut last : Counter := []
    if dstT < srcT then continue
    else if dstT = srcT then
      let mut loopDepth : Int := 0
      let mut loopValid := true
      for dstPos in List.range' (srcStart + 1) (dst.length - (srcStart + 1)) do
        -- repair of D18: the new loop encloses every event of `[srcStart, dstPos)`
        match srcSA.eventList[dstPos - 1]? with
        | none => throw OErr.stackListOOB
        | some u => if u + srcSA.baseUsage ≥ maxLoopStack then loopValid := false
        let ty := (dst[dstPos]?).map (·.type) |>.getD 0
        if ty = ev_SEGNO then loopValid := false
        else if (ty = ev_LOOP_END ∨ ty = ev_LOOP_BREAK) ∧ loopDepth = 0 then loopValid := false
        else if ty = ev_LOOP_END then loopDepth := loopDepth - 1
        else if ty = ev_LOOP_START then loopDepth := loopDepth + 1
        let (length0, loopLength) ← findMatchLength song m srcT srcStart dstT dstPos true
        if length0 = 0 then continue
        if loopValid ∧ loopDepth = 0 ∧ loopLength ≥ minLoopScore ∧ loopLength > mt.loopLength then
          mt := { mt with loopLength := loopLength, loopPosition := dstPos }
        let mut length := if length0 > dstPos - srcStart then dstPos - srcStart else length0
        -- `while(length > min_sub_score)`
        for _ in List.range length do
          if length > minSubScore then
            if isBal length ∧ dstPos - cGet last length ≥ length then
              last := cSet last length dstPos
              subCount := cSet subCount length (cGet subCount length + 1)
            length := length - 1
    else
      for dstPos in List.range dst.length do
        let (length0, _) ← findMatchLength song m srcT srcStart dstT dstPos false
        let mut length := length0
        for _ in List.range length0 do
          if length ≥ minSubScore then
            if isBal length ∧ (cGet last length = 0 ∨ dstPos - cGet last length ≥ length + 1) then
              last := cSet last length (dstPos + 1)
              subCount := cSet subCount length (cGet subCount length + 1)
            length := length - 1
  mt := { mt with trackId := srcT, position := srcStart }
  let sorted := (subCount.toArray.qsort (fun a b => a.1 < b.1)).toList
  for (len, cnt) in sorted do
    let score : Int := ((len : Int) - 1) * cnt - 1
    if score > mt.subScore then
      mt := { mt with subLength := len, subScore := score, subRepeats := cnt }
  pure mt

def setTrack (song : Song) (id : Nat) (evs : List Event) : Song :=
  if song.tracks.any (·.1 == id) then { tracks := song.tracks.map fun p => if p.1 == id then (id, evs) else p }
  else { tracks := ((song.tracks ++ [(id, evs)]).toArray.qsort (fun a b => a.1 < b.1)).toList }

def jumpEvent (subId : Int) : Event := { type := ev_JUMP, param := subId, on := 0, off := 0 }

/-- `replace_with_subroutine` (song part and stack-list part) -/
def replaceWithSub (song : Song) (m : SAMap) (subId : Int) (trackId pos len : Nat) : Song × SAMap :=
  match song.track? trackId with
  | none => (song, m)
  | some evs =>
    let evs' := evs.take pos ++ [jumpEvent subId] ++ evs.drop (pos + len)
    let sa := getSA m trackId
    let sl := sa.eventList.take pos ++ sa.eventList.drop (pos + len - 1)
    (setTrack song trackId evs', setSA m trackId { sa with eventList := sl })

/-- `find_subroutines` -/
def findSubroutines (song : Song) (m : SAMap) (bm : Match) (subId : Int) : Except OErr (Song × SAMap) := do
  let subT := trackIdOfParam subId
  let mut s := song
  let mut mm := m
  -- the C++ iterates the live map: tracks present when the loop starts (the new subroutine
  -- track is skipped by id)
  for (dstT, _) in song.tracks do
    if dstT < bm.trackId ∨ dstT = subT then continue
    let start := if dstT = bm.trackId then bm.position + 1 else 0
    let mut pos := start
    let n0 := ((s.track? dstT).map (·.length)).getD 0
    for _ in List.range (n0 + 1) do
      let cur := ((s.track? dstT).map (·.length)).getD 0
      if pos < cur then
        let (len, _) ← findMatchLength s mm subT 0 dstT pos false
        if len = bm.subLength then
          let (s', m') := replaceWithSub s mm subId dstT pos len
          s := s'
          mm := m'
        pos := pos + 1
  pure (s, mm)

/-- the local `loop_length` of `apply_match` after the cap (repair of D2): a fold that would need a
loop count above `max_loop_count` is shortened to `max_fold` whole repetitions (count
`max_loop_count`, no break point); the remaining repetitions stay in the track -/
def capLoopLength (length loopLength : Nat) : Nat :=
  if loopLength / length > maxFold ∨ (loopLength / length = maxFold ∧ loopLength % length ≠ 0) then maxFold * length
  else loopLength

/-- `apply_match` -/
def applyMatch (song : Song) (m : SAMap) (bm : Match) (subId : Int) : Except OErr (Song × SAMap × Int) := do
  let src ← match song.track? bm.trackId with | some s => pure s | none => throw OErr.missingTrack
  if bm.loopScore < bm.subScore then
    let subT := trackIdOfParam subId
    let old := (song.track? subT).getD []
    let s1 := setTrack song subT (old ++ (src.drop bm.position).take bm.subLength)
    let (s2, m2) := replaceWithSub s1 m subId bm.trackId bm.position bm.subLength
    let (s3, m3) ← findSubroutines s2 m2 bm subId
    pure (s3, m3, wrap16 (subId + 1))
  else
    let position := bm.position
    let length := bm.loopPosition - bm.position
    let loopLength := capLoopLength length bm.loopLength
    let repeats0 := loopLength / length + 1
    let breakPoint := loopLength % length
    let repeats := if breakPoint ≠ 0 then repeats0 + 1 else repeats0
    let evs := src.take bm.loopPosition ++ src.drop (bm.loopPosition + loopLength)
    let ins (l : List Event) (p : Nat) (e : Event) : List Event := l.take p ++ [e] ++ l.drop p
    let evs := ins evs (position + length) { type := ev_LOOP_END, param := wrap16 repeats, on := 0, off := 0 }
    let evs := if breakPoint ≠ 0 then ins evs (position + breakPoint) { type := ev_LOOP_BREAK, param := 0, on := 0, off := 0 } else evs
    let evs := ins evs position { type := ev_LOOP_START, param := 0, on := 0, off := 0 }
    pure (setTrack song bm.trackId evs, m, subId)

/-- `find_best_match` (including the `apply_match` call) -/
def findBestMatch (song : Song) (m : SAMap) (subId : Int) : Except OErr (Song × Match × Int) := do
  let mut best : Match := {}
  for (srcT, src) in song.tracks do
    for srcPos in List.range src.length do
      let mt ← findMatch song m srcT srcPos
      if mt.bestScore > best.bestScore then best := mt
  if best.bestScore ≠ 0 then
    let (s', _, subId') ← applyMatch song m best subId
    pure (s', best, subId')
  else pure (song, best, subId)

/-- initial `sub_id` chosen by the constructor -/
def initialSubId (song : Song) : Int :=
  match song.tracks.getLast? with
  | some (id, _) => if (id : Int) ≥ Tables.opt_sub_id then wrap16 ((id : Int) + 1) else Tables.opt_sub_id
  | none => Tables.opt_sub_id

structure OptResult where
  song : Song
  passes : List Match
  /-- `false`: the `Song_Validator` run after the last pass threw (the song is left as that pass
  produced it) -/
  validated : Bool
  deriving Repr

/-- `Optimizer::optimize`: passes until the best score is not above `minScore`; `valid` stands
for the `Song_Validator` run after every pass (`false` = it threw) -/
def optimize (valid : Song → Bool) (minScore : Int) : Nat → Song → Int → List Match → Except OErr OptResult
  | 0, _, _, _ => .error .fuel
  | fuel + 1, song, subId, acc => do
    let m ← analyzeStack song
    let (s', best, subId') ← findBestMatch song m subId
    if !valid s' then pure { song := s', passes := acc ++ [best], validated := false }
    else if best.bestScore > minScore then optimize valid minScore fuel s' subId' (acc ++ [best])
    else pure { song := s', passes := acc ++ [best], validated := true }

end Ctrmml.Opt
