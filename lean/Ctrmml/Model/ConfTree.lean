/-
  The public data of `class Conf` (conf.h): a key and a vector of subkeys.  Shared by the
  model (Model/Conf.lean) and the spec (Spec/ConfRender.lean) — it is the interface type a
  client of `Conf::from_string` sees, nothing else is shared.

  A `std::string` is modelled as `List Char`, one `Char` per C `char` (the driver maps byte
  `b` to `Char.ofNat b`).
-/
namespace Ctrmml

inductive Conf where
  | mk (key : List Char) (subkeys : List Conf)
  deriving Repr, Inhabited

namespace Conf
def key : Conf → List Char | mk k _ => k
def subkeys : Conf → List Conf | mk _ s => s
end Conf

end Ctrmml
