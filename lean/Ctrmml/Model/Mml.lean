/-
  class MML_Input of /repo/src/mml_input.cpp + mml_input.h on top of Line_Input (Model/Lexer)
  and Track (Model/TrackBuilder); the parts of Song (song.cpp) the reader touches
  (`make_track`, `register_platform_command`, and the tag entry points as a recorded call list —
  C18 models what the tag functions do with their argument).   Shared by C05, C06, C17.

  One Lean definition per C++ function, code as it is.  Conventions:

  * the parser state `MmlState` = the members of `MML_Input`/`Line_Input` + the `Song`;
    `track` (a `Track*` into the song's map) is `trackId`, read/written through `getTrack`/`setTrack`.
  * `P α = MmlState → Res α` where `Res` is `ok a s | err e s`: an error KEEPS the state at the
    throw (events already added stay in the song, as they do in the C++ object).
  * `parse_error(msg)` = `Err.input msg (get_reference())` with the column at the time of the call.
  * `std::invalid_argument` from `get_num` is the `none` result of `LineBuffer.getNum`; the three
    `try/catch` wrappers (`read_duration`, `read_parameter`, `expect_parameter`) are matches on it.
  * exceptions that are NOT `InputError` and are not caught inside `parse_line` escape as
    `Err.foreign`; undefined-behaviour sites are `Err.foreign "ub:…"`.  After the repairs
    (`*` without a number: fix 57aa26b; `~` not followed by a note letter: fix 3eaf999 — before
    them `std::invalid_argument` escaped, `get_key_signature` shifted by a negative amount and
    `strtol` was started beyond the terminating NUL; numbers near `INT_MAX`/`INT_MIN`: fixes
    a16b488, a22a11c — before them `duration += dot`, `expect_parameter() - 1` (`o`),
    `-read_parameter(1)` (`(`), `note + octave*12` and `octave ± 1` were signed `int` overflow)
    no undefined-behaviour site of the reader is reachable from text any more: the arithmetic
    is done in `long long` / `unsigned` and narrowed (list below); `Track.applyOp` still reports
    `ub:signed-overflow` for `note += drum_mode`, which `read_note`'s values (−1..12) cannot reach.
    (`keySigOf` keeps the general shape of `get_key_signature`'s failure modes; `read_note` is
    only called with a letter `a`..`h`, for which they cannot occur — `Proofs/Mml`.)
  * loops: `parse_mml_track` runs on explicit fuel `buf.length + 2 − column` (every iteration
    consumes at least one column; running out is reported as `Err.foreign "MODEL:fuel"` and never
    happens — see `Proofs/Mml`); the character scans (`conditional_block_begin/end`, `'…'`,
    `_{…}`, tag key, dots) are structural recursions over the rest of the line.

  Narrowings made explicit: `track_list.push_back(int)` → `uint16_t` (`wrapU16`);
  `read_duration()`: `long long duration` → `unsigned` return (`wrapU32`; the value is below
  2^32 anyway: at most twice the parsed `int`) → `uint16_t` at every `Track` call (`UInt16.ofNat`);
  `o`: `(long long)expect_parameter() - 1` → `set_octave(int)` (`wrapS32`);
  `(`: `-(long long)read_parameter(1)` → `int16_t` event parameter (`wrapS16` in `addEvent`);
  `expect_parameter()` (`int`) → `uint16_t` for `Q q C D`, → `int16_t` for `s`, events and echo;
  `int8_t val = c - 'a'` (`wrapS8`); `char c = get()` in `platform_exclusive`;
  `tag_key.push_back(std::tolower(c))`.
-/
import Ctrmml.Model.TrackBuilder
namespace Ctrmml.Mml
open Ctrmml.Tables Ctrmml.Lexer Ctrmml.TrackBuilder

/-- which `Song` tag entry point a `#`/`@` line was delegated to -/
inductive TagFn | setTag | addTagList | setPlatform
  deriving DecidableEq, Repr

structure TagCall where
  fn : TagFn
  key : List Nat
  value : List Nat
  deriving DecidableEq, Repr

/-- the part of `Song` the MML reader uses -/
structure SongB where
  /-- `Track_Map` (`std::map<uint16_t,Track>`), ascending keys -/
  tracks : List (Nat × Track) := []
  /-- every call of `set_tag` / `add_tag_list` / `set_platform`, in order (stub for C18) -/
  tagCalls : List TagCall := []
  ppqn : Nat := songDefaultPpqn
  platformCommandIndex : Int := songPlatformCommandIndex0
  deriving Repr

def insertTrack (id : Nat) (t : Track) : List (Nat × Track) → List (Nat × Track)
  | [] => [(id, t)]
  | (k, v) :: rest =>
    if id < k then (id, t) :: (k, v) :: rest
    else if id = k then (k, t) :: rest
    else (k, v) :: insertTrack id t rest

/-- `Song::make_track(id)`: creates `Track(ppqn)` when absent -/
def SongB.makeTrack (s : SongB) (id : Nat) : SongB :=
  match s.tracks.lookup id with
  | some _ => s
  | none => { s with tracks := insertTrack id (Track.new s.ppqn) s.tracks }

/-- the stub interface for the tag functions -/
def SongB.addTag (s : SongB) (fn : TagFn) (key value : List Nat) : SongB :=
  { s with tagCalls := s.tagCalls ++ [{ fn := fn, key := key, value := value }] }

def decimalBytes (v : Int) : List Nat := strBytes (toString v)

/-- `Song::register_platform_command(-1, value)` -/
def SongB.registerPlatformCommand (s : SongB) (value : List Nat) : Int × SongB :=
  let param := s.platformCommandIndex
  let s := { s with platformCommandIndex := wrapS16 (param + 1) }
  (param, s.addTag .addTagList (strBytes "cmd_" ++ decimalBytes param) value)

inductive LastCmd | null | parseMml | parseTag
  deriving DecidableEq, Repr

structure MmlState where
  inp : LineInput := { lb := { buf := [], column := 0 }, line := 0 }
  song : SongB := {}
  tagKey : List Nat := []
  trackId : Nat := 0
  trackOffset : Nat := 0
  trackList : List Nat := []
  lastCmd : LastCmd := .null
  conditionalBlock : Bool := false
  /-- `parse_warning` calls (they only print to stderr) -/
  warnings : List (String × Ref) := []
  deriving Repr

inductive Res (α : Type) where
  | ok (a : α) (s : MmlState)
  | err (e : Err) (s : MmlState)

def P (α : Type) := MmlState → Res α

@[inline] def P.pure {α} (a : α) : P α := fun s => .ok a s
@[inline] def P.bind {α β} (m : P α) (f : α → P β) : P β := fun s =>
  match m s with
  | .ok a s' => f a s'
  | .err e s' => .err e s'
instance : Monad P where
  pure := P.pure
  bind := P.bind

def fail {α} (e : Err) : P α := fun s => .err e s
def getS : P MmlState := fun s => .ok s s
def modifyS (f : MmlState → MmlState) : P Unit := fun s => .ok () (f s)

/-- `Input::parse_error(msg)` -/
def parseError {α} (msg : String) : P α := fun s => .err (.input msg s.inp.getReference) s

/-- `Input::parse_warning(msg)` -/
def parseWarning (msg : String) : P Unit :=
  modifyS fun s => { s with warnings := s.warnings ++ [(msg, s.inp.getReference)] }

def setLb (s : MmlState) (b : LineBuffer) : MmlState := { s with inp := { s.inp with lb := b } }

def getC : P Int := fun s => let (c, b) := s.inp.lb.get; .ok c (setLb s b)
def getTokenC : P Int := fun s => let (c, b) := s.inp.lb.getToken; .ok c (setLb s b)
def ungetC (c : Int := 0) : P Unit := fun s =>
  match s.inp.lb.unget c with
  | .ok b => .ok () (setLb s b)
  | .error e => .err e s
/-- `get_num()`: `none` = `std::invalid_argument` (to be caught or to escape at the call site) -/
def getNumC : P (Option Int) := fun s =>
  match s.inp.lb.getNum with
  | .ok (r, b) => .ok r (setLb s b)
  | .error e => .err e s
def tellC : P Nat := fun s => .ok s.inp.lb.tell s
def seekC (pos : Nat) : P Unit := fun s => .ok () (setLb s (s.inp.lb.seek pos))

/-- `*track` -/
def getTrack (s : MmlState) : Track := (s.song.tracks.lookup s.trackId).getD (Track.new s.song.ppqn)
def setTrack (s : MmlState) (t : Track) : MmlState :=
  { s with song := { s.song with tracks := insertTrack s.trackId t s.song.tracks } }
def track : P Track := fun s => .ok (getTrack s) s
def modifyTrack (f : Track → Track) : P Unit := fun s => .ok () (setTrack s (f (getTrack s)))

/-- one `Track` call through `Track.applyOp` without its report (UB → `Err.foreign`) -/
def trackOp (op : Track.Op) : P Unit := fun s =>
  match (getTrack s).applyOp op with
  | .ok (t, _) => .ok () (setTrack s t)
  | .error e => .err e s

def u16 (v : Int) : UInt16 := UInt16.ofNat (wrapU16 v)

/-! ### MML read helpers -/

def countDots : List Nat → Nat
  | [] => 0
  | c :: cs => if c = 46 then countDots cs + 1 else 0

/-- the `while(1)` loop of `read_duration` over the `k` dots that follow; `duration` and `dot`
are `long long` (fix a16b488): `duration += dot` stays below twice the parsed `int` -/
def dotsLoop : Nat → Int → Int → P Int
  | 0, dur, _ => do
    let _ ← getC
    ungetC
    pure dur
  | k + 1, dur, dot => do
    let _ ← getC
    dotsLoop k (dur + dot) (dot / 2)

/-- `MML_Input::read_duration()`: `return (unsigned)duration` -/
def readDuration : P Nat := do
  let c ← getC
  let d0 : Option Int ←
    if c == 58 then getNumC
    else do
      ungetC c
      match ← getNumC with
      | none => pure none
      | some div =>
        if div < 1 then parseError "illegal duration"
        else pure (some (((← track).getMeasureLen.toNat : Int) / div))
  let duration : Int ← match d0 with
    | some d => if d < 0 then parseError "illegal duration" else pure d
    | none => pure (((← track).getDuration.toNat : Nat) : Int)
  let s ← getS
  let k := countDots (s.inp.lb.buf.drop s.inp.lb.column)
  let r ← dotsLoop k duration (duration / 2)
  pure (wrapU32 r)

/-- `MML_Input::read_parameter(default)` -/
def readParameter (dflt : Int) : P Int := do
  match ← getNumC with
  | some v => pure v
  | none => pure dflt

/-- `MML_Input::expect_parameter()` -/
def expectParameter : P Int := do
  match ← getNumC with
  | some v => pure v
  | none => parseError "missing parameter"

/-- `MML_Input::expect_signed()` -/
def expectSigned : P Int := expectParameter

/-- `Track::get_key_signature` called from `read_note`: nothing catches its exceptions -/
def keySigOf (c : Int) : P Int := do
  match (← track).getKeySignature c with
  | .ok v => pure v
  | .invalidArgument _ => fail (.foreign "invalid_argument")
  | .ubShift => fail (.foreign "ub:shift-negative")

/-- `MML_Input::read_note(c)` -/
def readNote (c : Int) : P Int := do
  let val0 := wrapS8 (c - 97)
  let (val, sig) ←
    if !(← track).inDrumMode then do
      let v := noteValues[(val0 % 8).toNat]?.getD 0
      let sg ← keySigOf (schar (ucharOf c))
      pure (v, sg)
    else pure (val0, (0 : Int))
  let c2 ← getC
  let sig ←
    if c2 == 43 then pure (1 : Int)
    else if c2 == 45 then pure (-1 : Int)
    else if c2 == 61 then pure (0 : Int)
    else do ungetC c2; pure sig
  pure (val + sig)

/-- bytes up to (not including) the first byte that is NUL or satisfies `stop`; the number of
`get()` calls made (the stopping one included); the stopping character (0 at the end) -/
def scanUntil (stop : Int → Bool) : List Nat → List Nat × Nat × Int
  | [] => ([], 1, 0)
  | c :: cs =>
    if schar c == 0 || stop (schar c) then ([], 1, schar c)
    else
      let (l, n, e) := scanUntil stop cs
      (c :: l, n + 1, e)

/-- run `get()` until it returns 0 or a character satisfying `stop` -/
def scanC (stop : Int → Bool) : P (List Nat × Int) := fun s =>
  let b := s.inp.lb
  let (l, n, e) := scanUntil stop (b.buf.drop b.column)
  .ok (l, e) (setLb s { b with column := b.column + n })

/-- `MML_Input::platform_exclusive()` -/
def platformExclusive : P Unit := do
  let (str, c) ← scanC (· == 39)
  if c != 39 then parseError "unterminated platform-exclusive message"
  let s ← getS
  let (param, song) := s.song.registerPlatformCommand str
  modifyS fun s => { s with song := song }
  trackOp (.addEvent ev_PLATFORM param 0 0)

/-- `MML_Input::mml_slur()` -/
def mmlSlur : P Unit := do
  let (t, r) := (← track).addSlur
  modifyTrack fun _ => t
  if r != 0 then parseWarning "slur may not affect articulation of previous note"

/-- `MML_Input::mml_reverse_rest(duration)` -/
def mmlReverseRest (duration : Nat) : P Unit := do
  let (t, r) := (← track).reverseRest (UInt16.ofNat duration)
  modifyTrack fun _ => t
  match r with
  | .done => pure ()
  | .domainError => parseError "unable to backtrack"
  | .lengthError => parseError "previous note is not long enough"

/-- `MML_Input::mml_grace()` -/
def mmlGrace : P Unit := do
  let c ← getTokenC
  if c < 97 || c > 104 then parseError "expected a note after '~'"
  let c ← readNote c
  let duration ← readDuration
  mmlReverseRest duration
  trackOp (.addNote c (UInt16.ofNat duration))

/-- `MML_Input::mml_transpose()` -/
def mmlTranspose : P Unit := do
  let c ← getTokenC
  if c == 95 then do
    let v ← expectSigned
    trackOp (.addEvent ev_TRANSPOSE_REL v 0 0)
  else if c == 123 then do
    let (raw, _) ← scanC (· == 125)
    let str := raw.filter fun b => !isSpace (schar b)
    match (← track).setKeySignature str with
    | .ok t => modifyTrack fun _ => t
    | .invalidArgument t => do
      modifyTrack fun _ => t
      parseError "invalid key signature"
    | .ubShift => fail (.foreign "ub:shift-negative")
  else do
    ungetC
    let v ← expectSigned
    trackOp (.addEvent ev_TRANSPOSE v 0 0)

/-- `MML_Input::mml_echo()` -/
def mmlEcho : P Unit := do
  let c ← getTokenC
  if c == 61 then do
    let delay0 := wrapS16 (← expectParameter)
    let delay ←
      if delay0 < 0 then pure (wrapS16 (-delay0))
      else do
        trackOp .clearEchoBuffer
        pure delay0
    if (← getTokenC) != 44 then parseError "expected ','"
    let volume := wrapU16 (← expectParameter)
    trackOp (.setEcho (u16 delay) volume)
  else do
    ungetC
    let d ← readDuration
    trackOp (.addEcho (UInt16.ofNat d))

/-- `MML_Input::event_relative(type, subtype)`; `subtype = none` is `Event::INVALID` -/
def eventRelative (type : Nat) (subtype : Option Nat) : P Unit := do
  let c ← getTokenC
  let ty : Option Nat := if c == 43 || c == 45 then subtype else some type
  if c != 43 then ungetC
  match ty with
  | none => parseError "parameter must be relative (+ or - prefix)"
  | some ty => do
    let v ← expectParameter
    trackOp (.addEvent ty v 0 0)

/-! ### command parsers: `true` = not my command (the character is put back) -/

/-- `MML_Input::mml_basic()` -/
def mmlBasic : P Bool := do
  let c ← getTokenC
  if 97 ≤ c && c ≤ 104 then do
    let n ← readNote c
    let d ← readDuration
    trackOp (.addNote n (UInt16.ofNat d))
    pure false
  else if c == 114 then do
    trackOp (.addRest (UInt16.ofNat (← readDuration))); pure false
  else if c == 94 then do
    trackOp (.addTie (UInt16.ofNat (← readDuration))); pure false
  else if c == 38 then do
    mmlSlur; pure false
  else if c == 111 then do
    -- `set_octave((long long)expect_parameter() - 1)`: `long long` → `int` parameter
    trackOp (.setOctave (wrapS32 ((← expectParameter) - 1))); pure false
  else if c == 60 then do
    trackOp (.changeOctave (-1)); pure false
  else if c == 62 then do
    trackOp (.changeOctave 1); pure false
  else if c == 108 then do
    trackOp (.setDuration (UInt16.ofNat (← readDuration))); pure false
  else if c == 81 then do
    trackOp (.setQuantize (u16 (← expectParameter)) (UInt16.ofNat trackSetQuantizeDefaultParts)); pure false
  else if c == 113 then do
    trackOp (.setEarlyRelease (u16 (← expectParameter))); pure false
  else if c == 82 then do
    mmlReverseRest (← readDuration); pure false
  else if c == 126 then do
    mmlGrace; pure false
  else if c == 67 then do
    trackOp (.setMeasureLen (u16 (← expectParameter))); pure false
  else if c == 115 then do
    trackOp (.setShuffle (← expectSigned)); pure false
  else if c == 92 then do
    mmlEcho; pure false
  else do
    ungetC c
    pure true

/-- `MML_Input::mml_control()` -/
def mmlControl : P Bool := do
  let c ← getTokenC
  if c == 91 then do
    trackOp (.addEvent ev_LOOP_START 0 0 0); pure false
  else if c == 47 then do
    trackOp (.addEvent ev_LOOP_BREAK 0 0 0); pure false
  else if c == 93 then do
    trackOp (.addEvent ev_LOOP_END (← readParameter mmlDefaultLoopCount) 0 0); pure false
  else if c == 76 then do
    trackOp (.addEvent ev_SEGNO 0 0 0); pure false
  else if c == 42 then do
    trackOp (.addEvent ev_JUMP (← expectParameter) 0 0); pure false
  else if c == 39 then do
    platformExclusive; pure false
  else do
    ungetC c
    pure true

/-- `MML_Input::mml_envelope()` -/
def mmlEnvelope : P Bool := do
  let c ← getTokenC
  if c == 64 then do
    trackOp (.addEvent ev_INS (← expectParameter) 0 0); pure false
  else if c == 95 then do
    mmlTranspose; pure false
  else if c == 107 then do
    mmlTranspose; pure false
  else if c == 75 then do
    trackOp (.addEvent ev_DETUNE (← expectSigned) 0 0); pure false
  else if c == 118 then do
    trackOp (.addEvent ev_VOL (← expectParameter) 0 0); pure false
  else if c == 40 then do
    -- `-(long long)read_parameter(1)` → `int16_t param` (narrowed by `addEvent`)
    trackOp (.addEvent ev_VOL_REL (-(← readParameter mmlDefaultVolStep)) 0 0); pure false
  else if c == 41 then do
    trackOp (.addEvent ev_VOL_REL (← readParameter mmlDefaultVolStep) 0 0); pure false
  else if c == 86 then do
    eventRelative ev_VOL_FINE (some ev_VOL_FINE_REL); pure false
  else if c == 112 then do
    trackOp (.addEvent ev_PAN (← expectSigned) 0 0); pure false
  else if c == 69 then do
    trackOp (.addEvent ev_VOL_ENVELOPE (← expectParameter) 0 0); pure false
  else if c == 77 then do
    trackOp (.addEvent ev_PITCH_ENVELOPE (← expectParameter) 0 0); pure false
  else if c == 80 then do
    trackOp (.addEvent ev_PAN_ENVELOPE (← expectParameter) 0 0); pure false
  else if c == 71 then do
    trackOp (.addEvent ev_PORTAMENTO (← expectParameter) 0 0); pure false
  else if c == 68 then do
    trackOp (.setDrumMode (u16 (← expectParameter))); pure false
  else if c == 116 then do
    trackOp (.addEvent ev_TEMPO_BPM (← expectParameter) 0 0); pure false
  else if c == 84 then do
    trackOp (.addEvent ev_TEMPO (← expectParameter) 0 0); pure false
  else do
    ungetC c
    pure true

/-- run `get_token()` until it returns 0 or a character satisfying `stop` (blanks never stop,
so this is the same scan as `scanC`) -/
def scanTokenC (stop : Int → Bool) : P Int := do
  let (_, c) ← scanC stop
  pure c

/-- `MML_Input::conditional_block_begin()` -/
def conditionalBlockBegin : P Unit := do
  let s ← getS
  modifyS fun s => { s with conditionalBlock := true }
  let rec go : Nat → P Unit
    | 0 => pure ()
    | k + 1 => do
      let c ← scanTokenC (fun c => c == 47 || c == 59)
      if c != 47 then parseError "unterminated conditonal block"
      go k
  go s.trackOffset

/-- `MML_Input::conditional_block_end(c)` -/
def conditionalBlockEnd (c : Int) : P Unit := do
  let c ← if c != 0 && c != 125 && c != 59 then scanTokenC (fun c => c == 125 || c == 59) else pure c
  if c != 125 then parseError "unterminated conditional block"
  modifyS fun s => { s with conditionalBlock := false }

/-- `MML_Input::parse_mml_track()` on explicit fuel -/
def parseMmlTrackF : Nat → P Unit
  | 0 => fail (.foreign "MODEL:fuel")
  | fuel + 1 => do
    let c ← getTokenC
    let s ← getS
    if c == 124 then parseMmlTrackF fuel
    else if c == 59 then pure ()
    else if (c == 47 || c == 125) && s.conditionalBlock then do
      conditionalBlockEnd c
      parseMmlTrackF fuel
    else if c == 123 && !s.conditionalBlock then do
      conditionalBlockBegin
      parseMmlTrackF fuel
    else if c == 37 then do
      -- `unget(c); set_reference(get_reference()); get();` before the event (fix 1763cac)
      ungetC c
      let s ← getS
      trackOp (.setReference (some s.inp.getReference))
      let _ ← getC
      trackOp (.addEvent ev_PLATFORM (← expectParameter) 0 0)
      parseMmlTrackF fuel
    else if c == 0 then pure ()
    else do
      ungetC c
      let s ← getS
      trackOp (.setReference (some s.inp.getReference))
      if (← mmlBasic) == false then parseMmlTrackF fuel
      else if (← mmlControl) == false then parseMmlTrackF fuel
      else if (← mmlEnvelope) == false then parseMmlTrackF fuel
      else parseError "unknown MML command"

def trackFuel (s : MmlState) : Nat := s.inp.lb.buf.length + 2 - s.inp.lb.column

/-- `MML_Input::parse_mml_track()` -/
def parseMmlTrack : P Unit := do
  let s ← getS
  parseMmlTrackF (trackFuel s)

/-- the body of the `for` loop of `parse_mml` for the tracks `l`, the first having index `i` -/
def parseMmlLoop (col : Nat) : Nat → List Nat → P Unit
  | _, [] => pure ()
  | i, id :: rest => do
    seekC col
    modifyS fun s => { s with trackId := id, trackOffset := i % 65536, song := s.song.makeTrack id, conditionalBlock := false }
    parseMmlTrack
    if (← getS).conditionalBlock then parseError "unterminated conditional block"
    parseMmlLoop col (i + 1) rest

/-- `MML_Input::parse_mml()` -/
def parseMml : P Unit := do
  let col ← tellC
  let s ← getS
  parseMmlLoop col 0 s.trackList

/-- `iequal(tag_key, "#platform")` -/
def isPlatformKey (k : List Nat) : Bool :=
  k.map (fun b => toLower (schar b)) == (strBytes "#platform").map (fun (b : Nat) => (b : Int))

/-- `MML_Input::parse_tag()` -/
def parseTag : P Unit := do
  let s ← getS
  let line ← match s.inp.lb.getLine with
    | .ok l => pure l
    | .error e => fail e
  if s.tagKey.head? == some 35 then do
    if isPlatformKey s.tagKey then modifyS fun s => { s with song := s.song.addTag .setPlatform s.tagKey line }
    else modifyS fun s => { s with song := s.song.addTag .setTag s.tagKey line }
    modifyS fun s => { s with lastCmd := .null }
  else
    modifyS fun s => { s with song := s.song.addTag .addTagList s.tagKey line }

/-- `MML_Input::get_track_id()`: −1 = no match; a `*` without a number is an input error
(since fix 57aa26b; before, `std::invalid_argument` escaped from `parse_line`: D12) -/
def getTrackId : P Int := do
  let c ← getC
  if 65 ≤ c && c ≤ 90 then pure (c - 65)
  else if isDigit c then pure (c - 48 + mmlDigitTrackBase)
  else if c == 42 then do
    match ← getNumC with
    | some v => pure v
    | none => parseError "expected track number"
  else do
    ungetC c
    pure (-1)

/-- the `do … while(c != -1)` loop reading the track list; the fuel is the line length -/
def trackListLoop : Nat → Int → List Nat → P (List Nat)
  | 0, _, _ => fail (.foreign "MODEL:fuel")
  | fuel + 1, c, acc => do
    let acc := acc ++ [wrapU16 c]
    let c' ← getTrackId
    if c' != -1 then trackListLoop fuel c' acc else pure acc

/-- the `do … while` loop reading the tag key: returns the key and the stopping character -/
def tagKeyScan : Int → List Nat → List Nat × Nat × Int
  | c, [] => ([ucharOf (toLower c)], 1, 0)
  | c, d :: ds =>
    let c' := schar d
    if c' != 0 && !isSpace c' then
      let (k, n, e) := tagKeyScan c' ds
      (ucharOf (toLower c) :: k, n + 1, e)
    else ([ucharOf (toLower c)], 1, c')

def runLastCmd : P Unit := do
  match (← getS).lastCmd with
  | .null => pure ()
  | .parseMml => parseMml
  | .parseTag => parseTag

/-- `MML_Input::parse_line()` -/
def parseLine : P Unit := do
  let c ← getTrackId
  let continue? : Bool ←
    if c != -1 then do
      let s ← getS
      let l ← trackListLoop (s.inp.lb.buf.length + 2) c []
      modifyS fun s => { s with trackList := l, lastCmd := .parseMml }
      pure true
    else do
      let c ← getC
      if c == 35 || c == 64 then do
        let s ← getS
        let b := s.inp.lb
        let (key, n, e) := tagKeyScan c (b.buf.drop b.column)
        modifyS fun s => { setLb s { b with column := b.column + n } with tagKey := key, lastCmd := .parseTag }
        ungetC e
        pure true
      else if c == 59 then pure false
      else if !isBlank c then do
        if c != 0 then parseError "Expected track or tag identifier"
        pure false
      else do
        ungetC c
        pure true
  if continue? then do
    let c ← getC
    if isBlank c then do
      let c ← getTokenC
      ungetC c
      if c == 0 then pure ()
      else runLastCmd

/-- `Line_Input::read_line(text, line_number)` -/
def readLine (text : List Nat) (lineNumber : Nat) : P Unit := do
  modifyS fun s => { s with inp := s.inp.readLine text lineNumber }
  parseLine

/-- `MML_Input::MML_Input(song)` on a fresh `Song` -/
def MmlState.init : MmlState := {}

/-- feed the lines of a file (`Line_Input::parse_file`): stops at the first exception -/
def readLines : Nat → List (List Nat) → P Unit
  | _, [] => pure ()
  | n, l :: ls => do
    readLine l n
    readLines (n + 1) ls

end Ctrmml.Mml
