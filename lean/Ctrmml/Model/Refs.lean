/-
  References (`InputRef`: file, line, column) through the player, the validators and the MDSDRV
  converter — property C17.   Sources: src/input.cpp (`InputError::InputError`), src/player.cpp
  (`Basic_Player::step_event`, `error`, `Track_Validator`, `Song_Validator`),
  src/platform/mdsdrv.cpp (`MDSDRV_Track_Writer::event_hook`, `check_instrument`,
  `MDSDRV_Converter` constructor, `MDSDRV_Data::read_song` / `add_instrument` — header only).

  Everything here is a WRAPPER around the merged ref-less models: the control flow is decided by
  `Player.step` / `Player.stepTrace` / `Mds.hook` exactly as before; this file only adds
    * `Basic_Player::reference`: one `Option Ref` next to the `PState`.  `step_event` does
      `reference = event.reference` after every fetch; the synthetic `END` of a read past the end
      is built with the *current* `reference`, i.e. it inherits the previous one (`fetchRef`);
      on the final-pass `LOOP_BREAK` the substituted `LOOP_END` event does not touch `reference`;
      when an `END` pops a return frame, `reference` becomes that of the calling `JUMP` event
      (`reference = track->get_event(position - 1).reference`, fix 152f2d8 — before it the
      reference stayed inside the subroutine, so an error at the end of the calling track pointed
      at the subroutine's last command: `returnRef`).
    * `Basic_Player::error(msg)` = `InputError(reference, msg)`: every error of the ref-less models
      is paired with the reference at that moment and with its text (`Tables.diag*`, regenerated).
    * the one place where an inner writer's reference is observable: a drum-mode `NOTE` calls
      `get_subroutine(param,1,0)` from the hook of a NOTE, which is not inside the
      `catch(std::exception&)` of the `JUMP` case, so an `InputError` of the inner writer travels
      up unchanged.  Everything thrown inside the hook of a `JUMP` event is caught in
      `step_event` and re-thrown as "jump destination doesn't exist" with the JUMP's reference.
  `erase`-lemmas (Proofs/Refs) state that dropping the references gives back the merged models.

  `what()`: `snprintf(buf,200,"%s:%d:%d: %s", file, line+1, column+1, msg)`; with a null
  reference `strncpy(buf,msg,200)` (a message of 200 bytes or more would leave `buf` without a
  terminator: modelled as the first 200 bytes; no message the code produces is that long unless
  a `%s` argument is).

  `dataInfoOf`: only the part of `MDSDRV_Data::read_song` that decides whether an instrument id
  exists and which type it has (`sscanf(key,"@%hu")`, first token of the tag, the `fm` parameter
  count); the instrument *data* is C11's business.  `2op`, `pcm`, pitch envelopes (`@m…`) and
  platform commands that exist are answered `unmodelled:…` by the pipeline.

  Narrowings: `%hu` → `uint16_t` (mod 65536); `track_id + 'A'` printed with `%c` (mod 256).
-/
import Ctrmml.Model.MmlFix
import Ctrmml.Model.MdsConv
import Ctrmml.Model.Tags
namespace Ctrmml.Refs
open Ctrmml Ctrmml.Lexer Ctrmml.TrackBuilder Ctrmml.Player Ctrmml.Mds Ctrmml.Tables

/-! ### songs whose events carry their reference -/

structure RSong where
  tracks : List (Nat × List BEvent)
  deriving Repr

def eraseTrack (evs : List BEvent) : List Event := evs.map BEvent.toEvent

/-- forget the references: the song the merged models run on -/
def RSong.erase (rs : RSong) : Song := { tracks := rs.tracks.map fun p => (p.1, eraseTrack p.2) }

def RSong.track? (rs : RSong) (id : Nat) : Option (List BEvent) := rs.tracks.lookup id

def codeR (rs : RSong) (root : List BEvent) : TRef → List BEvent
  | .root => root
  | .id n => (rs.track? n).getD []

/-- `reference` after the fetch of `step_event` at `(track, position)`: the fetched event's
reference, or the unchanged one when the read runs past the end (synthetic `END`) -/
def fetchRef (rs : RSong) (root : List BEvent) (c : Core) (prev : Option Ref) : Option Ref :=
  match (codeR rs root c.track)[c.position]? with
  | some e => e.ref
  | none => prev

/-- does this `step_event` pop a return frame (`END` with a non-empty stack)? -/
def isReturn (rs : RSong) (root : List BEvent) (c : Core) : Bool :=
  !c.stack.isEmpty && (fetch (eraseTrack (codeR rs root c.track)) c.position).kind == .fin

/-- `reference` after a return: the calling `JUMP` event's (`get_event(position - 1)`).  A return
frame always records the position behind the `JUMP` that pushed it, so the event exists; were it
missing `vector::at` would throw — modelled as "no reference". -/
def returnRef (rs : RSong) (root : List BEvent) (c' : Core) (_r : Option Ref) : Option Ref :=
  match (codeR rs root c'.track)[c'.position - 1]? with
  | some e => e.ref
  | none => none

/-- a player together with `Basic_Player::reference` -/
structure RState where
  st : PState
  ref : Option Ref
  deriving Repr

def initR : RState := { st := initState, ref := none }

/-- an `InputError` thrown by `Basic_Player::error`: reference + text; `err` is the class the
ref-less model reports -/
structure RErr where
  err : WErr
  ref : Option Ref
  msg : String
  deriving Repr

def playerMsg : PErr → String
  | .stackOverflow => diagMsgStackOverflow
  | .unterminatedLoop => diagMsgUnderflowLoop
  | .unexpectedLoopEnd => diagMsgUnderflowJump
  | .drumNoNote => diagMsgUnderflowDrum
  | .invalidLoopCount => diagMsgInvalidLoopCount
  | .jumpMissing => diagMsgJumpMissing
  | .drumTrackMissing => "MODEL:drumTrackMissing"
  | .platformMissing => "MODEL:platformMissing"
  | .impossible => "MODEL:impossible"
  | .fuel => "MODEL:fuel"

/-- `Basic_Player::step_event` with the reference -/
def stepR (rs : RSong) (root : List BEvent) (loopHook : Bool) (s : RState) :
    Except (PErr × Option Ref) (RState × Emit) :=
  let r := fetchRef rs root s.st.core s.ref
  match step rs.erase (eraseTrack root) loopHook s.st with
  | .error e => .error (e, r)
  | .ok (st', em) =>
    .ok ({ st := st', ref := if isReturn rs root s.st.core then returnRef rs root st'.core r else r }, em)

/-- `Track_Validator`: `while(is_enabled()) step_event();` -/
def runValidatorR (rs : RSong) (root : List BEvent) : Nat → RState → Except (PErr × Option Ref) RState
  | 0, s => .error (.fuel, s.ref)
  | fuel + 1, s =>
    if !s.st.acc.enabled then .ok s else
    match stepR rs root false s with
    | .error e => .error e
    | .ok (s', _) => runValidatorR rs root fuel s'

def validatorFuel : Nat := 3000000

/-- `Song_Validator`: every track of the map in key order, each from its own start -/
def songValidatorR (rs : RSong) : List (Nat × List BEvent) → Except (PErr × Option Ref) Unit
  | [] => .ok ()
  | (_, evs) :: rest =>
    match runValidatorR rs evs validatorFuel initR with
    | .error e => .error e
    | .ok _ => songValidatorR rs rest

/-! ### message texts of the writer -/

def interleave : List String → List String → String
  | [], _ => ""
  | p :: ps, [] => p ++ String.join ps
  | p :: ps, a :: as => p ++ a ++ interleave ps as

/-- `%c` of `track_id + 'A'` -/
def trackChar (trackId : Int) : String :=
  String.singleton (Char.ofNat (((trackId + 65) % 256).toNat))

def insTypeName (d : DataInfo) (param : Int) : String :=
  match d.insType.lookup param with
  | none => ""
  | some ty0 =>
    let ty := if ty0 > mdsIns_INS_PCM then mdsIns_INS_UNDEFINED else ty0
    diagInsTypeNames[ty]?.getD ""

/-- which of the three texts `check_instrument` uses for this track -/
def insTypeFmt (trackId : Int) : List String :=
  if 0 ≤ trackId ∧ trackId ≤ 5 then diagFmtInsTypeFm
  else if 6 ≤ trackId ∧ trackId < 10 then diagFmtInsTypePsg
  else diagFmtInsTypePcm

/-- the text of an error raised by `event_hook` itself (not by an inner writer) for the event
`e` on a writer of track `trackId`; `noteParam` = the value the note-range test printed -/
def writerMsg (d : DataInfo) (w : WState) (e : Event) (x : WErr) : String :=
  match x with
  | .player p => playerMsg p
  | .noteRange =>
    -- outside drum mode `param` is the event's own (clamped at 0); the printed limit depends on the branch
    let p := if e.param < 0 then 0 else e.param
    if w.inDrum then interleave diagFmtNoteRange [toString p, toString diagDrumNoteMax]
    else interleave diagFmtNoteRange [toString p, toString ((mds_SLR - mds_NOTE : Nat))]
  | .drumMissing => interleave diagFmtDrumMissing [toString e.param]
  | .subMissing => interleave diagFmtSubMissing [toString e.param]
  | .platformMissing => interleave diagFmtPlatformMissing [toString e.param]
  | .platformBad => "MODEL:platform-command-text"
  | .insMissing => interleave diagFmtInsMissing [toString e.param]
  | .insType => interleave (insTypeFmt w.trackId) [toString e.param, insTypeName d e.param, trackChar w.trackId]
  | .macroMissing => interleave diagFmtMacroMissing [toString e.param]
  | .pitchMissing => interleave diagFmtPitchMissing [toString e.param]
  | .fuel => "MODEL:fuel"

/-! ### the writer with references -/

/-- is this hook call the drum-mode `NOTE` that converts a drum routine (`get_subroutine(param,1,0)`)? -/
def isDrumCall (w : WState) (it : TraceItem) : Bool :=
  !(it.insideLoop || it.insideJump) && it.ev.type == ev_NOTE && w.drumEnabled

mutual
/-- `while(writer.is_enabled()) writer.step_event();` with the writer's `reference` -/
def runWriterR (rs : RSong) (d : DataInfo) (root : List BEvent) :
    Nat → Nat → Conv → WState → RState → Except RErr (Conv × WState)
  | _, 0, _, _, s => .error { err := .fuel, ref := s.ref, msg := "MODEL:fuel" }
  | 0, _, _, _, s => .error { err := .fuel, ref := s.ref, msg := "MODEL:fuel" }
  | fuel + 1, steps + 1, c, w, s =>
    if !s.st.acc.enabled ∨ w.disabled then .ok (c, w) else
    let r := fetchRef rs root s.st.core s.ref
    let jumpErr : RErr := { err := .player .jumpMissing, ref := r, msg := playerMsg .jumpMissing }
    match stepTrace rs.erase (eraseTrack root) false s.st with
    | .error (e, h) =>
      match h with
      | some it =>
        -- the hook of a JUMP ran before the failing push
        match hook rs.erase d fuel c w it with
        | .error x => if x ≠ .fuel then .error jumpErr else .error { err := x, ref := r, msg := "MODEL:fuel" }
        | .ok _ => .error { err := .player e, ref := r, msg := playerMsg e }
      | none => .error { err := .player e, ref := r, msg := playerMsg e }
    | .ok (st', t) =>
      let s' : RState := { st := st', ref := if isReturn rs root s.st.core then returnRef rs root st'.core r else r }
      match t with
      | none => runWriterR rs d root (fuel + 1) steps c w s'
      | some none =>
        let w := flushRest w
        let zeroLoop : Bool := decide ((st'.acc.playTime : Int) = st'.acc.loopPlayTime)
        let w := if w.inLoop ∧ !zeroLoop then push w mds_JUMP 0 else push w mds_FINISH 0
        .ok (c, w)
      | some (some it) =>
        -- a drum-mode NOTE converts its routine with an inner writer whose InputError is not caught
        let inner : Except RErr Unit :=
          if isDrumCall w it then
            match getSubroutineR rs d fuel c it.ev.param true false with
            | .error x =>
              if x.err = .drumMissing then .error { err := .drumMissing, ref := r, msg := writerMsg d w it.ev .drumMissing }
              else .error x
            | .ok _ => .ok ()
          else .ok ()
        match inner with
        | .error x => .error x
        | .ok _ =>
          match hook rs.erase d fuel c w it with
          | .error x =>
            if it.ev.type = ev_JUMP ∧ x ≠ .fuel then .error jumpErr
            else .error { err := x, ref := r, msg := writerMsg d w it.ev x }
          | .ok (c', w') => runWriterR rs d root (fuel + 1) steps c' w' s'

/-- `get_subroutine(track_id, in_drum_mode, drum_mode_enabled)`; a missing track
(`std::out_of_range` from the writer's constructor) is reported without reference: the caller's
`catch` decides what becomes of it -/
def getSubroutineR (rs : RSong) (d : DataInfo) : Nat → Conv → Int → Bool → Bool → Except RErr (Conv × Int)
  | 0, _, _, _, _ => .error { err := .fuel, ref := none, msg := "MODEL:fuel" }
  | fuel + 1, c, trackId, inDrum, drumEnabled =>
    let mapped : Int := trackId * 4 + (if inDrum then 2 else 0) + (if drumEnabled then 1 else 0)
    match c.subMap.lookup mapped with
    | some id => .ok (c, id)
    | none =>
      let subId := c.subList.length
      let c1 := { c with subMap := c.subMap ++ [(mapped, subId)], subList := c.subList ++ [[]] }
      match rs.track? (trackIdOfParam trackId) with
      | none => .error { err := if inDrum then .drumMissing else .subMissing, ref := none, msg := "" }
      | some evs =>
        match runWriterR rs d evs fuel 20000000 c1
            { drumEnabled := drumEnabled, inDrum := inDrum, trackId := trackId } initR with
        | .error x => .error x
        | .ok (c2, w) => .ok ({ c2 with subList := c2.subList.set subId w.out }, subId)
end

/-- the `parse_track` loop of the `MDSDRV_Converter` constructor: tracks below 16 in key order -/
def parseTracksR (rs : RSong) (d : DataInfo) : List Nat → Conv → List (Nat × List MEv) →
    Except RErr (Conv × List (Nat × List MEv))
  | [], c, tl => .ok (c, tl)
  | id :: ids, c, tl =>
    match rs.track? id with
    | none => parseTracksR rs d ids c tl
    | some evs =>
      match runWriterR rs d evs 64 20000000 c { drumEnabled := false, inDrum := false, trackId := id } initR with
      | .error x => .error x
      | .ok (c', w) => parseTracksR rs d ids c' (tl ++ [(id, w.out)])

def channelIds (rs : RSong) : List Nat := (rs.tracks.map (·.1)).filter (· < 16)

/-! ### `InputError::what()` -/

def takeBytes (n : Nat) (s : String) : String := (s.take n).toString

/-- `what()` of an `InputError(ref, msg)` raised while reading `file` -/
def whatOf (file : String) (ref : Option Ref) (msg : String) : String :=
  match ref with
  | none => takeBytes diagWhatNullCopy msg
  | some r => takeBytes (diagWhatBufSize - 1)
      s!"{file}:{r.line + diagWhatLineBase}:{r.column + diagWhatColumnBase}: {msg}"

/-! ### instrument table header (`MDSDRV_Data::read_song`) -/

def bytesStr (b : List UInt8) : String := String.ofList (b.map fun x => Char.ofNat x.toNat)

def lowerStr (s : String) : String := String.ofList (s.toList.map Char.toLower)

/-- `sscanf(key, "@%hu", &id) == 1` -/
def scanInsKey (k : List UInt8) : Option Nat :=
  match k with
  | 64 :: rest =>
    let (neg, rest) := match rest with
      | 45 :: r => (true, r)
      | 43 :: r => (false, r)
      | r => (false, r)
    let ds := rest.takeWhile fun b => 48 ≤ b && b ≤ 57
    if ds.isEmpty then none else
    let v := ds.foldl (fun a b => a * 10 + (b.toNat - 48)) 0
    let v := if v > 18446744073709551615 then 18446744073709551615 else v
    some (if neg then (65536 - v % 65536) % 65536 else v % 65536)
  | _ => none

/-- `sscanf(key, "@m%hu", &id) == 1` (keys are lower-cased by the reader) -/
def isPitchKey (k : List UInt8) : Bool :=
  match k with
  | 64 :: 109 :: rest => (scanInsKey (64 :: rest)).isSome
  | _ => false

inductive DataRes
  | ok (d : DataInfo)
  /-- `InputError(nullptr, msg)` -/
  | err (msg : String)
  | unmodelled (why : String)

def replayTags (calls : List Mml.TagCall) : Tags.Song :=
  calls.foldl (fun s c =>
    let k := Tags.ofNats c.key
    let v := Tags.ofNats c.value
    match c.fn with
    | .setTag => Tags.setTag s k v
    | .addTagList => Tags.addTagList s k v
    | .setPlatform => s) Tags.Song.empty

def addInstruments (tags : List (List UInt8 × List (List UInt8))) : List (List UInt8) → DataInfo → DataRes
  | [], d => .ok d
  | k :: ks, d =>
    match scanInsKey k with
    | none => if isPitchKey k then .unmodelled "pitch-envelope" else addInstruments tags ks d
    | some id =>
      match (tags.lookup k).getD [] with
      | [] => .err (mdsdrv_msg_no_ins_type.1 ++ toString id ++ mdsdrv_msg_no_ins_type.2)   -- `tag.empty()` (7061cba)
      | ty :: params =>
        let t := lowerStr (bytesStr ty)
        let put (tyv : Nat) : DataInfo :=
          { d with insType := ((id : Int), tyv) :: d.insType.filter (·.1 ≠ (id : Int)),
                   envelopeMap := ((id : Int), 0) :: d.envelopeMap.filter (·.1 ≠ (id : Int)) }
        if t == "fm" then
          if params.length < diagFmParamCount then .err (interleave diagFmtFmParams [toString id])
          else addInstruments tags ks (put mdsIns_INS_FM)
        else if t == "psg" then addInstruments tags ks (put mdsIns_INS_PSG)
        else if t == "2op" then .unmodelled "2op"
        else if t == "pcm" then .unmodelled "pcm"
        else .err (interleave diagFmtUnknownEnvelope [bytesStr ty])

/-- existence and type of every instrument `read_song` defines (instrument 0 is predefined) -/
def dataInfoOf (calls : List Mml.TagCall) : DataRes :=
  let song := replayTags calls
  let order := (Tags.lookupTag song.tags Tags.orderKey).getD []
  addInstruments song.tags order
    { insType := [((0 : Int), mdsIns_INS_UNDEFINED)], envelopeMap := [((0 : Int), 0)] }

/-! ### the pipeline of `mmlc` -/

inductive Stage | parse | validate | convert | ok
  deriving DecidableEq, Repr

structure Outcome where
  stage : Stage
  /-- `what()`; `none` when nothing was thrown -/
  what : Option String
  /-- the reference the `InputError` carries -/
  ref : Option Ref := none
  msg : String := ""
  deriving Repr

def rsongOf (s : Mml.SongB) : RSong := { tracks := s.tracks.map fun p => (p.1, p.2.events) }

def hasPlatformEvent (rs : RSong) : Bool :=
  rs.tracks.any fun p => p.2.any fun e => e.type == ev_PLATFORM

/-- `MML_Input::open_file` → `Song_Validator` → `MDSDRV_Converter` (the `mds` export) -/
def runPipeline (file : String) (lines : List (List Nat)) : Outcome :=
  match MmlFix.readLines 0 lines Mml.MmlState.init with
  | .err (.input msg r) _ => { stage := .parse, what := some (whatOf file (some r) msg), ref := some r, msg := msg }
  | .err (.foreign k) _ => { stage := .parse, what := some (if k.startsWith "ub:" || k.startsWith "MODEL:" then k else "foreign:" ++ k) }
  | .ok _ st =>
    let rs := rsongOf st.song
    match songValidatorR rs rs.tracks with
    | .error (e, r) => { stage := .validate, what := some (whatOf file r (playerMsg e)), ref := r, msg := playerMsg e }
    | .ok _ =>
      match dataInfoOf st.song.tagCalls with
      | .unmodelled why => { stage := .convert, what := some ("unmodelled:" ++ why) }
      | .err msg => { stage := .convert, what := some (whatOf file none msg), msg := msg }
      | .ok d =>
        -- a platform command that exists is translated by `parse_platform_event` (not modelled here)
        if st.song.tagCalls.any (fun c => c.fn == .addTagList && c.key.take 4 == strBytes "cmd_") then
          { stage := .convert, what := some "unmodelled:platform-command" } else
        match parseTracksR rs d (channelIds rs) {} [] with
        | .error x => { stage := .convert, what := some (whatOf file x.ref x.msg), ref := x.ref, msg := x.msg }
        | .ok _ => { stage := .ok, what := none }

end Ctrmml.Refs
