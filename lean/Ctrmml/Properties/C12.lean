/-
  C12 — Seeking is equivalent to playing.

  Model: Model/PlayerCh.lean (`Player::skip_ticks`, `Player::play_tick`, `handle_event`, drum
  mode) on top of Model/Player.lean.  Helper lemmas: Proofs/Seek.lean.

  The state `PS` holds everything that determines the future of a channel player: control
  position and stack, all time counters, enabled flag, loop counters, every channel variable
  with its update mask (incl. the coarse-volume and BPM mode bits), the last note, the residual
  on/off time, and a sticky error.  What `write_event` was called with is an *output* of the
  functions, not state — so equality of states is exactly "same observable state", and because
  `playTick` is a function of the state, equal states deliver the same future events at the
  same times.
-/
import Ctrmml.Proofs.Seek
import Ctrmml.Proofs.SeekAlive
import Ctrmml.Proofs.SeekEnd
import Ctrmml.Proofs.SeekFrom
import Ctrmml.Proofs.SeekFlat
import Ctrmml.Proofs.SeekFlatL
import Ctrmml.Proofs.SeekLoop1
namespace Ctrmml.C12
open Ctrmml Player PlayerCh

/-- **Seeking = playing.** For every song, track, platform-command table and every seek
distance `n ≥ 1` such that the track is still alive (enabled, no error) after each of the first
`n` single ticks, `skip_ticks(n)` on a fresh player leaves exactly the state that `n+1` calls of
`play_tick()` leave. -/
theorem C12_seek_eq_play (song : Song) (root : List Event) (pd : Int → Bool) (n : Nat) (hn : n ≥ 1)
    (halive : ∀ k, k < n → alive (iter (playTick song root pd) (k + 1) initPS)) :
    skipTicks song root pd n initPS = iter (playTick song root pd) (n + 1) initPS := by
  have hpt : playTick song root pd = playTickS song root pd := funext (playTick_eq song root pd)
  rw [hpt] at halive ⊢
  -- the first tick only fetches: no time passes
  have h1 : playTickS song root pd initPS = settle song root pd initPS := by
    unfold playTickS; simp [initPS]
  -- skip_ticks: the first round of the loop fetches as well, then `n` ticks are skipped
  have hskip : skipTicks song root pd n initPS
      = skipLoopS song root pd (n + 1) n (settle song root pd initPS) := by
    unfold skipTicks skipTicksO
    have e1 : initPS.err.isSome = false := rfl
    have e2 : ¬ (initPS.acc.enabled = false) := by simp [initPS]
    have e3 : (true = false) = False := by simp
    simp only [e1, Bool.false_eq_true, if_false, e2, e3]
    rw [skipLoopO_state]
    have hn0 : ¬ (n = 0 ∨ initPS.acc.enabled = false) := by simp [initPS]; omega
    have o1 : ¬ (initPS.acc.onTime > 0) := by simp [initPS]
    have o2 : ¬ (initPS.acc.offTime > 0) := by simp [initPS]
    show skipLoopS song root pd (n + 1 + 1) n initPS = _
    rw [skipLoopS]
    simp only [e1, Bool.false_eq_true, if_false, hn0, o1, o2]
  rw [hskip]
  show _ = iter (playTickS song root pd) n (playTickS song root pd initPS)
  rw [h1]
  apply skip_eq_play song root pd (n + 1) n _ (by omega) (settle_settled song root pd _)
  intro k hk
  have := halive k hk
  simpa [iter, h1] using this

/-- **The future is the same.** Continuing tick by tick from the state after a seek and from the
state after playing delivers the same `write_event` calls at every later tick (and again the
same states). -/
theorem C12_same_future (song : Song) (root : List Event) (pd : Int → Bool) (n : Nat) (hn : n ≥ 1)
    (halive : ∀ k, k < n → alive (iter (playTick song root pd) (k + 1) initPS)) (m : Nat) :
    playTickO song root pd (iter (playTick song root pd) m (skipTicks song root pd n initPS))
      = playTickO song root pd (iter (playTick song root pd) m (iter (playTick song root pd) (n + 1) initPS)) := by
  rw [C12_seek_eq_play song root pd n hn halive]

/-- Seeking a player that has already stopped only adds idle time. -/
theorem C12_skip_stopped (song : Song) (root : List Event) (pd : Int → Bool) (n : Nat) (s : PS)
    (he : s.err = none) (hd : s.acc.enabled = false) :
    skipTicks song root pd n s = { s with acc := { s.acc with playTime := s.acc.playTime + n } } := by
  unfold skipTicks skipTicksO
  simp [he, hd]

/-! Non-vacuity: a concrete track (loop, call, relative command) on which the hypothesis holds
for a seek landing inside a note; checked by evaluation in the driver-based correspondence
(`seek` stream) rather than by kernel reduction, because `settle` carries a large step budget. -/
example : initPS.acc.enabled = true ∧ initPS.err = none := ⟨rfl, rfl⟩


/-! ## Round 2: one hypothesis at the last tick; past the end of the track; a real instance -/

/-- **`alive` is downward closed along play ticks**: alive after `k+1` ticks implies alive after
`k` ticks (an error is sticky; a stopped player stays stopped). -/
theorem alive_antitone (song : Song) (root : List Event) (pd : Int → Bool) (k : Nat) (s : PS)
    (h : alive (iter (playTick song root pd) (k + 1) s)) : alive (iter (playTick song root pd) k s) := by
  have hpt : playTick song root pd = playTickS song root pd := funext (playTick_eq song root pd)
  rw [hpt] at h ⊢
  exact alive_antitoneS song root pd k s h

/-- **Seeking = playing, single hypothesis**: the track is alive after `n` single ticks (the
last tick before the one the seek lands on). -/
theorem C12_seek_eq_play_of_alive_last (song : Song) (root : List Event) (pd : Int → Bool) (n : Nat)
    (hn : n ≥ 1) (halive : alive (iter (playTick song root pd) n initPS)) :
    skipTicks song root pd n initPS = iter (playTick song root pd) (n + 1) initPS := by
  apply C12_seek_eq_play song root pd n hn
  intro k hk
  have hpt : playTick song root pd = playTickS song root pd := funext (playTick_eq song root pd)
  rw [hpt] at halive ⊢
  exact alive_of_leS song root pd n initPS halive (k + 1) (by omega)

/-- the same future from the single hypothesis -/
theorem C12_same_future_of_alive_last (song : Song) (root : List Event) (pd : Int → Bool) (n : Nat)
    (hn : n ≥ 1) (halive : alive (iter (playTick song root pd) n initPS)) (m : Nat) :
    playTickO song root pd (iter (playTick song root pd) m (skipTicks song root pd n initPS))
      = playTickO song root pd (iter (playTick song root pd) m (iter (playTick song root pd) (n + 1) initPS)) := by
  rw [C12_seek_eq_play_of_alive_last song root pd n hn halive]

/-- **Seeking = playing without the `enabled` hypothesis**: if no error has occurred after `n`
single ticks, then `skip_ticks(n)` and `n+1` `play_tick()`s agree on `obs`: the whole state
while the track is enabled; once the track has ended, everything except the three time
counters (`play_time`, `on_time`, `off_time`). -/
theorem C12_seek_eq_play_noerr (song : Song) (root : List Event) (pd : Int → Bool) (n : Nat) (hn : n ≥ 1)
    (hnoerr : (iter (playTick song root pd) n initPS).err = none) :
    obs (skipTicks song root pd n initPS) = obs (iter (playTick song root pd) (n + 1) initPS) := by
  have hpt : playTick song root pd = playTickS song root pd := funext (playTick_eq song root pd)
  rw [hpt] at hnoerr ⊢
  have h1 : playTickS song root pd initPS = settle song root pd initPS := by
    unfold playTickS; simp [initPS]
  have hskip : skipTicks song root pd n initPS
      = skipLoopS song root pd (n + 1) n (settle song root pd initPS) := by
    unfold skipTicks skipTicksO
    have e1 : initPS.err.isSome = false := rfl
    have e2 : ¬ (initPS.acc.enabled = false) := by simp [initPS]
    have e3 : (true = false) = False := by simp
    simp only [e1, Bool.false_eq_true, if_false, e2, e3]
    rw [skipLoopO_state]
    have hn0 : ¬ (n = 0 ∨ initPS.acc.enabled = false) := by simp [initPS]; omega
    have o1 : ¬ (initPS.acc.onTime > 0) := by simp [initPS]
    have o2 : ¬ (initPS.acc.offTime > 0) := by simp [initPS]
    show skipLoopS song root pd (n + 1 + 1) n initPS = _
    rw [skipLoopS]
    simp only [e1, Bool.false_eq_true, if_false, hn0, o1, o2]
  rw [hskip]
  show _ = obs (iter (playTickS song root pd) n (playTickS song root pd initPS))
  rw [h1]
  apply skip_obs_play song root pd (n + 1) n _ (by omega) (settle_settled song root pd _)
  intro k hk
  have := err_of_leS song root pd n initPS hnoerr (k + 1) (by omega)
  simpa [iter, h1] using this

/-- while the track is still enabled after the seek, `obs` hides nothing -/
theorem C12_obs_enabled (s : PS) (h : s.acc.enabled = true) : obs s = s := obs_of_enabled h

/-! ### Past the end the two paths do differ in `play_time` (outside the property: `n` is
limited to the track length).  Track `c1` (one tick long), seek 3. -/
def pdAll : Int → Bool := fun _ => true
def shortRoot : List Event := [{ type := Tables.ev_NOTE, param := 1, on := 1, off := 0 }]

theorem C12_past_end_playTime_differs :
    (skipTicks ⟨[]⟩ shortRoot pdAll 3 initPS).acc.playTime = 3 ∧
    (iter (playTick ⟨[]⟩ shortRoot pdAll) 4 initPS).acc.playTime = 1 ∧
    skipTicks ⟨[]⟩ shortRoot pdAll 3 initPS ≠ iter (playTick ⟨[]⟩ shortRoot pdAll) 4 initPS := by
  decide +kernel

/-! ### Non-vacuity: a loop with a break, a call, relative commands; the seek lands inside the
on-time of the first note of the called track.
`[ c:2:1 | k+2 d:1:0 ]2  call 100  e:3:1`,  track 100: `a:2:1 v+1`;  loop passes end at ticks 4
and 7, track 100 plays 7..10, the seek distance 8 lands inside its note. -/
def exRoot : List Event :=
  [ { type := Tables.ev_LOOP_START, param := 0, on := 0, off := 0 },
    { type := Tables.ev_NOTE, param := 1, on := 2, off := 1 },
    { type := Tables.ev_LOOP_BREAK, param := 0, on := 0, off := 0 },
    { type := Tables.ev_TRANSPOSE_REL, param := 2, on := 0, off := 0 },
    { type := Tables.ev_NOTE, param := 2, on := 1, off := 0 },
    { type := Tables.ev_LOOP_END, param := 2, on := 0, off := 0 },
    { type := Tables.ev_JUMP, param := 100, on := 0, off := 0 },
    { type := Tables.ev_NOTE, param := 5, on := 3, off := 1 } ]
def exSong : Song := ⟨[(100, [ { type := Tables.ev_NOTE, param := 9, on := 2, off := 1 },
                              { type := Tables.ev_VOL_REL, param := 1, on := 0, off := 0 } ])]⟩

/-- the hypothesis of `C12_seek_eq_play_of_alive_last` holds on the example, by kernel evaluation -/
theorem C12_example_alive : alive (iter (playTick exSong exRoot pdAll) 8 initPS) := by
  unfold alive
  decide +kernel

/-- and the landing point is inside the on-time of the note of the called track, inside the call,
after the loop has been left through the break with the transpose applied once -/
theorem C12_example_lands_inside :
    let s := iter (playTick exSong exRoot pdAll) 9 initPS
    s.acc.onTime = 1 ∧ s.acc.playTime = 8 ∧ s.core.track = .id 100 ∧ s.core.stack.length = 1 ∧
    getCh s.ch Tables.ev_TRANSPOSE = 2 ∧ s.ch.lastNote = 9 := by
  decide +kernel

example : skipTicks exSong exRoot pdAll 8 initPS = iter (playTick exSong exRoot pdAll) 9 initPS :=
  C12_seek_eq_play_of_alive_last exSong exRoot pdAll 8 (by decide) C12_example_alive

example : (iter (playTick exSong exRoot pdAll) 8 initPS).err = none := C12_example_alive.2

/-- non-vacuity of `C12_seek_eq_play_noerr` past the end: the short track, seek 3 -/
example : obs (skipTicks ⟨[]⟩ shortRoot pdAll 3 initPS) = obs (iter (playTick ⟨[]⟩ shortRoot pdAll) 4 initPS) :=
  C12_seek_eq_play_noerr ⟨[]⟩ shortRoot pdAll 3 (by decide) (by decide +kernel)


/-- **Past the end only `play_time` differs** when no `END` event carries a duration
(`EndsClean`; true of every track the reader produces): if no error has occurred after `n` single
ticks, `skip_ticks(n)` and `n+1` `play_tick()`s agree on `obs1` = the whole state while the track
is enabled and everything except `play_time` once it has ended. -/
theorem C12_seek_eq_play_noerr_clean (song : Song) (root : List Event) (pd : Int → Bool) (n : Nat) (hn : n ≥ 1)
    (hclean : EndsClean song root)
    (hnoerr : (iter (playTick song root pd) n initPS).err = none) :
    obs1 (skipTicks song root pd n initPS) = obs1 (iter (playTick song root pd) (n + 1) initPS) := by
  have h := C12_seek_eq_play_noerr song root pd n hn hnoerr
  have z0 : Z initPS := Z_of_enabled rfl
  have hpt : playTick song root pd = playTickS song root pd := funext (playTick_eq song root pd)
  apply obs1_of_obs _ _ (skipTicks_Z song root pd hclean n initPS z0) _ h
  rw [hpt]
  exact iter_Z song root pd hclean (n + 1) initPS z0

theorem exSong_endsClean : EndsClean exSong exRoot :=
  endsClean_of_all exSong exRoot (by decide) (by decide)

/-- non-vacuity past the end of the example track (14 ticks long), seek 20 -/
example : obs1 (skipTicks exSong exRoot pdAll 20 initPS) = obs1 (iter (playTick exSong exRoot pdAll) 21 initPS) :=
  C12_seek_eq_play_noerr_clean exSong exRoot pdAll 20 (by decide) exSong_endsClean (by decide +kernel)

example : (iter (playTick exSong exRoot pdAll) 21 initPS).acc.enabled = false ∧
    (iter (playTick exSong exRoot pdAll) 21 initPS).acc.playTime = 14 ∧
    (skipTicks exSong exRoot pdAll 20 initPS).acc.playTime = 20 := by decide +kernel

/-! ## Round 3, part 1: seeks on a player that is not fresh -/

/-- every state left by at least one `play_tick()` (from any state) is settled: a duration is
pending, or the track has stopped, or an error is recorded.  No aliveness is needed. -/
theorem C12_played_settled (song : Song) (root : List Event) (pd : Int → Bool) (m : Nat) (s : PS) :
    isSettled (iter (playTick song root pd) (m + 1) s) = true := by
  have hpt : playTick song root pd = playTickS song root pd := funext (playTick_eq song root pd)
  rw [hpt]
  exact iter_succ_settled song root pd m s

/-- **Seeking = playing from any settled state.**  For a settled state `s` (not necessarily
fresh) and every `n ≥ 1` such that the track is alive after `n - 1` single ticks from `s`,
`skip_ticks(n)` leaves exactly the state of `n` calls of `play_tick()`: from a settled state there
is NO off-by-one.  (The `n+1` of `C12_seek_eq_play` comes only from the fresh player being
unsettled: its first `play_tick()` fetches the first event without letting time pass, and
`skip_ticks` does the same fetch in the first round of its loop.) -/
theorem C12_seek_eq_play_from (song : Song) (root : List Event) (pd : Int → Bool) (s : PS)
    (hs : isSettled s = true) (n : Nat) (hn : n ≥ 1)
    (halive : alive (iter (playTick song root pd) (n - 1) s)) :
    skipTicks song root pd n s = iter (playTick song root pd) n s := by
  have hpt : playTick song root pd = playTickS song root pd := funext (playTick_eq song root pd)
  rw [hpt] at halive ⊢
  have hall := alive_of_leS song root pd (n - 1) s halive
  exact skipTicks_eq_iter_of_settled song root pd n s hs (hall 0 (by omega))
    (fun k hk => hall k (by omega))

/-- **Seeking after playing.**  After `m+1` single ticks on a fresh player (any `m`), a seek by
`n ≥ 1` leaves the state of `m+1+n` single ticks, provided the track is alive after `m+n` ticks
(the last tick before the landing one). -/
theorem C12_seek_eq_play_after_play (song : Song) (root : List Event) (pd : Int → Bool) (m n : Nat)
    (hn : n ≥ 1) (halive : alive (iter (playTick song root pd) (m + n) initPS)) :
    skipTicks song root pd n (iter (playTick song root pd) (m + 1) initPS)
      = iter (playTick song root pd) (m + 1 + n) initPS := by
  rw [iter_add (playTick song root pd) (m + 1) n initPS]
  apply C12_seek_eq_play_from song root pd _ (C12_played_settled song root pd m initPS) n hn
  rw [← iter_add (playTick song root pd) (m + 1) (n - 1) initPS]
  have : m + 1 + (n - 1) = m + n := by omega
  rw [this]; exact halive

/-- the same up to `obs` when only "no error" is known: `s` settled and alive, no error after
`n - 1` ticks from `s` -/
theorem C12_seek_eq_play_from_noerr (song : Song) (root : List Event) (pd : Int → Bool) (s : PS)
    (hs : isSettled s = true) (hal : alive s) (n : Nat) (hn : n ≥ 1)
    (hnoerr : (iter (playTick song root pd) (n - 1) s).err = none) :
    obs (skipTicks song root pd n s) = obs (iter (playTick song root pd) n s) := by
  have hpt : playTick song root pd = playTickS song root pd := funext (playTick_eq song root pd)
  rw [hpt] at hnoerr ⊢
  have hall := err_of_leS song root pd (n - 1) s hnoerr
  exact skipTicks_obs_iter_of_settled song root pd n s hs hal (fun k hk => hall k (by omega))

theorem alive_of_le (song : Song) (root : List Event) (pd : Int → Bool) (n : Nat) (s : PS)
    (h : alive (iter (playTick song root pd) n s)) (k : Nat) (hk : k ≤ n) :
    alive (iter (playTick song root pd) k s) := by
  have hpt : playTick song root pd = playTickS song root pd := funext (playTick_eq song root pd)
  rw [hpt] at h ⊢
  exact alive_of_leS song root pd n s h k hk

/-- the round-2 example track: seek 3 after 4 played ticks = 7 played ticks; the hypothesis
(alive after 6 ticks) follows from `C12_example_alive` -/
example : skipTicks exSong exRoot pdAll 3 (iter (playTick exSong exRoot pdAll) 4 initPS)
    = iter (playTick exSong exRoot pdAll) 7 initPS :=
  C12_seek_eq_play_after_play exSong exRoot pdAll 3 3 (by decide)
    (alive_of_le exSong exRoot pdAll 8 initPS C12_example_alive 6 (by decide))

/-- evaluated: the player is at time 3 (inside the first pass of the loop, on `d`) before the
seek and at time 6 afterwards (second pass, inside the on-time of `c`, transpose applied once) -/
theorem C12_example_from_lands :
    let s0 := iter (playTick exSong exRoot pdAll) 4 initPS
    let s := skipTicks exSong exRoot pdAll 3 s0
    s0.acc.playTime = 3 ∧ s0.ch.lastNote = 2 ∧ isSettled s0 = true ∧
    s.acc.playTime = 6 ∧ s.ch.lastNote = 1 ∧ getCh s.ch Tables.ev_TRANSPOSE = 2 ∧
    s = iter (playTick exSong exRoot pdAll) 7 initPS := by
  decide +kernel

/-! ## Round 3, part 2: the no-error hypothesis discharged for flat tracks

`Flat root` (Proofs/SeekFlat.lean, decidable): every event of the root track is of control kind
"other" (not LOOP_START / LOOP_BREAK / LOOP_END / SEGNO / JUMP / END) and is neither PLATFORM nor
DRUM_MODE -- i.e. NOTE / REST / TIE / NOP and every channel command except drum mode, absolute or
relative -- and the track has fewer than 100000 events.  The length bound is necessary for the
MODEL: its inner fetch loop carries a step budget of 100000 and a run of that many zero-length
events would exhaust it and record the model-only error `fuel`. -/

/-- **A flat track never records an error**, at any number of ticks, for every song and
platform table (invariant over `pstep` / `settle` / `play_tick`: on the root track, empty stack,
no loop point, drum mode off, no error, stopped once the position has passed the synthesised END;
each fetch step advances the position by one, so the step budget is never exhausted). -/
theorem noerr_of_flat (song : Song) (root : List Event) (pd : Int → Bool) (h : Flat root) (n : Nat) :
    (iter (playTick song root pd) n initPS).err = none := by
  have hpt : playTick song root pd = playTickS song root pd := funext (playTick_eq song root pd)
  rw [hpt]
  exact (iter_flat song root pd h n initPS (initPS_flat root)).err

/-- **Seeking = playing on flat tracks, NO aliveness or no-error hypothesis**: for every song,
flat root track, platform table and `n ≥ 1`, `skip_ticks(n)` on a fresh player and `n+1`
`play_tick()`s agree on `obs` (the whole state while the track is enabled; everything except
play_time / on_time / off_time once it has ended). -/
theorem C12_seek_eq_play_flat (song : Song) (root : List Event) (pd : Int → Bool) (h : Flat root)
    (n : Nat) (hn : n ≥ 1) :
    obs (skipTicks song root pd n initPS) = obs (iter (playTick song root pd) (n + 1) initPS) :=
  C12_seek_eq_play_noerr song root pd n hn (noerr_of_flat song root pd h n)

/-- on a flat track, whole-state equality as soon as the track is still enabled after `n` ticks -/
theorem C12_seek_eq_play_flat_enabled (song : Song) (root : List Event) (pd : Int → Bool) (h : Flat root)
    (n : Nat) (hn : n ≥ 1) (hen : (iter (playTick song root pd) n initPS).acc.enabled = true) :
    skipTicks song root pd n initPS = iter (playTick song root pd) (n + 1) initPS :=
  C12_seek_eq_play_of_alive_last song root pd n hn ⟨hen, noerr_of_flat song root pd h n⟩

/-- flat tracks, seek after playing: after `m+1` ticks with the track still enabled, a seek by
`n ≥ 1` agrees with `m+1+n` single ticks on `obs` -/
theorem C12_seek_eq_play_flat_after_play (song : Song) (root : List Event) (pd : Int → Bool) (h : Flat root)
    (m n : Nat) (hn : n ≥ 1) (hen : (iter (playTick song root pd) (m + 1) initPS).acc.enabled = true) :
    obs (skipTicks song root pd n (iter (playTick song root pd) (m + 1) initPS))
      = obs (iter (playTick song root pd) (m + 1 + n) initPS) := by
  rw [iter_add (playTick song root pd) (m + 1) n initPS]
  apply C12_seek_eq_play_from_noerr song root pd _ (C12_played_settled song root pd m initPS)
    ⟨hen, noerr_of_flat song root pd h (m + 1)⟩ n hn
  rw [← iter_add (playTick song root pd) (m + 1) (n - 1) initPS]
  exact noerr_of_flat song root pd h _

/-- a flat track: `k+2 c:2:1 v5 r:0:2 ^:1:0 @3 vf+1 e:3:0 t120` -/
def flatRoot : List Event :=
  [ { type := Tables.ev_TRANSPOSE_REL, param := 2, on := 0, off := 0 },
    { type := Tables.ev_NOTE, param := 1, on := 2, off := 1 },
    { type := Tables.ev_VOL, param := 5, on := 0, off := 0 },
    { type := Tables.ev_REST, param := 0, on := 0, off := 2 },
    { type := Tables.ev_TIE, param := 0, on := 1, off := 0 },
    { type := Tables.ev_INS, param := 3, on := 0, off := 0 },
    { type := Tables.ev_VOL_FINE_REL, param := 1, on := 0, off := 0 },
    { type := Tables.ev_NOTE, param := 5, on := 3, off := 0 },
    { type := Tables.ev_TEMPO_BPM, param := 120, on := 0, off := 0 } ]

theorem flatRoot_flat : Flat flatRoot := by decide

/-- the round-2 example track is not flat (the predicate is not trivially true) -/
example : ¬ Flat exRoot := by decide

example : obs (skipTicks exSong flatRoot pdAll 5 initPS) = obs (iter (playTick exSong flatRoot pdAll) 6 initPS) :=
  C12_seek_eq_play_flat exSong flatRoot pdAll flatRoot_flat 5 (by decide)

/-- evaluated: the seek by 5 lands in the TIE (time 5 of 9) with the transpose and the coarse
volume applied; past the end (seek 12) the track has stopped without error -/
theorem C12_example_flat_lands :
    let s := skipTicks exSong flatRoot pdAll 5 initPS
    s.acc.enabled = true ∧ s.acc.playTime = 5 ∧ s.acc.onTime = 1 ∧ s.core.position = 5 ∧
    getCh s.ch Tables.ev_TRANSPOSE = 2 ∧ getCh s.ch Tables.ev_VOL_FINE = 5 ∧ s.ch.lastNote = 1 ∧
    s = iter (playTick exSong flatRoot pdAll) 6 initPS ∧
    (iter (playTick exSong flatRoot pdAll) 13 initPS).acc.enabled = false ∧
    (iter (playTick exSong flatRoot pdAll) 13 initPS).err = none := by
  decide +kernel

/-! ## Round 3, part 3: flat tracks with a loop point

`FlatL root` (Proofs/SeekFlatL.lean, decidable) additionally allows SEGNO (the loop point) and
explicit END events, with fewer than 49000 events.  Such a track plays forever when time passes
between the loop point and the end; the fetch loop is bounded through the zero-time guard of the
root END (`last_loop_jump_time`): within one run `play_time` is constant, so at most one jump back
can happen per run -- at most `2 * length + 3` steps, below the model's budget. -/

/-- **A flat track with a loop point never records an error** -/
theorem noerr_of_flatL (song : Song) (root : List Event) (pd : Int → Bool) (h : FlatL root) (n : Nat) :
    (iter (playTick song root pd) n initPS).err = none := by
  have hpt : playTick song root pd = playTickS song root pd := funext (playTick_eq song root pd)
  rw [hpt]
  exact (iter_flatL song root pd h n initPS (initPS_flatL root)).err

/-- **Seeking = playing on flat tracks with a loop point, no aliveness / no-error hypothesis** -/
theorem C12_seek_eq_play_flatL (song : Song) (root : List Event) (pd : Int → Bool) (h : FlatL root)
    (n : Nat) (hn : n ≥ 1) :
    obs (skipTicks song root pd n initPS) = obs (iter (playTick song root pd) (n + 1) initPS) :=
  C12_seek_eq_play_noerr song root pd n hn (noerr_of_flatL song root pd h n)

/-- whole-state equality while the track is enabled -/
theorem C12_seek_eq_play_flatL_enabled (song : Song) (root : List Event) (pd : Int → Bool) (h : FlatL root)
    (n : Nat) (hn : n ≥ 1) (hen : (iter (playTick song root pd) n initPS).acc.enabled = true) :
    skipTicks song root pd n initPS = iter (playTick song root pd) (n + 1) initPS :=
  C12_seek_eq_play_of_alive_last song root pd n hn ⟨hen, noerr_of_flatL song root pd h n⟩

/-- `c:2:1 L v+1 d:1:1`: plays forever, the volume grows by one per pass -/
def flatLRoot : List Event :=
  [ { type := Tables.ev_NOTE, param := 1, on := 2, off := 1 },
    { type := Tables.ev_SEGNO, param := 0, on := 0, off := 0 },
    { type := Tables.ev_VOL_REL, param := 1, on := 0, off := 0 },
    { type := Tables.ev_NOTE, param := 2, on := 1, off := 1 } ]

theorem flatLRoot_flatL : FlatL flatLRoot := by decide

example : ¬ Flat flatLRoot := by decide

example : obs (skipTicks exSong flatLRoot pdAll 20 initPS) = obs (iter (playTick exSong flatLRoot pdAll) 21 initPS) :=
  C12_seek_eq_play_flatL exSong flatLRoot pdAll flatLRoot_flatL 20 (by decide)

/-- evaluated: a seek by 20 lands in the ninth pass of the loop section (volume 9), still playing -/
theorem C12_example_flatL_lands :
    let s := skipTicks exSong flatLRoot pdAll 20 initPS
    s.acc.enabled = true ∧ s.acc.playTime = 20 ∧ getCh s.ch Tables.ev_VOL_FINE = 9 ∧
    s = iter (playTick exSong flatLRoot pdAll) 21 initPS := by
  decide +kernel

/-! ## Round 3, part 4: counted loops without nesting

`Loop1 root` (Proofs/SeekLoop1.lean, decidable): the root track consists of "other" events (not
PLATFORM, not DRUM_MODE) and non-nested, closed `[ … ] n` loops with `0 ≤ n ≤ 255` and no
LOOP_BREAK (no SEGNO / JUMP / END), and `W root + 255 * (length + 1) < 100000` where `W` counts 1
per event and `255 * (length + 1) + 1` per LOOP_START -- a bound on the number of steps of any run
of the fetch loop (model budget; the C++ has none). -/

/-- **A track with non-nested counted loops never records an error** (invariant: the stack is
empty or one LOOP frame whose start lies in the same loop body as the position; count in 0..255;
measure = weight of the rest of the track + count * (length+1)). -/
theorem noerr_of_loop1 (song : Song) (root : List Event) (pd : Int → Bool) (h : Loop1 root) (n : Nat) :
    (iter (playTick song root pd) n initPS).err = none := by
  have hpt : playTick song root pd = playTickS song root pd := funext (playTick_eq song root pd)
  rw [hpt]
  exact (iter_loop1 song root pd h n initPS (initPS_loop1 root h)).err

/-- **Seeking = playing on tracks with non-nested counted loops, no aliveness / no-error
hypothesis** -/
theorem C12_seek_eq_play_loop1 (song : Song) (root : List Event) (pd : Int → Bool) (h : Loop1 root)
    (n : Nat) (hn : n ≥ 1) :
    obs (skipTicks song root pd n initPS) = obs (iter (playTick song root pd) (n + 1) initPS) :=
  C12_seek_eq_play_noerr song root pd n hn (noerr_of_loop1 song root pd h n)

/-- whole-state equality while the track is enabled -/
theorem C12_seek_eq_play_loop1_enabled (song : Song) (root : List Event) (pd : Int → Bool) (h : Loop1 root)
    (n : Nat) (hn : n ≥ 1) (hen : (iter (playTick song root pd) n initPS).acc.enabled = true) :
    skipTicks song root pd n initPS = iter (playTick song root pd) (n + 1) initPS :=
  C12_seek_eq_play_of_alive_last song root pd n hn ⟨hen, noerr_of_loop1 song root pd h n⟩

/-- `[ c:2:1 k+2 ]3 v5 [ d:1:0 ]2 e:1:1` -/
def loopRoot : List Event :=
  [ { type := Tables.ev_LOOP_START, param := 0, on := 0, off := 0 },
    { type := Tables.ev_NOTE, param := 1, on := 2, off := 1 },
    { type := Tables.ev_TRANSPOSE_REL, param := 2, on := 0, off := 0 },
    { type := Tables.ev_LOOP_END, param := 3, on := 0, off := 0 },
    { type := Tables.ev_VOL, param := 5, on := 0, off := 0 },
    { type := Tables.ev_LOOP_START, param := 0, on := 0, off := 0 },
    { type := Tables.ev_NOTE, param := 2, on := 1, off := 0 },
    { type := Tables.ev_LOOP_END, param := 2, on := 0, off := 0 },
    { type := Tables.ev_NOTE, param := 3, on := 1, off := 1 } ]

theorem loopRoot_loop1 : Loop1 loopRoot := by decide

/-- nested loops and loops with a break are outside the class -/
example : ¬ Loop1 exRoot := by decide

example : obs (skipTicks exSong loopRoot pdAll 10 initPS) = obs (iter (playTick exSong loopRoot pdAll) 11 initPS) :=
  C12_seek_eq_play_loop1 exSong loopRoot pdAll loopRoot_loop1 10 (by decide)

/-- evaluated: a seek by 10 lands in the second pass of the second loop (three passes of the
first loop applied the transpose three times) -/
theorem C12_example_loop1_lands :
    let s := skipTicks exSong loopRoot pdAll 10 initPS
    s.acc.enabled = true ∧ s.acc.playTime = 10 ∧ getCh s.ch Tables.ev_TRANSPOSE = 6 ∧
    getCh s.ch Tables.ev_VOL_FINE = 5 ∧ s.ch.lastNote = 2 ∧ s.core.stack.length = 1 ∧
    s = iter (playTick exSong loopRoot pdAll) 11 initPS := by
  decide +kernel

end Ctrmml.C12
