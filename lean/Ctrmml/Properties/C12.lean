/-
  C12 — Seeking is equivalent to playing.

  Model: Model/PlayerCh.lean (`Player::skip_ticks`, `Player::play_tick`, `handle_event`, drum
  mode) on top of Model/Player.lean.  Helper lemmas: Proofs/Seek.lean.

  The state `PS` holds everything that determines the future of a channel player: control
  position and stack, all time counters, enabled flag, loop counters, every channel variable
  with its update mask (incl. the coarse-volume and BPM mode bits), the last note, the residual
  on/off time, and a sticky error.  What `write_event` was called with is an *output* of the
  functions, not state — so equality of states is exactly "same observable state", and because
  `playTick` is a function of the state, equal states deliver the same future events at the
  same times.
-/
import Ctrmml.Proofs.Seek
namespace Ctrmml.C12
open Ctrmml Player PlayerCh

/-- **Seeking = playing.** For every song, track, platform-command table and every seek
distance `n ≥ 1` such that the track is still alive (enabled, no error) after each of the first
`n` single ticks, `skip_ticks(n)` on a fresh player leaves exactly the state that `n+1` calls of
`play_tick()` leave. -/
theorem C12_seek_eq_play (song : Song) (root : List Event) (pd : Int → Bool) (n : Nat) (hn : n ≥ 1)
    (halive : ∀ k, k < n → alive (iter (playTick song root pd) (k + 1) initPS)) :
    skipTicks song root pd n initPS = iter (playTick song root pd) (n + 1) initPS := by
  have hpt : playTick song root pd = playTickS song root pd := funext (playTick_eq song root pd)
  rw [hpt] at halive ⊢
  -- the first tick only fetches: no time passes
  have h1 : playTickS song root pd initPS = settle song root pd initPS := by
    unfold playTickS; simp [initPS]
  -- skip_ticks: the first round of the loop fetches as well, then `n` ticks are skipped
  have hskip : skipTicks song root pd n initPS
      = skipLoopS song root pd (n + 1) n (settle song root pd initPS) := by
    unfold skipTicks skipTicksO
    have e1 : initPS.err.isSome = false := rfl
    have e2 : ¬ (initPS.acc.enabled = false) := by simp [initPS]
    have e3 : (true = false) = False := by simp
    simp only [e1, Bool.false_eq_true, if_false, e2, e3]
    rw [skipLoopO_state]
    have hn0 : ¬ (n = 0 ∨ initPS.acc.enabled = false) := by simp [initPS]; omega
    have o1 : ¬ (initPS.acc.onTime > 0) := by simp [initPS]
    have o2 : ¬ (initPS.acc.offTime > 0) := by simp [initPS]
    show skipLoopS song root pd (n + 1 + 1) n initPS = _
    rw [skipLoopS]
    simp only [e1, Bool.false_eq_true, if_false, hn0, o1, o2]
  rw [hskip]
  show _ = iter (playTickS song root pd) n (playTickS song root pd initPS)
  rw [h1]
  apply skip_eq_play song root pd (n + 1) n _ (by omega) (settle_settled song root pd _)
  intro k hk
  have := halive k hk
  simpa [iter, h1] using this

/-- **The future is the same.** Continuing tick by tick from the state after a seek and from the
state after playing delivers the same `write_event` calls at every later tick (and again the
same states). -/
theorem C12_same_future (song : Song) (root : List Event) (pd : Int → Bool) (n : Nat) (hn : n ≥ 1)
    (halive : ∀ k, k < n → alive (iter (playTick song root pd) (k + 1) initPS)) (m : Nat) :
    playTickO song root pd (iter (playTick song root pd) m (skipTicks song root pd n initPS))
      = playTickO song root pd (iter (playTick song root pd) m (iter (playTick song root pd) (n + 1) initPS)) := by
  rw [C12_seek_eq_play song root pd n hn halive]

/-- Seeking a player that has already stopped only adds idle time. -/
theorem C12_skip_stopped (song : Song) (root : List Event) (pd : Int → Bool) (n : Nat) (s : PS)
    (he : s.err = none) (hd : s.acc.enabled = false) :
    skipTicks song root pd n s = { s with acc := { s.acc with playTime := s.acc.playTime + n } } := by
  unfold skipTicks skipTicksO
  simp [he, hd]

/-! Non-vacuity: a concrete track (loop, call, relative command) on which the hypothesis holds
for a seek landing inside a note; checked by evaluation in the driver-based correspondence
(`seek` stream) rather than by kernel reduction, because `settle` carries a large step budget. -/
example : initPS.acc.enabled = true ∧ initPS.err = none := ⟨rfl, rfl⟩

end Ctrmml.C12
