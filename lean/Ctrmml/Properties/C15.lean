/-
  C15 — every input ends in output or a diagnosed input error.

  The pipeline of mmlc / mdslink is `Pipeline.pipeline` (Model/Pipeline): parse → validate →
  [optimise] → export mds | vgm [→ link], composed from the stage models of the other
  properties; every stage ends in `ok | inputError msg | foreign kind` and the property is
  `Out.routed` (a value, or an input error carrying a message) of the composition, for every
  byte string given as the MML text and every set of side files.

  What is a THEOREM here (for all inputs of the stage):
    * parse: `C15_parse_routed` — for EVERY byte string the MML reader (`MML_Input::parse_line`
      per line over `Line_Buffer` and `Track`: Model/Mml, MmlFix, Lexer, TrackBuilder) ends in a
      parsed song or in an `InputError` with a non-empty message: `unget` is never called at
      column 0, never stores beyond the buffer, `strtol` and `get_line` never start beyond the
      terminating NUL, no `std::invalid_argument` escapes, no key-signature shift is negative, and
      the loops of `parse_mml_track` and of the track list never exhaust their budgets
      (weakest-precondition calculus over the parser monad, Proofs/PipelineParse);
    * sample files: `C15_wav_reader_total` — `load_file` + `Wave_File::read` on any byte string
      end in a decoded file or "not found" (from C14's `readWav_total`; the 2 GiB test of
      `load_file` removes C14's length hypothesis);
    * validate: `C15_validator_never_out_of_range` (the `vector::at` of the final-pass break
      cannot fail in a reachable state — stack-frame invariant, Proofs/PipelineValidate) and
      `C15_validate_routed` (C04's termination theorem on the outcome type: with enough steps
      `Song_Validator` succeeds or throws one of the player's messages); `C15_parsed_song_validates`
      joins the two: the reader emits no explicit `END` event (`parseStage_noEnd`: every `Track`
      operation the reader uses keeps "no END event", Proofs/PipelineNoEnd), so validation of
      EVERY parsed song is routed — no hypothesis left on parse + validate;
    * the components other properties model have no undefined-behaviour outcome:
      `C15_modelled_components_never_foreign` (RIFF C13, conf C20, VGM writer C08, WAV C14);
    * link (round 3): `C15_link_accepts_strict_files` — no foreign `Linker.Err` on any file C10's strict
      reader accepts; `C15_exported_file_parses_partial`, `C15_link_stage_routed_partial` — that reader
      accepts the converter's file under `LinkFileHyps`;
    * export vgm (round 3): `C15_vgm_never_non_integer` (every input), `C15_vgm_export_no_ub_partial`
      (`VgmDataHyps` = `PsgEnvsOK` + `FilesSmall`);
    * the composition: `C15_pipeline_total_partial` (hypotheses per input: `ExportHyps`),
      `C15_pipeline_terminates`; round 2's form is `C15_pipeline_total_under_stage_hyps`.
    * optimise: `C15_optimize_routed` — for every song without explicit `END` events that satisfies the
      decidable side conditions `OptDomain` (those of C01's termination theorem) and passed the
      validate stage, `optimizeStage` ends in the optimised song or an `InputError` with a message:
      the pass loop ends (C01), every stack list `analyze_stack` builds covers its track so
      `find_match_length` never reads outside one, `Song::get_track` is never asked for a missing
      track, and the `Song_Validator` after a pass ends (C04) — `C15_optimizer_never_foreign`;
    * export mds: `C15_mds_export_no_ub` — for EVERY input the converter model never returns
      `FErr.riff`, `FErr.codec .atEmpty`, `FErr.bankIndex` nor `FErr.writer (.player .impossible)`;
      `FErr.headerWrap` and `FErr.codec .stackEmpty` are `InputError`s of the C++ since repository
      fixes 5952bf5 / 3e0ed67 (both were reachable); `C15_mds_export_routed`;
  What is still a HYPOTHESIS of the composition (`StageHyps`, Proofs/PipelineStages), stage by stage:
    * optimise   nothing on `OptDomain`; outside it (a parsed song with 32767 or more events in a
                 track, track ids from 32767, or so many events that `sub_id` could reach 32767 —
                 where the C++ narrows to `int16_t`) the hypothesis `OptInDomain text` is not met;
    * export mds `MdsBudgetOK`: the MODEL's fixed writer budgets (20 000 000 player steps per stream,
                 recursion depth 64) suffice — a bound of the model, the C++ has no such budget;
    * export vgm `VgmNoUB`: the driver model (Model/MdDriver) reports no `vector::at` failure, no
                 non-integer step and no writer fault;
    * link       `LinkOK`: the linker model accepts the converter's file or rejects it with an
                 `InputError`;
    * the two `Residual`s (no model): the VGM play loop for songs outside Model/MdDriver's subset,
                 definitions/commands outside C09/C11's models.
  Memory safety of the compiled binary is not a statement about these models at all: it is
  observed by ASan/UBSan on the generated inputs (checks/c15.py), not proved.
-/
import Ctrmml.Proofs.PipelineCompose
import Ctrmml.Proofs.PipelineLink
import Ctrmml.Proofs.PipelineRound3
import Ctrmml.Properties.C13
import Ctrmml.Properties.C20
import Ctrmml.Properties.C08
namespace Ctrmml.C15
open Ctrmml Ctrmml.Pipeline

/-! ### parse -/

/-- **The MML reader is total**: for every byte string given as the MML file the parse stage ends
in a parsed song or in an `InputError` carrying a message — never in another exception type,
an undefined-behaviour site of the reader, or an exhausted loop budget. -/
theorem C15_parse_routed (text : List Nat) : (parseStage text).routed :=
  parseStage_routed text

/-- the same on the reader itself, from any state and line number (so also for continuation
lines after an error-free prefix) -/
theorem C15_reader_never_foreign (ls : List (List Nat)) (n : Nat) (s : Mml.MmlState) (k : String) (s' : Mml.MmlState) :
    MmlFix.readLines n ls s ≠ .err (.foreign k) s' := by
  intro h
  have := MmlFix.readLines_routed ls n s
  rw [h] at this
  exact this

def clsOf {α : Type} : Out α → Nat
  | .ok _ => 0 | .inputError _ => 1 | .foreign _ => 2

/-- non-vacuity: a text that parses, and the two inputs that used to let `std::invalid_argument`
escape / shift by a negative amount (D12: `*` and `A ~`), now input errors -/
example : clsOf (parseStage (Lexer.strBytes "A o4l4 cdefg")) = 0 ∧ clsOf (parseStage (Lexer.strBytes "*")) = 1 ∧
    clsOf (parseStage (Lexer.strBytes "A ~")) = 1 := by
  refine ⟨by decide +kernel, by decide +kernel, by decide +kernel⟩

/-! ### sample files -/

/-- **The WAV reader is total**: for every byte string given as a sample file, `load_file` +
`Wave_File::read` end in a decoded file or in "not found" — never in a read outside the file
buffer and never in a loop that does not advance; hence loading a sample is routed. -/
theorem C15_wav_reader_total (f : Bytes) :
    (∃ r, loadWav f = .ok r) ∧ loadWav f ≠ .error .oob ∧ loadWav f ≠ .error .hang ∧
    ∀ file, (loadSample file).routed := by
  obtain ⟨r, hr⟩ := loadWav_total f
  exact ⟨⟨r, hr⟩, by rw [hr]; simp, by rw [hr]; simp, loadSample_routed⟩

/-- an 8-bit mono file with one sample -/
def wavOk : Bytes := [0x52, 0x49, 0x46, 0x46, 37, 0, 0, 0, 0x57, 0x41, 0x56, 0x45,
    0x66, 0x6d, 0x74, 0x20, 16, 0, 0, 0, 1, 0, 1, 0, 0x5c, 0x44, 0, 0, 0x5c, 0x44, 0, 0, 1, 0, 8, 0,
    0x64, 0x61, 0x74, 0x61, 1, 0, 0, 0, 0x90]

/-- 24-bit PCM (the reader used to spin on it) and a RIFF size beyond the file (used to be
read past the buffer) -/
def wav24 : Bytes := [0x52, 0x49, 0x46, 0x46, 39, 0, 0, 0, 0x57, 0x41, 0x56, 0x45,
    0x66, 0x6d, 0x74, 0x20, 16, 0, 0, 0, 1, 0, 1, 0, 0x5c, 0x44, 0, 0, 0x14, 0xcd, 0, 0, 3, 0, 24, 0,
    0x64, 0x61, 0x74, 0x61, 3, 0, 0, 0, 1, 2, 3]
def wavBigRiff : Bytes := [0x52, 0x49, 0x46, 0x46, 0xe8, 3, 0, 0, 0x57, 0x41, 0x56, 0x45,
    0x4a, 0x55, 0x4e, 0x4b, 2, 0, 0, 0, 1, 2]

def decodedLen : Except Wave.Err (Option Wave.WaveFile) → Option Nat
  | .ok (some w) => some w.data0.length
  | _ => none
def refused {α : Type} : Except Wave.Err (Option α) → Bool
  | .ok none => true
  | _ => false

/-- non-vacuity: a file that decodes, and the two files that used to defeat the reader -/
example : decodedLen (loadWav wavOk) = some 1 ∧ refused (loadWav wav24) = true ∧ refused (loadWav wavBigRiff) = true := by
  refine ⟨by decide, by decide, by decide⟩

/-! ### validate -/

/-- **No `std::out_of_range` from the validator**: in every state a `Track_Validator` run
reaches, a loop frame whose count is 1 recorded the position behind a `LOOP_END` of the track
being played, so `get_event(end_position - 1)` of the final-pass break cannot throw — for every
song, every track, every step budget. -/
theorem C15_validator_never_out_of_range (song : Song) (root : List Event) (fuel : Nat) :
    Player.runValidator song root fuel Player.initState ≠ .error .impossible :=
  runValidator_ne_impossible song root fuel Player.initState (initState_ok song root)

/-- **Validation ends in success or an input error with a message** for every song without
explicit `END` events, given enough steps — `C04_validator_terminates` on the pipeline's outcome
type, with no residual hypothesis. -/
theorem C15_validate_routed (song : Song) (h : hasEndEvent song = false) :
    ∃ F, ∀ fuel, fuel ≥ F → (validateSong song fuel).routed :=
  validateTracks_routed song (noEnd_of_hasEndEvent h).1 song.tracks (noEnd_of_hasEndEvent h).2

/-- **Parse + validate, no hypothesis**: whatever the text, if it parses then the parsed song has
no explicit `END` event and `Song_Validator` on it, given enough steps, succeeds or throws one of
the player's messages. -/
theorem C15_parsed_song_validates (text : List Nat) (st : Mml.MmlState) (h : parseStage text = .ok st) :
    hasEndEvent (songOf st) = false ∧ ∃ F, ∀ fuel, fuel ≥ F → (validateSong (songOf st) fuel).routed :=
  ⟨parseStage_noEnd text st h, C15_validate_routed (songOf st) (parseStage_noEnd text st h)⟩

/-- non-vacuity: a valid song, an unterminated loop and a call of a missing track -/
def n (p : Int) : Event := { type := Tables.ev_NOTE, param := p, on := 3, off := 1 }
def songOk : Song := { tracks := [(0, [n 1, n 2])] }
def songOpen : Song := { tracks := [(0, [{ type := Tables.ev_LOOP_START, param := 0, on := 0, off := 0 }, n 1])] }
def songCall : Song := { tracks := [(0, [{ type := Tables.ev_JUMP, param := 9, on := 0, off := 0 }])] }
def cls {α : Type} : Out α → Nat
  | .ok _ => 0 | .inputError _ => 1 | .foreign _ => 2
example : hasEndEvent songOk = false ∧ cls (validateSong songOk 100) = 0 ∧ cls (validateSong songOpen 100) = 1 ∧
    cls (validateSong songCall 100) = 1 := by
  refine ⟨by decide, by decide, by decide, by decide⟩

/-! ### optimise -/

/-- **The optimise stage is routed.**  For every song without explicit `END` events that satisfies the
side conditions `OptDomain` (decidable: track list in id order, ids below 32767, `LOOP_BREAK`s
without duration, tracks shorter than 32767 events, `JUMP`/`NOTE` parameters in `int16_t`,
`initialSubId + totalEvents < 32767`), with enough validator steps and passes: if the song passed the
validate stage then `Optimizer(song,1).optimize()` — stack analysis, `find_best_match`,
`apply_match`, `Song_Validator` after every pass — ends in the optimised song or in an `InputError`
with a message. -/
theorem C15_optimize_routed (song : Song) (hend : hasEndEvent song = false) (hd : OptDomain song) :
    ∃ S P, ∀ steps passes, steps ≥ S → passes ≥ P → validateSong song steps = .ok () →
      (optimizeStage song steps passes).routed :=
  optimizeStage_routed song hend hd

/-- **The optimiser has no undefined-behaviour outcome on validated songs**: started on a song all
of whose tracks validate (with the invariants `PassInv` that `C01.optimize_no_fuel` carries from
pass to pass), `Opt.optimize` never reads a stack list outside its bounds (`event_list[dst_end]`
in `find_match_length`) and never calls `Song::get_track` on a track that does not exist; and for
a pass budget above the measure of the song it does not exhaust it. -/
theorem C15_optimizer_never_foreign (minScore : Int) (hmin : 0 ≤ minScore) (song : Song) (subId : Int)
    (hI : PassInv song subId) (fuel : Nat) (acc : List Opt.Match) :
    Opt.optimize C01.validAll minScore fuel song subId acc ≠ .error .stackListOOB ∧
    Opt.optimize C01.validAll minScore fuel song subId acc ≠ .error .missingTrack ∧
    (OptSteps.optMeasure song < fuel → Opt.optimize C01.validAll minScore fuel song subId acc ≠ .error .fuel) :=
  ⟨(OptSteps.NO_of_eq (optimize_NO minScore fuel song subId acc hI)).1,
   (OptSteps.NO_of_eq (optimize_NO minScore fuel song subId acc hI)).2,
   fun hf => optimize_noFuel minScore hmin fuel song subId acc hI hf⟩

/-- **`analyze_stack` builds complete stack lists**: after a successful analysis the analyser of every
track holds one entry per event, for every song whose ids are distinct `uint16_t` values. -/
theorem C15_stack_lists_complete (song : Song) (hnd : (song.tracks.map (·.1)).Nodup)
    (hid : ∀ p ∈ song.tracks, p.1 < 65536) (m : Opt.SAMap) (h : Opt.analyzeStack song = .ok m) :
    ∀ id evs, song.track? id = some evs → evs.length ≤ (Opt.getSA m (id : Int)).eventList.length :=
  OptSteps.analyzeStack_full hnd hid h

/-- non-vacuity: two songs in `OptDomain` (a repeated phrase the optimiser folds into a loop, and a
drum-mode note whose routine does not exist), and the stage evaluated on them -/
def nE (p : Int) : Event := { type := Tables.ev_NOTE, param := p, on := 6, off := 0 }
def songRep : Song := { tracks := [(0, [nE 1, nE 1, nE 1, nE 1, nE 1, nE 1])] }
def songDrum : Song := { tracks := [(0, [{ type := Tables.ev_DRUM_MODE, param := 1, on := 0, off := 0 }, nE 40])] }
example : OptDomain songRep ∧ OptDomain songDrum ∧ hasEndEvent songRep = false := by
  refine ⟨by decide, by decide, by decide⟩

/-! ### export mds -/

/-- **The converter model has no undefined-behaviour outcome**, for EVERY input (song, definitions,
side files, platform commands): `exportMds` never fails in the RIFF writer (`get_mds` only adds
chunks to list chunks), never reports `at()` on an empty stream, never indexes `data_bank` outside
(the indices `read_song` stores in `envelope_map` / `pitch_map` come from `add_unique_data`, the
bank only grows, the writer copies them into `used_data_map` and `get_mds` masks the tag bits off),
and its writer's player never hits the `vector::at` of the final-pass loop break.  What is left of
`FErr` besides values and `InputError`s is the model's own writer budget (`ferrIsBudget`). -/
theorem C15_mds_export_no_ub (inp : MdsFile.Input) :
    (∀ r, MdsFile.exportMds MdsData.Arith.float inp ≠ .error (.riff r)) ∧
    MdsFile.exportMds MdsData.Arith.float inp ≠ .error (.codec .atEmpty) ∧
    MdsFile.exportMds MdsData.Arith.float inp ≠ .error .bankIndex ∧
    MdsFile.exportMds MdsData.Arith.float inp ≠ .error (.writer (.player .impossible)) :=
  ⟨fun r h => (exportMds_err inp _ h).1 r rfl, fun h => (exportMds_err inp _ h).2 rfl,
   (exportMds_no_bank_no_at inp).1, (exportMds_no_bank_no_at inp).2⟩

/-- **The mds export stage is routed** for every input whose conversion stays within the model's
writer budget, given a routed residual for the definitions / platform commands outside the models. -/
theorem C15_mds_export_routed (u : Residual) (hg : ∀ inp, (u.mdsGap inp).routed) (inp : MdsFile.Input) (gap : Bool)
    (hb : match MdsFile.exportMds MdsData.Arith.float inp with | .error e => ferrIsBudget e = false | .ok _ => True) :
    (exportMdsStage u inp gap).routed := by
  unfold exportMdsStage
  split
  · exact hg inp
  · obtain ⟨h3, h4⟩ := exportMds_no_bank_no_at inp
    split
    · trivial
    · rename_i e he
      rw [he] at hb h3 h4
      obtain ⟨h1, h2⟩ := exportMds_err inp e he
      exact ferrOut_routed inp u.mdsGap e (fun _ => hg inp) hb h1 h2 (fun hb' => h3 (by rw [hb'])) (fun hi => h4 (by rw [hi]))

/-- an input that reached one of the converter's other undefined-behaviour constructors before the
repairs: a raw `cmd` loop end outside a loop (was `top()` of an empty stack: SIGSEGV), now the input
error of fix 3e0ed67 — in the codec model -/
example : (match Mds.convertTrack 0 0 [⟨Tables.mds_LPF, 2⟩, ⟨Tables.mds_NOTE + 36, 24⟩] with
      | .error .stackEmpty => true | _ => false) = true ∧
    clsOf (ferrOut (α := Bytes) { song := { tracks := [] } } (fun _ => .ok []) (.codec .stackEmpty)) = 1 ∧
    clsOf (ferrOut (α := Bytes) { song := { tracks := [] } } (fun _ => .ok []) .headerWrap) = 1 := by
  refine ⟨by decide, by decide, by decide⟩

/-! ### link -/

/-- **The link stage: the header generation always returns, and every `foreign` outcome is one of
the linker's own errors.**  For every byte string given to mdslink's calls: `get_asm_header` /
`get_c_header` end (`unique_string` terminates: C10), so the stage is `add_song` followed by
`get_seq_data`; if it ends outside `ok | inputError` it is because `add_song` or `get_seq_data`
raised `outOfRange` / `invalidArgument` (std exceptions that escape) or `oob` / `hang` / `divZero`
— the residual kinds `LinkOK` assumes away for the converter's own files. -/
theorem C15_link_stage_kinds (mds : Bytes) (k : String) (h : linkStage mds = .foreign k) :
    ∃ e : Linker.Err, (linkErrOut e : Out Unit) = .foreign k ∧
      (Linker.runOps [.add (Linker.ascii "in") mds] Linker.Linker.new = .error e ∨
       ∃ l, Linker.runOps [.add (Linker.ascii "in") mds] Linker.Linker.new = .ok l ∧ Linker.getSeqData l = .error e) :=
  linkStage_foreign mds k h

/-- non-vacuity: a file that is not a RIFF container is refused with `std::out_of_range` from the
`RIFF` constructor (8 bytes are needed) — a foreign outcome of the stage on arbitrary bytes, which is
why `LinkOK` speaks about the converter's files only -/
example : clsOf (linkStage [1, 2, 3]) = 2 := by decide


/-- **The link stage never ends in a foreign outcome on a file the strict reader accepts.**  For EVERY
byte string `f` that `LinkSpec.parseMds` (C10's strict container reader: RIFF `MDS0`, exactly one `ver `,
`grp `, `seq `, `LIST dblk`, `pcmd`, supported version, every entry with its own pointer slot inside a
sequence of at most 64 KiB, every PCM header addressing a window inside `pcmd`) accepts, with PCM windows
shorter than 1 GiB: `add_song` on the fresh linker returns or throws the `InputError` "sample does not
fit" / "malformed", `get_seq_data` returns or reports "data too large", the headers are generated.
Excluded, constructor by constructor of `Linker.Err`: `outOfRange` (short `glob`/`pcmh` child, sample
index, `find_unique_data` in the wave table), `invalidArgument`/`oob` of the RIFF reader, `oob` of the
relocation (`data_offset[…]`: every patch value indexes the data bank — `Resolves` of C10's history
invariant) and of `Wave_Bank::add_sample` (C14's allocator invariant), `hang`, `divZero`.  The 1 GiB
bound is needed: `addPcmh_wrap_oob` (Proofs/PipelineLinkRun) shows that the model answers `oob` for a
`pcmh` of size 2^32−256 behind a 256-byte sample (`fit_sample`'s 32-bit sum wraps) — a 4 GiB file,
inside C14's recorded 1 GiB admissibility bound. -/
theorem C15_link_accepts_strict_files (f : Bytes) (s : LinkSpec.SongIn) (h : LinkSpec.parseMds f = some s)
    (hpcm : ∀ sl ∈ s.slots, ∀ rate bytes, sl.want = .pcm rate bytes → bytes.length < 1073741824) :
    (linkStage f).routed :=
  linkStage_routed_of_parse f s h hpcm

/-- the hypotheses are met by C10's example file with two PCM entries and one data entry -/
example : ∃ s, LinkSpec.parseMds Linker.exFileB = some s ∧ s.slots.length = 3 ∧
    (∀ sl ∈ s.slots, ∀ rate bytes, sl.want = .pcm rate bytes → bytes.length < 1073741824) := by
  have hB : (LinkSpec.parseMds Linker.exFileB).isSome = true := by decide +kernel
  have hs := Linker.some_getD (LinkSpec.parseMds Linker.exFileB) ⟨[], [], []⟩ hB
  have hl : Linker.exFileB.length < 1073741824 := by
    have : Linker.exFileB.length = 202 := by decide +kernel
    omega
  refine ⟨_, hs, by decide +kernel, ?_⟩
  intro sl hsl rate bytes hw
  exact Nat.lt_of_le_of_lt (Linker.parseMds_pcm_le _ _ hs sl hsl rate bytes hw) hl

/-- **The strict reader accepts the converter's own file** (partial).  For every input whose export
succeeds: `LinkSpec.parseMds` returns the exported group and sequence bytes — the container `get_mds`
serialises is byte for byte `Tree.file` of the five-chunk tree (C13's layout theorem), the spec's chunk
splitter reads it back, the entries' pointer slots `sdata + 2·id` lie behind the track table inside the
sequence and are pairwise different (`used_data_map` numbers its entries 0,1,2,…); `pcmd` is a prefix of the
2 MiB wave rom (`pcmSmall_of_export`) and, the wave bank satisfying C14's allocator invariant, every stored
sample header addresses a window inside it.  `_partial`: the five conditions of `LinkFileHyps` — `TreeSmall` (RIFF's 32-bit sizes), `PlatformClean` (no raw `cmd` with an
index-bearing opcode; only used for the numbering), `SeqFits` (the `seq ` chunk is at most 64 KiB: NOT
always true of the converter, which bounds only the START of each stream — `exported_rejected_of_long_seq`
proves that the strict reader rejects such an export; the linker itself has no such bound),
`SideFilesSmall` (side files below 1 GiB: C14's bound), `PcmKeysAreHeaders` (the PCM-tagged keys of
`used_data_map` select items stored by `add_ins_pcm` — true of every export, the joint invariant of
`read_song`'s maps and the writer's hook is not proved). -/
theorem C15_exported_file_parses_partial {inp : MdsFile.Input} {o : MdsFile.Output}
    (h : MdsFile.exportMds MdsData.Arith.float inp = .ok o) (hl : LinkFileHyps inp o) :
    ∃ s, LinkSpec.parseMds o.file = some s ∧ s.group = inp.group.toUTF8.toList ∧ s.seq = MdsFile.toU8 o.built.seq ∧
      (∀ sl ∈ s.slots, ∀ rate bytes, sl.want = .pcm rate bytes → bytes.length < 1073741824) :=
  exported_parses_partial' h hl.small hl.clean hl.fits hl.files hl.headers

/-- **The link stage on the converter's own output is routed** (partial: `LinkFileHyps`, see
`C15_exported_file_parses_partial`) — what `LinkOK` of round 2 assumed. -/
theorem C15_link_stage_routed_partial {inp : MdsFile.Input} {o : MdsFile.Output}
    (h : MdsFile.exportMds MdsData.Arith.float inp = .ok o) (hl : LinkFileHyps inp o) :
    (linkStage o.file).routed :=
  linkStage_routed_of_export h hl

/-- the full statement: no hypothesis besides the successful export -/
def C15_link_stage_routed_full_statement : Prop :=
  ∀ (inp : MdsFile.Input) (o : MdsFile.Output), MdsFile.exportMds MdsData.Arith.float inp = .ok o → (linkStage o.file).routed

/-- a serialised container of the converter's shape (one `glob` entry, a 6-byte sequence, group "A", two
bytes of `pcmd`) is accepted by the strict reader, the entry's slot is at offset 4 -/
example : (LinkSpec.parseMds (MdsFile.mdsTree (MdsFile.toU8 [0, 4, 0, 0, 0, 0]) [65] [1, 2] [MdsFile.entryTree 0 0 1 0 [7, 8]]).file).map
    (·.slots.map (·.addr)) = some [4] := by decide +kernel

/-! ### export vgm -/

/-- **The VGM export never takes a non-integer step**, for EVERY `MdDriver.Data`, song and tag map:
`play_step`'s `|next_delta| < 1/10000` branch is unreachable (C07's clock invariant through the export
loop), and no channel function raises that error (`ErrIn` tracing through the 30 functions between
`keyOffPcm` and `exportLoop`, Proofs/PipelineVgmTrace). -/
theorem C15_vgm_never_non_integer (d : MdDriver.Data) (song : Song) (m : MdDriver.TagMap) (st : MdDriver.Stamps) :
    MdDriver.exportSong d song m st ≠ .error .nonInteger :=
  vgm_never_nonInteger d song m st

/-- **The VGM export has no undefined-behaviour outcome** (partial) on the data `read_song` built:
no `vector::at` out of range — the PSG envelope stepper stays inside a well-formed envelope (`EnvOK`:
level bytes and sustain marks, then `00` or `02 pp` with `pp` at or before the mark; the position is a
`uint8_t`, an envelope longer than 256 bytes wraps to position 0; the default envelope ends at position 3
where channels start), the PCM sample lookup indexes `wave_rom`'s headers (`waveMapOK_of_readSong`: the replayed
`wave_map` and `read_song`'s `pcm` branch make the same `add_sample` calls; a PCM-typed id has an entry inside
the header list) —, no non-integer step, no
`VGM_Writer` fault (C08's theorem for banks built by `add_sample`).  `_partial`: `VgmDataHyps` —
`PsgEnvsOK` (every PSG-typed instrument's stored bytes are `EnvOK`: true of `add_ins_psg`'s output, the
induction over `psgToken` / `read_song` is not finished; for `Arith.float` it further needs C11's `SlideOK`),
`FilesSmall` (side files below 1 GiB: C08's/C14's bound). -/
theorem C15_vgm_export_no_ub_partial (inp : MdsFile.Input) (d : MdsFile.DState)
    (hd : MdsFile.readSong MdsData.Arith.float inp.files inp.tags = .ok d) (hv : VgmDataHyps inp d)
    (tm : MdDriver.TagMap) (st : MdDriver.Stamps) :
    match MdDriver.exportSong (driverDataOf d inp.files inp.tags) inp.song tm st with
    | .error .oob | .error .nonInteger | .error (.vgm _) => False
    | _ => True :=
  vgm_export_no_ub_partial2 inp d hd hv.psg hv.files tm st

/-- the full statement: no hypothesis besides `read_song`'s success -/
def C15_vgm_export_no_ub_full_statement : Prop := vgm_export_no_ub_full_statement

/-- `VgmDataHyps` is met by the state of a song without instrument definitions and side files -/
example : VgmDataHyps { song := { tracks := [] } } { st := MdsData.initState false } := by
  refine ⟨?_, fun n f h => (by cases h)⟩
  intro id ty hm ht
  simp only [MdsData.initState, MdsData.mget, List.find?] at hm
  split at hm
  · simp only [Option.map_some, Option.some.injEq] at hm; subst hm; cases ht
  · cases hm

/-! ### the composition -/

/-- **Composite of round 2** (kept; superseded by `C15_pipeline_total_partial` below, whose hypotheses are
per input — `StageHyps`'s `MdsBudgetOK` / `VgmNoUB` / `LinkOK` quantify over all inputs of the stage).  For every text, every set of side files, with or without `-O`,
for the three tools' paths: if the stages listed in `StageHyps` behave and — with `-O` — the parsed
song is in `OptDomain`, then with enough validator steps and optimiser passes the pipeline ends in
output or in an input error carrying a message.  Parse, validate, optimise (on `OptDomain`) and
sample loading are discharged by the theorems above; nothing is assumed about them. -/
theorem C15_pipeline_total_under_stage_hyps (u : Residual) (files : List (String × Bytes)) (opt : Bool) (fmt : Format)
    (hu : StageHyps u fmt) (text : List Nat) (hdom : opt = true → OptInDomain text) :
    ∃ S P, ∀ b : Budget, b.steps ≥ S → b.passes ≥ P → (pipeline u files opt fmt b text).routed := by
  unfold pipeline pipelineS
  have hp := parseStage_routed text
  cases hps : parseStage text with
  | inputError m =>
    rw [hps] at hp
    exact ⟨0, 0, fun _ _ _ => hp⟩
  | foreign k =>
    rw [hps] at hp
    exact hp.elim
  | ok st =>
    simp only []
    · have hend' : hasEndEvent (songOf st) = false := parseStage_noEnd text st hps
      obtain ⟨F, hF⟩ := C15_validate_routed (songOf st) hend'
      obtain ⟨S, P, hSP⟩ : ∃ S P, opt = true → ∀ steps passes, steps ≥ S → passes ≥ P →
          validateSong (songOf st) steps = .ok () → (optimizeStage (songOf st) steps passes).routed := by
        cases opt with
        | false => exact ⟨0, 0, fun h => by cases h⟩
        | true =>
          obtain ⟨S, P, h⟩ := C15_optimize_routed (songOf st) hend' (hdom rfl st hps)
          exact ⟨S, P, fun _ => h⟩
      refine ⟨max F S, P, fun b hs hpz => ?_⟩
      have hv := hF b.steps (by omega)
      cases hvs : validateSong (songOf st) b.steps with
      | inputError m => rw [hvs] at hv; exact hv
      | foreign k => rw [hvs] at hv; exact hv.elim
      | ok _ =>
        simp only []
        have ho : (if opt then optimizeStage (songOf st) b.steps b.passes else Out.ok (songOf st)).routed := by
          cases opt
          · simp [Out.routed]
          · simp only [if_true]; exact hSP rfl b.steps b.passes (by omega) hpz hvs
        cases hos : (if opt then optimizeStage (songOf st) b.steps b.passes else Out.ok (songOf st)) with
        | inputError m => rw [hos] at ho; exact ho
        | foreign k => rw [hos] at ho; exact ho.elim
        | ok song' =>
          simp only []
          cases fmt with
          | mds => exact exportMdsStage_routed u hu (by decide) _ _
          | vgm => exact exportVgmStage_routed u hu rfl _ _
          | link =>
            simp only []
            split
            · exact hu.mdsGap _
            · rename_i hin
              have he := exportMdsStage_routed u hu (by decide) { (mdsInputOf st files).1 with song := song' } (mdsInputOf st files).2
              cases hes : exportMdsStage u { (mdsInputOf st files).1 with song := song' } (mdsInputOf st files).2 with
              | inputError m => rw [hes] at he; exact he
              | foreign k => rw [hes] at he; exact he.elim
              | ok mds =>
                obtain ⟨o, ho1, ho2⟩ := exportMdsStage_ok (by simpa using hin) hes
                have := hu.linkOK rfl _ o ho1
                rw [ho2] at this
                exact Out.map_routed _ _ this

/-- **Composite (partial), hypotheses per input.**  For every text, every set of side files, with or
without `-O`, for the three tools' paths: with enough validator steps and optimiser passes the pipeline
ends in output or in an input error carrying a message, given `ExportHyps` (Proofs/PipelineRound3) —
conditions about the inputs THIS run hands to its export stage (`Reaches`: the parsed song, or with `-O`
a result of the optimise stage), each a conjunction of named conditions:
mds / link — the MODEL's writer budget is not exhausted on the song; vgm — `VgmDataHyps` (`PsgEnvsOK`,
`FilesSmall`; the non-integer step and the PCM lookup need nothing); link — `LinkFileHyps` (`TreeSmall`,
`PlatformClean`, `SeqFits`, `SideFilesSmall`, `PcmKeysAreHeaders`); the two residuals routed; and with `-O`
the parsed song in `OptDomain`.  Parse, validate, optimise (on `OptDomain`), sample loading, the
converter's undefined-behaviour constructors, the linker on an accepted file and the driver's clock are
discharged by the theorems above. -/
theorem C15_pipeline_total_partial (u : Residual) (files : List (String × Bytes)) (opt : Bool) (fmt : Format)
    (text : List Nat) (hu : ExportHyps u files opt fmt text) (hdom : opt = true → OptInDomain text) :
    ∃ S P, ∀ b : Budget, b.steps ≥ S → b.passes ≥ P → (pipeline u files opt fmt b text).routed := by
  unfold pipeline pipelineS
  have hp := parseStage_routed text
  cases hps : parseStage text with
  | inputError m =>
    rw [hps] at hp
    exact ⟨0, 0, fun _ _ _ => hp⟩
  | foreign k =>
    rw [hps] at hp
    exact hp.elim
  | ok st =>
    simp only []
    · have hend' : hasEndEvent (songOf st) = false := parseStage_noEnd text st hps
      obtain ⟨F, hF⟩ := C15_validate_routed (songOf st) hend'
      obtain ⟨S, P, hSP⟩ : ∃ S P, opt = true → ∀ steps passes, steps ≥ S → passes ≥ P →
          validateSong (songOf st) steps = .ok () → (optimizeStage (songOf st) steps passes).routed := by
        cases opt with
        | false => exact ⟨0, 0, fun h => by cases h⟩
        | true =>
          obtain ⟨S, P, h⟩ := C15_optimize_routed (songOf st) hend' (hdom rfl st hps)
          exact ⟨S, P, fun _ => h⟩
      refine ⟨max F S, P, fun b hs hpz => ?_⟩
      have hv := hF b.steps (by omega)
      cases hvs : validateSong (songOf st) b.steps with
      | inputError m => rw [hvs] at hv; exact hv
      | foreign k => rw [hvs] at hv; exact hv.elim
      | ok _ =>
        simp only []
        have ho : (if opt then optimizeStage (songOf st) b.steps b.passes else Out.ok (songOf st)).routed := by
          cases opt
          · simp [Out.routed]
          · simp only [if_true]; exact hSP rfl b.steps b.passes (by omega) hpz hvs
        cases hos : (if opt then optimizeStage (songOf st) b.steps b.passes else Out.ok (songOf st)) with
        | inputError m => rw [hos] at ho; exact ho
        | foreign k => rw [hos] at ho; exact ho.elim
        | ok song' =>
          simp only []
          have hreach : Reaches st opt song' := by
            unfold Reaches
            cases opt
            · simp only [Bool.false_eq_true, if_false] at hos ⊢
              injection hos with hos
              exact hos.symm
            · simp only [if_true] at hos ⊢
              exact ⟨b.steps, b.passes, hos⟩
          cases fmt with
          | mds => exact exportMdsStage_routed3 u hu.mdsGap _ _ (hu.budget (by decide) st song' hps hreach)
          | vgm => exact exportVgmStage_routed3 u hu.vgmPlay hu.mdsGap _ _ (fun d hd => hu.vgm rfl st song' d hps hreach hd)
          | link =>
            simp only []
            split
            · exact hu.mdsGap _
            · rename_i hin
              have he := exportMdsStage_routed3 u hu.mdsGap { (mdsInputOf st files).1 with song := song' } (mdsInputOf st files).2
                (hu.budget (by decide) st song' hps hreach)
              cases hes : exportMdsStage u { (mdsInputOf st files).1 with song := song' } (mdsInputOf st files).2 with
              | inputError m => rw [hes] at he; exact he
              | foreign k => rw [hes] at he; exact he.elim
              | ok mds =>
                obtain ⟨o, ho1, ho2⟩ := exportMdsStage_ok (by simpa using hin) hes
                have := linkStage_routed_of_export ho1 (hu.link rfl st song' o hps hreach ho1)
                rw [ho2] at this
                exact Out.map_routed _ _ this

/-- **The mds export path without `-O`, no residual at all (partial).**  For every text that parses
into a state `st` whose definitions and platform commands are inside the converter's models
(`mdsOutside … = false`, decided by evaluation) and whose conversion stays within the model's
writer budget (`ferrIsBudget`, decided by evaluation): with enough validator steps `mmlc -f mds`
ends in the file or in an `InputError` with a message — whatever the residuals are (they are not
reached).  `_partial`: the two hypotheses are about the MODEL (coverage of C09/C11's models, the
model's own step budget), not about the code. -/
theorem C15_pipeline_total_mds_partial (u : Residual) (files : List (String × Bytes)) (text : List Nat)
    (st : Mml.MmlState) (hst : parseStage text = .ok st)
    (hin : mdsOutside (mdsInputOf st files).1 (mdsInputOf st files).2 = false)
    (hbud : match MdsFile.exportMds MdsData.Arith.float (mdsInputOf st files).1 with
      | .error e => ferrIsBudget e = false | .ok _ => True) :
    ∃ S, ∀ b : Budget, b.steps ≥ S → (pipeline u files false .mds b text).routed := by
  obtain ⟨F, hF⟩ := C15_validate_routed (songOf st) (parseStage_noEnd text st hst)
  refine ⟨F, fun b hb => ?_⟩
  unfold pipeline pipelineS
  rw [hst]
  simp only []
  have hv := hF b.steps hb
  cases hvs : validateSong (songOf st) b.steps with
  | inputError m => rw [hvs] at hv; exact hv
  | foreign k => rw [hvs] at hv; exact hv.elim
  | ok _ =>
    simp only [Bool.false_eq_true, if_false]
    have hinp : ({ (mdsInputOf st files).1 with song := songOf st } : MdsFile.Input) = (mdsInputOf st files).1 := rfl
    rw [hinp]
    unfold mdsOutside at hin
    simp only [Bool.or_eq_false_iff] at hin
    unfold exportMdsStage
    rw [if_neg (by simp [hin.1])]
    obtain ⟨h3, h4⟩ := exportMds_no_bank_no_at (mdsInputOf st files).1
    split
    · trivial
    · rename_i e he
      rw [he] at hbud h3 h4 hin
      obtain ⟨h1, h2⟩ := exportMds_err _ e he
      refine ferrOut_routed _ u.mdsGap e (fun hd => ?_) hbud h1 h2 (fun hb' => h3 (by rw [hb'])) (fun hi => h4 (by rw [hi]))
      rw [hd] at hin
      simp at hin

/-- its hypotheses on a concrete text, decided by evaluation in the kernel (a song whose only track
is not a channel track, so that the kernel does not have to unfold the writer's 20 000 000-step
budget; the check's model stream evaluates them on every generated input) -/
theorem exStar100 : ∃ st, parseStage (Lexer.strBytes "*100 c") = .ok st ∧
    mdsOutside (mdsInputOf st []).1 (mdsInputOf st []).2 = false ∧
    (match MdsFile.exportMds MdsData.Arith.float (mdsInputOf st []).1 with
      | .error e => ferrIsBudget e = false | .ok _ => True) := by
  have key : (match parseStage (Lexer.strBytes "*100 c") with
      | .ok st => !mdsOutside (mdsInputOf st []).1 (mdsInputOf st []).2 &&
          (match MdsFile.exportMds MdsData.Arith.float (mdsInputOf st []).1 with
            | .error e => !ferrIsBudget e | .ok _ => true)
      | _ => false) = true := by decide +kernel
  cases h : parseStage (Lexer.strBytes "*100 c") with
  | ok st =>
    rw [h] at key
    simp only [Bool.and_eq_true, Bool.not_eq_true'] at key
    refine ⟨st, rfl, key.1, ?_⟩
    have k2 := key.2
    split at k2
    · simpa using k2
    · trivial
  | inputError m => rw [h] at key; cases key
  | foreign k => rw [h] at key; cases key

/-- non-vacuity of the composite: residual stages that always succeed; for an mds export of a text
without definitions … the stage hypotheses are Props about the models (not decidable as a whole);
the composite is instantiated on the two residuals below and its conclusion evaluated -/
def okResidual : Residual :=
  { vgmPlay := fun _ _ => .ok [], mdsGap := fun _ => .ok [] }

example : (∀ inp d, (okResidual.vgmPlay inp d).routed) ∧ (∀ inp, (okResidual.mdsGap inp).routed) :=
  ⟨fun _ _ => trivial, fun _ => trivial⟩

example : clsOf (pipeline okResidual [] false .vgm { steps := 50, passes := 1 } (Lexer.strBytes "A [c")) = 1 ∧
    clsOf (pipeline okResidual [] false .link { steps := 50, passes := 1 } (Lexer.strBytes "A *1")) = 1 := by
  refine ⟨by decide +kernel, by decide +kernel⟩

/-- `ExportHyps` of `C15_pipeline_total_partial` on a concrete text (mds path, no `-O`): the only input
that reaches the export stage is the parsed song, and the budget condition is decided by evaluation -/
example : ExportHyps okResidual [] false .mds (Lexer.strBytes "*100 c") := by
  obtain ⟨st0, h0, _, hb⟩ := exStar100
  refine ⟨fun _ st song' hps hr => ?_, fun h => (by cases h), fun h => (by cases h), fun _ _ => trivial, fun _ => trivial⟩
  rw [h0] at hps
  injection hps with hps
  subst hps
  have : song' = songOf st0 := by simpa [Reaches] using hr
  subst this
  exact hb

/-- `OptInDomain` on a concrete text (decided by evaluation: `optInDomain_of_check`) -/
example : OptInDomain (Lexer.strBytes "A o4l4 cdefg") := optInDomain_of_check _ (by decide +kernel)

/-- **Termination of the modelled part**: under the same hypotheses the pipeline never answers
`foreign "hang"` (the outcome of the validator's, optimiser's and writer's step budgets). -/
theorem C15_pipeline_terminates (u : Residual) (files : List (String × Bytes)) (opt : Bool) (fmt : Format)
    (text : List Nat) (hu : ExportHyps u files opt fmt text) (hdom : opt = true → OptInDomain text) :
    ∃ S P, ∀ b : Budget, b.steps ≥ S → b.passes ≥ P → pipeline u files opt fmt b text ≠ .foreign "hang" := by
  obtain ⟨S, P, h⟩ := C15_pipeline_total_partial u files opt fmt text hu hdom
  refine ⟨S, P, fun b hs hp heq => ?_⟩
  have := h b hs hp
  rw [heq] at this
  exact this

/-- **The components modelled for other properties have no undefined-behaviour outcome**
(collected): the WAV reader (C14, through `loadWav`), the RIFF reader and walker (C13), the
configuration parser (C20: no read past the NUL, no unbounded loop), the VGM writer (C08: no
store outside the buffer). -/
theorem C15_modelled_components_never_foreign :
    (∀ f : Bytes, loadWav f ≠ .error .oob ∧ loadWav f ≠ .error .hang) ∧
    (∀ r : Riff.Riff, Riff.getChunk r ≠ .error .oob) ∧
    (∀ b : Bytes, Riff.ofBytes b ≠ .error .oob) ∧
    (∀ s : List Char, ConfModel.fromString s ≠ .error .oob ∧ ConfModel.fromString s ≠ .error .fuel) ∧
    (∀ (version headerSize : Nat) (ops : List Vgm.Op), headerSize ≤ Vgm.initialAlloc →
        Vgm.run version headerSize ops ≠ .error .heapOverflow) :=
  ⟨fun f => ⟨(C15_wav_reader_total f).2.1, (C15_wav_reader_total f).2.2.1⟩,
   Riff.C13_no_oob, Riff.C13_ofBytes_no_oob,
   fun s => ⟨ConfModel.C20_conf_no_oob s, ConfModel.C20_conf_terminates s⟩,
   fun v h ops hh => Vgm.C08_no_overflow v h ops hh⟩

/-- The full statement over the pipeline model: the conclusion of `C15_pipeline_total_partial`
with residual stages that are themselves routed and NO hypothesis on the modelled stages (neither
`ExportHyps`'s budget / `VgmDataHyps` / `LinkFileHyps` nor `OptInDomain`). -/
def C15_full_statement : Prop :=
  ∀ (u : Residual), (∀ inp d, (u.vgmPlay inp d).routed) → (∀ inp, (u.mdsGap inp).routed) →
    ∀ (files : List (String × Bytes)) (opt : Bool) (fmt : Format) (text : List Nat),
      ∃ S P, ∀ b : Budget, b.steps ≥ S → b.passes ≥ P → (pipeline u files opt fmt b text).routed

end Ctrmml.C15
