import Ctrmml.Model.Vgm
import Ctrmml.Spec.VgmParse
namespace Ctrmml.Vgm
theorem C08_stub : True := trivial
end Ctrmml.Vgm
