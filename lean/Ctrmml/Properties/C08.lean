/-
  C08 — Every exported VGM file is well-formed and self-consistent.  Property theorems only;
  model: Model/Vgm.lean, reader spec: Spec/VgmParse.lean, helper lemmas: Proofs/Vgm.lean.

  Proved here (for ALL inputs, by invariants over operation sequences):
    C08_delay_encoding   – any delay is encoded by 0x61/0x7n waits only, which sum to the delay
    C08_no_overflow      – no operation sequence whatsoever stores outside the allocation
    C08_ctor_header      – the constructed header is determinate and starts the stream invariant
    C08_stream_parses    – every exporter operation sequence followed by `stop` leaves
                           header ++ stream ++ 0x66 with all cells determinate; the VGM reader
                           consumes the stream exactly up to the end marker, `sample_count` equals the sum of
                           the waits (sample_total) which equals the sum of the delays
  Not proved as theorems (checked on every generated case by the spec oracle `analyse`, see
  `C08_full_statement`): the header-field clauses that need read-after-poke reasoning over the
  final file (eof_offset, gd3_offset, hdr[0x18] = sample_count, loop_consistent), the GD3
  string block (gd3_eleven_strings) and determinacy of the cells written by `write_tag`.
-/
import Ctrmml.Proofs.Vgm
namespace Ctrmml.Vgm
open Ctrmml Ctrmml.VgmSpec

/-- delay_encoding: for every delay `d` the bytes `add_delay` emits are read back (in front of
any following bytes) as a list of wait commands — only `61 nn nn` and `7n`, each between 1
and 65535 samples — whose waits sum to exactly `d`. -/
theorem C08_delay_encoding (d : Nat) :
    ∃ cs : List (Nat × Cmd),
      (∀ tail, parseAll (delayBytes d ++ tail) = (parseAll tail).map fun x => (cs ++ x.1, x.2)) ∧
      waits cs = d ∧ ∀ p ∈ cs, ∃ n, p.2 = .wait n ∧ 0 < n ∧ n ≤ 65535 :=
  ⟨delayCmds d, emits_delay d, waits_delayCmds d, delayCmds_all_waits d⟩

example : delayBytes (65535 * 2 + 17) = [0x61, 0xff, 0xff, 0x61, 0xff, 0xff, 0x61, 17, 0] := by decide
example : delayBytes 16 = [0x7f] := by decide

/-- no_overflow: for EVERY sequence of public operations with ANY arguments (writes, delays,
loop points, data blocks, DAC operations, stop, pokes, tags of any size and content), no store
or pointer advance leaves `buffer[0 .. buffer_alloc)`: the `reserve` amounts cover what is
written. -/
theorem C08_no_overflow (version headerSize : Nat) (ops : List Op) (hH : headerSize ≤ initialAlloc) :
    run version headerSize ops ≠ .error .heapOverflow := by
  unfold run
  by_cases h1 : headerSize < 0x38
  · simp [ctor, h1]
  · obtain ⟨s0, pre, hc, inv, _, _⟩ := ctor_inv version headerSize (by omega) hH
    rw [hc]
    have hs := inv.safe
    rcases steps_safe ops s0 hs with ⟨s', h, _⟩ | ⟨e, h, he⟩
    · simp only [h]
      unfold getBuffer
      intro hc
      split at hc
      · cases hp : poke32 s' 4 (s'.pos - 4) with
        | error e =>
          simp only [hp, bind, Except.bind] at hc
          cases hc; exact poke_err _ _ _ _ hp rfl
        | ok s2 =>
          simp only [hp, bind, Except.bind] at hc
          exact cellsToBytes_err _ _ hc (by simp)
      · simp only [bind, Except.bind, pure, Except.pure] at hc
        exact cellsToBytes_err _ _ hc (by simp)
    · simp only [h]; intro hc; cases hc; exact he rfl

example : run 0x61 0x100 [.write 0x52 0 0x28 0xf0, .delay 70000, .setLoop, .stop] ≠ .error .heapOverflow :=
  C08_no_overflow _ _ _ (by decide)

/-- stream_parses + sample_total (+ determinacy up to `stop`): start from any state in which
the header cells are determinate and no command has been written (`StreamInv s pre [] []`; the
constructor followed by header pokes gives such a state).  After ANY sequence of exporter
operations (PSG/YM2612 writes, delays of any size, loop points anywhere, stream data blocks, DAC
stream setup/start/stop) followed by `stop`:
  * the buffer is `header ++ stream ++ [0x66]` and every cell is determinate;
  * the VGM reader consumes `stream` exactly up to the end marker, for any bytes that follow;
  * `sample_count` (the value `stop` pokes into 0x18) is the sum of all waits read, and that
    sum is the sum of all delays requested;
  (that each operation contributes exactly its own commands after the flushed wait is
  `xstep_inv`/`emit_inv` in Proofs/Vgm.lean: `cs' = cs ++ delayCmds pending ++ x.cmds`). -/
theorem C08_stream_parses (xs : List XOp) (s s1 s2 : W) (pre : Bytes) (hv : ∀ x ∈ xs, x.valid)
    (inv : StreamInv s pre [] []) (hp : s.pending = 0)
    (h1 : steps s (xs.map XOp.toOp) = .ok s1) (h2 : stop s1 = .ok s2) :
    ∃ (pre' body : Bytes) (cs : List (Nat × Cmd)),
      s2.mem = (pre' ++ body ++ [0x66]).map some ∧ pre'.length = pre.length ∧
      (∀ tail, parseAll (body ++ 0x66 :: tail) = some (cs, tail)) ∧
      s2.samples = waits cs % 4294967296 ∧
      waits cs = (xs.map XOp.delayOf).sum ∧
      s2.completed = true := by
  obtain ⟨p1, b1, c1, inv1, l1, w1⟩ := xsteps_inv xs hv inv h1
  obtain ⟨p2, b2, c2, m2, l2, e2, sm2, w2, cm2⟩ := stop_inv inv1 h2
  refine ⟨p2, b2, c2, ?_, by rw [l2, l1], e2, sm2, ?_, cm2⟩
  · rw [m2]; simp
  · rw [w2, w1, hp]; simp [waits]

/-- the constructor yields such a start state (header of `headerSize` determinate cells). -/
theorem C08_ctor_header (version headerSize : Nat) (h1 : 0x38 ≤ headerSize) (h2 : headerSize ≤ initialAlloc) :
    ∃ s pre, ctor version headerSize = .ok s ∧ StreamInv s pre [] [] ∧ pre.length = headerSize ∧ s.pending = 0 :=
  ctor_inv version headerSize h1 h2

/-- non-vacuity: a concrete exporter run satisfies the hypotheses of `C08_stream_parses` -/
example : ∀ x ∈ [XOp.datablock 0 [1, 2, 3] 3 0, .dacSetup 0 2 0 0x2a 0, .setLoop, .ym false 0x28 0xf0, .delay 70000,
    .dacStart 0 0 3 8000, .psg 0x9f, .delay 3, .dacStop 0], XOp.valid x := by
  intro x hx; simp at hx; rcases hx with rfl | rfl | rfl | rfl | rfl | rfl | rfl | rfl | rfl <;> simp [XOp.valid]

/-- The full property (every clause of DESIGN §6 C08) as one statement over the model; the
clauses beyond the theorems above are established per generated case by the spec oracle. -/
def C08_full_statement : Prop :=
  ∀ (version headerSize : Nat) (pokes : List (Nat × Bytes)) (xs : List XOp) (tags : Tags) (f : Bytes),
    0x38 ≤ headerSize → headerSize ≤ initialAlloc →
    (∀ p ∈ pokes, (0x24 ≤ p.1 ∧ p.1 + p.2.length ≤ 0x34) ∨ (0x38 ≤ p.1 ∧ p.1 + p.2.length ≤ headerSize)) →
    (∀ x ∈ xs, x.valid) → (xs.map XOp.delayOf).sum < 2147483648 →
    (∀ t ∈ tags.toList, validUtf8 (cstr t) = true) →
    run version headerSize (pokes.map (fun p => Op.poke p.1 p.2) ++ xs.map XOp.toOp ++ [.stop, .writeTag tags]) = .ok f →
    f.length < 4294967296 →
    magicOk f ∧ eofOk f ∧
    ∃ cs tail strs, streamIs f cs tail ∧ sampleTotalOk f cs ∧ loopOk f cs ∧ gd3OffsetOk f cs ∧
      gd3Is tail strs ∧ strs.length = 11 ∧
      (∀ i, i < 11 → rendersTag gd3MaxUnits (strs.getD i []) (cstr (tags.toList.getD i [])) = true)

end Ctrmml.Vgm
