/-
  C08 — Every exported VGM file is well-formed and self-consistent.  Property theorems only;
  model: Model/Vgm.lean, reader spec: Spec/VgmParse.lean, helper lemmas: Proofs/Vgm.lean,
  Proofs/VgmHdr.lean, Proofs/VgmInv.lean.

  An export is `run version H (exportOps pokes xs tags)`: construct, the caller's header pokes,
  any sequence `xs` of exporter operations (PSG / YM2612 writes, delays, loop points, stream
  data blocks, DAC stream setup / start / stop), `stop`, `write_tag tags`, `get_buffer`.
  `ExportHyps` collects the quantifier's side conditions: 0x38 ≤ H ≤ initial_buffer_alloc, the
  pokes stay in the caller's header ranges (`SafeOff`: not magic/EOF/GD3/sample/loop/data
  offset fields), stream data blocks have a type < 0x80 and < 2 GiB, the delays sum to < 2^31
  samples, every tag decodes (no `range_error`).  The clauses that speak about 32-bit offset
  fields additionally assume the file is shorter than 4 GiB.

  All clauses of DESIGN §6 C08 are theorems here, for all operation sequences:
    C08_delay_encoding, C08_no_overflow, C08_no_indeterminate_byte, C08_eof_offset,
    C08_stream_parses, C08_sample_total_header, C08_gd3_offset, C08_loop_consistent,
    C08_gd3_eleven_strings, C08_clocks_declared, C08_pcm_stream_in_block.

  GD3 text (model decoder `utf8ToUtf16` against the reader-side `utf8OfUnits`, Proofs/Utf8.lean):
    C08_utf8_decode_encode, C08_utf16_encode_decode, C08_utf8_valid_tag, C08_utf8_decoder_scalars,
    C08_gd3_renders_tag.

  Whole songs (`Platform::vgm_export` + `MD_Driver` + `get_tags`, Model/MdDriver.lean incl. PCM
  instruments; helper lemmas Proofs/MdExport.lean, Proofs/VgmPcm.lean, Proofs/VgmTagErr.lean):
    C08_invalid_tag_range_error, C08_md_export_hyps (every run of the exporter model satisfies the
    side conditions `ExportHyps` of the writer-level theorems, incl. clock pokes and PCM windows),
    C08_full_partial (the property for every song; extra hypotheses: allocator invariant of the
    wave bank, file < 4 GiB), C08_pcm_windows_are_samples, C08_full_for_reachable_banks (the same for
    every bank reachable in the sense of C14, with the window contents), C08_full_for_built_banks (the same for
    every bank `read_song` builds from WAV files below 1 GiB: no hypothesis on the bank left),
    C08_pcm_offset_regression (the former D11 case on the repaired model), `def C08_full_statement`.
-/
import Ctrmml.Proofs.VgmInv
import Ctrmml.Proofs.Utf8
import Ctrmml.Proofs.VgmTagErr
import Ctrmml.Proofs.MdExport
import Ctrmml.Properties.C14
namespace Ctrmml.Vgm
open Ctrmml Ctrmml.VgmSpec

/-- delay_encoding: for every delay `d` the bytes `add_delay` emits are read back (in front of
any following bytes) as a list of wait commands — only `61 nn nn` and `7n`, each between 1
and 65535 samples — whose waits sum to exactly `d`. -/
theorem C08_delay_encoding (d : Nat) :
    ∃ cs : List (Nat × Cmd),
      (∀ tail, parseAll (delayBytes d ++ tail) = (parseAll tail).map fun x => (cs ++ x.1, x.2)) ∧
      waits cs = d ∧ ∀ p ∈ cs, ∃ n, p.2 = .wait n ∧ 0 < n ∧ n ≤ 65535 :=
  ⟨delayCmds d, emits_delay d, waits_delayCmds d, delayCmds_all_waits d⟩

example : delayBytes (65535 * 2 + 17) = [0x61, 0xff, 0xff, 0x61, 0xff, 0xff, 0x61, 17, 0] := by decide
example : delayBytes 16 = [0x7f] := by decide

/-- no_overflow: for EVERY sequence of public operations with ANY arguments (writes, delays,
loop points, data blocks, DAC operations, stop, pokes, tags of any size and content), no store
or pointer advance leaves `buffer[0 .. buffer_alloc)`: the `reserve` amounts cover what is
written. -/
theorem C08_no_overflow (version headerSize : Nat) (ops : List Op) (hH : headerSize ≤ initialAlloc) :
    run version headerSize ops ≠ .error .heapOverflow := by
  unfold run
  by_cases h1 : headerSize < 0x38
  · simp [ctor, h1]
  · obtain ⟨s0, pre, hc, inv, _, _⟩ := ctor_inv version headerSize (by omega) hH
    rw [hc]
    have hs := inv.safe
    rcases steps_safe ops s0 hs with ⟨s', h, _⟩ | ⟨e, h, he⟩
    · simp only [h]
      unfold getBuffer
      intro hc
      split at hc
      · cases hp : poke32 s' 4 (s'.pos - 4) with
        | error e =>
          simp only [hp, bind, Except.bind] at hc
          cases hc; exact poke_err _ _ _ _ hp rfl
        | ok s2 =>
          simp only [hp, bind, Except.bind] at hc
          exact cellsToBytes_err _ _ hc (by simp)
      · simp only [bind, Except.bind, pure, Except.pure] at hc
        exact cellsToBytes_err _ _ hc (by simp)
    · simp only [h]; intro hc; cases hc; exact he rfl

example : run 0x61 0x100 [.write 0x52 0 0x28 0xf0, .delay 70000, .setLoop, .stop] ≠ .error .heapOverflow :=
  C08_no_overflow _ _ _ (by decide)


variable {version H : Nat} {pokes : List (Nat × Bytes)} {xs : List XOp} {tags : Tags} {f : Bytes}

/-- no_indeterminate_byte (and totality): under the side conditions the export always returns
a buffer — `get_buffer` never meets a cell that was not written (including the cells of
`write_tag`: the GD3 terminators and the skipped length field), no store overflows, no
exception is thrown. -/
theorem C08_no_indeterminate_byte (version : Nat) (hy : ExportHyps H pokes xs tags) :
    ∃ f, run version H (exportOps pokes xs tags) = .ok f :=
  let ⟨f, h, _⟩ := export_all version H pokes xs tags hy
  ⟨f, h⟩

/-- eof_offset: the file starts with "Vgm " and the EOF offset field is file length − 4. -/
theorem C08_eof_offset (hy : ExportHyps H pokes xs tags) (h : run version H (exportOps pokes xs tags) = .ok f)
    (hl : f.length < 4294967296) : magicOk f ∧ eofOk f := by
  obtain ⟨pre, body, lk, hf, hd, _, _, f4, _⟩ := (exported_of_run hy h).shape
  have h38 := hd.h38
  have hpl := hd.plen
  have hlen : H ≤ f.length := by rw [hf]; simp; omega
  refine ⟨?_, ?_, by omega⟩
  · unfold magicOk; rw [hf, List.take_append_of_le_length (by omega)]; exact hd.magic
  · rw [hf, rdLe32_append_left _ _ _ (by omega), ← hf, f4]; congr 1; omega

/-- stream_parses: the data offset field addresses byte `H`; from there the reader consumes
the command stream exactly up to the end marker; the commands are exactly `expected 0 xs`
(per operation: the flushed wait, then the operation's own commands, in order; the final wait
before the end marker); what follows the marker is the GD3 block. -/
theorem C08_stream_parses (hy : ExportHyps H pokes xs tags) (h : run version H (exportOps pokes xs tags) = .ok f) :
    dataStart f = H ∧ streamIs f (expected 0 xs) (gd3Tail tags) := by
  have e := exported_of_run hy h
  have hds := e.dataStart_eq
  obtain ⟨pre, body, lk, hf, hd, hem, _⟩ := e.shape
  refine ⟨hds, ?_, ?_⟩
  · rw [hds, hf]; simp [hd.plen]
  · rw [hds, hf, ← hd.plen, List.drop_left]; exact emits_end hem _

/-- sample_total: the header's total sample count (0x18) is the sum of all waits of the parsed
stream (mod 2^32), and that sum is the sum of all requested delays. -/
theorem C08_sample_total_header (hy : ExportHyps H pokes xs tags) (h : run version H (exportOps pokes xs tags) = .ok f) :
    sampleTotalOk f (expected 0 xs) ∧ waits (expected 0 xs) = (xs.map XOp.delayOf).sum := by
  obtain ⟨pre, body, lk, hf, hd, _, _, _, _, f18, _⟩ := (exported_of_run hy h).shape
  have h38 := hd.h38
  refine ⟨?_, by rw [waits_expected]; omega⟩
  unfold sampleTotalOk
  rw [hf, rdLe32_append_left _ _ _ (by rw [hd.plen]; omega)]; exact f18

/-- gd3_offset: the GD3 offset field addresses the byte right after the end marker. -/
theorem C08_gd3_offset (hy : ExportHyps H pokes xs tags) (h : run version H (exportOps pokes xs tags) = .ok f)
    (hl : f.length < 4294967296) : gd3OffsetOk f (expected 0 xs) := by
  have e := exported_of_run hy h
  have hds := e.dataStart_eq
  obtain ⟨pre, body, lk, hf, hd, _, hsz, _, f14, _⟩ := e.shape
  have h38 := hd.h38
  have hpl := hd.plen
  have hlen : H + body.length + 1 ≤ f.length := by rw [hf]; simp; omega
  have hfield : field32 f 0x14 = H + body.length + 1 - 0x14 := by
    unfold field32
    rw [hf, rdLe32_append_left _ _ _ (by omega), f14]
    simp only [Option.getD_some]; omega
  unfold gd3OffsetOk
  rw [hfield, hds, hsz]; omega

/-- loop_consistent: without a loop point both loop fields are zero.  With one (the last
`set_loop`, `D` samples into the song — `D = 0` included) the loop offset addresses a command
boundary of the parsed stream, exactly `D` samples of waits lie before that boundary, and the
loop sample count (0x20) is total − D.  In both cases the reader's `loopOk` holds. -/
theorem C08_loop_consistent (hy : ExportHyps H pokes xs tags) (h : run version H (exportOps pokes xs tags) = .ok f)
    (hl : f.length < 4294967296) :
    loopOk f (expected 0 xs) ∧
    (match loopD 0 none xs with
     | none => field32 f 0x1c = 0 ∧ field32 f 0x20 = 0
     | some D => ∃ k, k ≤ (expected 0 xs).length ∧
         0x1c + field32 f 0x1c = dataStart f + sizes ((expected 0 xs).take k) ∧
         waits ((expected 0 xs).take k) = D ∧
         rdLe32 f 0x20 = some ((waits (expected 0 xs) - D) % 4294967296)) := by
  have e := exported_of_run hy h
  have hds := e.dataStart_eq
  obtain ⟨pre, body, lk, hf, hd, _, hsz, _, _, _, hloop, hlk⟩ := e.shape
  have h38 := hd.h38
  have hpl := hd.plen
  have hlen : H + body.length + 1 ≤ f.length := by rw [hf]; simp; omega
  have rd : ∀ a, a + 4 ≤ 0x38 → rdLe32 f a = rdLe32 pre a := by
    intro a ha; rw [hf, rdLe32_append_left _ _ _ (by omega)]
  rw [← hlk]
  cases lk with
  | none =>
    obtain ⟨a, b⟩ := hloop
    have f1 : field32 f 0x1c = 0 := by unfold field32; rw [rd _ (by omega), a]; rfl
    have f2 : field32 f 0x20 = 0 := by unfold field32; rw [rd _ (by omega), b]; rfl
    exact ⟨Or.inl ⟨f1, f2⟩, f1, f2⟩
  | some p =>
    obtain ⟨k, D⟩ := p
    obtain ⟨hk, a, b, c⟩ := hloop
    have hst := sizes_take_le (expected 0 xs) k
    have f1 : 0x1c + field32 f 0x1c = dataStart f + sizes ((expected 0 xs).take k) := by
      unfold field32; rw [rd _ (by omega), a, hds]; simp only [Option.getD_some]; omega
    have hw : waits (expected 0 xs) - D = waits ((expected 0 xs).drop k) := by
      have := waits_append ((expected 0 xs).take k) ((expected 0 xs).drop k)
      rw [List.take_append_drop] at this; omega
    refine ⟨Or.inr ⟨k, hk, f1, ?_⟩, k, hk, f1, b, ?_⟩
    · rw [rd _ (by omega), c, hw]
    · rw [rd _ (by omega), c]

/-- gd3_eleven_strings: what follows the end marker is exactly one GD3 block (magic, version
1.00, exact length) whose body splits into exactly eleven NUL-terminated UTF-16LE strings: the
code units of title, title_j, game, game_j, system, system_j, author, author_j, date, creator,
notes (`gd3Units` = the UTF-8 → UTF-16 decoding of the tag, cut at 256 units). -/
theorem C08_gd3_eleven_strings (hy : ExportHyps H pokes xs tags) :
    gd3Is (gd3Tail tags) (tags.toList.map gd3Units) ∧ (tags.toList.map gd3Units).length = 11 := by
  refine ⟨⟨gd3Body tags.toList, rfl, ?_, ?_⟩, rfl⟩
  · have := gd3Body_length tags.toList
    simp [Tags.toList] at this ⊢; omega
  · apply splitStrings_gd3Body
    intro t ht u hu
    obtain ⟨us, hus⟩ := hy.tags t ht
    have hall := utf8_units (cstr t) us hus (mem_cstr t)
    unfold gd3Units at hu
    rw [hus] at hu
    exact hall u (List.mem_of_mem_take hu)

/-- clocks_declared (writer level): if the caller's pokes declare the SN76489 clock (0x0c) and
the YM2612 clock (0x2c) — a non-zero 32-bit poke not overwritten by a later poke — then every
chip-write and stream-setup command of the exported stream finds its chip's clock field
non-zero in the final header (no writer operation disturbs the caller's fields). -/
theorem C08_clocks_declared (hy : ExportHyps H pokes xs tags) (h : run version H (exportOps pokes xs tags) = .ok f)
    (hpsg : ClockPoked pokes 0x0c) (hym : ClockPoked pokes 0x2c) : clocksOk f (expected 0 xs) := by
  obtain ⟨pre, body, lk, hf, hd, _⟩ := (exported_of_run hy h).shape
  have h38 := hd.h38
  have hpl := hd.plen
  have hb : ∀ q ∈ pokes, q.1 + q.2.length ≤ (ctorHdr version H).length := by
    intro q hq
    have := hy.pokes q hq
    have hl := ctorHdr_length version H h38
    unfold SafeOff at this; omega
  have key : ∀ a, ClockPoked pokes a → SafeOff H a 4 → field32 f a ≠ 0 := by
    intro a hc hs
    obtain ⟨c, hc1, hc2⟩ := clock_poked pokes (ctorHdr version H) a hb hc
    unfold field32
    rw [hf, rdLe32_append_left _ _ _ (by unfold SafeOff at hs; omega), hd.keep a hs, hc1]
    exact hc2
  intro p hp off ho
  rcases expected_clock xs 0 p hp off ho with rfl | rfl
  · exact key _ hpsg (by unfold SafeOff; omega)
  · exact key _ hym (by unfold SafeOff; omega)

/-- pcm_stream_in_block (writer level): if every `dac_start` addresses bytes of the type-0 data
blocks written before it (`xsPcm`), then in the parsed stream every stream-start command uses
byte length mode and addresses bytes inside data bank 0 as loaded up to that command. -/
theorem C08_pcm_stream_in_block (hy : ExportHyps H pokes xs tags) (h : run version H (exportOps pokes xs tags) = .ok f)
    (hp : xsPcm 0 xs = true) : streamIs f (expected 0 xs) (gd3Tail tags) ∧ pcmOk (expected 0 xs) :=
  ⟨(C08_stream_parses hy h).2, pcm_expected xs 0 0 hy.valid hp⟩

/-! ### Non-vacuity: the MD exporter's own header pokes and a concrete operation sequence -/

/-- the MD_Driver constructor's pokes, from the regenerated table -/
def mdPokes : List (Nat × Bytes) :=
  Tables.md_vgm_pokes.map fun p => (p.2.1, if p.1 = 4 then le32 p.2.2 else if p.1 = 2 then le16 p.2.2 else [byteOf p.2.2])

def exXs : List XOp :=
  [.datablock 0 [1, 2, 3, 4] 4 0, .dacSetup 0 2 0 0x2a 0, .setLoop, .ym false 0x28 0xf0, .delay 70000,
   .dacStart 0 1 3 8000, .psg 0x9f, .delay 3, .dacStop 0]

def exTags : Tags :=
  { title := [0x41], titleJ := [0xe3, 0x81, 0x82], game := [], gameJ := [], system := [0xf0, 0x9f, 0x98, 0x80], systemJ := [],
    author := [0xc3, 0xa9], authorJ := [], date := [0x32], creator := [], notes := [0x6e] }

example : ExportHyps 0x100 mdPokes exXs exTags :=
  { h38 := by decide, hA := by decide,
    pokes := by simp [mdPokes, Tables.md_vgm_pokes, SafeOff, le16],
    valid := by intro x hx; simp [exXs] at hx; rcases hx with rfl | rfl | rfl | rfl | rfl | rfl | rfl | rfl | rfl <;> simp [XOp.valid],
    delays := by decide,
    tags := by
      intro t ht
      simp [Tags.toList, exTags] at ht
      rcases ht with rfl | rfl | rfl | rfl | rfl | rfl | rfl | rfl | rfl | rfl | rfl <;> exact ⟨_, rfl⟩ }

example : ClockPoked mdPokes 0x2c := ⟨[], 7670454, _, rfl, by decide, by simp [le16]⟩
example : ClockPoked mdPokes 0x0c := ⟨[(0x2c, le32 7670454)], 3579575, _, rfl, by decide, by simp [le16]⟩
example : xsPcm 0 exXs = true := by decide
example : loopD 0 none exXs = some 0 := by decide

/-! ### GD3 text: the decoder of the writer against the reader-side encoder -/

/-- utf8_decode_encode: the writer's UTF-8 → UTF-16 decoder inverts the reader-side encoder
`utf8OfUnits` on EVERY list of 16-bit code units (`units16`, decidable): BMP values, surrogate
pairs and — the decoder being as lenient as libstdc++ — even unpaired surrogates. -/
theorem C08_utf8_decode_encode (us : List Nat) (h : units16 us = true) :
    utf8ToUtf16 (utf8OfUnits us) = .ok us :=
  decode_utf8OfUnits us (by
    intro u hu
    have := List.all_eq_true.mp h u hu
    simpa using this)

example : units16 [0x41, 0xD83D, 0xDE00, 0x3042, 0xDC00, 0xD800] = true := by decide
example : utf8OfUnits [0x41, 0xD83D, 0xDE00, 0x3042] = [0x41, 0xf0, 0x9f, 0x98, 0x80, 0xe3, 0x81, 0x82] := by decide

/-- utf16_encode_decode: on every WELL-FORMED UTF-16 string (`wfUtf16`, decidable: 16-bit units,
every surrogate half of a high–low pair) the reader-side encoder produces well-formed UTF-8
(`validUtf8`) and the writer's decoder gives the string back: with `C08_utf8_valid_tag` the two
are mutually inverse bijections between well-formed UTF-8 and well-formed UTF-16, both denoting
the same scalar values. -/
theorem C08_utf16_encode_decode (us : List Nat) (h : wfUtf16 us = true) :
    validUtf8 (utf8OfUnits us) = true ∧ utf8ToUtf16 (utf8OfUnits us) = .ok us ∧
    (∀ cp ∈ scalarsOfUnits us, isScalar cp = true) ∧ utf8OfUnits us = utf8OfScalars (scalarsOfUnits us) :=
  ⟨valid_utf8OfUnits us h, C08_utf8_decode_encode us (wf_units16 us h), scalars_of_wf us h, utf8OfUnits_eq us⟩

example : wfUtf16 [0x41, 0xD83D, 0xDE00, 0x3042, 0xFFFF] = true ∧ wfUtf16 [0xDC00, 0xD800] = false ∧ wfUtf16 [0xD800] = false := by decide

/-- utf8_valid_tag: every well-formed UTF-8 string (`validUtf8`, Unicode table 3-7) is the UTF-8
form of a list `cps` of Unicode scalar values; the decoder succeeds on it, yields exactly the
UTF-16 forms of those scalar values — a well-formed UTF-16 string (`wfUtf16`, decidable) — and
the string read back (UTF-16 → scalar values, UTF-16 → UTF-8) is the original. -/
theorem C08_utf8_valid_tag (b : Bytes) (h : validUtf8 b = true) :
    ∃ cps us, (∀ cp ∈ cps, isScalar cp = true) ∧ b = utf8OfScalars cps ∧ utf8ToUtf16 b = .ok us ∧
      us = cps.flatMap utf16OfScalar ∧ wfUtf16 us = true ∧ scalarsOfUnits us = cps ∧ utf8OfUnits us = b := by
  obtain ⟨cps, hs, rfl⟩ := validAs_of_valid b h
  have hlt : ∀ cp ∈ cps, cp < 0x110000 := fun cp hc => ((isScalar_iff cp).mp (hs cp hc)).1
  refine ⟨cps, _, hs, rfl, decode_utf8OfScalars cps hlt, rfl, wfUtf16_utf16 cps hs, scalarsOfUnits_utf16 cps hs, ?_⟩
  rw [utf8OfUnits_eq, scalarsOfUnits_utf16 cps hs]

example : validUtf8 [0x41, 0xf0, 0x9f, 0x98, 0x80, 0xe3, 0x81, 0x82, 0xc3, 0xa9] = true := by decide

/-- utf8_decoder_scalars (converse direction, for EVERY byte string the decoder accepts, not
only well-formed ones): the bytes are the UTF-8 forms of code points `cps` (each below
0x110000; 3-byte encoded surrogates are let through) followed by an incomplete sequence of at
most 3 bytes that is dropped; the code units are exactly the UTF-16 forms of `cps`, all 16-bit.
If no code point is a surrogate, the UTF-16 string decodes back to exactly `cps` and re-encodes
to exactly the accepted bytes. -/
theorem C08_utf8_decoder_scalars (b : Bytes) (us : List Nat) (h : utf8ToUtf16 b = .ok us) :
    ∃ cps tail, b = utf8OfScalars cps ++ tail ∧ tail.length ≤ 3 ∧ utf8ToUtf16 tail = .ok [] ∧
      us = cps.flatMap utf16OfScalar ∧ (∀ cp ∈ cps, cp < 0x110000) ∧
      ((∀ cp ∈ cps, isScalar cp = true) → scalarsOfUnits us = cps ∧ utf8OfUnits us = utf8OfScalars cps) := by
  obtain ⟨cps, tail, h1, h2, h3, h4, h5⟩ := decodedAs_of_decode b us h
  refine ⟨cps, tail, h1, h2, h3, h4, h5, fun hs => ?_⟩
  rw [h4, utf8OfUnits_eq, scalarsOfUnits_utf16 cps hs]
  exact ⟨rfl, rfl⟩

example : utf8ToUtf16 [0x41, 0xe3, 0x81] = .ok [0x41] := rfl
example : utf8ToUtf16 [0xed, 0xa0, 0x80] = .ok [0xD800] := rfl

/-- gd3_renders_tag: for every tag whose C string is well-formed UTF-8, `add_gd3` succeeds and
the stored code units render the tag in the reader's sense (`rendersTag`, the definition the
spec oracle applies to real files): re-encoded to UTF-8 they ARE the tag, or — when the tag has
more than 256 code units — they are exactly 256 units whose UTF-8 form (minus a high surrogate
cut off at the cap) is a prefix of the tag. -/
theorem C08_gd3_renders_tag (t : Bytes) (h : validUtf8 (cstr t) = true) :
    Decodable t ∧ rendersTag gd3MaxUnits (gd3Units t) (cstr t) = true := by
  obtain ⟨cps, us, hs, hb, hd, hus, _, _, hre⟩ := C08_utf8_valid_tag (cstr t) h
  refine ⟨⟨us, hd⟩, ?_⟩
  unfold gd3Units
  rw [hd]
  simp only []
  unfold rendersTag
  by_cases hl : us.length ≤ gd3MaxUnits
  · rw [List.take_of_length_le hl, hre]; simp
  · split
    · rfl
    · have hlen : (us.take gd3MaxUnits).length = gd3MaxUnits := by rw [List.length_take]; omega
      rw [if_pos (by simp [hlen])]
      have := take_prefix cps hs gd3MaxUnits
      rw [← hus, ← hb] at this
      simp only [List.isPrefixOf_iff_prefix]
      exact this

example : validUtf8 (cstr exTags.system) = true := by decide

/-! ### Whole songs: `Platform::vgm_export` + `MD_Driver` (Model/MdDriver.lean) -/
open MdDriver in
theorem mdPokes_eq : mdPokes = hdrPokes := rfl

/-- invalid_tag_range_error: if some tag does not decode, the export — whatever the operations
were — ends in `std::range_error` thrown by `write_tag`, and in nothing else: every step up to
and including `stop` succeeds (no overflow, no fault), `write_tag` is what fails. -/
theorem C08_invalid_tag_range_error (version H : Nat) (pokes : List (Nat × Bytes)) (xs : List XOp) (tags : Tags)
    (h38 : 0x38 ≤ H) (hA : H ≤ initialAlloc) (hpokes : ∀ p ∈ pokes, SafeOff H p.1 p.2.length)
    (hvalid : ∀ x ∈ xs, x.valid) (hdelays : (xs.map XOp.delayOf).sum < 2147483648)
    (hbad : ∃ t ∈ tags.toList, ¬ Decodable t) :
    run version H (exportOps pokes xs tags) = .error .rangeError :=
  export_bad_tag version H pokes xs tags h38 hA hpokes hvalid hdelays hbad

example : ¬ Decodable [0x41, 0xff] := by
  intro ⟨us, h⟩
  have : utf8ToUtf16 (cstr [0x41, 0xff]) = .error .rangeError := rfl
  rw [this] at h; cases h

open MdDriver in
/-- md_export_hyps (goal: the operation sequence the real exporter produces satisfies the side
conditions of the writer-level theorems).  For EVERY instrument data `d` whose wave bank keeps
its sample windows inside the used rom (`BankOK`; implied by the allocator invariant of C14,
`bankOK_of_inv`), every song and all tags: if the model of `vgm_export` + `MD_Driver` completes
(`exportOps … = .ok ops`: no player error, the song ends or loops within the hour), then `ops` is
an exporter operation sequence `exportOps mdPokes xs tags` where
 * the pokes are the `MD_Driver` constructor's and declare both clocks (`ClockPoked` 0x0c, 0x2c);
 * `xs` starts with ONE type-0 data block holding the used part of the wave rom and the DAC
   stream setup, and contains no other data block;
 * every stream start of `xs` plays (start, length) = the window `position + start`, `size` of
   the sample header `wave_map` assigns to a PCM instrument (`IsPcmSample`), and addresses bytes
   of that block (`xsPcm 0 xs`);
 * all side conditions of `ExportHyps` other than "the tags decode" hold — so `ExportHyps` holds
   exactly when every tag decodes. -/
theorem C08_md_export_hyps (d : Data) (song : Song) (tags : Tags) (ops : List Op) (hb : BankOK d)
    (h : MdDriver.exportOps d song tags = .ok ops) :
    ∃ xs rest, ops = exportOps mdPokes xs tags ∧
      xs = XOp.datablock 0 (pcmBlock d) d.bank.rom.length 0 :: XOp.dacSetup 0 2 0 0x2a 0 :: rest ∧
      (∀ x ∈ rest, ∀ t p m o, x ≠ XOp.datablock t p m o) ∧
      (∀ q ∈ xStarts rest, ∃ s, IsPcmSample d s ∧
        q = (Wave.u32 (s.position + s.start) % 4294967296, s.size % 4294967296)) ∧
      ClockPoked mdPokes 0x0c ∧ ClockPoked mdPokes 0x2c ∧ xsPcm 0 xs = true ∧
      ((∀ t ∈ tags.toList, Decodable t) → ExportHyps 0x100 mdPokes xs tags) ∧
      ((∃ t ∈ tags.toList, ¬ Decodable t) → run 0x61 0x100 ops = .error .rangeError) := by
  obtain ⟨rest, hops, hv, hd, hp, hnb, _, hst⟩ := exportOps_x d song tags ops hb h
  have hvalid : ∀ x ∈ XOp.datablock 0 (pcmBlock d) d.bank.rom.length 0 :: XOp.dacSetup 0 2 0 0x2a 0 :: rest, x.valid := by
    intro x hx
    rcases List.mem_cons.mp hx with rfl | hx
    · refine ⟨by decide, ?_⟩
      have := hb.small
      rw [pcmBlock_length]
      unfold used; omega
    · rcases List.mem_cons.mp hx with rfl | hx
      · trivial
      · exact hv x hx
  have hdel : ((XOp.datablock 0 (pcmBlock d) d.bank.rom.length 0 :: XOp.dacSetup 0 2 0 0x2a 0 :: rest).map XOp.delayOf).sum < 2147483648 := by
    simpa [XOp.delayOf] using hd
  have hpk : ∀ p ∈ mdPokes, SafeOff 0x100 p.1 p.2.length := by
    simp [mdPokes, Tables.md_vgm_pokes, SafeOff, le16]
  refine ⟨_, rest, hops, rfl, hnb, hst, ⟨[(0x2c, le32 7670454)], 3579575, _, rfl, by decide, by simp [le16]⟩,
    ⟨[], 7670454, _, rfl, by decide, by simp [le16]⟩, ?_, ?_, ?_⟩
  · simp only [xsPcm, if_true, Nat.zero_add, pcmBlock_length]; exact hp
  · intro htags
    exact { h38 := by decide, hA := by decide, pokes := hpk, valid := hvalid, delays := hdel, tags := htags }
  · intro hbad
    rw [hops]
    exact export_bad_tag 0x61 0x100 mdPokes _ tags (by decide) (by decide) hpk hvalid hdel hbad

open MdDriver in
/-- the side conditions are met by the empty instrument data (fresh wave bank) -/
example : BankOK ({ ins := [] } : Data) :=
  bankOK_of_inv _ [] (Wave.inv_new Tables.mds_dataWaveRom 0 (by decide) (by decide) (by decide))

/-- the eleven GD3 strings render the eleven tags -/
def TagsRendered (strs : List (List Nat)) (tags : Tags) : Prop :=
  strs.length = 11 ∧ ∀ (i : Nat) (s : List Nat) (t : Bytes), strs[i]? = some s → tags.toList[i]? = some t →
    validUtf8 (cstr t) = true → rendersTag gd3MaxUnits s (cstr t) = true

open MdDriver in
/-- **C08 over the model, for every song** (partial: two extra hypotheses w.r.t.
`C08_full_statement`, named after the statement).  Let `d` be instrument data
whose wave bank satisfies the allocator invariant (`Wave.Inv`: C14 proves it for every bank
built from a new bank by additions), `song` any song, `m` its tag map, `st` the wall
clock / build stamp strings; `tags = finalTags m st` are the eleven strings `get_tags` +
`write_tag` produce.  Then for `exportSong d song m st` (= `Platform::get_export_data(song, 0)`):
 1. if the player/driver part fails (player error, unsupported event, song longer than an hour:
    `exportOps … = .error e`) that error is the outcome;
 2. if it completes (`exportOps … = .ok`), the outcome is decided by the tags alone — a file if
    every tag decodes, `InputError` if some tag is not decodable UTF-8 — and never a fault of
    the writer (heap overflow, indeterminate byte, delay overflow, poke outside the buffer);
 3. every file it returns (shorter than 4 GiB, the range of the 32-bit offset fields) is
    `WellFormed`: magic, EOF offset, data offset 0x100, the stream parses as defined commands up
    to the end marker, header total = sum of the waits, loop offset on a command boundary with
    loop samples = waits from there to the end (or both zero), GD3 offset exact, the clocks of
    SN76489 and YM2612 — the only chips written to — declared, every PCM stream start inside the
    data block, and the GD3 block splits into exactly eleven terminated strings: the decoded
    tags cut at 256 units, each of which renders its tag (`rendersTag`: re-encoded to UTF-8 it IS
    the tag, or a 256-unit prefix of it) whenever the tag is well-formed UTF-8.
Extra hypotheses w.r.t. `C08_full_statement`: (i) `Wave.Inv d.bank rs` in place of "the bank was
built by `add_sample(Tag)` calls on a new bank" — discharged by `C08_full_for_built_banks` for every
bank built from WAV files below 1 GiB (`bankBuilt_inv`; the bound is that of C14's bank theorems)
and by `C08_full_for_reachable_banks` for every bank reachable in C14's sense; before the repair
of D11 (repository commit e0c1e8f) it was false for an `offset=` on freshly placed data,
`C08_pcm_offset_regression`; (ii) `f.length < 2^32` for clause 3 (the offset fields are 32 bits
wide; no bound on the number of writes of a song is proved). -/
theorem C08_full_partial (d : Data) (song : Song) (m : TagMap) (st : Stamps) (rs : List Alloc.Win)
    (hbank : Wave.Inv d.bank rs) :
    (∀ e, MdDriver.exportOps d song (finalTags m st) = .error e → exportSong d song m st = .error e) ∧
    (∀ ops, MdDriver.exportOps d song (finalTags m st) = .ok ops →
      ((∀ t ∈ (finalTags m st).toList, Decodable t) → ∃ f, exportSong d song m st = .ok f) ∧
      ((∃ t ∈ (finalTags m st).toList, ¬ Decodable t) → exportSong d song m st = .error .input)) ∧
    (∀ f, exportSong d song m st = .ok f → f.length < 4294967296 →
      dataStart f = 0x100 ∧ WellFormed f ((finalTags m st).toList.map gd3Units) ∧
      TagsRendered ((finalTags m st).toList.map gd3Units) (finalTags m st)) := by
  have hb := bankOK_of_inv d rs hbank
  unfold exportSong
  generalize finalTags m st = tags
  -- the outcome of the export in terms of the operation list
  have key : ∀ ops, MdDriver.exportOps d song tags = .ok ops →
      ((∀ t ∈ tags.toList, Decodable t) → ∃ xs f, ops = exportOps mdPokes xs tags ∧ ExportHyps 0x100 mdPokes xs tags ∧
          xsPcm 0 xs = true ∧ run 0x61 0x100 ops = .ok f ∧ exportVgm d song tags = .ok f) ∧
      ((∃ t ∈ tags.toList, ¬ Decodable t) → exportVgm d song tags = .error .input) := by
    intro ops hops
    obtain ⟨xs, rest, e1, _, _, _, _, _, hpcm, hy, hbad⟩ := C08_md_export_hyps d song tags ops hb hops
    constructor
    · intro ht
      obtain ⟨f, hf⟩ := C08_no_indeterminate_byte 0x61 (hy ht)
      refine ⟨xs, f, e1, hy ht, hpcm, by rw [e1]; exact hf, ?_⟩
      unfold exportVgm
      rw [hops]
      simp only
      have : run Tables.vgm_export_version Tables.vgm_export_header_size ops = .ok f := by rw [e1]; exact hf
      rw [this]
    · intro hb'
      unfold exportVgm
      rw [hops]
      simp only
      have : run Tables.vgm_export_version Tables.vgm_export_header_size ops = .error .rangeError := hbad hb'
      rw [this]
  have dec_or : (∀ t ∈ tags.toList, Decodable t) ∨ (∃ t ∈ tags.toList, ¬ Decodable t) := by
    rcases Classical.em (∀ t ∈ tags.toList, Decodable t) with h | h
    · exact Or.inl h
    · right
      exact Classical.byContradiction fun hn => h fun t ht => Classical.byContradiction fun hd => hn ⟨t, ht, hd⟩
  refine ⟨?_, ?_, ?_⟩
  · intro e he
    unfold exportVgm
    rw [he]
  · intro ops hops
    obtain ⟨k1, k2⟩ := key ops hops
    exact ⟨fun h => by obtain ⟨_, f, _, _, _, _, hf⟩ := k1 h; exact ⟨f, hf⟩, k2⟩
  · intro f hf hl
    cases hops : MdDriver.exportOps d song tags with
    | error e' => unfold exportVgm at hf; rw [hops] at hf; cases hf
    | ok ops =>
      obtain ⟨k1, k2⟩ := key ops hops
      rcases dec_or with h | h
      · obtain ⟨xs, f', e1, hy, hpcm, hrun, hf'⟩ := k1 h
        rw [hf'] at hf
        cases hf
        rw [e1] at hrun
        have s1 := C08_eof_offset hy hrun hl
        have s2 := C08_stream_parses hy hrun
        have s3 := C08_sample_total_header hy hrun
        have s4 := C08_gd3_offset hy hrun hl
        have s5 := C08_loop_consistent hy hrun hl
        have s6 := C08_gd3_eleven_strings hy
        have s7 := C08_clocks_declared hy hrun ⟨[(0x2c, le32 7670454)], 3579575, _, rfl, by decide, by simp [le16]⟩
          ⟨[], 7670454, _, rfl, by decide, by simp [le16]⟩
        have s8 := C08_pcm_stream_in_block hy hrun hpcm
        refine ⟨s2.1, ⟨s1.1, s1.2, expected 0 xs, gd3Tail tags, s2.2, s3.1, s5.1, s4, s7, s8.2, s6.1⟩, s6.2, ?_⟩
        intro i s t hs ht hv
        rw [List.getElem?_map, ht] at hs
        simp only [Option.map_some, Option.some.injEq] at hs
        subst hs
        exact (C08_gd3_renders_tag t hv).2
      · rw [k2 h] at hf; cases hf

/-! ### Non-vacuity of the song-level theorems: a PCM instrument on FM channel 6 -/
open MdDriver in
/-- wave bank of 64 bytes holding one 4-byte sample (8000 Hz) -/
def exPcmBank : Wave.Bank :=
  match Wave.addSample (Wave.Bank.new 64 0) ⟨0, 0, 4, 0, 0, 8000, 0, 0⟩ [1, 2, 3, 4] with
  | .ok (b, _) => b
  | .error _ => Wave.Bank.new 0 0

open MdDriver in
def exPcmData : Data :=
  { ins := [(30, { type := Tables.mdsdrv_INS_PCM, data := [], transpose := 0 })], bank := exPcmBank, waveMap := [(30, 0)] }

/-- `F @30 c r`: instrument 30, a note, a rest -/
def exPcmSong : Song :=
  { tracks := [(5, [⟨Tables.ev_INS, 30, 0, 0⟩, ⟨Tables.ev_NOTE, 40, 6, 2⟩, ⟨Tables.ev_REST, 0, 0, 4⟩])] }

/-- the hypothesis of `C08_full_partial` / `C08_pcm_windows_are_samples` holds for this bank (C14's step lemma) -/
theorem C08_example_pcm_bank : ∃ rs, Wave.Inv exPcmData.bank rs :=
  ⟨_, (Wave.addSample_step (Wave.Bank.new 64 0) [] ⟨0, 0, 4, 0, 0, 8000, 0, 0⟩ [1, 2, 3, 4] exPcmBank 0
    (Wave.inv_new 64 0 (by decide) (by decide) (by decide)) ⟨by decide⟩ rfl).inv⟩

open MdDriver in
/-- the driver part completes and the operation list really holds the data block, a stream
start over the sample's window and the stop that follows it -/
theorem C08_example_pcm_ops : (match MdDriver.exportOps exPcmData exPcmSong (finalTags [("#title", [[0x41]])] ⟨[0x32], [0x6e]⟩) with
    | .ok ops => (ops.any fun o => match o with | .dacStart 0 0 4 8000 => true | _ => false) &&
                 (ops.any fun o => match o with | .dacStop 0 => true | _ => false) &&
                 (ops.any fun o => match o with | .datablock 0 [1, 2, 3, 4] 64 0 0 => true | _ => false)
    | .error _ => false) = true := by decide +kernel

open MdDriver in
/-- hence (`C08_full_partial`, clause 2) the whole export of this song returns a file … -/
example : ∃ f, exportSong exPcmData exPcmSong [("#title", [[0x41]])] ⟨[0x32], [0x6e]⟩ = .ok f := by
  obtain ⟨rs, hinv⟩ := C08_example_pcm_bank
  have hok := C08_example_pcm_ops
  cases hops : MdDriver.exportOps exPcmData exPcmSong (finalTags [("#title", [[0x41]])] ⟨[0x32], [0x6e]⟩) with
  | error e => rw [hops] at hok; cases hok
  | ok ops =>
    refine ((C08_full_partial exPcmData exPcmSong _ _ rs hinv).2.1 ops hops).1 ?_
    have e : (finalTags [("#title", [[0x41]])] ⟨[0x32], [0x6e]⟩).toList = [[0x41], [], [], [], [], [], [], [], [0x32], [], [0x6e]] := by
      decide +kernel
    rw [e]
    intro t ht
    simp at ht
    rcases ht with rfl | rfl | rfl | rfl | rfl <;> exact ⟨_, rfl⟩

open MdDriver in
/-- … and with an undecodable `#title` it is an input error -/
example : exportSong exPcmData exPcmSong [("#title", [[0xff]])] ⟨[0x32], [0x6e]⟩ = .error .input := by
  obtain ⟨rs, hinv⟩ := C08_example_pcm_bank
  have hok : (match MdDriver.exportOps exPcmData exPcmSong (finalTags [("#title", [[0xff]])] ⟨[0x32], [0x6e]⟩) with
      | .ok _ => true | .error _ => false) = true := by decide +kernel
  cases hops : MdDriver.exportOps exPcmData exPcmSong (finalTags [("#title", [[0xff]])] ⟨[0x32], [0x6e]⟩) with
  | error e => rw [hops] at hok; cases hok
  | ok ops =>
    refine ((C08_full_partial exPcmData exPcmSong _ _ rs hinv).2.1 ops hops).2 ⟨[0xff], ?_, ?_⟩
    · have e : (finalTags [("#title", [[0xff]])] ⟨[0x32], [0x6e]⟩).toList = [[0xff], [], [], [], [], [], [], [], [0x32], [], [0x6e]] := by
        decide +kernel
      rw [e]; simp
    · intro ⟨us, h⟩
      have : utf8ToUtf16 (cstr [0xff]) = .error .rangeError := rfl
      rw [this] at h; cases h

open MdDriver in
/-- pcm_windows_are_samples: in every file the export returns, the data bank a reader assembles
is exactly the block `play_song` wrote (the used part of the wave rom), and every stream-start
command addresses in it exactly the bytes `rom[position + start ..][.. size]` of the sample header
that `wave_map` assigns to a PCM instrument of the song — the window whose content C14
(`C14_inv_histories`, `C14_tag_window`) proves to be the instrument's sample. -/
theorem C08_pcm_windows_are_samples (d : Data) (song : Song) (tags : Tags) (f : Bytes) (rs : List Alloc.Win)
    (hbank : Wave.Inv d.bank rs) (h : exportVgm d song tags = .ok f) :
    ∃ cs tail, streamIs f cs tail ∧ bankOf cs = pcmBlock d ∧
      ∀ w ∈ streamWindows cs, ∃ s, IsPcmSample d s ∧ w = (Wave.Sample.win s).reads d.bank.rom := by
  have hb := bankOK_of_inv d rs hbank
  cases hops : MdDriver.exportOps d song tags with
  | error e' => unfold exportVgm at h; rw [hops] at h; cases h
  | ok ops =>
    obtain ⟨xs, rest, e1, hxs, hnb, hst, _, _, _, hy, hbad⟩ := C08_md_export_hyps d song tags ops hb hops
    have hrun : run 0x61 0x100 ops = .ok f := by
      unfold exportVgm at h
      rw [hops] at h
      simp only at h
      have e : run 0x61 0x100 ops = run Tables.vgm_export_version Tables.vgm_export_header_size ops := rfl
      rw [e]
      cases hr : run Tables.vgm_export_version Tables.vgm_export_header_size ops with
      | error e => rw [hr] at h; cases e <;> cases h
      | ok b => rw [hr] at h; cases h; rfl
    have hdec : ∀ t ∈ tags.toList, Decodable t := by
      intro t ht
      exact Classical.byContradiction fun hn => by
        rw [hbad ⟨t, ht, hn⟩] at hrun; cases hrun
    have hyp := hy hdec
    rw [e1] at hrun
    have hsp := (C08_stream_parses hyp hrun).2
    have hbk : xBank rest = [] := by
      have : ∀ (l : List XOp), (∀ x ∈ l, ∀ t p m o, x ≠ XOp.datablock t p m o) → xBank l = [] := by
        intro l
        induction l with
        | nil => intro _; rfl
        | cons x r ih =>
          intro hl
          have ihr := ih (fun y hy => hl y (by simp [hy]))
          cases x with
          | datablock t p m o => exact absurd rfl (hl _ (by simp) t p m o)
          | psg a => exact ihr
          | ym a b c => exact ihr
          | delay a => exact ihr
          | setLoop => exact ihr
          | dacSetup a b c e g => exact ihr
          | dacStart a b c e => exact ihr
          | dacStop a => exact ihr
      exact this rest hnb
    have hbank' : bankOf (expected 0 xs) = pcmBlock d := by
      rw [bankOf_expected xs hyp.valid, hxs]
      simp [xBank, hbk]
    refine ⟨expected 0 xs, gd3Tail tags, hsp, hbank', ?_⟩
    intro w hw
    rw [streamWindows_eq, hbank', windowsIn_expected, hxs] at hw
    simp only [xStarts, List.mem_map] at hw
    obtain ⟨q, hq, rfl⟩ := hw
    obtain ⟨s, hs, rfl⟩ := hst q hq
    obtain ⟨ins, _, hidx⟩ := hs
    refine ⟨s, ⟨ins, ‹_›, hidx⟩, ?_⟩
    exact window_in_block d hb s (List.mem_of_getElem? hidx)

open MdDriver in
/-- full_for_reachable_banks: `C08_full_partial` and `C08_pcm_windows_are_samples` apply to every
instrument data whose wave bank is reachable in the sense of C14 (`Wave.Reach`: a new bank of
less than 1 GiB followed by any history of `add_sample` calls on data below 1 GiB) — the allocator
invariant is then a theorem (`C14_inv_histories`, no hypothesis on start offsets since the repair of D11), and so is the content of every window:
the bytes a stream start addresses are the bytes requested for that sample (`ws`). -/
theorem C08_full_for_reachable_banks (d : Data) (song : Song) (m : TagMap) (st : Stamps)
    (rs : List Alloc.Win) (ws : List Bytes) (hr : Wave.Reach d.bank rs ws) :
    (∀ ops, MdDriver.exportOps d song (finalTags m st) = .ok ops →
      ((∀ t ∈ (finalTags m st).toList, Decodable t) → ∃ f, exportSong d song m st = .ok f) ∧
      ((∃ t ∈ (finalTags m st).toList, ¬ Decodable t) → exportSong d song m st = .error .input)) ∧
    (∀ f, exportSong d song m st = .ok f → f.length < 4294967296 →
      dataStart f = 0x100 ∧ WellFormed f ((finalTags m st).toList.map gd3Units) ∧
      TagsRendered ((finalTags m st).toList.map gd3Units) (finalTags m st)) ∧
    (∀ f, exportSong d song m st = .ok f → ∃ cs tail, streamIs f cs tail ∧
      ∀ w ∈ streamWindows cs, ∃ (i : Nat) (s : Wave.Sample), d.bank.samples[i]? = some s ∧ IsPcmSample d s ∧ ws[i]? = some w) := by
  obtain ⟨_, hlen, hcont, _, _, _, inv⟩ := Wave.C14_inv_histories d.bank rs ws hr
  obtain ⟨_, h2, h3⟩ := C08_full_partial d song m st rs inv
  refine ⟨h2, h3, ?_⟩
  intro f hf
  obtain ⟨cs, tail, hs, _, hw⟩ := C08_pcm_windows_are_samples d song (finalTags m st) f rs inv hf
  refine ⟨cs, tail, hs, ?_⟩
  intro w hwm
  obtain ⟨s, hps, rfl⟩ := hw w hwm
  obtain ⟨ins, hty, hidx⟩ := hps
  have hlt : (d.waveMap.lookup ins).getD 0 < ws.length := by
    rw [hlen]
    exact (List.getElem?_eq_some_iff.mp hidx).1
  obtain ⟨w', hw'⟩ : ∃ w', ws[(d.waveMap.lookup ins).getD 0]? = some w' := ⟨_, List.getElem?_eq_getElem hlt⟩
  exact ⟨_, s, hidx, ⟨ins, hty, hidx⟩, by rw [hw', hcont _ s w' hidx hw']⟩

/-- the hypothesis of `C08_full_for_reachable_banks` is met by the example bank -/
example : ∃ rs ws, Wave.Reach exPcmData.bank rs ws :=
  ⟨_, _, Wave.Reach.add ⟨⟨0, 0, 4, 0, 0, 8000, 0, 0⟩, [1, 2, 3, 4]⟩ exPcmBank 0
    (Wave.Reach.new 64 0 (by omega) (by omega) (by omega)) ⟨by decide⟩ rfl⟩

open MdDriver in
/-- full_for_built_banks: no hypothesis on the wave bank is left for the banks the driver builds.
For every instrument data whose wave bank `read_song` builds — `add_sample(Tag)` calls on the new
2 MiB bank, any tags (`rate=`, `offset=` included), any files below 1 GiB (`BankBuilt`) — every
song, tag map and stamps, the three clauses of `C08_full_partial` hold and every stream window of a
returned file is the window of a PCM instrument's sample header in the wave rom.  What is still
extra w.r.t. `C08_full_statement`: WAV files of 1 GiB … 2 GiB − 1 (the reader accepts them, C14's
bank theorems do not cover them) and the 4 GiB bound of clause 3. -/
theorem C08_full_for_built_banks (d : Data) (song : Song) (m : TagMap) (st : Stamps) (hb : BankBuilt d.bank) :
    (∀ e, MdDriver.exportOps d song (finalTags m st) = .error e → exportSong d song m st = .error e) ∧
    (∀ ops, MdDriver.exportOps d song (finalTags m st) = .ok ops →
      ((∀ t ∈ (finalTags m st).toList, Decodable t) → ∃ f, exportSong d song m st = .ok f) ∧
      ((∃ t ∈ (finalTags m st).toList, ¬ Decodable t) → exportSong d song m st = .error .input)) ∧
    (∀ f, exportSong d song m st = .ok f → f.length < 4294967296 →
      dataStart f = 0x100 ∧ WellFormed f ((finalTags m st).toList.map gd3Units) ∧
      TagsRendered ((finalTags m st).toList.map gd3Units) (finalTags m st)) ∧
    (∀ f, exportSong d song m st = .ok f → ∃ cs tail, streamIs f cs tail ∧ bankOf cs = pcmBlock d ∧
      ∀ w ∈ streamWindows cs, ∃ s, IsPcmSample d s ∧ w = (Wave.Sample.win s).reads d.bank.rom) := by
  obtain ⟨rs, inv⟩ := bankBuilt_inv d.bank hb
  obtain ⟨h1, h2, h3⟩ := C08_full_partial d song m st rs inv
  exact ⟨h1, h2, h3, fun f hf => C08_pcm_windows_are_samples d song (finalTags m st) f rs inv hf⟩

open MdDriver in
/-- the fresh bank (a song without PCM instruments) is built -/
example : BankBuilt ({ ins := [] } : Data).bank := BankBuilt.new

/-! ### The full statement -/

/-- wave banks `MDSDRV_Data::read_song` can build, files of any size -/
inductive BankBuiltAny : Wave.Bank → Prop
  | new : BankBuiltAny (Wave.Bank.new Tables.mds_dataWaveRom 0)
  | add {b b' : Wave.Bank} (file : Option Bytes) (tag : List String) (idx : Nat) :
      BankBuiltAny b → Wave.addSampleTag b file tag = .ok (b', idx) → BankBuiltAny b'

open MdDriver in
/-- The full statement of C08 over the model: `C08_full_for_built_banks` without the 1 GiB bound on
the WAV files and without the 4 GiB bound on the exported file.  Proved of it: everything, under
those two bounds (`C08_full_for_built_banks`).  Not proved: WAV files between 1 GiB and 2 GiB − 1
(outside C14's `Adm`), exported files of 4 GiB and more (the 32-bit offset fields wrap; no bound on
the number of writes of a song is proved).  Before the repair of D11 (e0c1e8f) the statement was
false: `C08_pcm_offset_regression`. -/
def C08_full_statement : Prop :=
  ∀ (d : Data) (song : Song) (m : TagMap) (st : Stamps), BankBuiltAny d.bank →
    (∀ e, MdDriver.exportOps d song (finalTags m st) = .error e → exportSong d song m st = .error e) ∧
    (∀ ops, MdDriver.exportOps d song (finalTags m st) = .ok ops →
      ((∀ t ∈ (finalTags m st).toList, Decodable t) → ∃ f, exportSong d song m st = .ok f) ∧
      ((∃ t ∈ (finalTags m st).toList, ¬ Decodable t) → exportSong d song m st = .error .input)) ∧
    (∀ f, exportSong d song m st = .ok f →
      dataStart f = 0x100 ∧ WellFormed f ((finalTags m st).toList.map gd3Units) ∧
      TagsRendered ((finalTags m st).toList.map gd3Units) (finalTags m st))

open MdDriver in
/-- the former D11 case in a bank of 32 bytes: a 16-byte sample added with start offset 4 (what
`offset=4` makes of it) -/
def exD11Data : Data :=
  { ins := [(30, { type := Tables.mdsdrv_INS_PCM, data := [], transpose := 0 })],
    bank := (match Wave.addSample (Wave.Bank.new 32 0) ⟨0, 4, 12, 0, 0, 8000, 0, 0⟩
        [0x10, 0x11, 0x12, 0x13, 0x14, 0x15, 0x16, 0x17, 0x18, 0x19, 0x1a, 0x1b, 0x1c, 0x1d, 0x1e, 0x1f] with
      | .ok (b, _) => b
      | .error _ => Wave.Bank.new 0 0),
    waveMap := [(30, 0)] }

open MdDriver in
/-- **The former D11 counterexample, replayed on the repaired model (regression).**  Before
repository commit e0c1e8f the bank stored the first 12 bytes and handed out the window 4..16, so
the export issued `dac_start(0, 4, 12, 8000)` over a 12-byte data block (the PCM clause was false;
the corpus case `c08song … @30=pcm,a.wav,offset=4` replayed it on the real code).  Now the data
block holds exactly the requested bytes `14 … 1f`, the export of `F @30 c r` issues
`dac_start(0, 0, 12, 8000)`, the window lies inside the block (`BankOK`, `xsPcm`). -/
theorem C08_pcm_offset_regression :
    used exD11Data = 12 ∧ BankOK exD11Data ∧
    (match MdDriver.exportOps exD11Data exPcmSong exTags with
     | .ok ops => (ops.any fun o => match o with | .dacStart 0 0 12 8000 => true | _ => false) &&
                  (ops.any fun o => match o with
                    | .datablock 0 [0x14, 0x15, 0x16, 0x17, 0x18, 0x19, 0x1a, 0x1b, 0x1c, 0x1d, 0x1e, 0x1f] 32 0 0 => true
                    | _ => false) &&
                  !(ops.any fun o => match o with | .dacStart 0 4 12 8000 => true | _ => false)
     | .error _ => false) = true ∧
    xsPcm 0 [XOp.datablock 0 (pcmBlock exD11Data) 32 0, XOp.dacSetup 0 2 0 0x2a 0, XOp.dacStart 0 0 12 8000] = true := by
  refine ⟨by decide +kernel, ?_, by decide +kernel, by decide +kernel⟩
  exact bankOK_of_inv _ _ (Wave.addSample_step (Wave.Bank.new 32 0) [] ⟨0, 4, 12, 0, 0, 8000, 0, 0⟩
    [0x10, 0x11, 0x12, 0x13, 0x14, 0x15, 0x16, 0x17, 0x18, 0x19, 0x1a, 0x1b, 0x1c, 0x1d, 0x1e, 0x1f] _ 0
    (Wave.inv_new 32 0 (by decide) (by decide) (by decide)) ⟨by decide⟩ rfl).inv

end Ctrmml.Vgm
