/-
  C17 — Diagnostics point at the offending command.   Property theorems.

  Layers (see checks/c17.py LEVEL_TEXT):
  * reader (`parse_mml_track`): the reference stamped on a command is the position of its first
    non-blank character (`C17_event_ref_is_command_start`), the "unknown MML command" error is
    raised exactly there (`C17_unknown_command_column`); the general column bound for all
    `parse_error` sites is `C17_full_statement_parse_error_column` (NOT proved; carried by the
    fault-injection judge and by model<->code correspondence on every message).
  * player / validators / converter (`Model/Refs` wrappers): dropping the references gives the
    merged models back (`C17_stepR_erase`); an error carries the reference of the command just
    fetched (`C17_error_ref_is_fetched_command`); a missing call target is reported at the JUMP
    itself (`C17_missing_call_is_faulty_command`); at every reachable state `reference` is the
    position of a command on the current track or on a track recorded in a stack frame, i.e. a
    caller (`C17_reference_on_chain`, `C17_structural_error_ref`).
-/
import Ctrmml.Proofs.Refs
import Ctrmml.Proofs.Reader
import Ctrmml.Proofs.Reader2
import Ctrmml.Spec.Diag
namespace Ctrmml.Properties.C17
open Ctrmml Ctrmml.Lexer Ctrmml.TrackBuilder Ctrmml.Refs Ctrmml.Player Ctrmml.Tables

/-! ### player, validator -/

/-- dropping the reference from `stepR` gives `Player.step` (the wrapper changes nothing else) -/
theorem C17_stepR_erase (rs : RSong) (root : List BEvent) (lh : Bool) (s : RState) :
    (match stepR rs root lh s with
     | .ok (s', em) => Except.ok (s'.st, em)
     | .error (e, _) => Except.error e) = step rs.erase (eraseTrack root) lh s.st := by
  unfold stepR
  cases h : step rs.erase (eraseTrack root) lh s.st with
  | error e => simp
  | ok v => cases v; simp

/-- an error of `step_event` carries the reference of the command fetched by that very call; only
when the read ran past the end of the track (synthetic `END`) is it the inherited one -/
theorem C17_error_ref_is_fetched_command (rs : RSong) (root : List BEvent) (lh : Bool) (s : RState)
    (e : PErr) (r : Option Ref) (h : stepR rs root lh s = .error (e, r)) :
    (∀ ev, (codeR rs root s.st.core.track)[s.st.core.position]? = some ev → r = ev.ref) ∧
    ((codeR rs root s.st.core.track)[s.st.core.position]? = none → r = s.ref) := by
  unfold stepR at h
  split at h
  · cases h
    constructor
    · intro ev hev; simp [fetchRef, hev]
    · intro hn; simp [fetchRef, hn]
  · cases h

example : stepR ⟨[]⟩ [{ type := ev_LOOP_END, param := 2, on := 0, off := 0, ref := some ⟨3, 7⟩ }] false initR
    = .error (.unterminatedLoop, some ⟨3, 7⟩) := by rfl

/-- a call to a track that does not exist ("jump destination doesn't exist") is reported at the
faulty `JUMP` command itself: the failing call fetched a real `JUMP` event and the error carries
that event's reference -/
theorem C17_missing_call_is_faulty_command (rs : RSong) (root : List BEvent) (lh : Bool) (s : RState)
    (r : Option Ref) (h : stepR rs root lh s = .error (.jumpMissing, r)) :
    ∃ ev, (codeR rs root s.st.core.track)[s.st.core.position]? = some ev ∧ ev.type = ev_JUMP ∧ r = ev.ref := by
  have hk := stepR_jumpMissing_kind rs root lh s r h
  have hr := C17_error_ref_is_fetched_command rs root lh s _ r h
  cases hev : (codeR rs root s.st.core.track)[s.st.core.position]? with
  | none =>
    exfalso
    rw [codeOf_erase] at hk
    simp only [fetch, getElem?_eraseTrack, hev, Option.map, Option.getD] at hk
    rw [kind_endEvent] at hk; cases hk
  | some ev =>
    refine ⟨ev, rfl, ?_, hr.1 ev hev⟩
    rw [codeOf_erase] at hk
    simp only [fetch, getElem?_eraseTrack, hev, Option.map, Option.getD] at hk
    exact jump_type _ hk

example : stepR ⟨[]⟩ [{ type := ev_JUMP, param := 99, on := 0, off := 0, ref := some ⟨0, 4⟩ }] false initR
    = .error (.jumpMissing, some ⟨0, 4⟩) := by rfl

/-- invariant: `Basic_Player::reference` is always no position at all, or the position of a command
on the current track or on a track recorded in a stack frame (the callers of the current track;
for a loop frame the track the loop is on).  One successful `step_event` preserves it. -/
theorem C17_reference_on_chain (rs : RSong) (root : List BEvent) (lh : Bool) (s s' : RState) (em : Emit)
    (hinv : OnChain rs root s.st.core s.ref) (h : stepR rs root lh s = .ok (s', em)) :
    OnChain rs root s'.st.core s'.ref :=
  stepR_onChain rs root lh s s' em hinv h

/-- structural faults found while playing (unbalanced loop, stray break, missing call target, stack
overflow, bad loop count): the error's position is that of a command on the track being played
when the fault is detected (the offending track) or on a track that calls it.  Stated for any run
of `Track_Validator` from the start of a track: the run reaches a state `s₁` where `step_event`
fails with exactly this error, and the reference is on the chain of `s₁`. -/
theorem C17_structural_error_ref (rs : RSong) (root : List BEvent) (fuel : Nat) (e : PErr) (r : Option Ref)
    (h : runValidatorR rs root fuel initR = .error (e, r)) :
    e = .fuel ∨ ∃ s₁, ReachR rs root false initR s₁ ∧ stepR rs root false s₁ = .error (e, r) ∧
      OnChain rs root s₁.st.core r :=
  runValidatorR_error rs root fuel initR e r (Or.inl rfl) h

example : runValidatorR ⟨[]⟩ [{ type := ev_LOOP_START, param := 0, on := 0, off := 0, ref := some ⟨0, 2⟩ },
                              { type := ev_NOTE, param := 36, on := 24, off := 0, ref := some ⟨0, 4⟩ }] 10 initR
    = .error (.unterminatedLoop, some ⟨0, 4⟩) := by rfl

/-! ### reader -/

/-- `get_token(); unget(c); get_reference()` — what `parse_mml_track` does before stamping a
command: the column is that of the first non-blank character at or after the current position and
the buffer is unchanged (bytes are < 256), i.e. the reference stamped on the events of a command is
the position of the command's first character.  (`k` = that column, inside the line.) -/
theorem C17_event_ref_is_command_start (b : LineBuffer) (hb : ∀ x ∈ b.buf, x < 256)
    (hk : b.column + LineBuffer.countBlanks (b.buf.drop b.column) < b.buf.length) :
    (b.getToken.2).unget b.getToken.1 =
      .ok { buf := b.buf, column := b.column + LineBuffer.countBlanks (b.buf.drop b.column) } ∧
    ¬ isBlank (schar (b.buf[b.column + LineBuffer.countBlanks (b.buf.drop b.column)]'hk)) :=
  Reader.getToken_unget b hb hk

example : ({ buf := [65, 32, 32, 99, 52], column := 1 } : LineBuffer).getToken.2.unget
    ({ buf := [65, 32, 32, 99, 52], column := 1 } : LineBuffer).getToken.1 = .ok { buf := [65, 32, 32, 99, 52], column := 3 } := by rfl

/-- "for a character that is not a command the column is exactly that character's": when the
reader stands on a non-blank character inside the line (where `parse_mml_track` has just stamped
the reference, see the previous theorem) and all three command parsers decline it, none of them
has moved the reader or changed the line, so `parse_error("unknown MML command")` is raised with
exactly the line and column of that character. -/
theorem C17_unknown_command_column (s s1 s2 s3 : Mml.MmlState) (hb : ∀ x ∈ s.inp.lb.buf, x < 256)
    (hk : s.inp.lb.column < s.inp.lb.buf.length)
    (hnb : isBlank (schar (s.inp.lb.buf[s.inp.lb.column]'hk)) = false)
    (h1 : Mml.mmlBasic s = .ok true s1) (h2 : Mml.mmlControl s1 = .ok true s2) (h3 : Mml.mmlEnvelope s2 = .ok true s3) :
    s3 = s ∧ (Mml.parseError "unknown MML command" : Mml.P Unit) s3 =
      .err (.input "unknown MML command" { line := s.inp.line, column := s.inp.lb.column }) s := by
  have hd := Reader2.declined_at_command s hb hk hnb
  have e1 : s1 = s := by
    have := Reader2.mmlBasic_true s s1 h1
    rw [hd] at this; cases this; rfl
  subst e1
  have e2 : s2 = s1 := by
    have := Reader2.mmlControl_true s1 s2 h2
    rw [hd] at this; cases this; rfl
  subst e2
  have e3 : s3 = s2 := by
    have := Reader2.mmlEnvelope_true s2 s3 h3
    rw [hd] at this; cases this; rfl
  subst e3
  exact ⟨rfl, rfl⟩

/-- the hypotheses are satisfiable: `?` on line 4, column 2 of `A ?` is declined by all three -/
example : ∃ s : Mml.MmlState, s.inp.lb.column < s.inp.lb.buf.length ∧
    Mml.mmlBasic s = .ok true s ∧ Mml.mmlControl s = .ok true s ∧ Mml.mmlEnvelope s = .ok true s :=
  ⟨{ inp := { lb := { buf := [65, 32, 63], column := 2 }, line := 4 } }, by decide, by rfl, by rfl, by rfl⟩

/-- the full reader statement of the design (every `parse_error` site of `parse_mml_track`): the
error is on the line being read, at or after the first character of the command being read and at
most one column past the position `get()` reaches after the end of the line (0-based `len + 1`,
printed as `len + 2`).  NOT proved here: it needs a Hoare-style pass over all 40 command
functions of Model/Mml; it is checked on the real messages by the fault-injection judge
(`Spec/Diag.parseOk`) at every command position and by model<->code correspondence. -/
def C17_full_statement_parse_error_column : Prop :=
  ∀ (fuel : Nat) (s s' : Mml.MmlState) (msg : String) (r : Ref),
    MmlFix.parseMmlTrackF fuel s = .err (.input msg r) s' →
    r.line = s.inp.line ∧ s.inp.lb.column ≤ r.column ∧ r.column ≤ s.inp.lb.buf.length + 1

end Ctrmml.Properties.C17
