/-
  C17 — Diagnostics point at the offending command.   Property theorems.

  Layers (see checks/c17.py LEVEL_TEXT):
  * reader (`parse_mml_track` … `read_line`): the reference stamped on a command is the position
    of its first non-blank character (`C17_event_ref_is_command_start`), the "unknown MML command"
    error is raised exactly there (`C17_unknown_command_column`); EVERY `parse_error` of the loop is
    on the line being read, at or after the first character of the command of the failing round and
    at most one past the column `get()` reaches behind the end of the line
    (`C17_parse_error_column`, `C17_parse_error_column_bounds` = the former full statement), every
    `parse_error` of a whole line / file likewise (`C17_line_error_position`,
    `C17_file_error_position`); the two most frequent sites have their exact column
    (`C17_missing_parameter_column`, `C17_illegal_duration_column`).
  * player / validators (`Model/Refs` wrappers): dropping the references gives the merged models
    back (`C17_stepR_erase`); an error carries the reference of the command just fetched
    (`C17_error_ref_is_fetched_command`); a missing call target is reported at the JUMP itself
    (`C17_missing_call_is_faulty_command`); at every reachable state `reference` is the position of
    a command on the current track or on a track recorded in a stack frame, i.e. a caller
    (`C17_reference_on_chain`, `C17_structural_error_ref`).
  * converter (`runWriterR`, `parseTracksR`): an `InputError` carries the reference of the command
    fetched by the failing writer step, or comes unchanged out of the writer of a drum routine
    (`C17_converter_error_ref`); so it is no position or that of a command of a track of the song
    (`C17_converter_error_on_track`).
  * `what()`: `file:line+1:col+1: msg` cut at 199 characters; the prefix is whole whenever it fits
    (`C17_what_layout`) and the judge's reader gives the reference back (`C17_what_reads_back`);
    the whole pipeline's parse stage ties the two (`C17_pipeline_parse_error`).
-/
import Ctrmml.Proofs.Refs
import Ctrmml.Proofs.Reader
import Ctrmml.Proofs.Reader2
import Ctrmml.Proofs.DiagSites
import Ctrmml.Proofs.DiagConv
import Ctrmml.Proofs.DiagWhat
import Ctrmml.Spec.Diag
namespace Ctrmml.Properties.C17
open Ctrmml Ctrmml.Lexer Ctrmml.TrackBuilder Ctrmml.Refs Ctrmml.Player Ctrmml.Tables

/-! ### player, validator -/

/-- dropping the reference from `stepR` gives `Player.step` (the wrapper changes nothing else) -/
theorem C17_stepR_erase (rs : RSong) (root : List BEvent) (lh : Bool) (s : RState) :
    (match stepR rs root lh s with
     | .ok (s', em) => Except.ok (s'.st, em)
     | .error (e, _) => Except.error e) = step rs.erase (eraseTrack root) lh s.st := by
  unfold stepR
  cases h : step rs.erase (eraseTrack root) lh s.st with
  | error e => simp
  | ok v => cases v; simp

/-- an error of `step_event` carries the reference of the command fetched by that very call; only
when the read ran past the end of the track (synthetic `END`) is it the inherited one -/
theorem C17_error_ref_is_fetched_command (rs : RSong) (root : List BEvent) (lh : Bool) (s : RState)
    (e : PErr) (r : Option Ref) (h : stepR rs root lh s = .error (e, r)) :
    (∀ ev, (codeR rs root s.st.core.track)[s.st.core.position]? = some ev → r = ev.ref) ∧
    ((codeR rs root s.st.core.track)[s.st.core.position]? = none → r = s.ref) := by
  unfold stepR at h
  split at h
  · cases h
    constructor
    · intro ev hev; simp [fetchRef, hev]
    · intro hn; simp [fetchRef, hn]
  · cases h

example : stepR ⟨[]⟩ [{ type := ev_LOOP_END, param := 2, on := 0, off := 0, ref := some ⟨3, 7⟩ }] false initR
    = .error (.unterminatedLoop, some ⟨3, 7⟩) := by rfl

/-- a call to a track that does not exist ("jump destination doesn't exist") is reported at the
faulty `JUMP` command itself: the failing call fetched a real `JUMP` event and the error carries
that event's reference -/
theorem C17_missing_call_is_faulty_command (rs : RSong) (root : List BEvent) (lh : Bool) (s : RState)
    (r : Option Ref) (h : stepR rs root lh s = .error (.jumpMissing, r)) :
    ∃ ev, (codeR rs root s.st.core.track)[s.st.core.position]? = some ev ∧ ev.type = ev_JUMP ∧ r = ev.ref := by
  have hk := stepR_jumpMissing_kind rs root lh s r h
  have hr := C17_error_ref_is_fetched_command rs root lh s _ r h
  cases hev : (codeR rs root s.st.core.track)[s.st.core.position]? with
  | none =>
    exfalso
    rw [codeOf_erase] at hk
    simp only [fetch, getElem?_eraseTrack, hev, Option.map, Option.getD] at hk
    rw [kind_endEvent] at hk; cases hk
  | some ev =>
    refine ⟨ev, rfl, ?_, hr.1 ev hev⟩
    rw [codeOf_erase] at hk
    simp only [fetch, getElem?_eraseTrack, hev, Option.map, Option.getD] at hk
    exact jump_type _ hk

example : stepR ⟨[]⟩ [{ type := ev_JUMP, param := 99, on := 0, off := 0, ref := some ⟨0, 4⟩ }] false initR
    = .error (.jumpMissing, some ⟨0, 4⟩) := by rfl

/-- invariant: `Basic_Player::reference` is always no position at all, or the position of a command
on the current track or on a track recorded in a stack frame (the callers of the current track;
for a loop frame the track the loop is on).  One successful `step_event` preserves it. -/
theorem C17_reference_on_chain (rs : RSong) (root : List BEvent) (lh : Bool) (s s' : RState) (em : Emit)
    (hinv : OnChain rs root s.st.core s.ref) (h : stepR rs root lh s = .ok (s', em)) :
    OnChain rs root s'.st.core s'.ref :=
  stepR_onChain rs root lh s s' em hinv h

/-- structural faults found while playing (unbalanced loop, stray break, missing call target, stack
overflow, bad loop count): the error's position is that of a command on the track being played
when the fault is detected (the offending track) or on a track that calls it.  Stated for any run
of `Track_Validator` from the start of a track: the run reaches a state `s₁` where `step_event`
fails with exactly this error, and the reference is on the chain of `s₁`. -/
theorem C17_structural_error_ref (rs : RSong) (root : List BEvent) (fuel : Nat) (e : PErr) (r : Option Ref)
    (h : runValidatorR rs root fuel initR = .error (e, r)) :
    e = .fuel ∨ ∃ s₁, ReachR rs root false initR s₁ ∧ stepR rs root false s₁ = .error (e, r) ∧
      OnChain rs root s₁.st.core r :=
  runValidatorR_error rs root fuel initR e r (Or.inl rfl) h

example : runValidatorR ⟨[]⟩ [{ type := ev_LOOP_START, param := 0, on := 0, off := 0, ref := some ⟨0, 2⟩ },
                              { type := ev_NOTE, param := 36, on := 24, off := 0, ref := some ⟨0, 4⟩ }] 10 initR
    = .error (.unterminatedLoop, some ⟨0, 4⟩) := by rfl

/-! ### reader -/

/-- `get_token(); unget(c); get_reference()` — what `parse_mml_track` does before stamping a
command: the column is that of the first non-blank character at or after the current position and
the buffer is unchanged (bytes are < 256), i.e. the reference stamped on the events of a command is
the position of the command's first character.  (`k` = that column, inside the line.) -/
theorem C17_event_ref_is_command_start (b : LineBuffer) (hb : ∀ x ∈ b.buf, x < 256)
    (hk : b.column + LineBuffer.countBlanks (b.buf.drop b.column) < b.buf.length) :
    (b.getToken.2).unget b.getToken.1 =
      .ok { buf := b.buf, column := b.column + LineBuffer.countBlanks (b.buf.drop b.column) } ∧
    ¬ isBlank (schar (b.buf[b.column + LineBuffer.countBlanks (b.buf.drop b.column)]'hk)) :=
  Reader.getToken_unget b hb hk

example : ({ buf := [65, 32, 32, 99, 52], column := 1 } : LineBuffer).getToken.2.unget
    ({ buf := [65, 32, 32, 99, 52], column := 1 } : LineBuffer).getToken.1 = .ok { buf := [65, 32, 32, 99, 52], column := 3 } := by rfl

/-- "for a character that is not a command the column is exactly that character's": when the
reader stands on a non-blank character inside the line (where `parse_mml_track` has just stamped
the reference, see the previous theorem) and all three command parsers decline it, none of them
has moved the reader or changed the line, so `parse_error("unknown MML command")` is raised with
exactly the line and column of that character. -/
theorem C17_unknown_command_column (s s1 s2 s3 : Mml.MmlState) (hb : ∀ x ∈ s.inp.lb.buf, x < 256)
    (hk : s.inp.lb.column < s.inp.lb.buf.length)
    (hnb : isBlank (schar (s.inp.lb.buf[s.inp.lb.column]'hk)) = false)
    (h1 : Mml.mmlBasic s = .ok true s1) (h2 : Mml.mmlControl s1 = .ok true s2) (h3 : Mml.mmlEnvelope s2 = .ok true s3) :
    s3 = s ∧ (Mml.parseError "unknown MML command" : Mml.P Unit) s3 =
      .err (.input "unknown MML command" { line := s.inp.line, column := s.inp.lb.column }) s := by
  have hd := Reader2.declined_at_command s hb hk hnb
  have e1 : s1 = s := by
    have := Reader2.mmlBasic_true s s1 h1
    rw [hd] at this; cases this; rfl
  subst e1
  have e2 : s2 = s1 := by
    have := Reader2.mmlControl_true s1 s2 h2
    rw [hd] at this; cases this; rfl
  subst e2
  have e3 : s3 = s2 := by
    have := Reader2.mmlEnvelope_true s2 s3 h3
    rw [hd] at this; cases this; rfl
  subst e3
  exact ⟨rfl, rfl⟩

/-- the hypotheses are satisfiable: `?` on line 4, column 2 of `A ?` is declined by all three -/
example : ∃ s : Mml.MmlState, s.inp.lb.column < s.inp.lb.buf.length ∧
    Mml.mmlBasic s = .ok true s ∧ Mml.mmlControl s = .ok true s ∧ Mml.mmlEnvelope s = .ok true s :=
  ⟨{ inp := { lb := { buf := [65, 32, 63], column := 2 }, line := 4 } }, by decide, by rfl, by rfl, by rfl⟩

/-- the full reader statement of the design (every `parse_error` site of `parse_mml_track`): the
error is on the line being read, at or after the column where the loop started and at most one
column past the position `get()` reaches after the end of the line (0-based `len + 1`, printed as
`len + 2`).  Proved below (`C17_parse_error_column_bounds`) by a column logic over all command
functions of Model/Mml (Proofs/DiagHoare, DiagCmd, DiagLine). -/
def C17_full_statement_parse_error_column : Prop :=
  ∀ (fuel : Nat) (s s' : Mml.MmlState) (msg : String) (r : Ref),
    MmlFix.parseMmlTrackF fuel s = .err (.input msg r) s' →
    r.line = s.inp.line ∧ s.inp.lb.column ≤ r.column ∧ r.column ≤ s.inp.lb.buf.length + 1

theorem C17_parse_error_column_bounds : C17_full_statement_parse_error_column :=
  fun fuel s s' msg r h => DiagCol.track_error_bounds fuel s s' msg r h

/-- "the line of the offending command, with a column at or after that command's first character
and at most two past the end of that line" for EVERY `parse_error` raised inside
`parse_mml_track` (all commands of `mml_basic` / `mml_control` / `mml_envelope`, `%`, the
conditional blocks): the failing round of the loop started at a loop head `s₀` (`CmdHead`: reached
from `s` by whole rounds that returned normally); `k` = the column of the first non-blank character
at or behind `s₀`'s column is the first character of the command of that round — the position
`set_reference` stamps (`C17_event_ref_is_command_start`) — it lies inside the line, and the error is
on the line being read at a 0-based column in `[k, len + 1]` (printed `[k + 1, len + 2]`). -/
theorem C17_parse_error_column (fuel : Nat) (s s' : Mml.MmlState) (msg : String) (r : Ref)
    (hc : s.inp.lb.column ≤ s.inp.lb.buf.length)
    (h : MmlFix.parseMmlTrackF fuel s = .err (.input msg r) s') :
    ∃ s₀, DiagCol.CmdHead s s₀ ∧ s₀.inp.line = s.inp.line ∧ s₀.inp.lb.buf.length = s.inp.lb.buf.length ∧
      s.inp.lb.column ≤ s₀.inp.lb.column ∧
      s₀.inp.lb.column + LineBuffer.countBlanks (s₀.inp.lb.buf.drop s₀.inp.lb.column) < s.inp.lb.buf.length ∧
      r.line = s.inp.line ∧
      s₀.inp.lb.column + LineBuffer.countBlanks (s₀.inp.lb.buf.drop s₀.inp.lb.column) ≤ r.column ∧
      r.column ≤ s.inp.lb.buf.length + 1 :=
  DiagCol.track_error_command fuel s s' msg r hc h

/-- `A c  o` on line 3, read from column 1: the failing round is the third one (`o` at column 5);
"missing parameter" is raised at column 6 = the end of the line -/
example : ∃ s', MmlFix.parseMmlTrackF 8 { inp := { lb := { buf := [65, 32, 99, 32, 32, 111], column := 1 }, line := 3 } } =
    .err (.input "missing parameter" { line := 3, column := 6 }) s' := DiagCol.errIs_spec _ _ _ (by decide +kernel)

/-- every `parse_error` raised while a line is read (`read_line`: track list, tag key, every track of
a multi-track line, conditional blocks left open) is on that line at a 0-based column of at most
`len + 1`: "at most two past the end of that line" -/
theorem C17_line_error_position (text : List Nat) (n : Nat) (s s' : Mml.MmlState) (msg : String) (r : Ref)
    (h : MmlFix.readLine text n s = .err (.input msg r) s') : r.line = n ∧ r.column ≤ text.length + 1 :=
  DiagCol.readLine_error text n s s' msg r h

/-- … and of a whole file: the error names one of its lines and a column inside or just behind it -/
theorem C17_file_error_position (ls : List (List Nat)) (n : Nat) (s s' : Mml.MmlState) (msg : String) (r : Ref)
    (h : MmlFix.readLines n ls s = .err (.input msg r) s') :
    ∃ i, ∃ hi : i < ls.length, r.line = n + i ∧ r.column ≤ (ls[i]'hi).length + 1 :=
  DiagCol.readLines_error ls n s s' msg r h

/-- `AB {c/_{C}`: track B leaves its conditional block open; the error is two past the end (0-based 11) -/
example : ∃ s', MmlFix.readLines 0 [[65, 66, 32, 123, 99, 47, 95, 123, 67, 125]] Mml.MmlState.init =
    .err (.input "unterminated conditional block" { line := 0, column := 11 }) s' := DiagCol.errIs_spec _ _ _ (by decide +kernel)

/-- `expect_parameter()` (the parameter of `o Q q C s * @ K v V p E M P G D t T % _ k \=`): its only
error is "missing parameter", raised exactly where `get_num` gave up — at the first non-blank
character behind the command letter, one further when that character is `$` or `x` (`numSkip`) -/
theorem C17_missing_parameter_column (s s' : Mml.MmlState) (hs : Mml.Sane s) (e : Err)
    (h : Mml.expectParameter s = .err e s') :
    e = .input "missing parameter" { line := s.inp.line, column := s.inp.lb.column + DiagCol.numSkip (Mml.suffix s) } ∧
    (numSpan (Mml.suffix s)).1 = none :=
  DiagCol.expectParameter_error s s' hs e h

example : DiagCol.numSkip [32, 32, 36, 63] = 3 ∧ (numSpan [32, 32, 36, 63]).1 = none := by decide +kernel

/-- `read_duration()` (notes, `r ^ l R ~ \`): its only error is "illegal duration", raised directly
behind the number it read (behind the `:` and the number for a frame count) -/
theorem C17_illegal_duration_column (s s' : Mml.MmlState) (hs : Mml.Sane s) (e : Err)
    (h : Mml.readDuration s = .err e s') :
    e = .input "illegal duration"
      { line := s.inp.line,
        column := s.inp.lb.column + (if (Mml.suffix s).head? = some 58 then 1 else 0) +
          (numSpan ((Mml.suffix s).drop (if (Mml.suffix s).head? = some 58 then 1 else 0))).2 } :=
  DiagCol.readDuration_error s s' hs e h

/-- `c:-20 d` read behind the `c`: the error is behind `:-20` -/
example : ∃ s', Mml.readDuration { inp := { lb := { buf := [99, 58, 45, 50, 48, 32, 100], column := 1 }, line := 0 } } =
    .err (.input "illegal duration" { line := 0, column := 5 }) s' := DiagCol.errIs_spec _ _ _ (by decide +kernel)

/-! ### converter -/

/-- every `InputError` that comes out of the converter's loop over the channel tracks was raised
while one of those tracks `evs` was converted, and (`ErrSite`) either by a step of the writer over
that track — then it carries the reference of the command that step fetched (missing instrument,
envelope, platform command, note out of range, wrong instrument type: the faulty command itself;
everything thrown inside the hook of a `JUMP`, re-thrown as "jump destination doesn't exist": the
calling `JUMP`; stack errors: the command that overflowed / underflowed) — or it comes unchanged out
of the writer of a drum routine that a drum-mode `NOTE` converts (recursively an `ErrSite` of that
routine's track) -/
theorem C17_converter_error_ref (rs : RSong) (d : Mds.DataInfo) (ids : List Nat) (c : Mds.Conv)
    (tl : List (Nat × List Mds.MEv)) (x : RErr) (h : parseTracksR rs d ids c tl = .error x) :
    x.err = .fuel ∨ ∃ id evs, id ∈ ids ∧ rs.track? id = some evs ∧ ErrSite rs evs x :=
  parseTracksR_error rs d ids c tl x h

/-- the same for one writer run from any state reached from the start of its track -/
theorem C17_writer_error_ref (rs : RSong) (d : Mds.DataInfo) (root : List BEvent) (fuel steps : Nat)
    (c : Mds.Conv) (w : Mds.WState) (s : RState) (x : RErr) (hs : ReachR rs root false initR s)
    (h : runWriterR rs d root fuel steps c w s = .error x) : x.err = .fuel ∨ ErrSite rs root x :=
  (writerRef rs d fuel).1 steps root c w s x hs h

/-- … hence the reference of a converter error is no position at all, or the position of a command
of the converted track or of a track of the song (a subroutine it calls, a drum routine) -/
theorem C17_converter_error_on_track (rs : RSong) (root : List BEvent) (x : RErr) (h : ErrSite rs root x) :
    x.ref = none ∨ ∃ evs, (evs = root ∨ ∃ id, rs.track? id = some evs) ∧ ∃ e ∈ evs, e.ref = x.ref :=
  errSite_onSomeTrack h

/-- `A @77` (no instrument 77): the error carries the reference of the `@77` command -/
example : (match parseTracksR ⟨[(0, [{ type := ev_INS, param := 77, on := 0, off := 0, ref := some ⟨0, 2⟩ }])]⟩
        { insType := [], envelopeMap := [] } [0] {} [] with
     | .error x => x.ref == some ⟨0, 2⟩ && decide (x.err = .insMissing)
     | .ok _ => false) = true := by
  simp only [parseTracksR, RSong.track?, List.lookup, beq_self_eq_true]
  rw [runWriterR]
  simp only [Mds.hook]
  decide +kernel

example : ErrSite ⟨[]⟩ [{ type := ev_INS, param := 77, on := 0, off := 0, ref := some ⟨0, 2⟩ }]
    { err := .insMissing, ref := some ⟨0, 2⟩, msg := "" } := .own _ initR _ (.refl _) rfl

/-- which command a converter error is about: the event a writer step hands to `event_hook` is the
event that step fetched (so the error's reference, which is the fetched event's, is that of the
event the hook was converting) — except on the final pass of a loop, where a fetched `LOOP_BREAK`
is replaced by the loop's `LOOP_END` event while the reference stays the `LOOP_BREAK`'s -/
theorem C17_hook_item_is_fetched (song : Song) (root : List Event) (lh : Bool) (s st' : Player.PState)
    (it : Player.TraceItem) (h : Player.stepTrace song root lh s = .ok (st', some (some it))) :
    it.ev = Player.fetch (codeOf song root s.core.track) s.core.position ∨
    (Player.fetch (codeOf song root s.core.track) s.core.position).kind = .loopBreak :=
  stepTrace_item_fetched song root lh s st' it h

example : ∃ st' it, Player.stepTrace { tracks := [] } [{ type := ev_INS, param := 77, on := 0, off := 0 }] false Player.initState =
    .ok (st', some (some it)) ∧ it.ev = { type := ev_INS, param := 77, on := 0, off := 0 } := ⟨_, _, rfl, rfl⟩

/-- … and `event_hook` itself (nesting fuel aside) only fails for six kinds of events; for an
instrument command the error is "wrong type" or "doesn't exist" of that instrument, for a `%`
command "not defined" of that command, for a pitch envelope "doesn't exist", for a note outside
drum mode "out of range"; the other three (`JUMP`, drum-mode `NOTE`, `PAN_ENVELOPE`) convert
another track and pass its failure on.  Together with `C17_converter_error_ref`: such an error
carries the position of the instrument / `%` / envelope / note command it is about -/
theorem C17_hook_error_event (song : Song) (d : Mds.DataInfo) (fuel : Nat) (c : Mds.Conv) (w : Mds.WState)
    (it : Player.TraceItem) (x : Mds.WErr) (h : Mds.hook song d fuel c w it = .error x) :
    x = .fuel ∨ HookErrAbout it w.drumEnabled x :=
  hook_error_event song d fuel c w it x h

example : (match Mds.hook { tracks := [] } { insType := [], envelopeMap := [] } 1 {} { drumEnabled := false, inDrum := false, trackId := 0 }
    { ev := { type := ev_INS, param := 77, on := 0, off := 0 }, on := 0, off := 0, insideLoop := false, insideJump := false } with
    | .error x => decide (x = .insMissing)
    | .ok _ => false) = true := by
  simp only [Mds.hook]
  decide +kernel

/-! ### `what()` -/

/-- the text is `file:line+1:col+1: msg` cut at 199 characters; with a null reference the first 199
characters of the message; the prefix `file:line:col: ` is whole whenever it fits, in particular
for every file name of at most 175 characters and line / column numbers of at most ten digits -/
theorem C17_what_layout (file : String) (r : Ref) (msg : String) :
    (whatOf file (some r) msg).toList = (whatPrefix file r ++ msg.toList).take (diagWhatBufSize - 1) ∧
    (whatOf file none msg).toList = msg.toList.take diagWhatNullCopy ∧
    ((whatPrefix file r).length ≤ diagWhatBufSize - 1 →
      (whatOf file (some r) msg).toList =
        whatPrefix file r ++ msg.toList.take (diagWhatBufSize - 1 - (whatPrefix file r).length)) ∧
    (file.length ≤ 175 → r.line + diagWhatLineBase < 10 ^ 10 → r.column + diagWhatColumnBase < 10 ^ 10 →
      (whatPrefix file r).length ≤ diagWhatBufSize - 1) := by
  refine ⟨whatOf_toList file r msg, whatOf_null file msg, whatOf_prefix file r msg, ?_⟩
  intro hf hl hc
  rw [whatPrefix_length]
  have h1 := (Nat.length_repr_le_iff (n := r.line + diagWhatLineBase) (k := 10) (by decide)).mpr hl
  have h2 := (Nat.length_repr_le_iff (n := r.column + diagWhatColumnBase) (k := 10) (by decide)).mpr hc
  rw [← String.length_toList, Nat.toList_repr] at h1 h2
  have : diagWhatBufSize - 1 = 199 := by decide
  omega

example : whatOf "t.mml" (some ⟨2, 4⟩) "unknown MML command" = "t.mml:3:5: unknown MML command" := by decide +kernel

/-- the judge's reader (`Spec/Diag.parseWhat`) applied to the text gives back the file name, the
reference's line and column plus the bases of the format (1, 1: regenerated from the `snprintf`
call) and the message, for every file name without a colon whenever the prefix fits -/
theorem C17_what_reads_back (file : String) (r : Ref) (msg : String) (hcolon : ':' ∉ file.toList)
    (hlen : (whatPrefix file r).length ≤ diagWhatBufSize - 1) :
    Diag.parseWhat (whatOf file (some r) msg) =
      some { file := file, line := r.line + diagWhatLineBase, col := r.column + diagWhatColumnBase,
             msg := String.ofList (msg.toList.take (diagWhatBufSize - 1 - (whatPrefix file r).length)) } :=
  parseWhat_whatOf file r msg hcolon hlen

example : ':' ∉ "my_song.mml".toList ∧ (whatPrefix "my_song.mml" ⟨11, 40⟩).length ≤ diagWhatBufSize - 1 := by decide +kernel

/-- the parse stage of the modelled pipeline (`mmlc`: `open_file`): a rejected input is reported
with `what()` rendered from a reference that names one of the lines of the file and a column of at
most `len + 1` on it -/
theorem C17_pipeline_parse_error (file : String) (lines : List (List Nat)) (h : (runPipeline file lines).stage = .parse)
    (r : Ref) (hr : (runPipeline file lines).ref = some r) :
    (runPipeline file lines).what = some (whatOf file (some r) (runPipeline file lines).msg) ∧
    ∃ hi : r.line < lines.length, r.column ≤ (lines[r.line]'hi).length + 1 := by
  unfold runPipeline at h hr ⊢
  cases hl : MmlFix.readLines 0 lines Mml.MmlState.init with
  | err e s' =>
    rw [hl] at h hr
    simp only []
    cases e with
    | input msg r' =>
      simp only [Option.some.injEq] at hr
      subst hr
      obtain ⟨i, hi, h1, h2⟩ := DiagCol.readLines_error lines 0 _ _ _ _ hl
      have : r'.line = i := by omega
      subst this
      exact ⟨rfl, hi, h2⟩
    | «foreign» k => simp at hr
  | ok a st =>
    exfalso
    rw [hl] at h
    simp only [] at h
    repeat' split at h
    all_goals cases h

end Ctrmml.Properties.C17
