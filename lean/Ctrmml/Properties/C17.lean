import Ctrmml.Model.Refs
import Ctrmml.Spec.Diag
namespace Ctrmml.Properties.C17
open Ctrmml Ctrmml.Refs Ctrmml.Player

/-- dropping the reference from `stepR` gives `Player.step` -/
theorem C17_stepR_erase (rs : RSong) (root : List TrackBuilder.BEvent) (lh : Bool) (s : RState) :
    (match stepR rs root lh s with
     | .ok (s', em) => Except.ok (s'.st, em)
     | .error (e, _) => Except.error e) = step rs.erase (eraseTrack root) lh s.st := by
  unfold stepR
  cases h : step rs.erase (eraseTrack root) lh s.st with
  | error e => simp
  | ok v => cases v; simp

end Ctrmml.Properties.C17
