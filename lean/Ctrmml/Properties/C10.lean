/-
  C10 — Linking preserves every song and every sample.  Property theorems only; helper lemmas
  in Proofs/Linker.lean (and Proofs/Wave.lean for the allocator), model in Model/Linker.lean,
  spec notions in Spec/Link.lean.

  The model is MDSDRV_Linker after the `fix:` commits listed in Model/Linker.lean.  What is
  proved here, for ALL linker states / histories unless a hypothesis says otherwise:
    * C10_unique_data_spec            add_unique_data: stored once, never merged, indices stable
    * C10_seq_bytes_unchanged         linked song = added song outside its pointer slots
    * C10_relocation_sound            every slot holds (flag kept) the offset of the bank entry
                                      whose index add_song recorded, and that entry's bytes are in
                                      the linked bank at that offset
    * C10_song_numbering              header count, table entry per song, even offsets, and the
                                      position a new song takes in the group-ordered map
    * C10_unique_string_terminates    the fuel passed to the recursive unique_string suffices
    * C10_identifiers_unique_valid    generated names are pairwise distinct valid symbols, MIN/MAX
                                      bracket each group, numbers run from 1
    * C10_linker_idempotent_query     queries leave no trace (true after fix 81bf063)
    * C10_pcm_region_sound_partial    one PCM header (any start offset) re-homed by add_song: the
                                      bank entry is the header of a window whose bytes are the
                                      sample's playback window — PARTIAL: the extra hypothesis is the
                                      allocator invariant of C14 for the current wave bank
    * C10_offset_window_regression    the former D11 witness on the repaired linker
    * C10_pcm_histories               invariant over ALL histories of add_song/queries on a fresh linker:
                                      every song of the bank was read from one of the added files, and every
                                      patch entry serves — in the banks as they are now — what the file carried
                                      for that slot; PCM headers address exactly the bytes of the playback window
                                      `pcmd[position+start, +size)` inside the PCM bank get_pcm_data returns, with
                                      the rate's pitch code, under the bank rule; data bank duplicate-free; C14's
                                      allocator invariant
    * C10_pcm_later_songs_keep        split histories: nothing a later song adds changes what an earlier
                                      patch entry resolves to
    * C10_reader_agreement            the linker's chunk walk (readSong = state-free part of add_song) and the
                                      spec reader agree on every byte string the spec reader accepts: same
                                      sequence, group and entries; add_song is the fold over exactly these
    * C10_stored_once                 offsets of non-empty bank entries are equal iff the bytes are equal iff
                                      it is the same entry; equal PCM headers iff equal address, pitch code, size
    * C10_song_resolves_partial       every song of every history whose file the spec reader accepts passes the
                                      spec's executable per-song resolver `LinkSpec.songOk` at its song number
                                      (PARTIAL: bank below 4 GiB)
    * C10_group_key_agrees            keyify = spec symbolOf, group key = spec groupOf, operator< = spec order
    * C10_resolver_songs_partial      the bank's songs in song-number order are the spec's `ordered songs`, pairwise;
                                      the resolver's per-song loop passes
    * C10_full_bank_partial / _fresh  `LinkSpec.resolveBank` returns ok on the linked banks (bank half of the full statement)
    * C10_full_headers_partial        `LinkSpec.resolveHeaders` returns ok on the generated headers (header half)
    * C10_full_partial                = `C10_full_statement` with two extra hypotheses: linked bank below 4 GiB, fewer
                                      than 65536 songs (both needed: 32-bit offsets, 16-bit song count)
  `C10_full_statement` keeps the statement without these two hypotheses.
-/
import Ctrmml.Proofs.Linker
import Ctrmml.Proofs.Wave
import Ctrmml.Proofs.LinkHist
import Ctrmml.Proofs.LinkRead
import Ctrmml.Proofs.LinkStored
import Ctrmml.Proofs.LinkResolve
import Ctrmml.Proofs.LinkOrder
import Ctrmml.Proofs.LinkBank
import Ctrmml.Proofs.LinkHeaders
import Ctrmml.Spec.Link
namespace Ctrmml.Linker
open Ctrmml

/-- add_unique_data on a duplicate-free bank: the returned index holds exactly the data, every
earlier index keeps its entry, the bank stays duplicate-free (identical data is stored once,
different data is never merged), and data already present adds nothing. -/
theorem C10_unique_data_spec (bank : List Bytes) (d : Bytes) (hnd : bank.Nodup) :
    (addUnique bank d).2[(addUnique bank d).1]? = some d ∧
    (∀ (i : Nat) (e : Bytes), bank[i]? = some e → (addUnique bank d).2[i]? = some e) ∧
    (addUnique bank d).2.Nodup ∧
    (d ∈ bank → (addUnique bank d).2 = bank) ∧
    (∀ (i j : Nat) (e : Bytes), (addUnique bank d).2[i]? = some e → (addUnique bank d).2[j]? = some e → i = j) := by
  have key : (addUnique bank d).2[(addUnique bank d).1]? = some d ∧
      (∀ (i : Nat) (e : Bytes), bank[i]? = some e → (addUnique bank d).2[i]? = some e) ∧ (addUnique bank d).2.Nodup ∧
      (d ∈ bank → (addUnique bank d).2 = bank) := by
    unfold addUnique
    cases h : findUnique bank d with
    | some i =>
      exact ⟨(findUnique_some h).1, fun _ _ h => h, hnd, fun _ => rfl⟩
    | none =>
      have hn := findUnique_none h
      refine ⟨by simp, ?_, ?_, fun hm => absurd hm hn⟩
      · intro i e hi
        have hlt : i < bank.length := by
          rcases Nat.lt_or_ge i bank.length with h | h
          · exact h
          · rw [List.getElem?_eq_none h] at hi; cases hi
        simp only
        rw [List.getElem?_append_left hlt]; exact hi
      · simp only
        rw [List.nodup_append]
        exact ⟨hnd, by simp, by intro a ha b hb; simp at hb; subst hb; intro e; subst e; exact hn ha⟩
  refine ⟨key.1, key.2.1, key.2.2.1, key.2.2.2, ?_⟩
  intro i j e hi hj
  have hnd' := key.2.2.1
  have hil : i < (addUnique bank d).2.length := by
    rcases Nat.lt_or_ge i (addUnique bank d).2.length with h | h
    · exact h
    · rw [List.getElem?_eq_none h] at hi; cases hi
  have hjl : j < (addUnique bank d).2.length := by
    rcases Nat.lt_or_ge j (addUnique bank d).2.length with h | h
    · exact h
    · rw [List.getElem?_eq_none h] at hj; cases hj
  rw [List.getElem?_eq_getElem hil] at hi
  rw [List.getElem?_eq_getElem hjl] at hj
  exact (List.getElem_inj hnd').mp (by simp only [Option.some.injEq] at hi hj; rw [hi, hj])

example : (addUnique [[1, 2], [3]] [3]).1 = 1 ∧ (addUnique [[1, 2], [3]] [1, 2, 3]) = (2, [[1, 2], [3], [1, 2, 3]]) := by decide

/-- In the bank returned by get_seq_data, song `i` (0-based; song number `i+1`) is found through
the table entry at `12 + 4i`, at an even offset `o` relative to file position 8, and its bytes
there equal the bytes that were added at every position outside its pointer slots; the length is
unchanged.  Hypothesis: the slots lie inside the song and do not overlap (`PatchWf`; add_song
guarantees the first, a well-formed file the second). -/
theorem C10_seq_bytes_unchanged (l : Linker) (bank : Bytes) (h : getSeqData l = .ok bank)
    (i : Nat) (s : SeqData) (hs : l.songs[i]? = some s) (wf : PatchWf s.data.length s.patch) :
    ∃ o d, rd bank (12 + 4 * i) 4 = be32 o ∧ o % 2 = 0 ∧ rd bank (8 + o) s.data.length = d ∧
      d.length = s.data.length ∧
      ∀ p, (∀ q ∈ s.patch, p ≠ q.1 ∧ p ≠ q.1 + 1) → d[p]? = s.data[p]? := by
  obtain ⟨o, d, offs, _, hp, h1, h2, _, h4⟩ := laid_song (getSeqData_laid l bank h) i s hs
  obtain ⟨p1, p2, _⟩ := patchSong_spec offs s.patch s.data d wf hp
  exact ⟨o, d, h1, h2, by rw [← p1]; exact h4, p1, p2⟩

/-- … and every pointer slot `(addr, v)` of that song now holds, big-endian, the offset `t` of
data-bank entry number `v mod 2^15` with bit 15 of `v` kept (`t < 2^15`, so the flag is exactly
bit 15 of the word), and the bank shows that entry's bytes at `8 + t`. -/
theorem C10_relocation_sound (l : Linker) (bank : Bytes) (h : getSeqData l = .ok bank)
    (i : Nat) (s : SeqData) (hs : l.songs[i]? = some s) (wf : PatchWf s.data.length s.patch) :
    ∃ o d, rd bank (12 + 4 * i) 4 = be32 o ∧ rd bank (8 + o) s.data.length = d ∧
      ∀ q ∈ s.patch, ∃ t e, l.dataBank[q.2 % 32768]? = some e ∧ t < 32768 ∧ t % 2 = 0 ∧
        d[q.1]? = some (byteOf ((t ||| (q.2 / 32768 % 2 * 32768)) / 256)) ∧
        d[q.1 + 1]? = some (byteOf (t ||| (q.2 / 32768 % 2 * 32768))) ∧
        rd bank (8 + t) e.length = e := by
  have L := getSeqData_laid l bank h
  obtain ⟨o, d, offs, hoffs, hp, h1, _, _, h4⟩ := laid_song L i s hs
  obtain ⟨p1, _, p3⟩ := patchSong_spec offs s.patch s.data d wf hp
  refine ⟨o, d, h1, by rw [← p1]; exact h4, ?_⟩
  intro q hq
  obtain ⟨t, ht, b1, b2⟩ := p3 q hq
  have hlen := (layGen_len l.dataBank (4 + 4 * l.songs.length)).2
  have hjl : q.2 % 32768 < l.dataBank.length := by
    rcases Nat.lt_or_ge (q.2 % 32768) l.dataBank.length with h | h
    · exact h
    · rw [hoffs, List.getElem?_eq_none (by omega)] at ht; cases ht
  obtain ⟨t', g1, g2, g3, _, g5⟩ := laid_entry L (q.2 % 32768) _ (List.getElem?_eq_getElem hjl)
  rw [hoffs, g1] at ht
  cases ht
  exact ⟨_, _, List.getElem?_eq_getElem hjl, g2, g3, b1, b2, g5⟩

/-- a linker with one data entry and one song with one slot: the hypotheses are satisfiable -/
example : ∃ l bank s, getSeqData l = .ok bank ∧ l.songs[0]? = some s ∧ PatchWf s.data.length s.patch ∧ s.patch ≠ [] :=
  ⟨{ dataBank := [[7, 8, 9]], seqBank := [([66], [{ filename := [97], data := [0, 2, 0, 0, 5], patch := [(2, 0)] }])],
     wave := Wave.Bank.new 16 4 }, _, _, rfl, rfl, ⟨by decide, by simp, trivial⟩, by simp⟩

/-- Song numbering.  (a) The bank header carries the number of songs, and the song table has one
entry per song in the order of `l.songs`, i.e. group-key order then input order.  (b) add_song's
insertion into the ordered group map: a song whose group exists is appended to that group and
nothing else moves; otherwise a new group is created; the number of songs grows by one. -/
theorem C10_song_numbering :
    (∀ (l : Linker) (bank : Bytes), getSeqData l = .ok bank →
        rd bank 6 2 = be16 l.songs.length ∧ rd bank 0 4 = be32 Tables.link_magic ∧
        ∀ i s, l.songs[i]? = some s → ∃ o, rd bank (12 + 4 * i) 4 = be32 o ∧ o % 2 = 0 ∧ 4 + 4 * l.songs.length ≤ o) ∧
    (∀ (bank : List (Bytes × List SeqData)) (key : Bytes) (sd : SeqData),
        ((seqInsert bank key sd).flatMap (·.2)).length = (bank.flatMap (·.2)).length + 1 ∧
        (∀ pre l post, bank = pre ++ (key, l) :: post → (∀ p ∈ pre, p.1 ≠ key ∧ bytesLt key p.1 = false) →
            seqInsert bank key sd = pre ++ (key, l ++ [sd]) :: post) ∧
        ((∀ p ∈ bank, p.1 ≠ key) → ∃ pre post, bank = pre ++ post ∧ seqInsert bank key sd = pre ++ (key, [sd]) :: post ∧
            (∀ p ∈ pre, bytesLt key p.1 = false) ∧ (∀ p, post.head? = some p → bytesLt key p.1 = true))) := by
  refine ⟨?_, ?_⟩
  · intro l bank h
    have L := getSeqData_laid l bank h
    refine ⟨?_, ?_, ?_⟩
    · obtain ⟨offs, soffs, ds, off2, wt, _, _, _, _, _, h6⟩ := L.ex
      rw [h6]; simp [rd, be32, be16]
    · obtain ⟨offs, soffs, ds, off2, wt, _, _, _, _, _, h6⟩ := L.ex
      rw [h6]; simp [rd, be32, be16]
    · intro i s hs
      obtain ⟨o, d, offs, _, _, h1, h2, h3, _⟩ := laid_song L i s hs
      exact ⟨o, h1, h2, h3⟩
  · intro bank key sd
    refine ⟨songs_seqInsert_length bank key sd, ?_, ?_⟩
    · intro pre l post hb hpre
      subst hb
      induction pre with
      | nil => simp [seqInsert]
      | cons p pre ih =>
        obtain ⟨k, l'⟩ := p
        have hp := hpre (k, l') (List.mem_cons_self ..)
        simp only [List.cons_append, seqInsert]
        rw [if_neg (fun e => hp.1 e.symm), hp.2]
        simp only [Bool.false_eq_true, if_false, List.cons.injEq, true_and]
        exact ih (fun q hq => hpre q (List.mem_cons_of_mem _ hq))
    · intro hno
      induction bank with
      | nil => exact ⟨[], [], rfl, by simp [seqInsert], by simp, by simp⟩
      | cons p bank ih =>
        obtain ⟨k, l'⟩ := p
        have hk := hno (k, l') (List.mem_cons_self ..)
        simp only [seqInsert]
        rw [if_neg (fun e => hk e.symm)]
        by_cases hlt : bytesLt key k = true
        · rw [if_pos hlt]
          exact ⟨[], (k, l') :: bank, rfl, rfl, by simp, by intro p hp; simp at hp; subst hp; exact hlt⟩
        · rw [if_neg hlt]
          obtain ⟨pre, post, e1, e2, e3, e4⟩ := ih (fun q hq => hno q (List.mem_cons_of_mem _ hq))
          refine ⟨(k, l') :: pre, post, by rw [e1]; rfl, by rw [e2]; rfl, ?_, e4⟩
          intro q hq
          rcases List.mem_cons.mp hq with rfl | hq
          · simpa using hlt
          · exact e3 q hq

/-- Termination of the recursive unique_string: with the fuel `uniqueString` passes (one more
than the number of keys in the counter map) the recursion always returns, for every input and
every map.  (Each recursive call makes the string strictly longer while the map gains no key.) -/
theorem C10_unique_string_terminates (input : Bytes) (m : Counter) : (uniqueString input m).isSome = true := by
  obtain ⟨s, m', h, _⟩ := uniqueString_spec input m
  rw [h]; rfl

example : uniqueString [97] [([65], 1), ([65, 95, 49], 1)] = some ([65, 95, 49, 95, 49], [([65], 2), ([65, 95, 49], 2), ([65, 95, 49, 95, 49], 1)]) := by decide

/-- names produced in sequence by unique_string: all valid, non-empty, unused before, used after -/
structure Fresh (m m' : Counter) (names : List Bytes) : Prop where
  mono : ∀ k, m.get k ≤ m'.get k
  unused : ∀ n ∈ names, m.get n = 0
  used : ∀ n ∈ names, 1 ≤ m'.get n
  nodup : names.Nodup
  ok : ∀ n ∈ names, KeyOk n ∧ n ≠ []

/-- expected values: per group `first`, `first … last`, `last` (all as `uint16_t`) -/
def groupValues : List (Bytes × List SeqData) → Nat → List Nat
  | [], _ => []
  | (_, ss) :: rest, id =>
    ((id + 1) % 65536) :: ((List.range ss.length).map fun j => (id + j + 1) % 65536) ++
      ((id + ss.length) % 65536) :: groupValues rest (id + ss.length)

/-- The generated headers: for every state of the group map `headerDefs` returns (unique_string
always terminates), the list has one definition per song plus MIN and MAX per group, all names
are non-empty valid symbols (`[A-Z_][A-Z0-9_]*`: only `A-Z 0-9 _`, not beginning with a digit),
pairwise distinct, and the values are: per group the first song number, the consecutive song
numbers from 1 in group then input order, the last song number. -/
theorem C10_identifiers_unique_valid (l : Linker) :
    ∃ ds, headerDefs l = some ds ∧
      (ds.map (·.1)).Nodup ∧ (∀ d ∈ ds, KeyOk d.1 ∧ d.1 ≠ []) ∧
      ds.map (·.2) = groupValues l.seqBank 0 := by
  have mem95 : ∀ s : Bytes, 95 ∈ s → 95 ∈ keyify s := by
    intro s hs
    have raw : 95 ∈ keyifyRaw s := by
      induction s with
      | nil => cases hs
      | cons c cs ih =>
        unfold keyifyRaw
        rcases List.mem_cons.mp hs with rfl | hs
        · have : isSpace 95 = false := by decide
          rw [this]; simp [show (isDigit 95 || isUpper 95 || (95 : UInt8) == 95) = true by decide]
        · have := ih hs
          split
          · exact List.mem_cons_of_mem _ this
          · split
            · exact List.mem_cons_of_mem _ this
            · split
              · exact List.mem_cons_of_mem _ this
              · exact this
    unfold keyify
    split
    · rename_i h; rw [h] at raw; cases raw
    · rename_i c cs h
      rw [h] at raw
      split
      · exact List.mem_cons_of_mem _ raw
      · exact raw
  have one : ∀ (input : Bytes) (m : Counter), 95 ∈ input →
      ∃ s m', uniqueString input m = some (s, m') ∧ Fresh m m' [s] := by
    intro input m h95
    obtain ⟨s, m', h1, h2, h3, h4, h5, h6⟩ := uniqueString_spec input m
    refine ⟨s, m', h1, h5, by simpa using h3, by simp [h4], by simp, ?_⟩
    intro n hn
    have : n = s := by simpa using hn
    subst this
    refine ⟨h2, ?_⟩
    intro he
    have := h6 95 (mem95 input h95)
    rw [he] at this; cases this
  have app : ∀ {m m1 m2 : Counter} {a b : List Bytes}, Fresh m m1 a → Fresh m1 m2 b → Fresh m m2 (a ++ b) := by
    intro m m1 m2 a b fa fb
    refine ⟨fun k => Nat.le_trans (fa.mono k) (fb.mono k), ?_, ?_, ?_, ?_⟩
    · intro n hn
      rcases List.mem_append.mp hn with hn | hn
      · exact fa.unused n hn
      · have := fb.unused n hn; have := fa.mono n; omega
    · intro n hn
      rcases List.mem_append.mp hn with hn | hn
      · have := fa.used n hn; have := fb.mono n; omega
      · exact fb.used n hn
    · rw [List.nodup_append]
      refine ⟨fa.nodup, fb.nodup, ?_⟩
      intro x hx y hy e
      subst e
      have := fa.used x hx; have := fb.unused x hy; omega
    · intro n hn
      rcases List.mem_append.mp hn with hn | hn
      · exact fa.ok n hn
      · exact fb.ok n hn
  have songs : ∀ (g : Bytes) (ss : List SeqData) (id : Nat) (m : Counter),
      ∃ ds m', headerSongs g ss id m = some (ds, id + ss.length, m') ∧ Fresh m m' (ds.map (·.1)) ∧
        ds.map (·.2) = (List.range ss.length).map fun j => (id + j + 1) % 65536 := by
    intro g ss
    induction ss with
    | nil =>
      intro id m
      exact ⟨[], m, rfl, ⟨fun _ => Nat.le_refl _, by simp, by simp, by simp, by simp⟩, rfl⟩
    | cons s ss ih =>
      intro id m
      obtain ⟨n, m1, h1, f1⟩ := one (g ++ [95] ++ s.filename) m (by simp)
      obtain ⟨ds, m2, h2, f2, v2⟩ := ih (id + 1) m1
      refine ⟨(n, (id + 1) % 65536) :: ds, m2, ?_, ?_, ?_⟩
      · unfold headerSongs
        rw [h1]; simp only; rw [h2]
        simp only [List.length_cons, Option.some.injEq, Prod.mk.injEq, true_and, and_true]
        omega
      · exact app f1 f2
      · rw [List.map_cons, v2, List.length_cons, List.range_succ_eq_map, List.map_cons, List.map_map]
        apply List.cons_eq_cons.mpr
        refine ⟨by simp, ?_⟩
        apply List.map_congr_left
        intro j _
        simp only [Function.comp]
        congr 1; omega
  have groups : ∀ (gs : List (Bytes × List SeqData)) (id : Nat) (m : Counter),
      ∃ ds, headerGroups gs id m = some ds ∧ (∃ m', Fresh m m' (ds.map (·.1))) ∧ ds.map (·.2) = groupValues gs id := by
    intro gs
    induction gs with
    | nil =>
      intro id m
      exact ⟨[], rfl, ⟨m, fun _ => Nat.le_refl _, by simp, by simp, by simp, by simp⟩, rfl⟩
    | cons p gs ih =>
      obtain ⟨g, ss⟩ := p
      intro id m
      obtain ⟨nmin, m1, h1, f1⟩ := one (g ++ ascii "_MIN") m (by simp [ascii])
      obtain ⟨ds, m2, h2, f2, v2⟩ := songs g ss id m1
      obtain ⟨nmax, m3, h3, f3⟩ := one (g ++ ascii "_MAX") m2 (by simp [ascii])
      obtain ⟨tail, h4, ⟨m4, f4⟩, v4⟩ := ih (id + ss.length) m3
      refine ⟨(nmin, (id + 1) % 65536) :: ds ++ (nmax, (id + ss.length) % 65536) :: tail, ?_, ⟨m4, ?_⟩, ?_⟩
      · unfold headerGroups
        rw [h1]; simp only; rw [h2]; simp only; rw [h3]; simp only; rw [h4]
      · have := app (app (app f1 f2) f3) f4
        simpa [List.map_append] using this
      · simp only [List.map_cons, List.map_append, groupValues, v2, v4, List.cons_append]
  obtain ⟨ds, h1, ⟨m', f⟩, v⟩ := groups l.seqBank 0 []
  refine ⟨ds, h1, f.nodup, ?_, v⟩
  intro d hd
  exact f.ok d.1 (List.mem_map_of_mem hd)

def exHeaderLinker : Linker :=
  { dataBank := [], wave := Wave.Bank.new 4 0,
    seqBank := [([66, 71, 77], [{ filename := [109, 105, 110], data := [], patch := [] },
                                { filename := [109, 105, 110], data := [], patch := [] }])] }

example : headerDefs exHeaderLinker =
    some [(ascii "BGM_MIN", 1), (ascii "BGM_MIN_1", 1), (ascii "BGM_MIN_2", 2), (ascii "BGM_MAX", 2)] := by decide

/-- Queries leave no trace: a history with get_seq_data calls in it ends in the same linker
state — hence the same sequence bank, PCM bank and headers — as the history without them, and
asking twice gives the same bytes.  (False before fix 81bf063: `link A:a Q A:b`.) -/
theorem C10_linker_idempotent_query (ops : List Op) (l : Linker) :
    runOps ops l = runOps (ops.filter fun o => match o with | .query => false | .add .. => true) l := by
  induction ops generalizing l with
  | nil => rfl
  | cons o ops ih =>
    cases o with
    | query => simp only [runOps, List.filter_cons]; exact ih l
    | add name file =>
      have hf : (List.filter (fun o => match o with | Op.query => false | Op.add .. => true) (Op.add name file :: ops)) =
          Op.add name file :: List.filter (fun o => match o with | Op.query => false | Op.add .. => true) ops := by
        simp [List.filter_cons]
      rw [hf]
      simp only [runOps]
      cases Riff.ofBytes file with
      | error e => rfl
      | ok mds =>
        simp only
        cases addSong l mds name with
        | error e => rfl
        | ok l' => exact ih l'

/-- One PCM header, with ANY start offset, re-homed by add_song (PARTIAL: a wave bank satisfying C14's
allocator invariant, which every bank reached from `Bank.new` by additions does; the former bound on
the number of sample headers is gone with fix 8d72d11).  After a successful `addPcmh`: the wave bank holds a sample `h2` whose window
`[position, position + size)` (its start offset is 0) shows exactly the bytes
`pcmd[position₀ + start₀, position₀ + start₀ + size)` the song's header addressed; the patch entry's data-bank entry is `pcmHeader h2`, i.e. that address
(with the pitch code of the song's rate) and that size; the invariant is kept and no byte of any
window handed out earlier changes. -/
theorem C10_pcm_region_sound_partial (sdata seqLen : Nat) (pcmd data : Bytes) (a a' : Acc) (rs : List Alloc.Win)
    (header : Wave.Sample) (hh : Wave.Sample.fromBytes (data.drop 4) = some header)
    (hsmall : header.size < 1073741824) (hnd : a.bank.Nodup)
    (inv : Wave.Inv a.wave rs) (h : addPcmh sdata seqLen pcmd data a = .ok a') :
    ∃ (h2 : Wave.Sample) (idx addr : Nat) (rs' : List Alloc.Win),
      a'.patch = a.patch ++ [(addr, idx % 65536)] ∧ a'.bank[idx]? = some (pcmHeader h2) ∧ a'.bank.Nodup ∧
      h2 ∈ a'.wave.samples ∧ h2.start = 0 ∧ h2.size = header.size ∧ h2.rate = header.rate ∧
      Alloc.Win.reads a'.wave.rom ⟨h2.position, h2.size⟩ = LinkSpec.readAt pcmd (header.position + header.start) header.size ∧
      Wave.Inv a'.wave rs' ∧
      (∀ s ∈ a.wave.samples, (Wave.Sample.win s).reads a'.wave.rom = (Wave.Sample.win s).reads a.wave.rom) := by
  unfold addPcmh at h
  split at h
  · cases h
  · rename_i id hid
    simp only at h
    split at h
    · cases h
    · rw [hh] at h
      simp only at h
      split at h
      · cases h
      · rename_i hfit
        split at h
        · cases h
        · rename_i w sidx hadd
          split at h
          · cases h
          · rename_i h2 hget
            simp only [Except.ok.injEq] at h
            subst h
            have hlen : ((pcmd.drop (header.position + header.start)).take header.size).length = header.size := by
              simp only [List.length_take, List.length_drop]; omega
            have adm : Wave.Adm a.wave { header with position := 0, start := 0 } ((pcmd.drop (header.position + header.start)).take header.size) :=
              ⟨by rw [hlen]; exact hsmall⟩
            have so := Wave.addSample_step a.wave rs _ _ w sidx inv adm hadd
            obtain ⟨s0, hs0, hread, hst, hsz, hrt⟩ := so.entry
            have hmem : h2 ∈ w.samples := List.mem_of_getElem? hget
            have ustd := C10_unique_data_spec a.bank (pcmHeader h2) hnd
            have es : s0 = h2 := by rw [hs0] at hget; exact Option.some.inj hget
            subst es
            refine ⟨s0, (addUnique a.bank (pcmHeader s0)).1, _, _, rfl, ustd.1, ustd.2.2.1, hmem, ?_, hsz, hrt, ?_, so.inv, ?_⟩
            · rw [hst]; simp
            · have hst0 : s0.start = 0 := by rw [hst]; simp
              have : Wave.Sample.win s0 = ⟨s0.position, s0.size⟩ := by
                simp only [Wave.Sample.win, hst0, Nat.add_zero]
              rw [← this, hread]
              simp only [List.drop_zero, LinkSpec.readAt]
              rw [List.take_take, Nat.min_self]
            · intro s hs
              obtain ⟨r, hr, g1, g2⟩ := inv.housed s hs
              exact so.stable s.win ⟨r, hr, by simp only [Wave.Sample.win]; omega, by simp only [Wave.Sample.win]; omega⟩

def d11Pcmd : Bytes := [16, 17, 18, 19, 20, 21, 22, 23, 24, 25, 26, 27, 28, 29, 30, 31, 32, 33, 34, 35, 36, 37, 38, 39, 40, 41, 42, 43, 44, 45, 46, 47]
/-- a `pcmh` entry: id 0, header position 0, start 4, size 12, rate 8000 -/
def d11Entry : Bytes := le32 0 ++ Wave.Sample.toBytes ⟨0, 4, 12, 0, 0, 8000, 0, 0⟩
def d11Acc : Acc := { bank := [], wave := Wave.Bank.new 32 0, patch := [] }

def d11Result : Acc := match addPcmh 8 16 d11Pcmd d11Entry d11Acc with
  | .ok a => a
  | .error _ => d11Acc

/-- the former D11 witness on the repaired linker (regression): a header with start offset 4 and
size 12 over `pcmd = 10 … 2f` addresses the bytes `14 … 1f`.  Before the repair add_song stored
`10 … 1b` and emitted a PCM header with address 4, a window running past the used PCM bank.  Now it
stores `14 … 1f` (12 bytes, used size 12) and emits the header address 0 (pitch code 4), size 12:
the linked window shows the sample. -/
theorem C10_offset_window_regression :
    addPcmh 8 16 d11Pcmd d11Entry d11Acc = .ok d11Result ∧
    d11Result.bank = [[4, 0, 0, 0, 0, 0, 0, 12]] ∧ d11Result.wave.currentSize = 12 ∧
    LinkSpec.readAt (d11Result.wave.rom.take d11Result.wave.currentSize) 0 12 = LinkSpec.readAt d11Pcmd 4 12 := by
  refine ⟨rfl, by decide, by decide, by decide⟩

/-! ### whole histories -/

/-- PCM regions and data entries over whole histories.  (Full since the repair of D11 — the playback
window of a PCM header may have any start offset — and fix 8d72d11 — no bound on the number of sample
headers.)

For EVERY list of operations (add-song of any byte strings under any names, queries) that a fresh
linker — `MDSDRV_Linker()` is `fresh 4161536 32768`; any rom of fewer than 2^24 bytes and any bank size
— runs without an error: every song of the sequence bank was read (`readSong`, the state-free part
of `add_song`) from one of the added files under its name, its sequence bytes are the file's, and its
patch table has exactly one entry per `glob`/`pcmh` child of the file's `dblk` list, in file order,
each serving (`Serves`) what that child carried — in the banks as they are NOW, after all later
songs: the data entry is in the data bank at the recorded index; the PCM header at the recorded
index addresses, inside the PCM bank `get_pcm_data` returns, exactly the bytes
`pcmd[position+start, position+start+size)` (the playback window) of the song's own header, with the pitch code of the song's rate, and
obeys the bank rule.  The data bank has no duplicates and the wave bank satisfies C14's allocator
invariant (regions and gaps tile the used area: no two allocated regions overlap). -/
theorem C10_pcm_histories (m bk : Nat) (hm : 0 < m) (hm24 : m < 16777216) (hb : bk < 1073741824)
    (ops : List Op) (l : Linker) (hrun : runOps ops (Linker.fresh m bk) = .ok l) :
    (∀ sd ∈ l.songs, ∃ name file rd, Op.add name file ∈ ops ∧ readSong file = some rd ∧
        sd.filename = name ∧ sd.data = rd.seq ∧ All2 (Serves l) sd.patch rd.carried) ∧
    l.dataBank.Nodup ∧ l.songs.length = (ops.flatMap Op.src).length ∧
    ∃ rs, Wave.Inv l.wave rs := by
  obtain ⟨rs, I, x, _⟩ := runOps_inv ops _ l [] [] (linv_fresh m bk hm (by omega) hb) hrun
  have hmax : l.wave.maxSize < 16777216 := by
    rw [x.same.1]; exact hm24
  refine ⟨?_, I.nodup, ?_, rs, I.wave⟩
  · intro sd hsd
    obtain ⟨name, file, rd, h1, h2, h3, h4, h5⟩ := I.songs sd hsd
    refine ⟨name, file, rd, ?_, h2, h3, h4, ?_⟩
    · simp only [List.nil_append, List.mem_flatMap] at h1
      obtain ⟨o, ho, hmem⟩ := h1
      cases o with
      | query => simp [Op.src] at hmem
      | add n f =>
        simp only [Op.src, List.mem_singleton, Prod.mk.injEq] at hmem
        obtain ⟨rfl, rfl⟩ := hmem
        exact ho
    · exact h5.imp (serves_of_resolves l rs I.wave hmax)
  · rw [runOps_songs_length ops _ l hrun]; simp [Linker.fresh, Linker.songs]

/-- Samples and data of later songs never disturb earlier ones.
Split any history in two: after the first part the linker is `l1`, after the whole `l`.  Then every
song of `l1` is still a song of `l` with the same patch table; every data-bank index of `l1` holds
the same entry in `l`; every sample header of `l1` is a header of `l`; and no byte of the window
`[position, position + start + size)` of any sample header of `l1` has changed in the rom — so
whatever a patch entry resolved to in `l1` it resolves to in `l`. -/
theorem C10_pcm_later_songs_keep (m bk : Nat) (hm : 0 < m) (hm2 : m < 1073741824) (hb : bk < 1073741824)
    (ops1 ops2 : List Op) (l1 l : Linker)
    (h1 : runOps ops1 (Linker.fresh m bk) = .ok l1) (h2 : runOps ops2 l1 = .ok l) :
    runOps (ops1 ++ ops2) (Linker.fresh m bk) = .ok l ∧
    (∀ sd ∈ l1.songs, sd ∈ l.songs) ∧
    (∀ (i : Nat) (e : Bytes), l1.dataBank[i]? = some e → l.dataBank[i]? = some e) ∧
    (∀ s ∈ l1.wave.samples, s ∈ l.wave.samples ∧
        Alloc.Win.reads l.wave.rom ⟨s.position, s.start + s.size⟩ = Alloc.Win.reads l1.wave.rom ⟨s.position, s.start + s.size⟩) ∧
    (∀ q c, Resolves l1.dataBank l1.wave q c → Resolves l.dataBank l.wave q c) := by
  obtain ⟨rs1, I1, _, _⟩ := runOps_inv ops1 _ l1 [] [] (linv_fresh m bk hm hm2 hb) h1
  obtain ⟨rs, I, x, hs⟩ := runOps_inv ops2 l1 l rs1 _ I1 h2
  refine ⟨by rw [runOps_append, h1]; exact h2, hs, x.bank, ?_, fun q c h => h.mono I1.wave x⟩
  intro s hs1
  refine ⟨x.samples s hs1, ?_⟩
  obtain ⟨r, hr, g1, g2⟩ := I1.wave.housed s hs1
  exact x.stable ⟨s.position, s.start + s.size⟩ ⟨r, hr, g1, by simp only; omega⟩

/-! non-vacuity of the two history theorems: two files on a 64-byte rom in 16-byte banks.  File A
(default group) carries one 8-byte sample; file B (group `sfx`) carries the same 8 bytes at another
rate (shared data, second header), a flagged data entry and a PCM header with start offset 4 whose 16-byte
playback window is moved to the next 16-byte bank (leaving a gap); a query in between. -/
def exFileA : Bytes := [82, 73, 70, 70, 106, 0, 0, 0, 77, 68, 83, 48, 118, 101, 114, 32, 2, 0, 0, 0, 0, 6, 103, 114, 112, 32, 0, 0, 0, 0, 115, 101, 113, 32, 4, 0, 0, 0, 0, 2, 0, 0, 76, 73, 83, 84, 48, 0, 0, 0, 100, 98, 108, 107, 112, 99, 109, 104, 36, 0, 0, 0, 0, 0, 0, 0, 0, 0, 0, 0, 0, 0, 0, 0, 8, 0, 0, 0, 0, 0, 0, 0, 0, 0, 0, 0, 64, 31, 0, 0, 0, 0, 0, 0, 0, 0, 0, 0, 112, 99, 109, 100, 8, 0, 0, 0, 1, 2, 3, 4, 5, 6, 7, 8]
def exFileB : Bytes := [82, 73, 70, 70, 194, 0, 0, 0, 77, 68, 83, 48, 118, 101, 114, 32, 2, 0, 0, 0, 0, 6, 103, 114, 112, 32, 3, 0, 0, 0, 115, 102, 120, 0, 115, 101, 113, 32, 9, 0, 0, 0, 0, 2, 0, 0, 0, 0, 0, 0, 9, 0, 76, 73, 83, 84, 106, 0, 0, 0, 100, 98, 108, 107, 112, 99, 109, 104, 36, 0, 0, 0, 1, 0, 0, 0, 0, 0, 0, 0, 0, 0, 0, 0, 8, 0, 0, 0, 0, 0, 0, 0, 0, 0, 0, 0, 92, 68, 0, 0, 0, 0, 0, 0, 0, 0, 0, 0, 103, 108, 111, 98, 6, 0, 0, 0, 2, 0, 0, 128, 7, 8, 112, 99, 109, 104, 36, 0, 0, 0, 0, 0, 0, 0, 8, 0, 0, 0, 4, 0, 0, 0, 16, 0, 0, 0, 0, 0, 0, 0, 0, 0, 0, 0, 64, 31, 0, 0, 0, 0, 0, 0, 0, 0, 0, 0, 112, 99, 109, 100, 28, 0, 0, 0, 1, 2, 3, 4, 5, 6, 7, 8, 50, 51, 52, 53, 54, 55, 56, 57, 58, 59, 60, 61, 62, 63, 64, 65, 66, 67, 68, 69]
def exOps1 : List Op := [.add [97] exFileA, .query]
def exOps2 : List Op := [.add [98] exFileB]
def okOr (e : Except Err Linker) : Linker := match e with
  | .ok l => l
  | .error _ => Linker.fresh 0 0
def isOk (e : Except Err Linker) : Bool := match e with
  | .ok _ => true
  | .error _ => false
theorem ok_of_isOk (e : Except Err Linker) (h : isOk e = true) : e = .ok (okOr e) := by
  cases e with
  | ok l => rfl
  | error x => cases h
def exLinked1 : Linker := okOr (runOps exOps1 (Linker.fresh 64 16))
def exLinked : Linker := okOr (runOps exOps2 exLinked1)
theorem some_getD {α : Type} (o : Option α) (d : α) (h : o.isSome = true) : o = some (o.getD d) := by
  cases o with
  | some x => rfl
  | none => cases h
def exReadA : SongRead := (readSong exFileA).getD ⟨[], [], [], []⟩
def exReadB : SongRead := (readSong exFileB).getD ⟨[], [], [], []⟩

theorem exRun1 : runOps exOps1 (Linker.fresh 64 16) = .ok exLinked1 := ok_of_isOk _ (by decide +kernel)
theorem exRun2 : runOps exOps2 exLinked1 = .ok exLinked := ok_of_isOk _ (by decide +kernel)

example : exLinked.wave.samples.length = 3 ∧ exLinked.songs.length = 2 ∧ exLinked.wave.currentSize = 32 ∧
    exLinked.dataBank.length = 4 := ⟨by decide +kernel, by decide +kernel, by decide +kernel, by decide +kernel⟩

/-- the hypotheses of both history theorems are met by this history -/
example : ∃ l, runOps (exOps1 ++ exOps2) (Linker.fresh 64 16) = .ok l ∧
    l.songs.length = 2 :=
  ⟨exLinked, (C10_pcm_later_songs_keep 64 16 (by omega) (by omega) (by omega) exOps1 exOps2 exLinked1 exLinked
      exRun1 exRun2).1, by decide +kernel⟩

/-! ### the two readers -/

/-- The linker's reading of a file agrees with the spec's own reader on EVERY byte string the spec
reader accepts.  `LinkSpec.parseMds` is the strict reader the resolver's expectations come from
(its own chunk splitter on bytes); `readSong` is the state-free part of `add_song` (`RIFF(bytes)`,
`rewind`, `get_id`, the `at_end`/`get_chunk` loop over the file with the last-chunk-wins locals, the
version check, the `at_end`/`get_chunk` loop over the `dblk` list).  If `parseMds f = some s` then:
(1) `readSong f` succeeds with the same sequence bytes and group bytes, and the entries it lists —
what each `glob`/`pcmh` child carries, `Carried` — are, in file order, exactly the spec's slots
(same slot address, flag, data bytes; for PCM the same rate, start offset and addressed bytes);
(2) for every linker state `l` and file name, `add_song` is exactly the fold of `add_unique_data` /
`add_sample` over those entries: it fails only if one of the entries fails (bank full, …), and
when it succeeds the new song has the file's sequence bytes under the keyified group.
The converse is false by design: the linker also accepts files the strict reader rejects (missing
`grp `/`pcmd`, repeated or unknown chunks, other `LIST`s); for those `readSong`/`Carried` are the
definition of what the song carries (C10_pcm_histories). -/
theorem C10_reader_agreement (f : Bytes) (s : LinkSpec.SongIn) (h : LinkSpec.parseMds f = some s) :
    ∃ rd mds, readSong f = some rd ∧ Riff.ofBytes f = .ok mds ∧
      rd.seq = s.seq ∧ rd.group = s.group ∧ rd.carried.map (toSlot rd.pcmd) = s.slots ∧
      (∀ (l : Linker) (name : Bytes), addSong l mds name =
        match foldDblk rd.sdata rd.seq.length rd.pcmd rd.chunks none { bank := l.dataBank, wave := l.wave, patch := [] } with
        | .error e => .error e
        | .ok a => .ok { dataBank := a.bank, wave := a.wave,
                         seqBank := seqInsert l.seqBank (groupKey rd.group) { filename := name, data := rd.seq, patch := a.patch } }) := by
  obtain ⟨rd, h1, h2, h3, h4, _⟩ := readSong_of_parseMds f s h
  cases ho : Riff.ofBytes f with
  | error e =>
    unfold readSong at h1
    rw [ho] at h1
    cases h1
  | ok mds =>
    exact ⟨rd, mds, h1, rfl, h2, h3, h4, fun l name => addSong_of_read l f mds name rd ho h1⟩

/-- the spec reader accepts both example files (so the hypothesis of the theorem is met), with one and three slots -/
example : (LinkSpec.parseMds exFileA).isSome = true ∧ ((LinkSpec.parseMds exFileB).map fun s => s.slots.length) = some 3 := by
  constructor <;> decide +kernel

/-! ### stored once -/

/-- Identical data is stored once and different data is never merged, in the linked bank, for every
linker state with a duplicate-free data bank (every state a history reaches: C10_pcm_histories)
whose `get_seq_data` succeeds.  (1) The word the relocation writes into a pointer slot `(addr, v)` is
`entryOffset` of data-bank entry `v mod 2^15` (bit 15 kept), and the bank shows the entry's bytes there
(this names the offset that C10_relocation_sound only asserts to exist).  (2) Two non-empty entries
have the same offset exactly when they are the same bytes, and then they are the same entry.
(3) For PCM headers "the same bytes" means: the same address, the same pitch code and the same size
(headers of windows inside a rom of at most 2^24 bytes). -/
theorem C10_stored_once (l : Linker) (bank : Bytes) (h : getSeqData l = .ok bank) (hnd : l.dataBank.Nodup) :
    (∀ (i : Nat) (s : SeqData), l.songs[i]? = some s → PatchWf s.data.length s.patch →
      ∃ o d, rd bank (12 + 4 * i) 4 = be32 o ∧ rd bank (8 + o) s.data.length = d ∧
        ∀ q ∈ s.patch, ∃ t e, entryOffset l (q.2 % 32768) = some t ∧ l.dataBank[q.2 % 32768]? = some e ∧
          d[q.1]? = some (byteOf ((t ||| (q.2 / 32768 % 2 * 32768)) / 256)) ∧
          d[q.1 + 1]? = some (byteOf (t ||| (q.2 / 32768 % 2 * 32768))) ∧ rd bank (8 + t) e.length = e) ∧
    (∀ (i j : Nat) (ei ej : Bytes) (ti tj : Nat), l.dataBank[i]? = some ei → l.dataBank[j]? = some ej → ei ≠ [] → ej ≠ [] →
      entryOffset l i = some ti → entryOffset l j = some tj → ((ti = tj ↔ ei = ej) ∧ (ei = ej ↔ i = j))) ∧
    (∀ (s t : Wave.Sample), s.position + s.start < 16777216 → t.position + t.start < 16777216 →
      s.size < 4294967296 → t.size < 4294967296 →
      (pcmHeader s = pcmHeader t ↔
        (s.position + s.start = t.position + t.start ∧ pitchCode s.rate = pitchCode t.rate ∧ s.size = t.size))) := by
  refine ⟨?_, fun i j ei ej ti tj hi hj hni hnj h1 h2 => entryOffset_inj l hnd i j ei ej ti tj hi hj hni hnj h1 h2,
    fun s t hs ht hss hts => pcmHeader_inj s t hs ht hss hts⟩
  intro i s hs wf
  have L := getSeqData_laid l bank h
  obtain ⟨o, d, offs, hoffs, hp, h1, _, _, h4⟩ := laid_song L i s hs
  obtain ⟨p1, _, p3⟩ := patchSong_spec offs s.patch s.data d wf hp
  refine ⟨o, d, h1, by rw [← p1]; exact h4, ?_⟩
  intro q hq
  obtain ⟨t, ht, b1, b2⟩ := p3 q hq
  have hlen := (layGen_len l.dataBank (4 + 4 * l.songs.length)).2
  have hjl : q.2 % 32768 < l.dataBank.length := by
    rcases Nat.lt_or_ge (q.2 % 32768) l.dataBank.length with h | h
    · exact h
    · rw [hoffs, List.getElem?_eq_none (by omega)] at ht; cases ht
  obtain ⟨t', g1, _, _, _, g5⟩ := laid_entry L (q.2 % 32768) _ (List.getElem?_eq_getElem hjl)
  rw [hoffs, g1] at ht
  cases ht
  exact ⟨_, _, g1, List.getElem?_eq_getElem hjl, b1, b2, g5⟩

example : ∃ l bank, getSeqData l = .ok bank ∧ l.dataBank.Nodup ∧ l.dataBank.length = 2 ∧ entryOffset l 1 = some 12 :=
  ⟨{ dataBank := [[7, 8, 9], [1]], seqBank := [([66], [{ filename := [97], data := [0, 2, 0, 0, 5], patch := [(2, 1)] }])],
     wave := Wave.Bank.new 16 4 }, _, rfl, by decide, rfl, by decide⟩

/-! ### the spec's per-song resolver on every song of every history -/

/-- Every song of the linked bank passes the spec's executable per-song resolver (PARTIAL: `hbl`, the
linked bank is shorter than 4 GiB, the range of the 32-bit table entries).  For EVERY history a fresh linker runs without error and every successful `get_seq_data`:
song number `i + 1` of the bank was added from one of the files under its name, and if that file is
one the spec reader accepts (`parseMds file = some s`), then `LinkSpec.songOk bank pcm i s` — the
resolver the judge runs on the real output — returns ok: the table entry `i` holds an even offset,
the bytes there equal the song's outside its pointer slots, and every slot resolves: the pointer word
keeps the flag bit and addresses a bank entry that begins with the carried data, or is a PCM header
with the rate's pitch code and the sample's size whose 24-bit address selects exactly the sample's
bytes in the PCM bank `get_pcm_data` returns.  (What `resolveBank` adds on top: that song `i + 1` is
the `i`-th of `LinkSpec.ordered`, the span/area checks and the list-level stored-once test.) -/
theorem C10_song_resolves_partial (m bk : Nat) (hm : 0 < m) (hm24 : m < 16777216) (hb : bk < 1073741824)
    (ops : List Op) (l : Linker) (hrun : runOps ops (Linker.fresh m bk) = .ok l)
    (bank : Bytes) (hseq : getSeqData l = .ok bank) (hbl : bank.length < 4294967296) :
    ∀ (i : Nat) (sd : SeqData), l.songs[i]? = some sd →
      ∃ name file, Op.add name file ∈ ops ∧ sd.filename = name ∧ (∃ rd, readSong file = some rd ∧ sd.data = rd.seq) ∧
        ∀ s, LinkSpec.parseMds file = some s → ∃ r, LinkSpec.songOk bank (getPcmData l) i s = .ok r := by
  obtain ⟨hsongs, hnd, _, _⟩ := C10_pcm_histories m bk hm hm24 hb ops l hrun
  intro i sd hs
  obtain ⟨name, file, rd, hop, hrd, hname, hdata, hall⟩ := hsongs sd (List.mem_of_getElem? hs)
  refine ⟨name, file, hop, hname, ⟨rd, hrd, hdata⟩, ?_⟩
  intro s hparse
  obtain ⟨rd', r1, r2, r3, r4, r5, r6, r7, r8⟩ := readSong_of_parseMds file s hparse
  rw [hrd] at r1
  have hrr : rd = rd' := Option.some.inj r1
  subst hrr
  have hlen := laid_bank_small (getSeqData_laid l bank hseq) hnd
  have hA : All2 (SlotServed l) sd.patch s.slots := by
    rw [← r4]
    refine hall.map_right (toSlot rd.pcmd) ?_
    intro q c hc hserves
    exact served_of_serves l hlen rd q c hc hserves
  obtain ⟨o, es, h, _⟩ := songOk_of l bank hseq hnd hbl i sd hs s (by rw [hdata, r2]) (by omega) hA r5 r6
  exact ⟨_, h⟩

/-- the hypotheses are met by the two-file history above (song 2 is file B, three slots, two of them PCM) -/
example : ∃ bank, getSeqData exLinked = .ok bank ∧ bank.length < 4294967296 ∧ exLinked.songs.length = 2 := by
  have h : (match getSeqData exLinked with | .ok b => decide (b.length < 4294967296) | .error _ => false) = true := by decide +kernel
  cases hg : getSeqData exLinked with
  | error e => rw [hg] at h; cases h
  | ok b =>
    rw [hg] at h
    exact ⟨b, rfl, by simpa using h, by decide +kernel⟩

/-! ### song order and the resolver's loop over all songs -/

/-- The linker's group key is the spec's group symbol and its map order is the spec's dictionary
order: `keyify_string` = `symbolOf` (blanks to `_`, letters upper-cased, digits and `_` kept, the rest
dropped, `_` before a leading digit), default group `BGM`, and `std::string::operator<` on two keys
holds exactly when the spec's byte-wise dictionary order does and the keys differ. -/
theorem C10_group_key_agrees :
    (∀ s : Bytes, keyify s = LinkSpec.symbolOf s) ∧ (∀ g : Bytes, groupKey g = LinkSpec.groupOf g) ∧
    (∀ a b : Bytes, bytesLt a b = true ↔ (LinkSpec.lexLe (a.map (·.toNat)) (b.map (·.toNat)) = true ∧ a ≠ b)) :=
  ⟨keyify_eq, groupKey_eq, bytesLt_iff⟩

example : groupKey [49, 117, 112, 33] = [95, 49, 85, 80] ∧ bytesLt [66, 71, 77] [83, 70, 88] = true := by decide

/-- Song numbers and the resolver's loop (PARTIAL: a linked bank below 4 GiB).  For every list of files the spec reader accepts
(`songs` = what it reads), linked by a fresh linker without error: the songs of the bank in song-number
order are exactly the spec's `ordered songs` (group symbols in dictionary order, input order inside a
group), song for song — `Paired`: same sequence bytes, every patch entry serving the corresponding slot —
and the resolver's whole per-song loop `mapM' songOk (enumFrom 0 (ordered songs))` returns ok.  This is
`resolveBank` up to its header-field, span/area and list-level stored-once checks. -/
theorem C10_resolver_songs_partial (m bk : Nat) (hm : 0 < m) (hm24 : m < 16777216) (hb : bk < 1073741824)
    (files : List (Bytes × Bytes)) (songs : List LinkSpec.SongIn) (l : Linker) (bank : Bytes)
    (hparse : files.map (fun f => LinkSpec.parseMds f.2) = songs.map some)
    (hrun : runOps (files.map fun f => Op.add f.1 f.2) (Linker.fresh m bk) = .ok l)
    (hseq : getSeqData l = .ok bank) (hbl : bank.length < 4294967296) :
    All2 (Paired l) (LinkSpec.ordered songs) l.songs ∧
    ∃ rs, LinkSpec.mapM' (fun p => LinkSpec.songOk bank (getPcmData l) p.1 p.2) (LinkSpec.enumFrom 0 (LinkSpec.ordered songs)) = .ok rs ∧
      rs.length = (LinkSpec.ordered songs).length :=
  ⟨(songs_in_order m bk hm hm24 hb files songs l bank hparse hrun hseq).1,
   resolver_songs m bk hm hm24 hb files songs l bank hparse hrun hseq hbl⟩

/-- the hypotheses are met by the two example files (both accepted by the spec reader; file B has a PCM slot
with start offset 4) -/
example : ∃ songs : List LinkSpec.SongIn, [(([97] : Bytes), exFileA), ([98], exFileB)].map (fun f => LinkSpec.parseMds f.2) = songs.map some ∧
    songs.length = 2 ∧ ((LinkSpec.parseMds exFileB).getD ⟨[], [], []⟩).slots.any (fun sl => sl.start == 4) = true := by
  have hA : (LinkSpec.parseMds exFileA).isSome = true := by decide +kernel
  have hB : (LinkSpec.parseMds exFileB).isSome = true := by decide +kernel
  refine ⟨[(LinkSpec.parseMds exFileA).getD ⟨[], [], []⟩, (LinkSpec.parseMds exFileB).getD ⟨[], [], []⟩], ?_, rfl, by decide +kernel⟩
  simp only [List.map_cons, List.map_nil]
  rw [← some_getD _ _ hA, ← some_getD _ _ hB]

/-! ### the resolver accepts the linked banks -/

/-- The bank half of `C10_full_statement` (PARTIAL — extra hypotheses beyond those of the full statement:
`hbl`, the linked sequence bank is shorter than 4 GiB, the range of its 32-bit offsets; `hcnt`, fewer than
65536 songs, the range of the 16-bit song count in the bank header).  For every list of files the spec reader accepts,
linked by `MDSDRV_Linker()` without error, with a successful `get_seq_data`: the spec's executable
resolver `LinkSpec.resolveBank` — bank header (magic, version, song count, end of the sequence area),
every song in group then input order through the table (sequence bytes unchanged outside the pointer
slots, every slot's pointer word with its flag bit, data entry byte-identical, PCM header with pitch code
and size, PCM region in `get_pcm_data` equal to the sample), songs in increasing non-overlapping spans
inside the sequence area, data entries inside the data area in front of the first song, identical data
stored once and different data never merged, wave-table offset inside the bank — returns `.ok ()`. -/
theorem C10_full_bank_partial (files : List (Bytes × Bytes)) (songs : List LinkSpec.SongIn) (l : Linker) (bank : Bytes)
    (hparse : files.map (fun f => LinkSpec.parseMds f.2) = songs.map some)
    (hrun : runOps (files.map fun f => Op.add f.1 f.2) Linker.new = .ok l)
    (hseq : getSeqData l = .ok bank) (hbl : bank.length < 4294967296) (hcnt : songs.length < 65536) :
    LinkSpec.resolveBank songs bank (getPcmData l) = .ok () := by
  rw [Linker.new_eq] at hrun
  exact resolveBank_ok Tables.mds_linkWaveRom Tables.mds_linkWaveBank (by decide) (by decide) (by decide)
    files songs l bank hparse hrun hseq hbl hcnt

/-- the same for any fresh linker (any rom below 2^24 bytes, any bank size); met by the two example files
on the 64-byte rom: `resolveBank` evaluates to ok on that linked output -/
theorem C10_full_bank_fresh_partial (m bk : Nat) (hm : 0 < m) (hm24 : m < 16777216) (hb : bk < 1073741824)
    (files : List (Bytes × Bytes)) (songs : List LinkSpec.SongIn) (l : Linker) (bank : Bytes)
    (hparse : files.map (fun f => LinkSpec.parseMds f.2) = songs.map some)
    (hrun : runOps (files.map fun f => Op.add f.1 f.2) (Linker.fresh m bk) = .ok l)
    (hseq : getSeqData l = .ok bank) (hbl : bank.length < 4294967296) (hcnt : songs.length < 65536) :
    LinkSpec.resolveBank songs bank (getPcmData l) = .ok () :=
  resolveBank_ok m bk hm hm24 hb files songs l bank hparse hrun hseq hbl hcnt

def exFiles : List (Bytes × Bytes) := [([97], exFileA), ([98], exFileB)]
def exL2 : Linker := okOr (runOps (exFiles.map fun f => Op.add f.1 f.2) (Linker.fresh 64 16))
def exBank2 : Bytes := match getSeqData exL2 with
  | .ok b => b
  | .error _ => []
theorem exBank2_ok : getSeqData exL2 = .ok exBank2 := by
  have h : (match getSeqData exL2 with | .ok _ => true | .error _ => false) = true := by decide +kernel
  unfold exBank2
  generalize getSeqData exL2 = g at h ⊢
  cases g with
  | ok b => rfl
  | error e => cases h

example : runOps (exFiles.map fun f => Op.add f.1 f.2) (Linker.fresh 64 16) = .ok exL2 ∧ getSeqData exL2 = .ok exBank2 ∧
    exBank2.length < 4294967296 := ⟨ok_of_isOk _ (by decide +kernel), exBank2_ok, by decide +kernel⟩

/-- The header half of `C10_full_statement` (PARTIAL — extra hypothesis `hcnt`: fewer than 65536 songs, the
range of the 16-bit identifier values).  Both generated headers
exist (unique_string terminates) and the spec's header reader `LinkSpec.resolveHeaders` accepts them:
both texts end with a newline and split into lines of the two formats `NAME = value` /
`#define NAME value` with the same definitions, every name is a valid symbol, no name is defined
twice, and per group of the spec's group order there is a MIN equal to the first song number, one
definition per song with consecutive numbers whose name begins with `<group>_`, and a MAX equal to
the last song number. -/
theorem C10_full_headers_partial (m bk : Nat) (hm : 0 < m) (hm2 : m < 1073741824) (hb : bk < 1073741824)
    (files : List (Bytes × Bytes)) (songs : List LinkSpec.SongIn) (l : Linker)
    (hparse : files.map (fun f => LinkSpec.parseMds f.2) = songs.map some)
    (hrun : runOps (files.map fun f => Op.add f.1 f.2) (Linker.fresh m bk) = .ok l) (hcnt : songs.length < 65536) :
    ∃ a c, asmHeader l = some a ∧ cHeader l = some c ∧ LinkSpec.resolveHeaders songs a c = .ok () := by
  obtain ⟨ds, hd, hnodup, hok, _⟩ := C10_identifiers_unique_valid l
  obtain ⟨hgroups, hkeys⟩ := seqBank_groups m bk hm hb hm2 files songs l hparse hrun
  have hn := songs_length_eq m bk files songs l hparse hrun
  exact resolveHeaders_of l songs ds hd hnodup hok hgroups hkeys (by
    rw [songCount_eq]; simp only [Linker.songs] at hn; omega)

/-- `C10_full_statement` with two extra hypotheses (PARTIAL): `hbl`, the linked sequence bank is shorter
than 4 GiB (32-bit offsets in the bank), and `hcnt`, fewer than 65536 songs (16-bit song count and
identifier values).  For every list of files the
spec reader accepts that `MDSDRV_Linker()` links without error and whose `get_seq_data` succeeds, the
spec resolver accepts the linked sequence bank with the linked PCM bank, and the header reader accepts
both generated headers. -/
theorem C10_full_partial (files : List (Bytes × Bytes)) (songs : List LinkSpec.SongIn) (l : Linker) (bank : Bytes)
    (hparse : files.map (fun f => LinkSpec.parseMds f.2) = songs.map some)
    (hrun : runOps (files.map fun f => Op.add f.1 f.2) Linker.new = .ok l) (hseq : getSeqData l = .ok bank)
    (hbl : bank.length < 4294967296) (hcnt : songs.length < 65536) :
    LinkSpec.resolveBank songs bank (getPcmData l) = .ok () ∧
    ∃ a c, asmHeader l = some a ∧ cHeader l = some c ∧ LinkSpec.resolveHeaders songs a c = .ok () := by
  refine ⟨C10_full_bank_partial files songs l bank hparse hrun hseq hbl hcnt, ?_⟩
  rw [Linker.new_eq] at hrun
  exact C10_full_headers_partial Tables.mds_linkWaveRom Tables.mds_linkWaveBank (by decide) (by decide) (by decide)
    files songs l hparse hrun hcnt

/-- The full statement of C10 over the model, kept for the record: for every list of well-formed
MDS files (as read by the spec's own reader, any PCM start offsets) that the linker accepts, the
spec resolver accepts the linked sequence bank with the linked PCM bank, and the header reader
accepts both headers.  PROVED as `C10_full_partial` with two extra hypotheses; as stated here it does not
hold without them (by reading; no witness is proved, the smallest ones are far too large to evaluate): (1) the linked bank is shorter than 4 GiB — song and wave-table offsets are
written as 32-bit words (`be32` truncates; the C++ computes them in an `int`); (2) fewer than 65536
songs — the bank header carries the song count, and the headers the song numbers, in 16 bits
(`write_be16(data, 6, get_seq_count())`, `uint16_t value`): the 65536th song makes the count read 0.
Neither limit is checked by the linker; both are far outside anything the tools are used for, and the
check's assumptions list the first. -/
def C10_full_statement : Prop :=
  ∀ (files : List (Bytes × Bytes)) (songs : List LinkSpec.SongIn) (l : Linker) (bank : Bytes),
    files.map (fun f => LinkSpec.parseMds f.2) = songs.map some →
    runOps (files.map fun f => Op.add f.1 f.2) Linker.new = .ok l → getSeqData l = .ok bank →
    LinkSpec.resolveBank songs bank (getPcmData l) = .ok () ∧
    ∃ a c, asmHeader l = some a ∧ cHeader l = some c ∧ LinkSpec.resolveHeaders songs a c = .ok ()

end Ctrmml.Linker
