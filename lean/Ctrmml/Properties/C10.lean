import Ctrmml.Model.Linker
import Ctrmml.Spec.Link
namespace Ctrmml.Linker
theorem C10_stub : True := trivial
end Ctrmml.Linker
