/-
  C03 — Compiled sequences always advance time and stay in bounds.   (first layer)

  Model: Model/MdsCodec.lean (`convert_track`).  Spec: Spec/SeqWf.lean (instruction walker),
  Spec/SeqInterp.lean.  The theorems below are the arithmetic core of the property: the three
  places where the encoder computes an address.  The whole-chunk statement is kept as
  `C03_full_statement` and is decided per case by `SeqWf.checkAll` + the interpreter on the real
  bytes.
-/
import Ctrmml.Model.MdsConv
import Ctrmml.Spec.SeqWf
import Ctrmml.Proofs.CodecBreak
import Ctrmml.Proofs.CodecWalkLoops
import Ctrmml.Proofs.CodecTrack
import Ctrmml.Proofs.SongFragment
import Ctrmml.Proofs.SongOptC01
namespace Ctrmml.C03
open Ctrmml Ctrmml.Mds Ctrmml.Seq Tables

/-- whole-chunk statement over the model: every accepted song with loop counts 1..255 compiles to
a chunk whose streams all pass the walker, and whose channels, interpreted with the loop-back
followed twice, finish and pass at least one tick per round -/
def C03_full_statement : Prop :=
  ∀ (song : Song) (d : DataInfo) (vol : Option Nat) (c : Converted),
    (∀ id t, (id, t) ∈ song.tracks → ∀ e ∈ t, e.type = ev_LOOP_END → 1 ≤ e.param ∧ e.param ≤ 255) →
    convertSong song d vol = .ok c →
    SeqWf.checkAll c.seq c.conv.subList.length = .ok () ∧
    ∀ base ts id start, tracksOf c.seq = some (base, ts) → (id, start) ∈ ts →
      ∀ fuel, (run c.seq base 2 300000 fuel { pc := start }).2 = .finished →
        SeqWf.ticksBetweenLoops (run c.seq base 2 300000 fuel { pc := start }).1 ≠ some 0

/-- **Loop-break offset.** When `LPF` back-patches a recorded break at address `b` into a stream
shorter than 64 KiB, the inserted `LPB o` / `LPBL oo` instruction satisfies
`(address after the inserted instruction) + o = end of the stream`, i.e. the break lands exactly
on the instruction that follows the loop end — for the short and for the long form. -/
theorem C03_break_offset (nS nM : Nat) (e e' : Enc) (arg b : Nat) (r : List Nat)
    (hb : e.breaks = b :: r) (hb0 : b ≠ 0) (hble : b ≤ e.out.length) (hlen : e.out.length + 2 < 65536)
    (h : encOther nS nM e mds_LPF arg = .ok e') :
    ∃ cmd o, e'.out = (e.out ++ [mds_LPF, arg % 256]).take b ++ cmd ++ (e.out ++ [mds_LPF, arg % 256]).drop b ∧
      ((cmd = [mds_LPB, o] ∧ o < 256) ∨ (cmd = [mds_LPBL, o / 256, o % 256] ∧ o < 65536)) ∧
      b + cmd.length + o = e'.out.length ∧ e'.breaks = r := by
  unfold encOther at h
  have n1 : ¬ (mds_LPF = mds_SEGNO) := by decide
  have n2 : ¬ (mds_LPF = mds_SLR ∨ mds_LPF = mds_FINISH) := by decide
  have n3 : byteArgOps.contains mds_LPF = false := by decide
  have n4 : ¬ (mds_LPF = mds_MTAB) := by decide
  have n5 : ¬ (mds_LPF = mds_INS ∨ mds_LPF = mds_PCM) := by decide
  have n6 : ¬ (mds_LPF = mds_PEG) := by decide
  have n7 : wordArgOps.contains mds_LPF = false := by decide
  have n8 : ¬ (mds_LPF = mds_JUMP) := by decide
  have n9 : ¬ (mds_LPF = mds_PAT) := by decide
  have n10 : ¬ (mds_LPF = mds_LP) := by decide
  have n11 : ¬ (mds_LPF = mds_LPB) := by decide
  simp only [n1, n2, n3, n4, n5, n6, n7, n8, n9, n10, n11, if_false, Bool.false_eq_true, if_true, hb, hb0,
    ne_eq, not_false_eq_true] at h
  obtain ⟨out, hout⟩ : ∃ out, out = e.out ++ [mds_LPF, arg % 256] := ⟨_, rfl⟩
  rw [← hout] at h ⊢
  have hol : out.length = e.out.length + 2 := by rw [hout]; simp
  have hoff : (out.length + 65536 - b) % 65536 = out.length - b := by omega
  rw [hoff] at h
  by_cases hs : out.length - b < 256
  · simp only [hs, if_true, Except.ok.injEq] at h
    subst h
    refine ⟨[mds_LPB, out.length - b], out.length - b, rfl, Or.inl ⟨rfl, hs⟩, ?_, rfl⟩
    simp only [List.length_append, List.length_take, List.length_drop, List.length_cons, List.length_nil]
    omega
  · simp only [hs, if_false, Except.ok.injEq] at h
    subst h
    refine ⟨[mds_LPBL, (out.length - b) / 256, (out.length - b) % 256], out.length - b, rfl,
      Or.inr ⟨rfl, by omega⟩, ?_, rfl⟩
    simp only [List.length_append, List.length_take, List.length_drop, List.length_cons, List.length_nil]
    omega

/-- **Loop-back target.** The 16-bit relative offset written after `JUMP` makes the interpreter's
target `(pc + 3 + offset) mod 65536` equal to the position recorded at the loop point, for every
stream shorter than 64 KiB. -/
theorem C03_jump_target (nS nM : Nat) (e e' : Enc) (hsp : e.segnoPos < 65536) (hlen : e.out.length + 3 < 65536)
    (h : encOther nS nM e mds_JUMP 0 = .ok e') :
    ∃ hi lo, e'.out = e.out ++ [mds_JUMP, hi, lo] ∧ hi < 256 ∧ lo < 256 ∧
      (e.out.length + 3 + (hi * 256 + lo)) % 65536 = e.segnoPos := by
  unfold encOther at h
  have n1 : ¬ (mds_JUMP = mds_SEGNO) := by decide
  have n2 : ¬ (mds_JUMP = mds_SLR ∨ mds_JUMP = mds_FINISH) := by decide
  have n3 : byteArgOps.contains mds_JUMP = false := by decide
  have n4 : ¬ (mds_JUMP = mds_MTAB) := by decide
  have n5 : ¬ (mds_JUMP = mds_INS ∨ mds_JUMP = mds_PCM) := by decide
  have n6 : ¬ (mds_JUMP = mds_PEG) := by decide
  have n7 : wordArgOps.contains mds_JUMP = false := by decide
  simp only [n1, n2, n3, n4, n5, n6, n7, if_false, Bool.false_eq_true, if_true, Except.ok.injEq] at h
  subst h
  refine ⟨_, _, rfl, ?_, ?_, ?_⟩ <;> omega

/-- **Terminator.** A `FINISH` event is encoded as the single byte `ff` appended at the very end
of the stream (nothing is ever inserted behind it). -/
theorem C03_finish_last (nS nM : Nat) (e e' : Enc) (h : encEv nS nM e ⟨mds_FINISH, 0⟩ = .ok e') :
    e'.out = e.out ++ [mds_FINISH] := by
  unfold encEv at h
  have h1 : ¬ ((⟨mds_FINISH, 0⟩ : MEv).type = mds_REST ∧ (⟨mds_FINISH, 0⟩ : MEv).arg ≠ 0) := by decide
  have h2 : ¬ ((⟨mds_FINISH, 0⟩ : MEv).type < mds_SLR ∧ (⟨mds_FINISH, 0⟩ : MEv).arg ≠ 0) := by decide
  have h0 : ¬ ((⟨mds_FINISH, 0⟩ : MEv).type = mds_LPB ∧ e.breaks.head?.getD 0 ≠ 0) := by
    intro hh; exact absurd hh.1 (by decide)
  simp only [h0, h1, h2, if_false] at h
  have h3 : encOther nS nM e mds_FINISH 0 = .ok { e with out := e.out ++ [mds_FINISH] } := by
    unfold encOther
    have a : ¬ (mds_FINISH = mds_SEGNO) := by decide
    simp [a]
  rw [h3] at h
  have h4 : (mds_FINISH < mds_REST ∧ mds_FINISH ≠ mds_CARRY) ∨ mds_FINISH ≥ mds_SLR ∨ (⟨mds_FINISH, 0⟩ : MEv).arg ≠ 0 := by decide
  simp only [h4, if_true, Except.ok.injEq] at h
  subst h
  rfl

/-! non-vacuity -/
example : ∃ e', encOther 0 0 { out := [mds_LP, 0xa6, 0x17], breaks := [1] } mds_LPF 2 = .ok e' := ⟨_, rfl⟩
example : ∃ e', encOther 0 0 { out := [0xa6, 0x17], segnoPos := 0 } mds_JUMP 0 = .ok e' := ⟨_, rfl⟩

end Ctrmml.C03

/-! ## Corollaries of the codec round trip (second layer; definitions as in Properties/C02.lean) -/
namespace Ctrmml.C03
open Ctrmml Ctrmml.Mds Ctrmml.Seq Ctrmml.Codec Tables

/-- **The terminator is the last instruction** — for EVERY event list (no restriction): if the
list ends with `FINISH`, `JUMP` or `DMFINISH`, the emitted stream ends with that opcode followed by
exactly its operand bytes (0, 2, 1). -/
theorem C03_stream_ends_with_terminator (nS nM : Nat) (es : List MEv) (term arg : Nat) (bytes : List Nat)
    (ht : term = mds_FINISH ∨ term = mds_JUMP ∨ term = mds_DMFINISH)
    (h : convertTrack nS nM (es ++ [⟨term, arg⟩]) = .ok bytes) :
    ∃ pre ops, bytes = pre ++ term :: ops ∧
      ops.length = (if term = mds_FINISH then 0 else if term = mds_JUMP then 2 else 1) := by
  unfold convertTrack at h
  rw [encAll_append] at h
  cases he : encAll nS nM {} es with
  | error x => rw [he] at h; simp [Except.map] at h
  | ok e1 =>
    rw [he] at h
    rcases ht with rfl | rfl | rfl
    · simp only [encAll, encEv_finish, Except.map, Except.ok.injEq] at h
      exact ⟨e1.out, [], h.symm, rfl⟩
    · simp only [encAll, encEv_jump, Except.map, Except.ok.injEq] at h
      exact ⟨e1.out, [jumpOff e1 / 256, jumpOff e1 % 256], h.symm, rfl⟩
    · have hb : encOther nS nM e1 mds_DMFINISH arg = .ok { e1 with out := e1.out ++ [mds_DMFINISH, arg % 256] } :=
        encOther_byte nS nM e1 arg (by decide)
      simp only [encAll, encEv_other (by decide) hb, Except.map, Except.ok.injEq] at h
      exact ⟨e1.out, [arg % 256], h.symm, rfl⟩

/-- **Never reads outside, never meets an unknown opcode, a missing length or an empty loop stack** —
restriction: tracks whose bracket structure has no loop break (`noBreakL`), leaves in the linear
fragment, terminated by `FINISH`.  For every fuel, tick limit, number of followed jumps and initial
register contents the interpreter stops only with `finished`, `fuel` or `tooManyTicks`. -/
theorem C03_codec_never_reads_outside_partial (nS nM : Nat) (ts : List Node) (hl : linL ts = true)
    (hn : noBreakL ts = true) (hm : mokL Mode.plain false ts = true) (farg : Nat) :
    ∃ bytes, convertTrack nS nM (flatL ts ++ [⟨mds_FINISH, farg⟩]) = .ok bytes ∧
      ∀ (base mj maxTicks fuel : Nat) (ln lr : Option Nat),
        (run bytes base mj maxTicks fuel { pc := 0, lastNote := ln, lastRest := lr }).2 ∈
          [Stop.finished, Stop.fuel, Stop.tooManyTicks] := by
  obtain ⟨bytes, h1, h2⟩ := codec_roundtrip_loops_nobreak nS nM ts hl hn hm farg
  exact ⟨bytes, h1, fun base mj maxTicks fuel ln lr => (h2 base mj ln lr).safe maxTicks fuel⟩

/-- the same for every bracket structure, loops WITH break included (restriction: leaves in the
linear fragment, terminated by `FINISH`, stream shorter than 64 KiB; `Codec.encL` = the structured
encoder of `C02_convert_structured_eq`) -/
theorem C03_codec_never_reads_outside_loops_partial (nS nM : Nat) (ts : List Node) (hl : linL ts = true)
    (hk : brkOkL false ts = true) (hnc : noCallL ts = true) (hm : mokL Mode.plain false ts = true) (farg : Nat) :
    ∃ e', encL nS nM ts {} = .ok e' ∧
      (e'.out.length + 1 < 65536 →
        convertTrack nS nM (flatL ts ++ [⟨mds_FINISH, farg⟩]) = .ok (e'.out ++ [mds_FINISH]) ∧
        ∀ (base mj maxTicks fuel : Nat) (ln lr : Option Nat),
          (run (e'.out ++ [mds_FINISH]) base mj maxTicks fuel { pc := 0, lastNote := ln, lastRest := lr }).2 ∈
            [Stop.finished, Stop.fuel, Stop.tooManyTicks]) := by
  obtain ⟨e', h1, h2⟩ := codec_roundtrip_loops nS nM ts hl hk hnc hm farg
  exact ⟨e', h1, fun hb => ⟨(h2 hb).1, fun base mj maxTicks fuel ln lr => ((h2 hb).2 base mj ln lr).safe maxTicks fuel⟩⟩

/-- the same for a looping track `a ++ [SEGNO] ++ b ++ [JUMP]` (`a`, `b` linear, stream < 64 KiB),
however often the jump is followed -/
theorem C03_codec_never_reads_outside_segno_partial (nS nM : Nat) (a b : List MEv)
    (ha : ∀ ev ∈ a, linEv ev = true) (hb : ∀ ev ∈ b, linEv ev = true) (ma : ∀ ev ∈ a, Mode.plain.evOk ev = true)
    (mb : ∀ ev ∈ b, Mode.plain.evOk ev = true) (jarg : Nat) :
    ∃ bytes, convertTrack nS nM (a ++ [⟨mds_SEGNO, 0⟩] ++ b ++ [⟨mds_JUMP, jarg⟩]) = .ok bytes ∧
      (bytes.length < 65536 → ∀ (base mj maxTicks fuel : Nat) (ln lr : Option Nat),
        (run bytes base mj maxTicks fuel { pc := 0, lastNote := ln, lastRest := lr }).2 ∈
          [Stop.finished, Stop.fuel, Stop.tooManyTicks]) := by
  obtain ⟨bytes, h1, h2⟩ := codec_roundtrip_segno nS nM a b ha hb ma mb jarg
  exact ⟨bytes, h1, fun hlen base mj maxTicks fuel ln lr => (h2 hlen base mj ln lr).safe maxTicks fuel⟩

/-- **The stream is terminated and well-formed: the walker accepts it** — linear tracks ending in
`FINISH`: `SeqWf.walk` (with at least one unit of fuel per byte, as `checkAll` gives it) decodes
instruction after instruction inside the stream and stops at the terminator, which is the last byte. -/
theorem C03_stream_terminated_partial (nS nM : Nat) (es : List MEv) (hv : ∀ ev ∈ es, linEv ev = true) (farg : Nat) :
    ∃ bytes pre, convertTrack nS nM (es ++ [⟨mds_FINISH, farg⟩]) = .ok bytes ∧ bytes = pre ++ [mds_FINISH] ∧
      ∀ fuel, fuel ≥ bytes.length → SeqWf.walk bytes 0 fuel { pc := 0 } = .ok bytes.length := by
  obtain ⟨bytes, h1, h2⟩ := walk_accepts_linear nS nM es hv farg
  obtain ⟨pre, ops, hb, hl⟩ := C03_stream_ends_with_terminator nS nM es mds_FINISH farg bytes (.inl rfl) h1
  simp only [if_true] at hl
  have : ops = [] := List.eq_nil_of_length_eq_zero hl
  subst this
  exact ⟨bytes, pre, h1, hb, h2⟩

/-- the same for looping tracks `a ++ [SEGNO] ++ b ++ [JUMP]` (`a`, `b` linear, stream < 64 KiB): the
walker accepts, in particular the loop-back jump lands on an instruction boundary at loop depth 0 -/
theorem C03_stream_terminated_segno_partial (nS nM : Nat) (a b : List MEv) (ha : ∀ ev ∈ a, linEv ev = true)
    (hb : ∀ ev ∈ b, linEv ev = true) (jarg : Nat) :
    ∃ bytes pre hi lo, convertTrack nS nM (a ++ [⟨mds_SEGNO, 0⟩] ++ b ++ [⟨mds_JUMP, jarg⟩]) = .ok bytes ∧
      bytes = pre ++ [mds_JUMP, hi, lo] ∧
      (bytes.length < 65536 →
        ∀ fuel, fuel ≥ bytes.length → SeqWf.walk bytes 0 fuel { pc := 0 } = .ok bytes.length) := by
  obtain ⟨bytes, h1, h2⟩ := walk_accepts_segno nS nM a b ha hb jarg
  obtain ⟨pre, ops, hbt, hl⟩ := C03_stream_ends_with_terminator nS nM (a ++ [⟨mds_SEGNO, 0⟩] ++ b) mds_JUMP jarg bytes
    (.inr (.inl rfl)) h1
  have h2' : ops.length = 2 := by
    have n1 : ¬ mds_JUMP = mds_FINISH := by decide
    simpa [n1] using hl
  match ops, h2' with
  | [hi, lo], _ => exact ⟨bytes, pre, hi, lo, h1, hbt, h2⟩

/-- the same for counted loops with and without break, nested (leaves linear, `FINISH` last, stream
< 64 KiB): loop starts and ends are balanced and every back-patched break offset lands on the
instruction after its loop end (that is what the walker checks) -/
theorem C03_stream_terminated_loops_partial (nS nM : Nat) (ts : List Node) (hl : linL ts = true)
    (hk : brkOkL false ts = true) (farg : Nat) :
    ∃ e', encL nS nM ts {} = .ok e' ∧
      (e'.out.length + 1 < 65536 →
        convertTrack nS nM (flatL ts ++ [⟨mds_FINISH, farg⟩]) = .ok (e'.out ++ [mds_FINISH]) ∧
        ∀ fuel, fuel ≥ e'.out.length + 1 →
          SeqWf.walk (e'.out ++ [mds_FINISH]) 0 fuel { pc := 0 } = .ok (e'.out.length + 1)) :=
  walk_accepts_loops nS nM ts hl hk farg

/-- **The general single track** `ta, SEGNO, tb, JUMP` (bracket structures with nested counted loops
with any number of breaks per loop over the linear fragment — further break markers `Node.xbrk` only
behind a first break of their own loop, `brkOkL false`; no calls; loop point at depth 0; stream
< 64 KiB): the walker accepts the stream and the interpreter never reads outside / meets an unknown
opcode / a missing length / an empty loop stack, however often the jump is followed. -/
theorem C03_track_wellformed_partial (nS nM : Nat) (ta tb : List Node) (ha : linL ta = true) (hb : linL tb = true)
    (ka : brkOkL false ta = true) (kb : brkOkL false tb = true) (na : noCallL ta = true) (nb : noCallL tb = true)
    (ma : mokL Mode.plain false ta = true) (mb : mokL Mode.plain false tb = true)
    (jarg : Nat) :
    ∃ eA eB, encL nS nM ta {} = .ok eA ∧ encL nS nM tb (afterSegno eA) = .ok eB ∧
      ((trackBytes eB).length < 65536 →
        convertTrack nS nM (flatL ta ++ [⟨mds_SEGNO, 0⟩] ++ flatL tb ++ [⟨mds_JUMP, jarg⟩]) = .ok (trackBytes eB) ∧
        (∀ fuel, fuel ≥ (trackBytes eB).length →
          SeqWf.walk (trackBytes eB) 0 fuel { pc := 0 } = .ok (trackBytes eB).length) ∧
        ∀ (base mj maxTicks fuel : Nat) (ln lr : Option Nat),
          (run (trackBytes eB) base mj maxTicks fuel { pc := 0, lastNote := ln, lastRest := lr }).2 ∈
            [Stop.finished, Stop.fuel, Stop.tooManyTicks]) := by
  obtain ⟨eA, eB, hA, hB, h⟩ := codec_roundtrip_track nS nM ta tb ha hb ka kb na nb ma mb jarg
  obtain ⟨eA', eB', hA', hB', h'⟩ := walk_accepts_track nS nM ta tb ha hb ka kb jarg
  rw [hA] at hA'; injection hA' with hA'; subst hA'
  rw [hB] at hB'; injection hB' with hB'; subst hB'
  exact ⟨eA, eB, hA, hB, fun hlen => ⟨(h hlen).1, (h' hlen).2,
    fun base mj maxTicks fuel ln lr => ((h hlen).2 base mj ln lr).safe maxTicks fuel⟩⟩

/-- **Streams inside a chunk, subroutine calls included** (the three shapes of a channel track and
the subroutine stream, at offset `pre.length` of `seq`, walked from their first byte as
`SeqWf.checkAll` does): the walker accepts — every instruction is decoded inside the chunk, loop
starts and ends are balanced, every break offset lands behind its loop end, the terminator is
reached at loop depth 0, and (shape J, chunk up to the end of the stream < 64 KiB) the loop-back
jump lands on an instruction boundary of this stream at loop depth 0.  The walker steps over a
call instruction, so nothing is assumed about the pointer table. -/
theorem C03_stream_at_offset_wellformed_partial (nS nM : Nat) (ta tb : List Node) (ha : linL ta = true)
    (hb : linL tb = true) (eA eB : Enc) (hA : encL nS nM ta {} = .ok eA) (hB : encL nS nM tb (afterSegno eA) = .ok eB)
    (pre seq : List Nat) :
    (pre ++ trackBytes eB <+: seq → (pre ++ trackBytes eB).length < 65536 →
      ∀ fuel, fuel ≥ (trackBytes eB).length →
        SeqWf.walk seq pre.length fuel { pc := pre.length } = .ok (pre.length + (trackBytes eB).length)) ∧
    (∀ start, pre ++ (eB.out ++ [mds_FINISH]) <+: seq → ∀ fuel, fuel ≥ eB.out.length + 1 →
        SeqWf.walk seq start fuel { pc := pre.length } = .ok (pre.length + eB.out.length + 1)) ∧
    (∀ start, pre ++ (eA.out ++ [mds_FINISH]) <+: seq → ∀ fuel, fuel ≥ eA.out.length + 1 →
        SeqWf.walk seq start fuel { pc := pre.length } = .ok (pre.length + eA.out.length + 1)) :=
  ⟨fun hp hlen => walk_j_at nS nM ta tb ha hb eA eB hA hB pre seq hp hlen,
   fun start hp => walk_z_at nS nM ta tb ha hb eA eB hA hB pre seq start hp,
   fun start hp => walk_f_at nS nM ta ha eA hA pre seq start hp⟩

example : ∃ bytes, convertTrack 0 0 ([⟨0xa6, 24⟩] ++ [⟨mds_JUMP, 0⟩]) = .ok bytes := ⟨_, rfl⟩
example : linL [.loopB [.ev ⟨0xa6, 2⟩] [.xbrk, .call 0 []] 2] = true ∧
    brkOkL false [.loopB [.ev ⟨0xa6, 2⟩] [.xbrk, .call 0 []] 2] = true := by decide
example : linL [.loop [.ev ⟨0xa6, 24⟩] 2] = true ∧ noBreakL [.loop [.ev ⟨0xa6, 24⟩] 2] = true := by decide

/-! ## Whole songs of the fragment (third layer; the fragment and the extra hypotheses — drum mode included:
`RoutinesOK`, `LoopDrumOK` — are those of `C02_song_roundtrip_partial`, Properties/C02.lean) -/

theorem isCmd_mask (x : Tk) : SongTop.isCmd (Timeline.maskTk x) = SongTop.isCmd x := by
  cases x with
  | cmd op a =>
    simp only [Timeline.maskTk]
    split
    · rfl
    · split <;> rfl
  | _ => rfl

theorem mark_of_mk {l : List Tk} (h : Tk.loopMark ∈ l) : Tk.loopMark ∈ SongSem.mk l :=
  List.mem_map.mpr ⟨Tk.loopMark, h, rfl⟩

theorem noncmd_of_mk {l : List Tk} (h : ∃ tk ∈ SongSem.mk l, SongTop.isCmd tk = false) : ∃ tk ∈ l, SongTop.isCmd tk = false := by
  obtain ⟨tk, hm, hc⟩ := h
  obtain ⟨x, hx, rfl⟩ := List.mem_map.mp hm
  exact ⟨x, hx, by rw [← isCmd_mask]; exact hc⟩

theorem dropWhile_mark {a r : List Tk} (ha : Tk.loopMark ∉ a) :
    (a ++ Tk.loopMark :: r).dropWhile (· != Tk.loopMark) = Tk.loopMark :: r := by
  induction a with
  | nil => simp [List.dropWhile]
  | cons x a ih =>
    have hx : x ≠ Tk.loopMark := fun h => ha (by simp [h])
    have : (x != Tk.loopMark) = true := by simpa using hx
    simp only [List.cons_append, List.dropWhile, this]
    exact ih (fun h => ha (by simp [h]))

theorem dropWhile_nomark {a : List Tk} (ha : Tk.loopMark ∉ a) : a.dropWhile (· != Tk.loopMark) = [] := by
  induction a with
  | nil => rfl
  | cons x a ih =>
    have hx : x ≠ Tk.loopMark := fun h => ha (by simp [h])
    have : (x != Tk.loopMark) = true := by simpa using hx
    simp only [List.dropWhile, this]
    exact ih (fun h => ha (by simp [h]))

theorem takeWhile_mark {a r : List Tk} (ha : Tk.loopMark ∉ a) :
    (a ++ Tk.loopMark :: r).takeWhile (· != Tk.loopMark) = a := by
  induction a with
  | nil => simp [List.takeWhile]
  | cons x a ih =>
    have hx : x ≠ Tk.loopMark := fun h => ha (by simp [h])
    have : (x != Tk.loopMark) = true := by simpa using hx
    simp only [List.cons_append, List.takeWhile, this]
    rw [ih (fun h => ha (by simp [h]))]

/-- **C03 for whole songs of the fragment (drum mode included).**  For every channel track in `Timeline.inDomain`
whose expected tick string is defined, with `start` = the position the track table lists:
 * the instruction walker, started there as `SeqWf.checkAll` starts it, accepts the stream — every
   instruction is decoded inside the chunk, loop starts and ends are balanced, every loop-break
   offset lands on the instruction behind its loop end, the stream ends with a terminator at loop
   depth 0, the loop-back jump lands on an instruction boundary of the stream at loop depth 0;
 * however often the loop-back jump is followed, with whatever fuel and tick limit, the
   interpreter stops only with `finished`, `fuel` or `tooManyTicks`: it never reads outside the
   chunk, never meets an unknown opcode, a missing length or an empty loop stack — through all
   calls, drum-routine calls and returns;
 * with the jump followed twice, a run that finishes passes at least one tick of note or rest time
   between the two loop marks: the loop-back jump spans time. -/
theorem C03_song_wellformed_partial (song : Song) (d : DataInfo) (vol : Option String) (pf : Timeline.Platform)
    (b : MdsFile.Built) (hpc : PlatformClean d) (hp : SongTop.PlainSong song)
    (hb : MdsFile.construct song d vol = .ok b) (hlen : b.seq.length < 65536) (hR : SongTop.RoutinesOK song b)
    (hpa : SongTop.PlatAgree d.platform pf) :
    ∀ id root t, (id, root) ∈ song.tracks → id < 16 → Timeline.inDomain song root = true →
      SongSplit.segCount root ≤ 1 → SongTop.LoopDrumOK root → Timeline.expected song pf root = .ok t →
      ∃ base ts start, tracksOf b.seq = some (base, ts) ∧ ts.lookup id = some start ∧
        (∃ len, start + len ≤ b.seq.length ∧
          ∀ fuel, fuel ≥ len → SeqWf.walk b.seq start fuel { pc := start } = .ok (start + len)) ∧
        (∀ mj maxTicks fuel, (run b.seq base mj maxTicks fuel { pc := start }).2 ∈
          [Stop.finished, Stop.fuel, Stop.tooManyTicks]) ∧
        (∀ maxTicks fuel, (run b.seq base 2 maxTicks fuel { pc := start }).2 = Stop.finished →
          SeqWf.ticksBetweenLoops (run b.seq base 2 maxTicks fuel { pc := start }).1 ≠ some 0) := by
  intro id root t hmem hid hdom hcnt hloop hexp
  have hseg := SongTop.inDomain_segno hdom
  obtain ⟨ts, stream, pre, htr, hlk, hpre, hres⟩ := SongTop.song_plays hpc hp hb hlen pf hmem hid (SongTop.platOK_of_agree hpa _ _) hR hseg hcnt hloop hexp 0
  refine ⟨_, ts, pre.length, htr, hlk, ⟨stream.length, ?_, hres.walks⟩, ?_, ?_⟩
  · have := hpre.length_le; simpa using this
  · intro mj maxTicks fuel
    obtain ⟨ts', stream', pre', htr', hlk', _, hres'⟩ := SongTop.song_plays hpc hp hb hlen pf hmem hid (SongTop.platOK_of_agree hpa _ _) hR hseg hcnt hloop hexp mj
    rw [htr] at htr'; injection htr' with htr'; injection htr' with _ htr'; subst htr'
    rw [hlk] at hlk'; injection hlk' with hlk'
    obtain ⟨X, Y, TA, TB, loops, s', hreach, hfin, _⟩ := hres'.plays
    rw [← hlk'] at hreach
    rcases run_stop_of_reach (maxTicks := maxTicks) hreach hfin fuel with h | h | h <;> simp [h]
  · intro maxTicks fuel hfinished
    obtain ⟨ts', stream', pre', htr', hlk', _, hres'⟩ := SongTop.song_plays hpc hp hb hlen pf hmem hid (SongTop.platOK_of_agree hpa _ _) hR hseg hcnt hloop hexp 2
    rw [htr] at htr'; injection htr' with htr'; injection htr' with _ htr'; subst htr'
    rw [hlk] at hlk'; injection hlk' with hlk'
    obtain ⟨X, Y, TA, TB, loops, s', hreach, hfin, hout, hX, hY, _, htime, hnX, hnY⟩ := hres'.plays
    rw [← hlk'] at hreach
    have ho := run_out_of_reach (maxTicks := maxTicks) hreach hfin (by decide) fuel hfinished
    rw [ho, hout, List.reverse_reverse]
    have hnA : Tk.loopMark ∉ TA := fun h => hnX (by rw [← hX]; exact mark_of_mk h)
    have hnB : Tk.loopMark ∉ TB := fun h => hnY (by rw [← hY]; exact mark_of_mk h)
    cases loops with
    | false =>
      simp only [Bool.false_eq_true, if_false]
      unfold SeqWf.ticksBetweenLoops
      rw [dropWhile_nomark (by
        intro h; rcases List.mem_append.mp h with h | h
        · exact hnA h
        · exact hnB h)]
      simp
    | true =>
      simp only [if_true]
      obtain ⟨tk, htk, hck⟩ := noncmd_of_mk (by rw [hY]; exact htime rfl)
      have e1 : TA ++ repeatL 2 (TB ++ [Tk.loopMark]) ++ TB = (TA ++ TB) ++ Tk.loopMark :: (TB ++ Tk.loopMark :: TB) := by
        simp [repeatL, List.append_assoc]
      have hnAB : Tk.loopMark ∉ TA ++ TB := by
        intro h; rcases List.mem_append.mp h with h | h
        · exact hnA h
        · exact hnB h
      unfold SeqWf.ticksBetweenLoops
      rw [e1, dropWhile_mark hnAB]
      simp only [takeWhile_mark hnB]
      intro h0
      simp only [Option.some.injEq, List.length_eq_zero_iff, List.filter_eq_nil_iff] at h0
      have := h0 tk htk
      cases tk <;> simp [SongTop.isCmd] at hck this

/-! ## Optimised songs (round 5) -/

open Ctrmml.Expand Ctrmml.Opt Ctrmml.OptSteps Ctrmml.C01 in
/-- **C03 on optimised songs.**  The optimiser's result, when it validates and lies in the fragment,
compiles to well-formed streams: under the hypotheses of `C01_optimize_preserves` on the ORIGINAL song
and those of `C03_song_wellformed_partial` on the OPTIMISED song `r.song`, for every channel track
whose expected tick string is defined IN THE ORIGINAL SONG (`Timeline.expected song pf root = .ok t`
— the optimised song's own expected string need not be assumed defined: it is the same,
`SongOpt.optimised_expected_eq`; extra hypothesis as in `C02_optimised_song_roundtrip_partial`: drum
routines resolve alike in both songs, `SongOpt.DrumAlike`, vacuous without drum mode) the walker
accepts the stream of the optimised song's chunk, the interpreter stays in bounds however often the
loop-back is followed, and the loop-back jump spans time. -/
theorem C03_optimised_song_wellformed_partial (valid : Song → Bool) (hvalid : ∀ s, valid s = true → validAll s = true)
    (song : Song) (minScore : Int) (fuel : Nat) (r : OptResult) (d : DataInfo) (vol : Option String)
    (pf : Timeline.Platform) (b : MdsFile.Built)
    (hwf : SongWF song) (hsorted : (song.tracks.map (·.1)).Pairwise (· < ·))
    (hids : ∀ p ∈ song.tracks, p.1 < 32767)
    (hok : ∀ id, song.track? id ≠ none → okTrack song id)
    (hr : optimize valid minScore fuel song (initialSubId song) [] = .ok r) (hv : r.validated = true)
    (hcnt : initialSubId song + (r.passes.length : Int) < 32768)
    (hpc : PlatformClean d) (hp : SongTop.PlainSong r.song)
    (hb : MdsFile.construct r.song d vol = .ok b) (hlen : b.seq.length < 65536) (hR : SongTop.RoutinesOK r.song b)
    (hpa : SongTop.PlatAgree d.platform pf) :
    ∀ id root root' t, (id, root) ∈ song.tracks → (id, root') ∈ r.song.tracks → id < 16 →
      Timeline.inDomain r.song root' = true → SongSplit.segCount root' ≤ 1 → SongTop.LoopDrumOK root' →
      (∀ items, perf song root = .ok items → SongOpt.DrumAlike song r.song pf (played items)) →
      Timeline.expected song pf root = .ok t →
      ∃ base ts start, tracksOf b.seq = some (base, ts) ∧ ts.lookup id = some start ∧
        (∃ len, start + len ≤ b.seq.length ∧
          ∀ fuel, fuel ≥ len → SeqWf.walk b.seq start fuel { pc := start } = .ok (start + len)) ∧
        (∀ mj maxTicks fuel, (run b.seq base mj maxTicks fuel { pc := start }).2 ∈
          [Stop.finished, Stop.fuel, Stop.tooManyTicks]) ∧
        (∀ maxTicks fuel, (run b.seq base 2 maxTicks fuel { pc := start }).2 = Stop.finished →
          SeqWf.ticksBetweenLoops (run b.seq base 2 maxTicks fuel { pc := start }).1 ≠ some 0) := by
  intro id root root' t hmem hmem' hid hdom hseg hloop hdr hexp
  have hE := SongOpt.optimised_expected_eq valid hvalid song minScore fuel r pf hwf hsorted hids hok hr hv hcnt hp.ids
    hmem hmem' hdr
  exact C03_song_wellformed_partial r.song d vol pf b hpc hp hb hlen hR hpa id root' t hmem' hid hdom hseg hloop
    (by rw [hE]; exact hexp)

/-- the song-side hypotheses are met by `c c c c L d` (original) and its fold `[c]4 L d` (same pair as
`Properties/C02`, `OptEx`): the folded song is in the fragment and in the domain, and the two have the
same expected tick string -/
def oNote3 (p : Int) (on off : Nat) : Event := { type := ev_NOTE, param := p, on := on, off := off }
def oRoot3 : List Event :=
  [oNote3 36 24 0, oNote3 36 24 0, oNote3 36 24 0, oNote3 36 24 0, ⟨ev_SEGNO, 0, 0, 0⟩, oNote3 38 12 12]
def oRoot3' : List Event := [⟨ev_LOOP_START, 0, 0, 0⟩, oNote3 36 24 0, ⟨ev_LOOP_END, 4, 0, 0⟩, ⟨ev_SEGNO, 0, 0, 0⟩, oNote3 38 12 12]
example : SongTop.PlainSong { tracks := [(0, oRoot3')] } := SongTop.plainSong_of_B (by decide)
example : Timeline.inDomain { tracks := [(0, oRoot3')] } oRoot3' = true ∧ SongSplit.segCount oRoot3' ≤ 1 := by decide
example : (Timeline.expected { tracks := [(0, oRoot3')] } [] oRoot3').toOption =
    (Timeline.expected { tracks := [(0, oRoot3)] } [] oRoot3).toOption ∧
    ((Timeline.expected { tracks := [(0, oRoot3)] } [] oRoot3).toOption.map (·.length)) = some 145 := by
  decide +kernel

end Ctrmml.C03
