/-
  C04 — The player implements the MML control-flow rules and rejects broken structure.

  Model: Model/Player.lean (`Basic_Player::step_event`, `Track_Validator`).
  Spec:  Spec/Tree.lean (total bracket matcher) + Spec/Expand.lean (`perf`: loop bodies `n`
  times with the tail after the break dropped on the last pass, `n ≤ 1` once, calls inlined,
  one stack frame per live loop/call, structural faults are errors).
  Helper lemmas: Proofs/Tree.lean, Proofs/PlayerRefines.lean, Proofs/Validator.lean.

  Domain of the theorems: every song and every track whose event lists contain no explicit
  `END` event (`SongNoEnd`, `NoEnd`; the MML front end cannot produce one — `END` is what the
  player synthesises when it reads past the last event).  Nothing else is assumed: nesting,
  counts (including 0 and negative), breaks anywhere, stray and missing brackets, calls to
  missing tracks, self- and mutual recursion are all inside the quantifier.
-/
import Ctrmml.Proofs.Validator
import Ctrmml.Model.PlayerCh
namespace Ctrmml.C04
open Ctrmml Player Tree Expand Refine

/-- what `Track_Validator` must report for a performance: total length, time of the last loop
point (−1 if none), loop length -/
def summary (items : List Item) : Validated :=
  { playTime := totalDur items,
    loopPlayTime := toInt (loopTime items),
    loopLength := match loopTime items with
      | some t => totalDur items - t
      | none => 0 }

/-- **Event sequence.** Stepping a track from its start calls the event hook with exactly the
items of the structural expansion `perf`, in order, and arrives at the end of the track with an
empty stack; if the expansion is an error (unbalanced loop, break outside a loop, missing call
target, nesting beyond the stack limit incl. unbounded recursion, negative loop count) the
player reaches an error instead. -/
theorem C04_player_refines_expand (song : Song) (root : List Event)
    (hs : SongNoEnd song) (hr : NoEnd root) :
    Sim song root ⟨.root, 0, []⟩ ⟨.root, root.length, []⟩ (perf song root) :=
  perf_sim song root hs hr

/-- **Accepts, with the right numbers.** Every song whose expansion is defined is accepted by the
validator, and the reported track length, loop-point time and loop length are the sums of the
durations in the expanded event sequence. -/
theorem C04_validator_accepts (song : Song) (root : List Event)
    (hs : SongNoEnd song) (hr : NoEnd root) (items : List Item) (h : perf song root = .ok items) :
    ∃ fuel0, ∀ fuel, fuel ≥ fuel0 →
      (runValidator song root fuel initState).map validatedOf = .ok (summary items) := by
  have hsim := perf_sim song root hs hr
  rw [h] at hsim
  obtain ⟨outs, ⟨k, hk, hno⟩, hitems⟩ := hsim
  have hne := codesNoEnd_of song root hs hr
  obtain ⟨a', hrun, hen, htime⟩ := run_follows song root k _ _ outs {} hk hno rfl
  have hok := stepsCore_outOK song root hne k _ _ outs hk
  have hfold := timeFold_items outs hok hno 0 none
  have hT0 : T ({} : Acc) = 0 := rfl
  have hlp0 : ({} : Acc).loopPlayTime = toInt none := rfl
  rw [hT0, hlp0, hfold, hitems] at htime
  simp only [Nat.zero_add, Prod.mk.injEq] at htime
  obtain ⟨hT, hlp⟩ := htime
  refine ⟨k + 2, ?_⟩
  intro fuel hf
  obtain ⟨m, rfl⟩ : ∃ m, fuel = k + (m + 2) := ⟨fuel - k - 2, by omega⟩
  rw [show initState = ⟨⟨.root, 0, []⟩, {}⟩ from rfl, hrun (m + 2)]
  -- the final step: `END` at the root with an empty stack
  have hnone : (codeOf song root .root)[root.length]? = none := by simp [codeOf]
  have hfin : endEvent.kind = .fin := by decide
  have hcs : coreStep song root ⟨.root, root.length, []⟩ = .ok (⟨.root, root.length + 1, []⟩, .rootEnd endEvent) := by
    unfold coreStep
    simp [fetch, hnone, hfin]
  rw [runValidator]
  simp only [hen, Bool.not_true, Bool.false_eq_true, if_false, step, hcs]
  simp only [accStep, Bool.and_false, and_false, if_false, Out.fetched]
  rw [runValidator]
  simp only [Bool.not_false, if_true, Except.map, validatedOf, summary]
  congr 1
  have e1 : a'.playTime + a'.onTime + a'.offTime = totalDur items := hT
  have e2 : a'.loopPlayTime = toInt (loopTime items) := hlp
  simp only [e1, e2, loopTime]
  cases hl : loopTimeAux 0 none items with
  | none => simp [toInt]
  | some t => simp [toInt]

/-- **Rejects.** Every song whose expansion is an error — unbalanced loops, a break outside a
loop, a call to a missing track, nesting or recursion beyond the stack limit, a negative loop
count — is refused with one of the player's input errors (never by running out of steps). -/
theorem C04_validator_rejects (song : Song) (root : List Event)
    (hs : SongNoEnd song) (hr : NoEnd root) (x : SErr) (h : perf song root = .error x) :
    ∃ e, e ≠ PErr.fuel ∧ ∃ fuel0, ∀ fuel, fuel ≥ fuel0 → runValidator song root fuel initState = .error e := by
  have hsim := perf_sim song root hs hr
  rw [h] at hsim
  obtain ⟨c', outs, e, ⟨k, hk, hno⟩, herr⟩ := hsim
  refine ⟨e, ?_, k + 1, ?_⟩
  · intro he; subst he; exact coreStep_ne_fuel song root c' herr
  · intro fuel hf
    obtain ⟨m, rfl⟩ : ∃ m, fuel = k + (m + 1) := ⟨fuel - k - 1, by omega⟩
    exact runValidator_error song root k _ c' outs {} e hk hno rfl herr m

/-- **Validation always terminates**, for every song, valid or not: with enough steps the
validator returns a result or an input error. -/
theorem C04_validator_terminates (song : Song) (root : List Event)
    (hs : SongNoEnd song) (hr : NoEnd root) :
    ∃ fuel0, ∀ fuel, fuel ≥ fuel0 → runValidator song root fuel initState ≠ .error .fuel := by
  cases h : perf song root with
  | ok items =>
    obtain ⟨f0, hf⟩ := C04_validator_accepts song root hs hr items h
    refine ⟨f0, fun fuel hge hbad => ?_⟩
    have := hf fuel hge
    rw [hbad] at this
    simp [Except.map] at this
  | error x =>
    obtain ⟨e, hne, f0, hf⟩ := C04_validator_rejects song root hs hr x h
    refine ⟨f0, fun fuel hge hbad => ?_⟩
    rw [hf fuel hge] at hbad
    injection hbad with hbad
    exact hne hbad


/-! ### the end of a track, and drum mode (class `Player`) -/

/-- **End of track.** At an `END` with an empty stack the player resumes at the loop point exactly
when there is one, time has passed since it was set (`play_time ≠ loop_play_time`, both taken
after the pending on/off time has been added) and since the last jump back
(`play_time ≠ last_loop_jump_time`, repository fix d90bcf9: a loop section that takes no time ends
the track), and the loop hook agrees; in that case the loop
count goes up by one and nothing is emitted; otherwise the player is disabled and the end hook
runs. -/
theorem C04_end_loops_iff_time_passed (lh : Bool) (a : Acc) (pos : Nat) (c' : Core) (f : Event) :
    let t : Nat := a.playTime + a.onTime + a.offTime
    let back : Prop := a.loopPosition ≠ -1 ∧ (t : Int) ≠ a.loopPlayTime ∧ (t : Int) ≠ a.lastLoopJump ∧ lh = true
    (back → (accStep lh a pos c' (.rootEnd f)).2.1.position = a.loopPosition.toNat ∧
            (accStep lh a pos c' (.rootEnd f)).2.2 = .nothing ∧
            (accStep lh a pos c' (.rootEnd f)).1.enabled = a.enabled ∧
            (accStep lh a pos c' (.rootEnd f)).1.loopCount = a.loopCount + 1 ∧
            (accStep lh a pos c' (.rootEnd f)).1.lastLoopJump = t) ∧
    (¬ back → (accStep lh a pos c' (.rootEnd f)).2.2 = .finish ∧
              (accStep lh a pos c' (.rootEnd f)).1.enabled = false ∧
              (accStep lh a pos c' (.rootEnd f)).2.1 = c') := by
  intro t back
  constructor
  · intro hb
    have hb' : a.loopPosition ≠ -1 ∧ ((a.playTime + a.onTime + a.offTime : Nat) : Int) ≠ a.loopPlayTime ∧
        ((a.playTime + a.onTime + a.offTime : Nat) : Int) ≠ a.lastLoopJump ∧ lh = true := hb
    simp only [accStep, Out.fetched]
    rw [if_pos (by simpa using hb')]
    exact ⟨rfl, rfl, rfl, rfl, rfl⟩
  · intro hb
    have hb' : ¬ (a.loopPosition ≠ -1 ∧ ((a.playTime + a.onTime + a.offTime : Nat) : Int) ≠ a.loopPlayTime ∧
        ((a.playTime + a.onTime + a.offTime : Nat) : Int) ≠ a.lastLoopJump ∧ lh = true) := hb
    simp only [accStep, Out.fetched]
    rw [if_neg (by simpa using hb')]
    exact ⟨rfl, rfl, rfl⟩

open PlayerCh in
/-- **Drum mode, entering.** A note in drum mode whose routine exists, with room on the stack and
no drum frame on top, pushes a drum frame remembering the caller's track, position and on/off
time, continues at the start of the routine with zero duration, and is shown as a `NOP`. -/
theorem C04_drum_enter (song : Song) (s : PS) (e : Event) (evs : List Event)
    (htop : ∀ f r, s.core.stack = f :: r → f.type ≠ .drum)
    (htr : song.track? (trackIdOfParam e.param) = some evs) (hroom : s.core.stack.length < maxStack) :
    handleDrumMode song s e =
      ({ s with core := { track := .id (trackIdOfParam e.param), position := 0,
                          stack := { type := .drum, track := s.core.track, position := s.core.position,
                                     endPosition := s.acc.onTime, loopCount := s.acc.offTime } :: s.core.stack },
                acc := { s.acc with onTime := 0, offTime := 0 } }, { e with type := Tables.ev_NOP }) := by
  have hpush : ¬ (s.core.stack.length ≥ maxStack) := by omega
  have henter : handleDrumMode.enter song s e =
      ({ s with core := { track := .id (trackIdOfParam e.param), position := 0,
                          stack := { type := .drum, track := s.core.track, position := s.core.position,
                                     endPosition := s.acc.onTime, loopCount := s.acc.offTime } :: s.core.stack },
                acc := { s.acc with onTime := 0, offTime := 0 } }, { e with type := Tables.ev_NOP }) := by
    simp only [handleDrumMode.enter, htr, push]
    rw [if_neg hpush]
  unfold handleDrumMode
  split
  · rename_i f rest hst
    have hnd := htop f rest hst
    rw [if_neg hnd]
    exact henter
  · exact henter

open PlayerCh in
/-- **Drum mode, leaving.** The routine's first note (a drum frame is on top) sounds with the
caller's on/off time; the player returns to the caller's track and position and the frame is
popped. -/
theorem C04_drum_exit (song : Song) (s : PS) (e : Event) (f : Frame) (r : List Frame)
    (hs : s.core.stack = f :: r) (hf : f.type = .drum) :
    handleDrumMode song s e =
      ({ s with core := { track := f.track, position := f.position, stack := r },
                acc := { s.acc with onTime := f.endPosition, offTime := f.loopCount.toNat } }, e) := by
  unfold handleDrumMode
  simp [hs, hf]

/-- **Drum routine without a note.** Reaching the end of a routine while its drum frame is still
on top is the input error "drum routine contains no note". -/
theorem C04_drum_no_note_rejected (song : Song) (root : List Event) (tr : TRef) (pos : Nat) (f : Frame) (r : List Frame)
    (hend : (codeOf song root tr)[pos]? = none) (hf : f.type = .drum) :
    coreStep song root ⟨tr, pos, f :: r⟩ = .error .drumNoNote := by
  unfold coreStep
  have hk : endEvent.kind = .fin := by decide
  simp [fetch, hend, hk, stackTop, hf, underflowErr]

/-! Non-vacuity: concrete songs inside the domain, one accepted with a non-trivial expansion
(loop with break, nested call), one rejected. -/
section examples
open Tables
def n (p : Int) (on off : Nat) : Event := { type := ev_NOTE, param := p, on := on, off := off }
def ls : Event := { type := ev_LOOP_START, param := 0, on := 0, off := 0 }
def lb : Event := { type := ev_LOOP_BREAK, param := 0, on := 0, off := 0 }
def le (c : Int) : Event := { type := ev_LOOP_END, param := c, on := 0, off := 0 }
def jp (t : Int) : Event := { type := ev_JUMP, param := t, on := 0, off := 0 }
def sg : Event := { type := ev_SEGNO, param := 0, on := 0, off := 0 }

def exSong : Song := { tracks := [(100, [n 7 3 1])] }
def exRoot : List Event := [n 1 2 0, sg, ls, n 2 1 1, lb, jp 100, le 3, n 4 5 0]

example : SongNoEnd exSong ∧ NoEnd exRoot := by
  constructor
  · intro id evs h
    simp only [exSong, Song.track?, List.lookup] at h
    split at h
    · cases h; intro e he; simp at he; subst he; decide
    · cases h
  · intro e he
    simp [exRoot] at he
    rcases he with rfl | rfl | rfl | rfl | rfl | rfl | rfl | rfl <;> decide

example : ((perf exSong exRoot).toOption.map (fun items => (items.map (·.ev.param), summary items)))
    = some ([1, 0, 0, 2, 0, 100, 7, 3, 2, 0, 100, 7, 3, 2, 3, 4], ⟨21, 2, 19⟩) := by decide

example : (perf exSong [ls, n 1 1 0]).toOption = none := by decide
example : (perf exSong [n 1 1 0, lb]).toOption = none := by decide
example : (perf exSong [jp 5]).toOption = none := by decide
end examples

end Ctrmml.C04
