/-
  C18 — Metadata and table lines are tokenised as documented.  Property theorems only;
  helper lemmas are in Proofs/Tags.lean, the model in Model/Tags.lean (song.cpp tag API,
  mml_input.cpp line dispatch), the documented line shape / denotation in Spec/TagRender.lean.

  `values s k` = the tag's vector (empty when the tag does not exist).  All statements are for
  keys other than the bookkeeping key `tag_order` (a `#…`/`@…`/`cmd_…` key never is).
-/
import Ctrmml.Proofs.Tags
namespace Ctrmml.Tags
open Ctrmml Ctrmml.TagSpec

/-- One `add_tag_list` call on ANY line of the documented shape (separators of blanks and
commas, plain or double-quoted items with backslash escapes, optional `;` comment) appends
exactly the line's denotation: the item values in order, plus k−1 empty items for every
separator with k ≥ 1 commas; no other tag changes. -/
theorem C18_line_denotes (s : Song) (k : Bytes) (l : Line) (hw : l.wf) (hk : k ≠ orderKey) :
    values (addTagList s k l.render) k = values s k ++ l.denote ∧
    ∀ k', k' ≠ k → k' ≠ orderKey → values (addTagList s k l.render) k' = values s k' :=
  ⟨addTagList_line s k l hw hk, fun k' h1 h2 => addTagList_other s k k' _ h1 h2⟩

/-- Round trip over all renderings: whatever legal lines `ls` (first line + continuation lines,
the comma count being per line) denote the value list `vals`, feeding them to `add_tag_list`
leaves exactly the old values followed by `vals`. -/
theorem C18_taglist_roundtrip (s : Song) (k : Bytes) (ls : List Line) (vals : List Bytes)
    (hw : ∀ l ∈ ls, l.wf) (hk : k ≠ orderKey) (hr : denoteLines ls = vals) :
    values (addLines s k ls) k = values s k ++ vals := by
  rw [← hr]; exact addLines_values ls s k hw hk

/-- Every value list without NUL bytes (empty values, blanks, commas, semicolons, quotes,
backslashes, UTF-8 …) HAS a legal rendering, and it parses back to the list. -/
theorem C18_every_list_renderable (s : Song) (k : Bytes) (vals : List Bytes)
    (h : ∀ v ∈ vals, ∀ b ∈ v, b ≠ 0) (hk : k ≠ orderKey) :
    (canonLine vals).wf ∧ (canonLine vals).denote = vals ∧
    values (addTagList s k (canonLine vals).render) k = values s k ++ vals := by
  refine ⟨canon_wf vals h, canon_denote vals h, ?_⟩
  rw [addTagList_line s k _ (canon_wf vals h) hk, canon_denote vals h]

/-- The glue in `MML_Input`: an `@Key <line>` line, and every continuation line (first byte
blank) after it, append the line's denotation to the tag whose key is the lower-cased key. -/
theorem C18_at_line_appends (st : Inp) (key : Bytes) (b : UInt8) (l : Line) (hk : keyOk key)
    (hb : isBlankC b = true) (hw : l.wf) :
    ((parseLine st (64 :: key ++ b :: l.render)).2 = .ok ∧
      (parseLine st (64 :: key ++ b :: l.render)).1.lastCmd = .tag ∧
      (parseLine st (64 :: key ++ b :: l.render)).1.tagKey = 64 :: key.map toLowerC ∧
      values (parseLine st (64 :: key ++ b :: l.render)).1.song (64 :: key.map toLowerC) =
        values st.song (64 :: key.map toLowerC) ++ l.denote) ∧
    (st.lastCmd = .tag → st.tagKey = 64 :: key.map toLowerC →
      (parseLine st (b :: l.render)).2 = .ok ∧ (parseLine st (b :: l.render)).1.lastCmd = .tag ∧
      (parseLine st (b :: l.render)).1.tagKey = 64 :: key.map toLowerC ∧
      values (parseLine st (b :: l.render)).1.song (64 :: key.map toLowerC) =
        values st.song (64 :: key.map toLowerC) ++ l.denote) := by
  have hb' : isSpaceC b = true := by
    have : b = 32 ∨ b = 9 := by simpa [isBlankC] using hb
    rcases this with h | h <;> simp [h, isSpaceC]
  have hnzr : ∀ x ∈ l.render, x ≠ 0 := render_no_nul l hw
  constructor
  · have e := parseLine_tag st 64 key (b :: l.render) (Or.inr rfl) hk (Or.inr ⟨b, _, rfl, hb'⟩)
      (by
        intro x hx
        simp at hx
        rcases hx with rfl | hx
        · have : x = 32 ∨ x = 9 := by simpa [isBlankC] using hb
          rcases this with h | h <;> simp [h]
        · exact hnzr x hx)
    have d := dispatch_at { st with tagKey := toLowerC 64 :: key.map toLowerC, lastCmd := .tag }
      (key.map toLowerC) b l rfl rfl hb hw
    have hl64 : toLowerC 64 = 64 := by decide
    rw [hl64] at e d
    rw [e]
    exact d
  · intro h1 h2
    have e := parseLine_blank st b l.render hb hnzr
    have d := dispatch_at st (key.map toLowerC) b l h1 h2 hb hw
    rw [e, ← h2]
    exact d

/-- A `#Key <text>` line stores the rest of the line with trailing white space removed as the
SINGLE value of the (lower-cased) key, whatever the tag held before, and ends the command
(no continuation).  `#platform` is the documented exception (it selects the platform). -/
theorem C18_hash_tag_single (st : Inp) (key rest : Bytes) (b : UInt8) (hk : keyOk key)
    (hb : isBlankC b = true) (hz : ∀ x ∈ rest, x ≠ 0) (hne : rest.dropWhile isBlankC ≠ [])
    (hp : (35 : UInt8) :: key.map toLowerC ≠ platformKey) :
    (parseLine st (35 :: key ++ b :: rest)).2 = .ok ∧
    (parseLine st (35 :: key ++ b :: rest)).1.lastCmd = .none ∧
    values (parseLine st (35 :: key ++ b :: rest)).1.song (35 :: key.map toLowerC) =
      [trimRight (rest.dropWhile isBlankC)] := by
  have hb2 : b = 32 ∨ b = 9 := by simpa [isBlankC] using hb
  have hb' : isSpaceC b = true := by rcases hb2 with h | h <;> simp [h, isSpaceC]
  have e := parseLine_tag st 35 key (b :: rest) (Or.inl rfl) hk (Or.inr ⟨b, _, rfl, hb'⟩)
    (by
      intro x hx
      simp at hx
      rcases hx with rfl | hx
      · rcases hb2 with h | h <;> simp [h]
      · exact hz x hx)
  have hko : (35 : UInt8) :: key.map toLowerC ≠ orderKey := by
    intro h
    have := congrArg List.head? h
    simp [orderKey, ofNats, Tables.tags_orderKey] at this
  rw [e]
  have hl : toLowerC 35 = 35 := by decide
  have hp' : ((35 : UInt8) :: key.map toLowerC == platformKey) = false := by simpa using hp
  simp only [dispatch, hb, if_true, hne, if_false, parseTag, hl, List.head?_cons, Tables.tags_singlePrefix]
  simp only [show (some (35 : UInt8) == some (UInt8.ofNat 35)) = true by decide, if_true, hp', Bool.false_eq_true, if_false]
  refine ⟨trivial, trivial, ?_⟩
  rw [setTag_touch]
  simp only [values, lookup_touch_self _ _ _ hko, Option.getD_some, rtrim_eq]

/-- Tag keys are case-insensitive: two `#`/`@` lines whose keys differ only in the case of
ASCII letters are the same line. -/
theorem C18_keys_case_insensitive (st : Inp) (c : UInt8) (k1 k2 rest : Bytes) (hc : c = 35 ∨ c = 64)
    (h1 : keyOk k1) (h2 : keyOk k2) (hr : afterKey rest) (hz : ∀ b ∈ rest, b ≠ 0)
    (he : k1.map lower = k2.map lower) :
    parseLine st (c :: k1 ++ rest) = parseLine st (c :: k2 ++ rest) := by
  rw [parseLine_tag st c k1 rest hc h1 hr hz, parseLine_tag st c k2 rest hc h2 hr hz]
  have : k1.map toLowerC = k2.map toLowerC := he
  rw [this]

/-- The order in which keys were first defined is recorded: after any sequence of
set_tag / add_tag / add_tag_list / get_or_make_tag calls on a new Song, `tag_order` is the list
of their keys with repetitions removed (first occurrence kept). -/
theorem C18_tag_order_first_definition (ops : List TagOp) (hk : ∀ op ∈ ops, op.key ≠ orderKey) :
    values (runOps Song.empty ops) orderKey = firstDefs (ops.map TagOp.key) := by
  obtain ⟨h1, h2⟩ := runOps_inv ops Song.empty hk ordInv_empty
  rw [h1, h2]
  have : defined Song.empty = [] := by simp [defined, Song.empty, keysOf]
  rw [this]; rfl

/-- Every platform command registered with a sequential id gets its own retrievable entry:
for fewer than 65537 registrations the returned ids are pairwise different and
`get_platform_command(id)` returns exactly the tokens of that command's text. -/
theorem C18_platform_commands_distinct (s : Song) (vs : List Bytes) (hl : vs.length ≤ 65536)
    (hr : inRange16 s.cmdIndex) (hfresh : ∀ p, lookupTag s.tags (cmdKey p) = none) :
    (regAll s vs).1 = (List.range vs.length).map (idAt s.cmdIndex) ∧
    (∀ i j, i < vs.length → j < vs.length → idAt s.cmdIndex i = idAt s.cmdIndex j → i = j) ∧
    (∀ i (hi : i < vs.length),
      getCmd (regAll s vs).2 (idAt s.cmdIndex i) = some (tagListLoop (cstr vs[i]) 0 [])) :=
  ⟨regAll_ids vs s hr,
   fun i j hi hj h => idAt_inj s.cmdIndex i j (by omega) (by omega) h,
   fun i hi => regAll_retrievable vs s i hi hl hr (hfresh _)⟩

/-- The wrap is real: the sequential id is a 16-bit counter, so registration number 65536 (the
65537th) reuses the id of registration number 0 and appends to its entry. -/
theorem C18_platform_index_wraps (c : Int) (i : Nat) : idAt c (i + 65536) = idAt c i :=
  idAt_wrap c i

/-! Non-vacuity: concrete non-trivial values meet the hypotheses, and the statements compute. -/

/-- `a,, "b\"c" ,x ; hi`  denotes  a, "", b"c, x -/
def exLine : Line :=
  { lead := [], items := [(.plain [97], [44, 44, 32]), (.quoted [98, 92, 34, 99], [32, 44]), (.plain [120], [32])],
    comment := some [32, 104, 105] }

example : exLine.wf := by
  refine ⟨by intro b hb; simp [exLine] at hb, ?_, ?_, ?_⟩
  · intro p hp
    simp [exLine] at hp
    rcases hp with rfl | rfl | rfl
    · exact ⟨⟨by simp, by decide⟩, by unfold isSep; decide⟩
    · exact ⟨by decide, by unfold isSep; decide⟩
    · exact ⟨⟨by simp, by decide⟩, by unfold isSep; decide⟩
  · exact ⟨by simp, by simp, trivial⟩
  · intro c hc b hb
    simp [exLine] at hc; subst hc
    revert b; decide

example : exLine.denote = [[97], [], [98, 34, 99], [120]] := by decide
/-- the text `a,, "b\"c" ,x ; hi` -/
example : exLine.render = [97, 44, 44, 32, 34, 98, 92, 34, 99, 34, 32, 44, 120, 32, 59, 32, 104, 105] := by decide
example : ([64, 107] : Bytes) ≠ orderKey := by decide
example : keyOk [84, 105, 116, 108, 101] := by intro b hb; revert b; decide
example : (35 : UInt8) :: ([84, 105, 116, 108, 101] : Bytes).map toLowerC ≠ platformKey := by decide
example : afterKey [32, 120] := Or.inr ⟨32, [120], rfl, by decide⟩
example : ([70, 111, 111] : Bytes).map lower = ([102, 79, 79] : Bytes).map lower := by decide
example : ∀ op ∈ [TagOp.set [35, 116] [120], .list [64, 49] [49, 44, 50], .add [35, 116] [121]], op.key ≠ orderKey := by
  intro op hop; simp at hop; rcases hop with rfl | rfl | rfl <;> decide
example : inRange16 Song.empty.cmdIndex ∧ ∀ p, lookupTag Song.empty.tags (cmdKey p) = none :=
  ⟨by simp [inRange16, Song.empty, Tables.tags_cmdIndexInit], fun _ => rfl⟩
example : ∀ v ∈ ([[], [32, 44], [34, 92, 59], [195, 164]] : List Bytes), ∀ b ∈ v, b ≠ 0 := by decide

end Ctrmml.Tags
