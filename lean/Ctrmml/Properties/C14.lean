import Ctrmml.Model.Wave
import Ctrmml.Spec.Alloc
namespace Ctrmml.Wave
theorem C14_stub : True := trivial
end Ctrmml.Wave
