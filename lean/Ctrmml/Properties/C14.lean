/-
  C14 — Samples are decoded and placed in the wave bank intact.  Property theorems only;
  helper lemmas in Proofs/Wave.lean, model in Model/Wave.lean, spec notions (windows, reads,
  tiling, bank rule, 8-bit conversion) in Spec/Alloc.lean.

  The model is wave.cpp after the `fix:` commits to `find_duplicate`, the reader and
  `add_sample`, including the repair of the `offset=` defect D11 (a fresh placement stores the
  playback window `[start, start + size)` of the data and hands out `start = 0`; a window outside
  the data is an input error).  The history theorems therefore hold for every addition — `Adm`
  only bounds the data by 1 GiB, the range in which the 32-bit arithmetic of wave.cpp is exact.
  `C14_offset_window_regression` replays the former D11 counterexample on the repaired model.
-/
import Ctrmml.Proofs.WaveDecode
namespace Ctrmml.Wave
open Ctrmml Ctrmml.Alloc

/-- one client request: header and sample data, as `add_sample(header, data)` receives them
(`add_sample(Tag)` computes both from the file and the overrides and calls it) -/
structure Req where
  h : Sample
  data : Bytes

/-- the bytes the client wants to hear: from the start offset, `size` bytes -/
def Req.wanted (r : Req) : Bytes := (r.data.drop r.h.start).take r.h.size

/-- banks reachable by any history of admissible additions (failed additions return no new
state and therefore do not appear), with the regions handed out by fresh placements and
the bytes requested for every sample index -/
inductive Reach : Bank → List Win → List Bytes → Prop
  | new (m bk : Nat) (hm : 0 < m) (hm2 : m < 1073741824) (hb : bk < 1073741824) : Reach (Bank.new m bk) [] []
  | add {b : Bank} {rs : List Win} {ws : List Bytes} (r : Req) (b' : Bank) (idx : Nat) :
      Reach b rs ws → Adm b r.h r.data → addSample b r.h r.data = .ok (b', idx) →
      Reach b' (stepRegions b r.h r.data rs) (if idx < ws.length then ws else ws ++ [r.wanted])

/-- Invariant over all histories.  After any history of additions (any start offset, any
header; data below 1 GiB): every sample's window lies inside one freshly allocated region and inside the
used area; the rom shows, in every window, exactly the bytes requested for that sample
(still, after all later additions); regions and gaps tile the used area exactly (so they are
pairwise disjoint and nothing else is used) and their sizes sum to the used size. -/
theorem C14_inv_histories (b : Bank) (rs : List Win) (ws : List Bytes) (hr : Reach b rs ws) :
    (∀ s ∈ b.samples, s.win.inside b.currentSize ∧ ∃ r ∈ rs, r.lo ≤ s.win.lo ∧ s.win.hi ≤ r.hi) ∧
    ws.length = b.samples.length ∧
    (∀ (i : Nat) (s : Sample) (w : Bytes), b.samples[i]? = some s → ws[i]? = some w → s.win.reads b.rom = w) ∧
    Tiles (rs ++ b.gaps.map Gap.win) b.currentSize ∧
    total rs + total (b.gaps.map Gap.win) = b.currentSize ∧
    b.currentSize ≤ b.rom.length ∧ Inv b rs := by
  suffices hmain : Inv b rs ∧ ws.length = b.samples.length ∧
      (∀ (i : Nat) (s : Sample) (w : Bytes), b.samples[i]? = some s → ws[i]? = some w → s.win.reads b.rom = w) by
    obtain ⟨inv, hl, hc⟩ := hmain
    refine ⟨?_, hl, hc, inv.tiles, inv.account, by rw [inv.romLen]; exact inv.curLe, inv⟩
    intro s hs
    obtain ⟨r, hrm, h1, h2⟩ := inv.housed s hs
    have := inv.regWf r hrm
    exact ⟨by simp only [Win.inside, Sample.win]; omega, r, hrm, by simp only [Sample.win]; omega,
      by simp only [Win.hi, Sample.win]; omega⟩
  induction hr with
  | new m bk hm hm2 hb => exact ⟨inv_new m bk hm hm2 hb, by simp [Bank.new], by simp [Bank.new]⟩
  | @add b rs ws r b' idx _ adm hok ih =>
    obtain ⟨inv, hl, hc⟩ := ih
    have so := addSample_step b rs r.h r.data b' idx inv adm hok
    obtain ⟨s0, hs0, hread, _, _, _⟩ := so.entry
    have old : ∀ (i : Nat) (s : Sample) (w : Bytes), b.samples[i]? = some s → ws[i]? = some w → s.win.reads b'.rom = w := by
      intro i s w h1 h2
      have hm := List.mem_of_getElem? h1
      obtain ⟨r', hr', g1, g2⟩ := inv.housed s hm
      rw [so.stable s.win ⟨r', hr', by simp only [Sample.win]; omega, by simp only [Sample.win]; omega⟩]
      exact hc i s w h1 h2
    rcases so.grows with ⟨hlt, hsame⟩ | ⟨heq, s1, happ⟩
    · have hlt' : idx < ws.length := by omega
      simp only [hlt', if_true]
      refine ⟨so.inv, by rw [hsame]; exact hl, ?_⟩
      intro i s w h1 h2
      rw [hsame] at h1
      exact old i s w h1 h2
    · have hlt' : ¬ idx < ws.length := by omega
      simp only [hlt', if_false]
      refine ⟨so.inv, by rw [happ]; simp [hl], ?_⟩
      intro i s w h1 h2
      rcases Nat.lt_or_ge i b.samples.length with hi | hi
      · rw [happ, List.getElem?_append_left hi] at h1
        rw [List.getElem?_append_left (by omega)] at h2
        exact old i s w h1 h2
      · have hlen : (b.samples ++ [s1]).length = b.samples.length + 1 := by simp
        have hi2 : i = b.samples.length := by
          rcases Nat.lt_or_ge i (b.samples.length + 1) with h | h
          · omega
          · rw [happ, List.getElem?_eq_none (by omega)] at h1; cases h1
        subst hi2
        rw [List.getElem?_append_right (by omega)] at h2
        have : w = r.wanted := by
          have e : b.samples.length - ws.length = 0 := by omega
          rw [e] at h2; simpa using h2.symm
        subst this
        rw [heq] at hs0
        rw [hs0] at h1
        cases h1
        exact hread

/-- content_stable: one more admissible addition changes no byte of any existing window. -/
theorem C14_content_stable (b : Bank) (rs : List Win) (h : Sample) (data : Bytes) (b' : Bank) (idx : Nat)
    (inv : Inv b rs) (adm : Adm b h data) (hok : addSample b h data = .ok (b', idx)) :
    ∀ s ∈ b.samples, s.win.reads b'.rom = s.win.reads b.rom := by
  intro s hs
  obtain ⟨r, hr, g1, g2⟩ := inv.housed s hs
  exact (addSample_step b rs h data b' idx inv adm hok).stable s.win
    ⟨r, hr, by simp only [Sample.win]; omega, by simp only [Sample.win]; omega⟩

/-- fresh placement never overlaps: no byte of the newly allocated region belongs to an
older region, to a remaining gap, or to the window of an existing sample. -/
theorem C14_fresh_disjoint (b : Bank) (rs : List Win) (h : Sample) (data : Bytes) (b' : Bank) (idx : Nat)
    (inv : Inv b rs) (adm : Adm b h data) (hnew : findDuplicate b h data = none)
    (hok : addSample b h data = .ok (b', idx)) :
    ∃ R : Win, stepRegions b h data rs = rs ++ [R] ∧ R.len = h.size ∧
      ∀ x, R.has x → cover rs x = 0 ∧ cover (b'.gaps.map Gap.win) x = 0 ∧ ∀ s ∈ b.samples, ¬ s.win.has x := by
  have so := addSample_step b rs h data b' idx inv adm hok
  have hsr : stepRegions b h data rs = rs ++ [⟨(placeFresh b h.size).2.1, h.size⟩] := by simp [stepRegions, hnew]
  refine ⟨_, hsr, rfl, ?_⟩
  intro x hx
  have ht := so.inv.tiles x
  rw [hsr] at ht
  simp only [List.append_assoc, cover_append, cover_single] at ht
  have hi : ind ⟨(placeFresh b h.size).2.1, h.size⟩ x = 1 := by
    simp only [Win.has] at hx; simp [ind, hx]
  have h0 : cover rs x = 0 := by split at ht <;> omega
  refine ⟨h0, by split at ht <;> omega, ?_⟩
  intro s hs hsx
  obtain ⟨r, hr, g1, g2⟩ := inv.housed s hs
  have := cover_mem rs r x hr (by simp only [Win.has, Sample.win] at hsx ⊢; omega)
  omega

/-- bank_rule: in every reachable bank, no sample small enough to fit a bank crosses a bank boundary. -/
theorem C14_bank_rule (b : Bank) (rs : List Win) (ws : List Bytes) (hr : Reach b rs ws) :
    ∀ s ∈ b.samples, bankRule b.bankSize s.win := by
  obtain ⟨_, _, _, _, _, _, inv⟩ := C14_inv_histories b rs ws hr
  intro s hs hle
  have hb := housed_bounds inv hs
  obtain ⟨hm, hbk⟩ := inv.small
  have hcur := inv.curLe
  obtain ⟨_, _, h3⟩ := fitStart_spec b.bankSize s.size (s.position + s.start) inv.bankPos hbk (by omega) (by omega)
  rw [inv.placed s hs] at h3
  exact h3 hle

/-- dedupe: when the duplicate detector finds the data, nothing is written: rom, used size
and gaps are unchanged and the returned header points at the earlier sample's position. -/
theorem C14_dedupe (b : Bank) (h : Sample) (data : Bytes) (d : Nat) (b' : Bank) (idx : Nat)
    (hd : findDuplicate b h data = some d) (hok : addSample b h data = .ok (b', idx)) :
    b'.rom = b.rom ∧ b'.currentSize = b.currentSize ∧ b'.gaps = b.gaps ∧
    ∃ s i, b'.samples[idx]? = some s ∧ b.samples[d]? = some i ∧ s.position = i.position := by
  unfold addSample at hok
  split at hok
  · cases hok
  split at hok
  · cases hok
  simp only [hd] at hok
  unfold findDuplicate at hd
  obtain ⟨hlt, _, _⟩ := List.findIdx?_eq_some_iff_getElem.mp hd
  have hgd : b.samples.getD d h = b.samples[d] := by
    rw [List.getD_eq_getElem?_getD, List.getElem?_eq_getElem hlt]; rfl
  rw [hgd] at hok
  split at hok
  · rename_i ri hri
    simp only [Except.ok.injEq, Prod.mk.injEq] at hok
    obtain ⟨rfl, rfl⟩ := hok
    obtain ⟨hlt2, hp2, _⟩ := List.findIdx?_eq_some_iff_getElem.mp hri
    simp only [sameHeader, decide_eq_true_eq] at hp2
    exact ⟨rfl, rfl, rfl, b.samples[ri], b.samples[d], List.getElem?_eq_getElem hlt2, List.getElem?_eq_getElem hlt, by rw [hp2]⟩
  · simp only [Except.ok.injEq, Prod.mk.injEq] at hok
    obtain ⟨rfl, rfl⟩ := hok
    exact ⟨rfl, rfl, rfl, { h with position := b.samples[d].position }, b.samples[d], by simp, List.getElem?_eq_getElem hlt, rfl⟩

/-- identical sample data is stored once: data byte-identical to a stored sample (whole
sample, no offset, loop start not before the stored one's) is always found again. -/
theorem C14_dedupe_complete (b : Bank) (rs : List Win) (h : Sample) (data : Bytes) (i : Sample)
    (inv : Inv b rs) (hi : i ∈ b.samples) (hi0 : i.start = 0) (hh0 : h.start = 0)
    (hlen : data.length = i.size) (hsz : h.size = data.length) (hloop : i.loopStart ≤ h.loopStart)
    (hsame : i.win.reads b.rom = data) :
    findDuplicate b h data ≠ none := by
  intro hnone
  unfold findDuplicate at hnone
  have hf := List.findIdx?_eq_none_iff.mp hnone i hi
  have hb := housed_bounds inv hi
  obtain ⟨hm, hbk⟩ := inv.small
  have hcur := inv.curLe
  have hrl := inv.romLen
  have hp := inv.placed i hi
  rw [hi0, Nat.add_zero] at hp
  have e1 : u32 (i.position + h.start) = i.position := by rw [hh0, Nat.add_zero]; exact u32_small (by omega)
  have e2 : u32 b.rom.length = b.rom.length := u32_small (by omega)
  have hfit : fitSample b.bankSize h.size i.position b.rom.length = i.position := by
    unfold fitSample
    rw [hsz, hlen, hp]
    have : u32 (i.position + i.size) = i.position + i.size := u32_small (by omega)
    rw [this, if_neg (by omega)]
  have hrd : (b.rom.drop i.position).take data.length = data := by
    have := hsame
    simp only [Win.reads, Sample.win, hi0, Nat.add_zero] at this
    rw [hlen]; exact this
  have : dupTest b h data i = true := by
    simp only [dupTest, e1, e2, hfit, hrd, Bool.and_eq_true, decide_eq_true_eq]
    refine ⟨⟨⟨⟨by omega, by omega⟩, hloop⟩, trivial⟩, trivial⟩
  rw [this] at hf; cases hf

/-- header_roundtrip: `from_bytes (to_bytes h) = h` for every header of 32-bit fields. -/
theorem C14_header_roundtrip (s : Sample)
    (h : s.position < 4294967296 ∧ s.start < 4294967296 ∧ s.size < 4294967296 ∧ s.loopStart < 4294967296 ∧
         s.loopEnd < 4294967296 ∧ s.rate < 4294967296 ∧ s.transpose < 4294967296 ∧ s.flags < 4294967296) :
    Sample.fromBytes s.toBytes = some s ∧ s.toBytes.length = 32 := by
  obtain ⟨h1, h2, h3, h4, h5, h6, h7, h8⟩ := h
  refine ⟨?_, by simp [Sample.toBytes]⟩
  cases s
  simp only [Sample.fromBytes, Sample.toBytes, rdLe32, le32, byteOf_toNat, List.cons_append, List.nil_append, List.drop,
    bind, Option.bind, pure, Option.some.injEq, Sample.mk.injEq] at *
  refine ⟨?_, ?_, ?_, ?_, ?_, ?_, ?_, ?_⟩ <;> omega

/-- reader_total: on EVERY byte string, of any length, `Wave_File::read` returns — a parsed file or
the failure value −1 (`none`) — and never reads outside the file buffer (`oob`) or loops forever
(`hang`).  No size hypothesis: `load_file` refuses files of more than `0x7fffffff` bytes (−1), so
the 32-bit `filesize`, `pos`, `pos + chunksize + 8` and the pad increment `pos++` are exact for
every file that is parsed (`C14_reader_size` states the limit).  The earlier form of this theorem
needed `length < 2^32 − 1` because the model had no size test: at exactly 2^32 − 1 bytes a last
chunk ending at the odd position `0xffffffff` makes `pos++` wrap to 0 and the loop start over.
Fuel bound: the chunk loop gets `length / 8 + 1` iterations (each consumes at least the 8-byte
chunk header), the frame loop of a data chunk `chunksize / step + 1`. -/
theorem C14_reader_total (f : Bytes) :
    ∃ r : Option WaveFile, readWav f = .ok r :=
  readWav_total f

/-- the size limit of the reader: a file that is parsed has at most 2^31 − 1 bytes (larger ones are
answered with −1 before any byte is looked at), and the decoded channel has at most one sample
per byte. -/
theorem C14_reader_size (f : Bytes) (wf : WaveFile) (h : readWav f = .ok (some wf)) :
    f.length ≤ 2147483647 ∧ wf.data0.length ≤ f.length + 1 := by
  obtain ⟨r, hr, hb⟩ := readWav_total' f
  rw [h] at hr
  cases hr
  exact ⟨(hb wf rfl).2, (hb wf rfl).1⟩

/-- the other side of the limit: a string of 2^31 bytes or more is refused whatever it contains
(stated for any such string — a concrete one is not built: 2 GiB) -/
example (f : Bytes) (h : 2147483648 ≤ f.length) : readWav f = .ok none := by
  unfold readWav
  rw [if_pos (by simp only [Tables.wave_maxFileSize]; omega)]

/-- no undefined behaviour in `add_sample(Tag)` either: on a bank satisfying the invariant,
for any file (or none) and any tag, the result is a sample index or one of the five
`InputError`s — never `oob`, `hang` or `divZero`. -/
theorem C14_add_total (b : Bank) (rs : List Win) (inv : Inv b rs) (file : Option Bytes) (tag : List String)
    (hf : ∀ f, file = some f → f.length < 1073741823) :
    (∃ r, addSampleTag b file tag = .ok r) ∨ addSampleTag b file tag = .error .incomplete ∨
    addSampleTag b file tag = .error .notFound ∨ addSampleTag b file tag = .error .offsetTooBig ∨
    addSampleTag b file tag = .error .noFit ∨ addSampleTag b file tag = .error .tooLong :=
  addSampleTag_total b rs inv file tag hf

/-- wav_decode: for every recording (8/16 bit, mono/stereo, any rate, any number of frames) and
every WAV file of it — `fmt `, `data`, optional `smpl` (unity note), any other chunks with
their pad bytes before, between and after — the reader returns exactly the channel-0 samples,
which the encoder turns into their 8-bit unsigned conversion, at the file's rate, with the
file's frame count as sample length and no loop. -/
theorem C14_wav_decode (w : WavFile) (hw : w.Wf) :
    ∃ wf, readWav w.bytes = .ok (some wf) ∧ encodeSample wf.data0 = w.pcm.wanted 0 ∧
      wf.srate = w.pcm.rate ∧ wf.slength = w.pcm.frames.length ∧ wf.lstart = 0 ∧ wf.lend = 0 ∧ wf.ndata = w.pcm.channels := by
  refine ⟨stEnd w, readWav_canon w hw, ?_⟩
  have hlen : w.pcm.frames.length < 4294967296 := wav_frames_lt w hw
  have hfields : (stEnd w).data0 = w.pcm.frames.map (frameRaw w.pcm.bits) ∧ (stEnd w).srate = w.pcm.rate ∧
      (stEnd w).slength = u32 (w.pcm.frames.length) ∧ (stEnd w).lstart = 0 ∧ (stEnd w).lend = 0 ∧
      (stEnd w).ndata = w.pcm.channels := by
    unfold stEnd; split <;> simp [stData, stFmt]
  obtain ⟨h1, h2, h3, h4, h5, h6⟩ := hfields
  refine ⟨by rw [h1]; exact encode_frames w.pcm hw.pcm, h2, by rw [h3]; exact u32_small hlen, h4, h5, h6⟩

/-- composition: a PCM instrument defined on a WAV file of a recording, with any `rate=` /
`offset=` overrides, added to any reachable bank.  If the addition succeeds, the bank is
reachable again, the overrides left `start + length = number of frames`, and the instrument's
window lies inside the used area and contains exactly the 8-bit unsigned conversion of
channel 0 of the recording from frame `start` to its end; its rate is the one the overrides
produced (the file's rate when there is no `rate=`). -/
theorem C14_tag_window (b : Bank) (rs : List Win) (ws : List Bytes) (hr : Reach b rs ws)
    (w : WavFile) (hw : w.Wf) (hsmall : w.pcm.frames.length < 1073741824)
    (name : String) (args : List String) (b' : Bank) (idx : Nat)
    (hok : addSampleTag b (some w.bytes) (name :: args) = .ok (b', idx)) :
    ∃ (h : Sample) (rs' : List Win) (ws' : List Bytes),
      applyArgs args ⟨0, 0, w.pcm.frames.length, 0, 0, w.pcm.rate, (stEnd w).transpose, 0⟩ = .ok h ∧
      Reach b' rs' ws' ∧ h.start + h.size = w.pcm.frames.length ∧
      ∃ s, b'.samples[idx]? = some s ∧ s.win.inside b'.currentSize ∧ s.win.reads b'.rom = w.pcm.wanted h.start ∧
        s.size = w.pcm.frames.length - h.start ∧ s.rate = h.rate := by
  obtain ⟨wf, hread, henc, hrate, hslen, hls, hle, _⟩ := C14_wav_decode w hw
  have hwf : wf = stEnd w := by
    have := readWav_canon w hw; rw [hread] at this; cases this; rfl
  have hwl : (w.pcm.wanted 0).length = w.pcm.frames.length := by simp [Pcm.wanted]
  unfold addSampleTag at hok
  simp only [hread, henc, hrate, hslen, hls, hle] at hok
  rw [hwf] at hok
  match happ : applyArgs args ⟨0, 0, w.pcm.frames.length, 0, 0, w.pcm.rate, (stEnd w).transpose, 0⟩ with
  | .error e => rw [happ] at hok; cases hok
  | .ok h =>
    rw [happ] at hok
    simp only at hok
    have hsum : h.start + h.size = w.pcm.frames.length := by
      have := applyArgs_sum args _ h (by simp only; omega) happ
      simpa using this
    have adm : Adm b (⟨h, w.pcm.wanted 0⟩ : Req).h (⟨h, w.pcm.wanted 0⟩ : Req).data :=
      ⟨by simp only [hwl]; omega⟩
    obtain ⟨_, _, _, _, _, _, inv⟩ := C14_inv_histories b rs ws hr
    have so := addSample_step b rs h (w.pcm.wanted 0) b' idx inv adm hok
    obtain ⟨s, hs, hreads, hst, hsz, hrt⟩ := so.entry
    refine ⟨h, _, _, rfl, Reach.add ⟨h, w.pcm.wanted 0⟩ b' idx hr adm hok, hsum, s, hs, ?_, ?_, by omega, hrt⟩
    · obtain ⟨r, hrm, _, h2⟩ := so.inv.housed s (List.mem_of_getElem? hs)
      have := so.inv.regWf r hrm
      simp only [Win.inside, Sample.win]; omega
    · rw [hreads]
      simp only [Pcm.wanted, List.drop_zero]
      apply List.take_of_length_le
      simp only [List.length_drop, List.length_map]; omega

/-- what a fresh placement with ANY start offset stores (the repaired D11): the window
`[start, start + size)` lies inside the data (otherwise `add_sample` refuses), the header gets
`position = p`, `start = 0` with `[p, p + size)` a newly allocated region — no byte of it
belonged to an older region — inside the used area, holding exactly `data[start .. start + size)`. -/
theorem C14_offset_fresh_stored (b : Bank) (rs : List Win) (h : Sample) (data : Bytes) (b' : Bank) (idx : Nat)
    (inv : Inv b rs) (hsmall : data.length < 1073741824)
    (hnew : findDuplicate b h data = none) (hok : addSample b h data = .ok (b', idx)) :
    ∃ p, b'.samples = b.samples ++ [{ h with position := p, start := 0 }] ∧ idx = b.samples.length ∧
      h.start + h.size ≤ data.length ∧
      p + h.size ≤ b'.currentSize ∧ b'.currentSize ≤ b'.rom.length ∧
      Win.reads b'.rom ⟨p, h.size⟩ = (data.drop h.start).take h.size ∧
      (∀ x, p ≤ x → x < p + h.size → cover rs x = 0) := by
  unfold addSample at hok
  have hb0 : ¬ b.bankSize = 0 := by have := inv.bankPos; omega
  by_cases hs0 : h.start + h.size > data.length
  · simp only [hs0, if_true] at hok; cases hok
  simp only [hs0, hb0, if_false, hnew] at hok
  obtain ⟨q1, q2, q3, q4, _, _, _, _⟩ := addFresh_step b rs h data b' idx inv (by omega) hsmall hok
  refine ⟨(placeFresh b h.size).2.1, q3, q2, by omega, ?_, by rw [q1.romLen]; exact q1.curLe, q4, ?_⟩
  · have := q1.regWf ⟨(placeFresh b h.size).2.1, h.size⟩ (List.mem_append_right _ (by simp))
    exact this
  · intro x hx1 hx2
    have ht := q1.tiles x
    simp only [List.append_assoc, cover_append, cover_single] at ht
    have hi : ind ⟨(placeFresh b h.size).2.1, h.size⟩ x = 1 := by simp [ind, hx1, hx2]
    split at ht <;> omega

def d11Data : Bytes := [0x10, 0x11, 0x12, 0x13, 0x14, 0x15, 0x16, 0x17, 0x18, 0x19, 0x1a, 0x1b, 0x1c, 0x1d, 0x1e, 0x1f]
def d11Header : Sample := ⟨0, 4, 12, 0, 0, 8000, 0, 0⟩
def d11Bank : Bank := match addSample (Bank.new 32 0) d11Header d11Data with
  | .ok (b, _) => b
  | .error _ => Bank.new 0 0

/-- the former D11 counterexample, replayed on the repaired model (regression): a 16-byte sample
`10 … 1f` added with start offset 4 to an empty bank.  Before the repair its first 12 bytes were
stored and the window handed out was `[4, 16)`, beyond the used area (12) and not the requested
bytes.  Now the header is `position 0, start 0, size 12`, the window `[0, 12)` is the used area
and it reads the requested bytes `14 … 1f`. -/
theorem C14_offset_window_regression :
    addSample (Bank.new 32 0) d11Header d11Data = .ok (d11Bank, 0) ∧
    d11Header.start + d11Header.size ≤ d11Data.length ∧
    d11Bank.samples = [{ d11Header with position := 0, start := 0 }] ∧
    (Sample.win { d11Header with position := 0, start := 0 }).inside d11Bank.currentSize ∧
    (Sample.win { d11Header with position := 0, start := 0 }).reads d11Bank.rom = (d11Data.drop d11Header.start).take d11Header.size ∧
    (Sample.win { d11Header with position := 0, start := 0 }).reads d11Bank.rom = [0x14, 0x15, 0x16, 0x17, 0x18, 0x19, 0x1a, 0x1b, 0x1c, 0x1d, 0x1e, 0x1f] := by
  refine ⟨rfl, by decide, by decide, by unfold Win.inside; decide, by decide, by decide⟩

/-- The full statement of C14 over the model: the reader clause (every canonical WAV file of every
recording is decoded to the 8-bit unsigned conversion of channel 0 at the file's rate and frame
count) and the bank clause (after every history of additions, every sample's window lies inside
the used area and reads exactly the bytes requested for it — from the start offset, `size`
bytes).  Proved below as `C14_full`; before the repair of D11 the bank clause was false. -/
def C14_full_statement : Prop :=
  (∀ (w : WavFile), w.Wf → ∃ wf, readWav w.bytes = .ok (some wf) ∧ encodeSample wf.data0 = w.pcm.wanted 0 ∧
      wf.srate = w.pcm.rate ∧ wf.slength = w.pcm.frames.length) ∧
  (∀ b rs ws, Reach b rs ws → ∀ (i : Nat) (s : Sample) (w : Bytes), b.samples[i]? = some s → ws[i]? = some w →
      s.win.inside b.currentSize ∧ s.win.reads b.rom = w)

/-- C14 in one statement (no extra hypothesis): `C14_wav_decode` for the reader clause,
`C14_inv_histories` for the bank clause. -/
theorem C14_full : C14_full_statement := by
  refine ⟨?_, ?_⟩
  · intro w hw
    obtain ⟨wf, h1, h2, h3, h4, _⟩ := C14_wav_decode w hw
    exact ⟨wf, h1, h2, h3, h4⟩
  · intro b rs ws hr i s w hs hw
    obtain ⟨hin, _, hc, _⟩ := C14_inv_histories b rs ws hr
    exact ⟨(hin s (List.mem_of_getElem? hs)).1, hc i s w hs hw⟩

/-! ### non-vacuity -/

def exBank : Bank := match addSample (Bank.new 16 4) ⟨0, 0, 3, 0, 0, 1, 0, 0⟩ [1, 2, 3] with
  | .ok (b, _) => b
  | .error _ => Bank.new 0 0

/-- a concrete reachable bank with one sample -/
example : ∃ b rs ws, Reach b rs ws ∧ b.samples.length = 1 ∧ b.currentSize = 3 := by
  have h0 := Reach.new 16 4 (by omega) (by omega) (by omega)
  have a1 : Adm (Bank.new 16 4) (⟨⟨0, 0, 3, 0, 0, 1, 0, 0⟩, [1, 2, 3]⟩ : Req).h [1, 2, 3] :=
    ⟨by decide⟩
  exact ⟨exBank, _, _, Reach.add ⟨⟨0, 0, 3, 0, 0, 1, 0, 0⟩, [1, 2, 3]⟩ exBank 0 h0 a1 rfl, by decide, by decide⟩

example : Adm (Bank.new 256 64) ⟨0, 0, 3, 0, 0, 8000, 0, 0⟩ [1, 2, 3] := ⟨by decide⟩

/-- the bank clause of `C14_full` is met by a history with a start offset placed fresh (the former
D11 case): the bank is reachable, the requested bytes are `14 … 1f`, and sample 0 exists -/
example : ∃ rs ws, Reach d11Bank rs ws ∧ ws[0]? = some [0x14, 0x15, 0x16, 0x17, 0x18, 0x19, 0x1a, 0x1b, 0x1c, 0x1d, 0x1e, 0x1f] ∧
    d11Bank.samples[0]? = some ⟨0, 0, 12, 0, 0, 8000, 0, 0⟩ := by
  have h0 := Reach.new 32 0 (by omega) (by omega) (by omega)
  have a1 : Adm (Bank.new 32 0) (⟨d11Header, d11Data⟩ : Req).h (⟨d11Header, d11Data⟩ : Req).data := ⟨by decide⟩
  exact ⟨_, _, Reach.add ⟨d11Header, d11Data⟩ d11Bank 0 h0 a1 rfl, by decide, by decide⟩

example : ∃ s : Sample, (s.position < 4294967296 ∧ s.start < 4294967296 ∧ s.size < 4294967296 ∧ s.loopStart < 4294967296 ∧
    s.loopEnd < 4294967296 ∧ s.rate < 4294967296 ∧ s.transpose < 4294967296 ∧ s.flags < 4294967296) ∧ s.size ≠ 0 :=
  ⟨⟨12, 2, 7, 0, 0, 11025, 4294967236, 0⟩, by decide, by decide⟩

/-- a concrete well-formed WAV file: 16-bit stereo, three frames, a LIST chunk of odd size
before `fmt `, a `smpl` chunk with unity note 60 -/
def exWav : WavFile :=
  { pcm := { bits := 16, channels := 2, rate := 17500, frames := [[1, 2], [65535, 3], [32768, 4]] },
    pre := [⟨0x5453494c, [1, 2, 3]⟩], mid := [], post := [⟨0x74636166, []⟩], note := some 60 }

example : exWav.Wf := by
  refine ⟨⟨by decide, by decide, by decide, by decide⟩, ?_, ?_, ?_, ?_, ?_⟩
  · intro o ho
    have : o = ⟨0x5453494c, [1, 2, 3]⟩ := by simpa [exWav] using ho
    subst this; simp [Other.Wf, idFmt, idData, idSmpl]
  · intro o ho; simp [exWav] at ho
  · intro o ho
    have : o = ⟨0x74636166, []⟩ := by simpa [exWav] using ho
    subst this; simp [Other.Wf, idFmt, idData, idSmpl]
  · intro n hn
    have : n = 60 := by simpa [exWav] using hn.symm
    omega
  · simp [exWav, WavFile.bytes, WavFile.body, WavFile.smpl, others, chunk, Pcm.fmtBody, Pcm.dataBytes, Pcm.sampleBytes, smplBody, le32, le16]

example : exWav.pcm.wanted 1 = [127, 0] := by decide

end Ctrmml.Wave
