/-
  C02 — MDSDRV bytecode plays exactly the song.   (first layer; see DESIGN §6 C02)

  Model: Model/MdsCodec.lean (`convert_track`), Model/MdsConv.lean (writer + converter).
  Spec:  Spec/SeqInterp.lean (the MDSDRV sequence rules), Spec/Timeline.lean (tick string of the
  expanded track).
-/
import Ctrmml.Model.MdsConv
import Ctrmml.Spec.Timeline
import Ctrmml.Proofs.CodecBreak
import Ctrmml.Proofs.CodecTrack
import Ctrmml.Proofs.CodecCall
import Ctrmml.Proofs.SongFragment
import Ctrmml.Proofs.SongOptC01
namespace Ctrmml.C02
open Ctrmml Ctrmml.Mds Ctrmml.Seq Tables

/-- The full statement of the property over the model: for every song in the encodable domain
whose expansion is defined, the converter accepts it and interpreting each channel's stream gives
the expected tick string (loop-back followed once). Not yet proved as a whole; decided per case by
running the right-hand side on the real bytes. -/
def C02_full_statement : Prop :=
  ∀ (song : Song) (d : DataInfo) (pf : Timeline.Platform) (vol : Option Nat),
    (∀ id root, (id, root) ∈ song.tracks → id < 16 → Timeline.inDomain song root = true) →
    (∀ id root, (id, root) ∈ song.tracks → id < 16 → ∃ t, Timeline.expected song pf root = .ok t) →
    ∃ c, convertSong song d vol = .ok c ∧
      ∀ id root t, (id, root) ∈ song.tracks → id < 16 → Timeline.expected song pf root = .ok t →
        ∃ base ts start, tracksOf c.seq = some (base, ts) ∧ ts.lookup id = some start ∧
          (run c.seq base 1 (t.length + 64) 4000000 { pc := start }).1.map Timeline.maskTk = t

/-- Every stream the codec produces for an event list that ends with a terminator event ends
with that terminator byte: `FINISH` (`ff`). -/
theorem C02_stream_ends_with_finish_partial (nS nM : Nat) (es : List MEv) (e : Enc) (e' : Enc)
    (h : encEv nS nM e ⟨mds_FINISH, 0⟩ = .ok e') : e'.out = e.out ++ [mds_FINISH] := by
  unfold encEv at h
  have h1 : ¬ ((⟨mds_FINISH, 0⟩ : MEv).type = mds_REST ∧ (⟨mds_FINISH, 0⟩ : MEv).arg ≠ 0) := by decide
  have h2 : ¬ ((⟨mds_FINISH, 0⟩ : MEv).type < mds_SLR ∧ (⟨mds_FINISH, 0⟩ : MEv).arg ≠ 0) := by decide
  have h0 : ¬ ((⟨mds_FINISH, 0⟩ : MEv).type = mds_LPB ∧ e.breaks.head?.getD 0 ≠ 0) := by
    intro hh; exact absurd hh.1 (by decide)
  simp only [h0, h1, h2, if_false] at h
  have h3 : encOther nS nM e mds_FINISH 0 = .ok { e with out := e.out ++ [mds_FINISH] } := by
    unfold encOther
    have a : ¬ (mds_FINISH = mds_SEGNO) := by decide
    simp [a]
  rw [h3] at h
  have h4 : (mds_FINISH < mds_REST ∧ mds_FINISH ≠ mds_CARRY) ∨ mds_FINISH ≥ mds_SLR ∨ (⟨mds_FINISH, 0⟩ : MEv).arg ≠ 0 := by decide
  simp only [h4, if_true, Except.ok.injEq] at h
  subst h
  rfl

example : ∃ e', encEv 0 0 {} ⟨mds_FINISH, 0⟩ = .ok e' := ⟨_, rfl⟩

end Ctrmml.C02

/-! ## The codec round trip (second layer)

`convert_track` (model `Mds.convertTrack`) followed by the MDSDRV sequence rules (`Seq.run`) gives
back the tick string of the event list.  Definitions used in the statements (Proofs/CodecLinear,
Proofs/CodecLoops): `Codec.linEv` — the linear fragment (REST / TIE / NOTE `81..df` with length
1..65535, SLR, the one- and two-argument commands incl. INS/PCM/PEG/MTAB; `FLG` only with an
argument that leaves drum mode off; not `DMFINISH`); `Codec.evTicks`/`Codec.ticks` — rest n ↦
n × off, note ↦ on (ty − NOTE) then (n − 1) × hold, tie ↦ n × hold, command ↦ `cmd op operand`
with the operand cut to the width that is written (`Codec.cmdArg`); `Codec.Node`/`flatL`/`expL` —
bracket structure of counted loops, its event list and its expansion.  The interpreter starts at
pc 0 with empty stacks and ARBITRARY contents of the two remembered-length registers. -/
namespace Ctrmml.C02
open Ctrmml Ctrmml.Mds Ctrmml.Seq Ctrmml.Codec Tables

/-- **Linear fragment, all durations 1..65535, all adjacencies.**  The converter accepts, and the
interpreter plays exactly the tick string of the events and stops with `finished` (for every tick
limit that is not smaller than the string and every sufficiently large fuel). -/
theorem C02_codec_roundtrip_linear (nS nM : Nat) (es : List MEv) (hv : ∀ ev ∈ es, linEv ev = true)
    (hm : ∀ ev ∈ es, Mode.plain.evOk ev = true) (farg : Nat) :
    ∃ bytes, convertTrack nS nM (es ++ [⟨mds_FINISH, farg⟩]) = .ok bytes ∧
      ∀ (base mj maxTicks : Nat) (ln lr : Option Nat), (ticks Mode.plain nS nM es).length ≤ maxTicks →
        ∃ n, ∀ fuel, fuel > n →
          run bytes base mj maxTicks fuel { pc := 0, lastNote := ln, lastRest := lr } =
            (ticks Mode.plain nS nM es, .finished) := by
  obtain ⟨bytes, h1, h2⟩ := codec_roundtrip_linear nS nM es hv hm farg
  exact ⟨bytes, h1, fun base mj maxTicks ln lr hlen => (h2 base mj ln lr).run_eq maxTicks hlen⟩

/-- **Loop point and loop-back jump** (`a ++ [SEGNO] ++ b ++ [JUMP]`, `a`, `b` linear; the shape of
defect D4).  With the jump followed `mj` times the interpreter plays `a`, then `b` `mj + 1` times
with a loop mark after each of the first `mj`.  Hypothesis: the stream is shorter than 64 KiB
(the jump offset is 16 bit). -/
theorem C02_codec_roundtrip_segno (nS nM : Nat) (a b : List MEv) (ha : ∀ ev ∈ a, linEv ev = true)
    (hb : ∀ ev ∈ b, linEv ev = true) (ma : ∀ ev ∈ a, Mode.plain.evOk ev = true)
    (mb : ∀ ev ∈ b, Mode.plain.evOk ev = true) (jarg : Nat) :
    ∃ bytes, convertTrack nS nM (a ++ [⟨mds_SEGNO, 0⟩] ++ b ++ [⟨mds_JUMP, jarg⟩]) = .ok bytes ∧
      (bytes.length < 65536 → ∀ (base mj maxTicks : Nat) (ln lr : Option Nat),
        (ticks Mode.plain nS nM a ++ repeatL mj (ticks Mode.plain nS nM b ++ [Tk.loopMark]) ++
          ticks Mode.plain nS nM b).length ≤ maxTicks →
        ∃ n, ∀ fuel, fuel > n →
          run bytes base mj maxTicks fuel { pc := 0, lastNote := ln, lastRest := lr } =
            (ticks Mode.plain nS nM a ++ repeatL mj (ticks Mode.plain nS nM b ++ [Tk.loopMark]) ++
              ticks Mode.plain nS nM b, .finished)) := by
  obtain ⟨bytes, h1, h2⟩ := codec_roundtrip_segno nS nM a b ha hb ma mb jarg
  exact ⟨bytes, h1, fun hl base mj maxTicks ln lr hlen => (h2 hl base mj ln lr).run_eq maxTicks hlen⟩

/-- the statement of the task for `maxJumps = 1`: ticks(a) ++ ticks(b) ++ [loopMark] ++ ticks(b) -/
theorem C02_codec_roundtrip_segno_once (nS nM : Nat) (a b : List MEv) (ha : ∀ ev ∈ a, linEv ev = true)
    (hb : ∀ ev ∈ b, linEv ev = true) (ma : ∀ ev ∈ a, Mode.plain.evOk ev = true)
    (mb : ∀ ev ∈ b, Mode.plain.evOk ev = true) (jarg : Nat) :
    ∃ bytes, convertTrack nS nM (a ++ [⟨mds_SEGNO, 0⟩] ++ b ++ [⟨mds_JUMP, jarg⟩]) = .ok bytes ∧
      (bytes.length < 65536 → ∀ (base maxTicks : Nat) (ln lr : Option Nat),
        (ticks Mode.plain nS nM a ++ ticks Mode.plain nS nM b ++ [Tk.loopMark] ++ ticks Mode.plain nS nM b).length ≤ maxTicks →
        ∃ n, ∀ fuel, fuel > n →
          run bytes base 1 maxTicks fuel { pc := 0, lastNote := ln, lastRest := lr } =
            (ticks Mode.plain nS nM a ++ ticks Mode.plain nS nM b ++ [Tk.loopMark] ++ ticks Mode.plain nS nM b,
              .finished)) := by
  obtain ⟨bytes, h1, h2⟩ := C02_codec_roundtrip_segno nS nM a b ha hb ma mb jarg
  refine ⟨bytes, h1, fun hl base maxTicks ln lr hlen => ?_⟩
  have := h2 hl base 1 maxTicks ln lr (by simpa [repeatL, List.append_assoc] using hlen)
  simpa [repeatL, List.append_assoc] using this

/-- **Counted loops without break, nested to any depth** (restriction: no `LPB` in the track;
leaves in the linear fragment; terminated by `FINISH`).  The interpreter plays the loop expansion:
each body `passes n` times (`n mod 256` times, once if that is `≤ 1`). -/
theorem C02_codec_roundtrip_loops_nobreak_partial (nS nM : Nat) (ts : List Node) (hl : linL ts = true)
    (hn : noBreakL ts = true) (hm : mokL Mode.plain false ts = true) (farg : Nat) :
    ∃ bytes, convertTrack nS nM (flatL ts ++ [⟨mds_FINISH, farg⟩]) = .ok bytes ∧
      ∀ (base mj maxTicks : Nat) (ln lr : Option Nat), (expL Mode.plain nS nM ts).length ≤ maxTicks →
        ∃ n, ∀ fuel, fuel > n →
          run bytes base mj maxTicks fuel { pc := 0, lastNote := ln, lastRest := lr } =
            (expL Mode.plain nS nM ts, .finished) := by
  obtain ⟨bytes, h1, h2⟩ := codec_roundtrip_loops_nobreak nS nM ts hl hn hm farg
  exact ⟨bytes, h1, fun base mj maxTicks ln lr hlen => (h2 base mj ln lr).run_eq maxTicks hlen⟩

/-- **convert_structured_eq.**  `convert_track` back-patches the loop-break instruction into the
middle of the stream when it reaches the loop end.  On every bracket structure over the linear
fragment it computes exactly what the structured two-pass encoder `Codec.encL` computes, which only
ever appends (for a loop with a break: encode the part after the break once to measure it, emit
`LPB o` / `LPBL oo`, encode it again) — provided the result is shorter than 64 KiB. -/
theorem C02_convert_structured_eq (nS nM : Nat) (ts : List Node) (hl : linL ts = true) (hk : brkOkL false ts = true)
    (e' : Enc) (h : encL nS nM ts {} = .ok e') (hb : e'.out.length < 65536) :
    convertTrack nS nM (flatL ts) = .ok e'.out :=
  convert_structured_eq nS nM ts hl hk e' h hb

/-- **Counted loops with any number of breaks, nested to any depth** (leaves in the linear fragment,
further break markers only behind a first break of the same loop — `brkOkL` —, no calls,
terminated by `FINISH`, stream shorter than 64 KiB).  The interpreter plays exactly the loop
expansion `expL`: each body `passes n` times (`n mod 256`, once if that is `≤ 1`), the part after
the FIRST break dropped on the last pass. -/
theorem C02_codec_roundtrip_loops (nS nM : Nat) (ts : List Node) (hl : linL ts = true) (hk : brkOkL false ts = true)
    (hnc : noCallL ts = true) (hm : mokL Mode.plain false ts = true) (farg : Nat) :
    ∃ e', encL nS nM ts {} = .ok e' ∧
      (e'.out.length + 1 < 65536 →
        convertTrack nS nM (flatL ts ++ [⟨mds_FINISH, farg⟩]) = .ok (e'.out ++ [mds_FINISH]) ∧
        ∀ (base mj maxTicks : Nat) (ln lr : Option Nat), (expL Mode.plain nS nM ts).length ≤ maxTicks →
          ∃ n, ∀ fuel, fuel > n →
            run (e'.out ++ [mds_FINISH]) base mj maxTicks fuel { pc := 0, lastNote := ln, lastRest := lr } =
              (expL Mode.plain nS nM ts, .finished)) := by
  obtain ⟨e', h1, h2⟩ := codec_roundtrip_loops nS nM ts hl hk hnc hm farg
  refine ⟨e', h1, fun hb => ⟨(h2 hb).1, fun base mj maxTicks ln lr hlen => ?_⟩⟩
  exact ((h2 hb).2 base mj ln lr).run_eq maxTicks hlen

/-- **The general single track**: a bracket structure `ta` (nested counted loops with ANY NUMBER
of breaks per loop over the linear fragment: `Node.loopB body tail n` with further break markers
`Node.xbrk` in `tail`; `brkOkL false` = such markers stand only behind a first break of their own
loop; `noCallL` = no subroutine calls, they need a chunk around the stream: see
`C02_track_at_offset_partial`), the loop point at loop depth 0, a bracket structure `tb`, the
loop-back jump.  `trackBytes eB` = the structured encoding of the two parts followed by the jump
instruction; if it is shorter than 64 KiB it is what `convert_track` produces, and with the jump
followed `mj` times the interpreter plays the expansion of `ta`, then the expansion of `tb`
`mj + 1` times with a loop mark after each of the first `mj`. -/
theorem C02_codec_roundtrip_track (nS nM : Nat) (ta tb : List Node) (ha : linL ta = true) (hb : linL tb = true)
    (ka : brkOkL false ta = true) (kb : brkOkL false tb = true) (na : noCallL ta = true) (nb : noCallL tb = true)
    (ma : mokL Mode.plain false ta = true) (mb : mokL Mode.plain false tb = true)
    (jarg : Nat) :
    ∃ eA eB, encL nS nM ta {} = .ok eA ∧ encL nS nM tb (afterSegno eA) = .ok eB ∧
      ((trackBytes eB).length < 65536 →
        convertTrack nS nM (flatL ta ++ [⟨mds_SEGNO, 0⟩] ++ flatL tb ++ [⟨mds_JUMP, jarg⟩]) = .ok (trackBytes eB) ∧
        ∀ (base mj maxTicks : Nat) (ln lr : Option Nat),
          (expL Mode.plain nS nM ta ++ repeatL mj (expL Mode.plain nS nM tb ++ [Tk.loopMark]) ++
            expL Mode.plain nS nM tb).length ≤ maxTicks →
          ∃ n, ∀ fuel, fuel > n →
            run (trackBytes eB) base mj maxTicks fuel { pc := 0, lastNote := ln, lastRest := lr } =
              (expL Mode.plain nS nM ta ++ repeatL mj (expL Mode.plain nS nM tb ++ [Tk.loopMark]) ++
                expL Mode.plain nS nM tb, .finished)) := by
  obtain ⟨eA, eB, hA, hB, h⟩ := codec_roundtrip_track nS nM ta tb ha hb ka kb na nb ma mb jarg
  refine ⟨eA, eB, hA, hB, fun hlen => ⟨(h hlen).1, fun base mj maxTicks ln lr hmax => ?_⟩⟩
  exact ((h hlen).2 base mj ln lr).run_eq maxTicks hmax

/-- **A compiled stream at any offset of a chunk** (building block for whole chunks; `Codec.Reach`
= zero or more `Seq.step`s, `Codec.Frame` = loop stack, call stack, drum flag and jump count
unchanged; `Codec.Mode` = the drum flag and the drum routines known to be sound, `mokL M false` = every
note byte can be played in mode `M` and no `FLG` command changes the drum flag): entered at its
first byte in mode `M` with ANY call stack, loop stack and register contents, the stream of a bracket
structure plays its expansion and arrives at its `FINISH` with the stacks as on entry.  (The bytes
do not depend on the offset: prefix independence of the encoder.) -/
theorem C02_stream_at_offset_partial (M : Mode) (nS nM : Nat) (ts : List Node) (hl : linL ts = true)
    (hm : mokL M false ts = true) :
    ∃ e', encL nS nM ts {} = .ok e' ∧
      ∀ (pre : List Nat) (seq : List Nat) (base mj : Nat) (s : St), M.Sound seq base mj → callsOkL M seq base mj ts →
        pre ++ e'.out ++ [mds_FINISH] <+: seq → s.pc = pre.length → s.drum = M.dm →
        ∃ s1, Reach seq base mj s s1 ∧ Frame s s1 ∧ s1.pc = pre.length + e'.out.length ∧
          seq[s1.pc]? = some mds_FINISH ∧ s1.out = (expL M nS nM ts).reverse ++ s.out := by
  obtain ⟨e', he', h⟩ := stream_at M nS nM ts hl hm
  refine ⟨e', he', fun pre seq base mj s hS hc hp hpc hd => ?_⟩
  obtain ⟨s1, r1, f1, hpc1, ho⟩ := h pre seq base mj s hS hc (b := mds_FINISH) (by decide) hp hpc hd
  refine ⟨s1, r1, f1, hpc1, ?_, ho⟩
  rw [hpc1]
  have : (pre ++ e'.out) ++ mds_FINISH :: [] <+: seq := hp
  simpa using rd_at this

/-- **The call / return join point.**  From related encoder / interpreter states (`Codec.Good`: the
encoder's remembered lengths, where it relies on them, equal the interpreter's registers), a
`PAT k` whose pointer-table slot leads to a stream that plays `T` and arrives at its `FINISH`
(`Codec.SubPlays`, e.g. by `C02_stream_at_offset_partial`) makes the interpreter play `T` and
return behind the call in a state related to the encoder state after `PAT` — the interpreter's
registers are unknown there, and the encoder has forgotten both. -/
theorem C02_call_return_partial {M : Mode} {seq : List Nat} {base mj : Nat} (hS : M.Sound seq base mj) {e : Enc} {s : St}
    {O : List Tk}
    (g : Good M e s O) (arg : Nat) (hp : (afterPAT e arg).out <+: seq) {t : Nat}
    (ht : slotTarget seq base (arg % 256) = some t) {T : List Tk} (hsub : SubPlays seq base mj M.dm t T) :
    encEv 0 0 e ⟨mds_PAT, arg⟩ = .ok (afterPAT e arg) ∧
    ∃ s', Reach seq base mj s s' ∧ Frame s s' ∧ Good M (afterPAT e arg) s' (T.reverse ++ O) :=
  ⟨encEv_pat 0 0 e arg, pat_good hS g arg hp ht hsub⟩

/-- **The drum-routine join point.**  With the drum flag set a note byte `82+j` (with or without a
length byte, `l` = the explicit length) calls the routine in pointer slot `j`; if that routine, entered
with the drum flag on, plays the commands `C` and arrives at `DMFINISH k` with its stacks as on entry
(`Codec.DrumPlays`, e.g. by `C02_drum_routine_at_offset_partial`), the interpreter plays `C`, then note
`k` with the length of the calling note byte, and stands behind the note byte with the caller's two
remembered lengths restored (the note length updated as for a sounding note) and all stacks as before. -/
theorem C02_drum_call_return_partial {seq : List Nat} {base mj : Nat} {s : St} {ty l t k : Nat} {C : List Tk}
    (h : seq[s.pc]? = some ty) (h1 : mds_NOTE ≤ ty) (h2 : ty < 0xe0) (hl : seq[s.pc + 1]? = some l) (hl' : l < 0x80)
    (hd : s.drum = true) (ht : slotTarget seq base (ty - mds_NOTE) = some t) (hr : DrumPlays seq base mj t C k) :
    ∃ s', Reach seq base mj s s' ∧ Frame s s' ∧ s'.pc = s.pc + 2 ∧ s'.lastNote = some l ∧ s'.lastRest = s.lastRest ∧
      s'.out = (C ++ Tk.on k :: List.replicate l Tk.hold).reverse ++ s.out := by
  obtain ⟨M, hM⟩ : ∃ M : Mode, M = ⟨true, fun j => if j = ty - mds_NOTE then some (C, k) else none⟩ := ⟨_, rfl⟩
  have hS : M.Sound seq base mj := by
    intro j C' k' hj
    rw [hM] at hj
    simp only at hj
    split at hj
    · rename_i hjj
      simp only [Option.some.injEq, Prod.mk.injEq] at hj
      obtain ⟨rfl, rfl⟩ := hj
      exact ⟨t, by rw [hjj]; exact ht, hr⟩
    · cases hj
  have hok : M.okTy ty = true := by rw [hM]; simp [Mode.okTy]
  have hge : (129 : Nat) ≤ ty := by have : mds_NOTE = 130 := rfl; omega
  obtain ⟨s', r, f, a, b, c, d⟩ := note_len hS h hge h2 hl hl' (by rw [hM]; exact hd) hok
  refine ⟨s', r, f, a, b, c, ?_⟩
  rw [d, hM]
  have hk : ¬ mds_NOTE + k = mds_TIE := by show ¬ 130 + k = 129; omega
  have hk2 : mds_NOTE + k - mds_NOTE = k := by show 130 + k - 130 = k; omega
  simp [Mode.nt, h1, Codec.noteTicks, hk, hk2]

/-- **A drum routine at any offset of a chunk**: the stream `convert_track` makes of the commands
before a routine's first note (a bracket structure `ts` without notes — `mokL Mode.drum0`: drum flag
on, no routine known) followed by `DMFINISH k` plays, entered with the drum flag on and any stacks,
the expansion of `ts` and arrives at `DMFINISH k` with the stacks as on entry (`Codec.DrumPlays`). -/
theorem C02_drum_routine_at_offset_partial (nS nM : Nat) (ts : List Node) (hl : linL ts = true)
    (hm : mokL Mode.drum0 false ts = true) (k : Nat) :
    ∃ e', encL nS nM ts {} = .ok e' ∧
      ∀ (pre seq : List Nat) (base mj : Nat), callsOkL Mode.drum0 seq base mj ts →
        pre ++ e'.out ++ [mds_DMFINISH, k] <+: seq →
        DrumPlays seq base mj pre.length (expL Mode.drum0 nS nM ts) k :=
  routine_at nS nM ts hl hm k

/-- **A channel track inside a chunk, with subroutine calls, drum routines and drum-mode switches**
(the three shapes `MDSDRV_Track_Writer::end_hook` produces; `Codec.Node.call arg T` = `PAT arg`
annotated with the tick string of its callee, `callsOkL M seq base mj` = every such call finds,
through the pointer table of `seq` at `base`, a stream that — entered in the drum-flag state the call
is reached in — plays `T` and returns; `mokL M true` = every note byte can be played in the mode it
is reached in, `FLG` commands that switch the drum flag stand outside counted loops; `afterL M ta` =
the mode after `ta`).  The stream stands at offset `pre.length` of `seq`; extra hypotheses for shape
(J): the chunk up to the end of the stream is shorter than 64 KiB (the interpreter computes the
loop-back target modulo 2^16), and the loop section ends in the drum-flag state it starts in.
 (J) `ta, SEGNO, tb, JUMP`: entered with the loop-back not yet followed, plays `ta`, then `tb`
     `mj + 1` times with a loop mark after each of the first `mj`, stops at the jump;
 (Z) `ta, SEGNO, tb, FINISH` and (F) `ta, FINISH`: entered with an empty call stack, play the
     expansion and stop at the terminator. -/
theorem C02_track_at_offset_partial (M : Mode) (nS nM : Nat) (ta tb : List Node) (ha : linL ta = true) (hb : linL tb = true)
    (ma : mokL M true ta = true) (mb : mokL (afterL M ta) true tb = true) :
    ∃ eA eB, encL nS nM ta {} = .ok eA ∧ encL nS nM tb (afterSegno eA) = .ok eB ∧
      ((afterL (afterL M ta) tb).dm = (afterL M ta).dm →
        ∀ (pre seq : List Nat) (base mj : Nat) (s : St), M.Sound seq base mj → callsOkL M seq base mj ta →
        callsOkL (afterL M ta) seq base mj tb →
        pre ++ trackBytes eB <+: seq → (pre ++ trackBytes eB).length < 65536 →
        s.pc = pre.length → s.drum = M.dm → s.jumps = 0 →
        ∃ s', Reach seq base mj s s' ∧ step seq base mj s' = .error .finished ∧
          s'.out = (expL M nS nM ta ++ repeatL mj (expL (afterL M ta) nS nM tb ++ [Tk.loopMark]) ++
            expL (afterL M ta) nS nM tb).reverse ++ s.out) ∧
      (∀ (pre seq : List Nat) (base mj : Nat) (s : St), M.Sound seq base mj → callsOkL M seq base mj ta →
        callsOkL (afterL M ta) seq base mj tb →
        pre ++ (eB.out ++ [mds_FINISH]) <+: seq → s.pc = pre.length → s.drum = M.dm → s.calls = [] →
        ∃ s', Reach seq base mj s s' ∧ step seq base mj s' = .error .finished ∧
          s'.out = (expL M nS nM ta ++ expL (afterL M ta) nS nM tb).reverse ++ s.out) ∧
      (∀ (pre seq : List Nat) (base mj : Nat) (s : St), M.Sound seq base mj → callsOkL M seq base mj ta →
        pre ++ (eA.out ++ [mds_FINISH]) <+: seq → s.pc = pre.length → s.drum = M.dm → s.calls = [] →
        ∃ s', Reach seq base mj s s' ∧ step seq base mj s' = .error .finished ∧
          s'.out = (expL M nS nM ta).reverse ++ s.out) := by
  obtain ⟨eA', eB', hA', hB', hZ⟩ := track_z_at M nS nM ta tb ha hb ma mb
  obtain ⟨eA'', hA'', hF⟩ := track_f_at M nS nM ta ha ma
  rw [hA'] at hA''; injection hA'' with hA''; subst hA''
  refine ⟨eA', eB', hA', hB', ?_, hZ, hF⟩
  intro hloop
  obtain ⟨eA, eB, hA, hB, hJ⟩ := track_j_at M nS nM ta tb ha hb ma mb hloop
  rw [hA'] at hA; injection hA with hA; subst hA
  rw [hB'] at hB; injection hB with hB; subst hB
  exact hJ

/-- the bytes of the three shapes are what `convert_track` emits (streams shorter than 64 KiB) -/
theorem C02_track_shapes_convert (nS nM : Nat) (ta tb : List Node) (ha : linL ta = true) (hb : linL tb = true)
    (ka : brkOkL false ta = true) (kb : brkOkL false tb = true) (arg : Nat)
    (eA eB : Enc) (hA : encL nS nM ta {} = .ok eA) (hB : encL nS nM tb (afterSegno eA) = .ok eB) :
    ((trackBytes eB).length < 65536 →
      convertTrack nS nM (flatL ta ++ [⟨mds_SEGNO, 0⟩] ++ flatL tb ++ [⟨mds_JUMP, arg⟩]) = .ok (trackBytes eB)) ∧
    (eB.out.length + 1 < 65536 →
      convertTrack nS nM (flatL ta ++ [⟨mds_SEGNO, 0⟩] ++ flatL tb ++ [⟨mds_FINISH, arg⟩]) = .ok (eB.out ++ [mds_FINISH])) ∧
    (eA.out.length + 1 < 65536 →
      convertTrack nS nM (flatL ta ++ [⟨mds_FINISH, arg⟩]) = .ok (eA.out ++ [mds_FINISH])) :=
  ⟨track_convert nS nM ta tb ha hb ka kb arg eA eB hA hB, track_convert_z nS nM ta tb ha hb ka kb arg eA eB hA hB,
    track_convert_f nS nM ta ha ka arg eA hA⟩

/-! ### Several break markers in one loop (defect D23 found while proving; fixed)

Before repository fix 6595106 a loop could meaningfully hold only one break: `convert_track` kept ONE break address per open loop and overwrote it at every `LPB`
event, so of several breaks in the same loop only the LAST was back-patched, while the player
(`Basic_Player::step_event`, Spec/Expand) leaves the loop at the FIRST break on the last pass;
`[c / d / e]2` was emitted as `fa a6 01 a8 fc 03 aa fb 02 ff` (plays `c d e c d`).  Every dropped
`LPB` also overwrote `last_type`, which switched the length disambiguation off exactly as in D4.
With the fix (`encEv` skips a break when the open loop already has one) the first break is the one
that is emitted and the dropped ones leave no trace — `Codec.Node.xbrk`, covered by the theorems
above (`exDoubleN` below is `exDouble` as a bracket structure): -/

/-- `[c / d / e]2` -/
def exDouble : List MEv :=
  [⟨mds_LP, 0⟩, ⟨0xa6, 2⟩, ⟨mds_LPB, 0⟩, ⟨0xa8, 2⟩, ⟨mds_LPB, 0⟩, ⟨0xaa, 2⟩, ⟨mds_LPF, 2⟩, ⟨mds_FINISH, 0⟩]

/-- `[c c / r4 / e]2`: before the fix the rest length `03` landed behind the length-less second `c`
and was decoded as its length -/
def exDoubleAdj : List MEv :=
  [⟨mds_LP, 0⟩, ⟨0xa6, 2⟩, ⟨0xa6, 2⟩, ⟨mds_LPB, 0⟩, ⟨mds_REST, 4⟩, ⟨mds_LPB, 0⟩, ⟨0xaa, 2⟩, ⟨mds_LPF, 2⟩, ⟨mds_FINISH, 0⟩]

/-- the two witnesses of D23 on the repaired codec: the bytes play `c d e c` and `c c r4 e c c`,
which is what the player plays -/
theorem C02_double_break_fixed :
    (convertTrack 0 0 exDouble).toOption = some [0xfa, 0xa6, 0x01, 0xfc, 0x04, 0xa8, 0xaa, 0xfb, 2, 0xff] ∧
    run [0xfa, 0xa6, 0x01, 0xfc, 0x04, 0xa8, 0xaa, 0xfb, 2, 0xff] 0 0 100 100 { pc := 0 } =
      ([.on 36, .hold, .on 38, .hold, .on 40, .hold, .on 36, .hold], .finished) ∧
    (convertTrack 0 0 exDoubleAdj).toOption =
      some [0xfa, 0xa6, 0x01, 0xa6, 0xfc, 0x04, 0x03, 0xaa, 0xfb, 2, 0xff] ∧
    run [0xfa, 0xa6, 0x01, 0xa6, 0xfc, 0x04, 0x03, 0xaa, 0xfb, 2, 0xff] 0 0 100 100 { pc := 0 } =
      ([.on 36, .hold, .on 36, .hold, .off, .off, .off, .off, .on 40, .hold, .on 36, .hold, .on 36, .hold], .finished) := by
  decide +kernel

/-- `[c / d / e]2` as a bracket structure: the second break is an `xbrk` in the tail -/
def exDoubleN : List Node := [.loopB [.ev ⟨0xa6, 2⟩] [.ev ⟨0xa8, 2⟩, .xbrk, .ev ⟨0xaa, 2⟩] 2]
example : flatL exDoubleN ++ [⟨mds_FINISH, 0⟩] = exDouble := rfl
example : linL exDoubleN = true ∧ brkOkL false exDoubleN = true ∧ noCallL exDoubleN = true ∧
    mokL Mode.plain false exDoubleN = true := by decide
example : expL Mode.plain 0 0 exDoubleN = [.on 36, .hold, .on 38, .hold, .on 40, .hold, .on 36, .hold] := by decide +kernel
/-- a break marker outside the tail of a `loopB` is not in the domain (`[c]2 /`: the converter has no
open loop there, `top()` of an empty stack) -/
example : brkOkL false [.loop [.ev ⟨0xa6, 2⟩] 2, .xbrk] = false := by decide

/-! ### non-vacuity -/

/-- the D4 shape `note, note (same length), SEGNO, rest, note, JUMP` -/
def exD4a : List MEv := [⟨0xa6, 24⟩, ⟨0xa6, 24⟩]
def exD4b : List MEv := [⟨mds_REST, 48⟩, ⟨0xa8, 24⟩]

example : (∀ ev ∈ exD4a, linEv ev = true) ∧ (∀ ev ∈ exD4b, linEv ev = true) ∧
    (∀ ev ∈ exD4a, Mode.plain.evOk ev = true) ∧ (∀ ev ∈ exD4b, Mode.plain.evOk ev = true) := by decide
/-- the length-less second note gets its length byte `17` at the loop point (D4 fixed) -/
example : convertTrack 0 0 (exD4a ++ [⟨mds_SEGNO, 0⟩] ++ exD4b ++ [⟨mds_JUMP, 0⟩]) =
    .ok [0xa6, 0x17, 0xa6, 0x17, 0x2f, 0xa8, 0x17, 0xf5, 0xff, 0xfa] := rfl
example : (ticks Mode.plain 0 0 exD4a ++ ticks Mode.plain 0 0 exD4b ++ [Tk.loopMark] ++ ticks Mode.plain 0 0 exD4b).length = 193 := by decide +kernel

/-- a 300-tick note followed by a 130-tick rest: both are split at 128 ticks -/
def exLong : List MEv := [⟨0xa6, 300⟩, ⟨mds_REST, 130⟩]
example : (∀ ev ∈ exLong, linEv ev = true) ∧ (∀ ev ∈ exLong, Mode.plain.evOk ev = true) := by decide
example : convertTrack 0 0 (exLong ++ [⟨mds_FINISH, 0⟩]) = .ok [0xa6, 0x7f, 0x81, 0x81, 0x2b, 0x7f, 0x01, 0xff] := rfl
example : (ticks Mode.plain 0 0 exLong).length = 430 := by decide +kernel
example : (ticks Mode.plain 0 0 [⟨0xa6, 3⟩, ⟨mds_TIE, 2⟩, ⟨mds_REST, 2⟩, ⟨mds_VOL, 300⟩, ⟨mds_FMREG, 0x12345⟩, ⟨mds_INS, 3⟩]) =
    [.on 36, .hold, .hold, .hold, .hold, .off, .off, .cmd mds_VOL 44, .cmd mds_FMREG 0x2345, .cmd mds_INS 3] := by
  decide

/-- nested loops: `c [ c [ r ]2 ]3` -/
def exLoops : List Node := [.ev ⟨0xa6, 24⟩, .loop [.ev ⟨0xa6, 24⟩, .loop [.ev ⟨mds_REST, 12⟩] 2] 3]
example : linL exLoops = true ∧ noBreakL exLoops = true ∧ mokL Mode.plain false exLoops = true := by decide
example : convertTrack 0 0 (flatL exLoops ++ [⟨mds_FINISH, 0⟩]) =
    .ok [0xa6, 0x17, 0xfa, 0xa6, 0x17, 0xfa, 0x0b, 0xfb, 2, 0xfb, 3, 0xff] := rfl
example : (expL Mode.plain 0 0 exLoops).length = 24 + 3 * (24 + 2 * 12) := by decide +kernel

/-- loops with breaks, nested: `c [ c c / r [ d / r ]2 ]3` -/
def exBreak : List Node :=
  [.ev ⟨0xa6, 24⟩, .loopB [.ev ⟨0xa6, 24⟩, .ev ⟨0xa6, 24⟩] [.ev ⟨mds_REST, 48⟩, .loopB [.ev ⟨0xa8, 12⟩] [.ev ⟨mds_REST, 12⟩] 2] 3]
example : linL exBreak = true ∧ brkOkL false exBreak = true ∧ noCallL exBreak = true ∧
    mokL Mode.plain false exBreak = true := by decide
/-- the length-less third `c` is followed by the back-patched `fc 0b`, then the rest length `2f` -/
example : (convertTrack 0 0 (flatL exBreak ++ [⟨mds_FINISH, 0⟩])).toOption =
    some [0xa6, 0x17, 0xfa, 0xa6, 0x17, 0xa6, 0xfc, 0x0b, 0x2f, 0xfa, 0xa8, 0x0b, 0xfc, 0x03, 0x0b, 0xfb, 2, 0xfb, 3, 0xff] := by
  decide +kernel
example : ((encL 0 0 exBreak {}).map (·.out)).toOption =
    some [0xa6, 0x17, 0xfa, 0xa6, 0x17, 0xa6, 0xfc, 0x0b, 0x2f, 0xfa, 0xa8, 0x0b, 0xfc, 0x03, 0x0b, 0xfb, 2, 0xfb, 3] := by
  decide +kernel
example : (expL Mode.plain 0 0 exBreak).length = 24 + 2 * (48 + 48 + (12 + 12 + 12)) + 48 := by decide +kernel

/-- the hypotheses of `C02_call_return_partial` are satisfiable: a chunk fragment with the caller
`fe 00 ff` at 0, the pointer table at 3 (slot 0 → offset 2 from the table) and the callee `a6 17 ff` at 5 -/
example : ∃ (seq : List Nat) (t : Nat) (T : List Tk) (s' : St),
    slotTarget seq 3 (0 % 256) = some t ∧ SubPlays seq 3 0 false t T ∧ T = ticks Mode.plain 0 0 [⟨0xa6, 24⟩] ∧
    Reach seq 3 0 { pc := 0 } s' ∧ s'.pc = 2 ∧ s'.out = T.reverse := by
  obtain ⟨e', he', h⟩ := stream_at_subPlays Mode.plain 0 0 [.ev ⟨0xa6, 24⟩] (by decide) (by decide)
  have hc : encL 0 0 [.ev ⟨0xa6, 24⟩] {} = .ok { out := [0xa6, 0x17], lastNote := 0x17, lastType := 0xa6 } := rfl
  rw [hc] at he'; injection he' with he'; subst he'
  have hsub := h [0xfe, 0x00, 0xff, 0x00, 0x02] [0xfe, 0x00, 0xff, 0x00, 0x02, 0xa6, 0x17, 0xff] 3 0
    (Mode.plain_sound _ _ _) (by simp [callsOkL, Node.callsOk]) (List.prefix_refl _)
  obtain ⟨_, s', r, _, g⟩ := C02_call_return_partial (seq := [0xfe, 0x00, 0xff, 0x00, 0x02, 0xa6, 0x17, 0xff])
    (base := 3) (mj := 0) (Mode.plain_sound _ _ _) (good_init none none) 0 (by decide) (t := 5) (by decide) hsub
  refine ⟨_, 5, _, s', by decide, hsub, by simp [ticks, expL, Node.exp, Node.after], r, ?_, ?_⟩
  · rcases g.mode with ⟨_, hpc, _⟩ | ⟨hn, _⟩
    · exact hpc
    · simp [afterPAT, needLenB, noteish, mds_PAT, mds_SLR] at hn
  · rcases g.mode with ⟨_, _, ho⟩ | ⟨hn, _⟩
    · simpa using ho
    · simp [afterPAT, needLenB, noteish, mds_PAT, mds_SLR] at hn

/-- the hypotheses of `C02_drum_call_return_partial` / `C02_drum_routine_at_offset_partial` are
satisfiable: a chunk fragment with the caller `ec 08 82 0b` at 0 (drum mode on, note byte for routine
0, 12 ticks), the pointer table at 4 (slot 0 → offset 2) and the routine `e2 87 f7 28` at 6 (`VOL 87`,
`DMFINISH 40`): the routine plays `VOL 87` and ends with note 40 -/
example : ∃ (seq : List Nat) (C : List Tk), DrumPlays seq 4 0 6 C 40 ∧ C = [Tk.cmd mds_VOL 0x87] ∧
    slotTarget seq 4 (0x82 - mds_NOTE) = some 6 := by
  obtain ⟨e', he', h⟩ := C02_drum_routine_at_offset_partial 0 0 [.ev ⟨mds_VOL, 0x87⟩] (by decide) (by decide) 40
  have hc : encL 0 0 [.ev ⟨mds_VOL, 0x87⟩] {} = .ok { out := [mds_VOL, 0x87], lastType := mds_VOL } := rfl
  rw [hc] at he'; injection he' with he'; subst he'
  have hd := h [0xec, 0x08, 0x82, 0x0b, 0x00, 0x02] [0xec, 0x08, 0x82, 0x0b, 0x00, 0x02, 0xe2, 0x87, 0xf7, 0x28] 4 0
    (by simp [callsOkL, Node.callsOk]) (List.prefix_refl _)
  exact ⟨_, _, hd, by decide, by decide⟩

/-- a looping track with a loop (with break) after the loop point: `c c L [ c / r ]2` -/
def exTrackA : List Node := [.ev ⟨0xa6, 24⟩, .ev ⟨0xa6, 24⟩]
def exTrackB : List Node := [.loopB [.ev ⟨0xa6, 24⟩] [.ev ⟨mds_REST, 24⟩] 2]
example : linL exTrackA = true ∧ linL exTrackB = true ∧ brkOkL false exTrackB = true ∧ noCallL exTrackB = true ∧
    mokL Mode.plain false exTrackA = true ∧ mokL Mode.plain false exTrackB = true := by decide
example : (convertTrack 0 0 (flatL exTrackA ++ [⟨mds_SEGNO, 0⟩] ++ flatL exTrackB ++ [⟨mds_JUMP, 0⟩])).toOption =
    some [0xa6, 0x17, 0xa6, 0x17, 0xfa, 0xa6, 0x17, 0xfc, 0x03, 0x17, 0xfb, 2, 0xf5, 0xff, 0xf5] := by decide +kernel

/-! ## Whole songs of the fragment (third layer)

`SongTop.PlainSong` = the fragment: track ids ascending, no explicit `END` event, every event of
every track in `WFold.SimpleEv` (notes — in drum mode: routine numbers — inside the MDSDRV range;
until round 5 also: no pitch envelope on) with the front end's
timing (`SongSem.Timed`: 16-bit on/off times, only notes/ties have an on time, only notes/ties/rests
an off time, a sounding note has at least one key-on tick) and loop counts 0..255, called tracks
without loop point and without drum-mode switch (`SongTop.CalleeNoSeg`), drum-mode switches outside
counted loops (`drumTop`).  Drum mode: `SongTop.RoutinesOK song b` = every routine number the
converter registered (a note met in drum mode; keys `track * 4 + 2` of its subroutine map) names a
routine track of the fragment (`SongTop.RoutineTrack`: before its first note, which stands outside
any loop, only commands without time and loops of them) whose expansion — the routine as
`Timeline.ticksOf` calls it — is defined; `SongTop.LoopDrumOK root` = the loop section of a channel
track ends in the drum-mode state it starts in.  Outside these two conditions the writer's drum-mode
state (text order) and the driver's (execution order) differ: known finding D27.
The converter is `MdsFile.construct` (the constructor model of C09, with the index checks;
`Mds.convertSong` of the first layer stops at macro tracks and has no index check — for songs of
the fragment both assemble the same chunk, which is not proved here but compared on every run by
the correspondence check).  Extra hypotheses besides the fragment: the chunk is shorter than 64 KiB
(`Seq.step` computes the loop-back target modulo 2^16), at most one loop point per channel track
(`SongSplit.segCount`), `PlatformClean` (no platform `cmd` injects an index-bearing opcode), and
`SongTop.PlatAgree d.platform pf`: every platform command the converter knows consists of events
the theorems cover (`Fragment.platEvB`: `CARRY`, or a one- / two-argument command without index
operand, `FLG` only with bit 7 set — i.e. `mode`, `lfo`, `lforate`, `fm3`, `write`, `pcmrate`,
`pcmmode`, `carry`, and `cmd` with such an opcode) and the timeline reads it as what those events
denote (`Fragment.platSpec`).  Macro tracks (`PAN_ENVELOPE` on) are inside: the `MTAB` operand is
the macro index + 1 + number of subroutines, non-zero because it fits its byte (C09).  Pitch
envelopes (`PITCH_ENVELOPE` on, round 5) are inside: the writer pushes `PEG (i + 1)` with `i` the index
`get_envelope` hands out, `i <` the size of `used_data_map` at that moment `≤` its final size
(`SubMono`, third component: the map only grows through `hook` / `runWriter` / `get_subroutine` /
`get_macro_track`) `< 32768` (the header of a chunk below 64 KiB holds two bytes per entry:
`ChunkOK.nused`), so the 16-bit event argument is `i + 1 ≠ 0`, and the byte `convert_track` writes,
`nSubs + nMacros + i + 1`, is not reduced (C09 `C09_index_fits_byte`), hence non-zero: the
interpreter's `PEG` operand masks to 1 = what `Timeline.cmdOf` prescribes.  That the pitch envelope
is defined (`pitch_map`) follows from `construct = .ok`. -/

/-- **C02 for whole songs of the fragment.**  For every channel track in `Timeline.inDomain`
whose expected tick string is defined: the track table of the assembled chunk lists the channel,
and the sequence interpreter, started on the listed position with the loop-back followed once,
plays a tick string `T` that is, after the masking of index operands (`Timeline.maskTk`), exactly
`Timeline.expected` — for every tick limit that is not smaller than `T` and every sufficiently
large fuel.  (Channel tracks, counted loops with any number of breaks, subroutine calls to any
depth through the pointer table — in either drum-mode state —, drum mode switched on and off at the
top level of channel tracks, notes in drum mode through their routines, the loop point and what is
replayed after the loop-back jump.) -/
theorem C02_song_roundtrip_partial (song : Song) (d : DataInfo) (vol : Option String) (pf : Timeline.Platform)
    (b : MdsFile.Built) (hpc : PlatformClean d) (hp : SongTop.PlainSong song)
    (hb : MdsFile.construct song d vol = .ok b) (hlen : b.seq.length < 65536) (hR : SongTop.RoutinesOK song b)
    (hpa : SongTop.PlatAgree d.platform pf) :
    ∀ id root t, (id, root) ∈ song.tracks → id < 16 → Timeline.inDomain song root = true →
      SongSplit.segCount root ≤ 1 → SongTop.LoopDrumOK root → Timeline.expected song pf root = .ok t →
      ∃ base ts start, tracksOf b.seq = some (base, ts) ∧ ts.lookup id = some start ∧
        ∃ T, T.map Timeline.maskTk = t ∧
          ∀ maxTicks, T.length ≤ maxTicks → ∃ n, ∀ fuel, fuel > n →
            run b.seq base 1 maxTicks fuel { pc := start } = (T, .finished) := by
  intro id root t hmem hid hdom hcnt hloop hexp
  obtain ⟨ts, stream, pre, htr, hlk, _, hres⟩ :=
    SongTop.song_plays hpc hp hb hlen pf hmem hid (SongTop.platOK_of_agree hpa _ _) hR (SongTop.inDomain_segno hdom) hcnt hloop hexp 1
  obtain ⟨X, Y, TA, TB, loops, s', hreach, hfin, hout, hX, hY, ht, _, _, _⟩ := hres.plays
  refine ⟨_, ts, pre.length, htr, hlk,
    (if loops then TA ++ repeatL 1 (TB ++ [Tk.loopMark]) ++ TB else TA ++ TB), ?_, ?_⟩
  · rw [ht, ← hX, ← hY]
    cases loops <;> simp [SongSem.mk, repeatL, Timeline.maskTk]
  · intro maxTicks hmax
    obtain ⟨n, hn⟩ := run_of_reach (maxTicks := maxTicks) hreach hfin (by rw [hout]; simpa using hmax)
    exact ⟨n, fun fuel hf => by rw [hn fuel hf, hout]; simp⟩

/-! non-vacuity of the hypotheses of `C02_song_roundtrip_partial` / `C03_song_wellformed_partial`: a
song with a loop point, a counted loop with two breaks and a call inside it, and a subroutine
(`A c L [d / *100 / e]2`, `*100 f r`); and a drum song (`A c L D1 [*80-note / *100 / *81-note]2 D0`
with the routines `*80 v7 n40`, `*81 p1 [v+1]2 n41` and the subroutine `*100`, called in drum mode).
The hypotheses on the song are decided in the kernel through the executable predicates of
`Fragment` (sound: `SongTop.plainSong_of_B`, `routine_of_B`, `loopDrum_of_B`).  The remaining
hypotheses, `MdsFile.construct … = .ok b` with a chunk below 64 KiB and `RoutinesOK song b` (which
routine keys the converter registered), are not evaluated in the kernel (the mutually recursive
writer does not unfold there): on every correspondence run the judge evaluates `construct` and
`Fragment.inFragment` on each generated song, compares the chunk with the real bytes, and reports
the songs that are instances as `ok proved-fragment`. -/
def exNote (p : Int) (on off : Nat) : Event := { type := ev_NOTE, param := p, on := on, off := off }
def exCmd (ty : Nat) (p : Int) : Event := { type := ty, param := p, on := 0, off := 0 }
def exRoot : List Event :=
  [exNote 36 24 0, exCmd ev_SEGNO 0, exCmd ev_LOOP_START 0, exNote 38 12 12, exCmd ev_LOOP_BREAK 0, exCmd ev_JUMP 100,
   exCmd ev_LOOP_BREAK 0, exNote 40 24 0, exCmd ev_LOOP_END 2]
def exSong : Song := { tracks := [(0, exRoot), (100, [exNote 41 6 6, { type := ev_REST, param := 0, on := 0, off := 3 }])] }

example : SongTop.PlainSong exSong := SongTop.plainSong_of_B (by decide)
example : Timeline.inDomain exSong exRoot = true ∧ SongSplit.segCount exRoot ≤ 1 ∧ (0, exRoot) ∈ exSong.tracks := by decide
example : SongTop.LoopDrumOK exRoot := SongTop.loopDrum_of_B (by decide)
example : (Timeline.expected exSong [] exRoot).toOption.map (·.length) = some 199 := by
  decide +kernel
example : PlatformClean {} := by intro k evs h; simp at h

def exDrumRoot : List Event :=
  [exNote 36 24 0, exCmd ev_SEGNO 0, exCmd ev_DRUM_MODE 1, exCmd ev_LOOP_START 0, exNote 80 12 12, exCmd ev_LOOP_BREAK 0,
   exCmd ev_JUMP 100, exCmd ev_LOOP_BREAK 0, exNote 81 24 0, exCmd ev_LOOP_END 2, exCmd ev_DRUM_MODE 0]
def exDrumSong : Song :=
  { tracks := [(0, exDrumRoot), (80, [exCmd ev_VOL 7, exNote 40 1 0]),
      (81, [exCmd ev_PAN 1, exCmd ev_LOOP_START 0, exCmd ev_VOL_REL 1, exCmd ev_LOOP_END 2, exNote 41 1 0, exNote 42 1 0]),
      (100, [exNote 80 6 6, { type := ev_REST, param := 0, on := 0, off := 3 }])] }

example : SongTop.PlainSong exDrumSong := SongTop.plainSong_of_B (by decide)
example : Timeline.inDomain exDrumSong exDrumRoot = true ∧ SongSplit.segCount exDrumRoot ≤ 1 := by decide
example : SongTop.LoopDrumOK exDrumRoot := SongTop.loopDrum_of_B (by decide)
/-- the two routine tracks are routines of the fragment, with defined expansions -/
example : Fragment.routineB exDrumSong 80 = true ∧ Fragment.routineB exDrumSong 81 = true := by decide +kernel
/-- `c`, then the drum section twice (the loop-back is followed once), with the routines' commands and the loop mark -/
example : (Timeline.expected exDrumSong [] exDrumRoot).toOption.map (·.length) = some 215 := by
  decide +kernel

/-- platform commands and a macro track: `A %1 c M1 %2 d` with `%1 = lfo 3 5`, `%2 = carry`, `*300` the
macro track; the converter's table (what `parse_platform_event` makes of the two commands) agrees
with the timeline's -/
def exPlatSong : Song :=
  { tracks := [(0, [exCmd ev_PLATFORM 1, exNote 36 24 0, exCmd ev_PAN_ENVELOPE 300, exCmd ev_PLATFORM 2, exNote 38 12 12]),
      (300, [exCmd ev_PAN 1])] }
def exPlatD : List (Int × Option (List MEv)) := [(1, some [⟨mds_LFO, 0x35⟩]), (2, some [⟨mds_CARRY, 0⟩])]
def exPlatPf : Timeline.Platform := [(1, [(mds_LFO, 0x35)]), (2, [])]
example : SongTop.PlainSong exPlatSong := SongTop.plainSong_of_B (by decide)
example : SongTop.PlatAgree exPlatD exPlatPf := SongTop.platAgree_of_B (by decide)
example : PlatformClean { platform := exPlatD } := by
  intro k evs h
  simp only [exPlatD, List.lookup] at h
  split at h
  · simp only [Option.some.injEq] at h; subst h; intro ev hev; simp at hev; subst hev; unfold Plain; decide
  · split at h
    · simp only [Option.some.injEq] at h; subst h; intro ev hev; simp at hev; subst hev; unfold Plain; decide
    · cases h

/-- pitch envelopes (round 5): `A M1 c [M2 d / M0 e]2 *100`, `*100 M1 f r` — switched on, to another
envelope inside a loop in front of its break, off behind the break, on again in a subroutine -/
def exPegRoot : List Event :=
  [exCmd ev_PITCH_ENVELOPE 1, exNote 36 24 0, exCmd ev_LOOP_START 0, exCmd ev_PITCH_ENVELOPE 2, exNote 38 12 12,
   exCmd ev_LOOP_BREAK 0, exCmd ev_PITCH_ENVELOPE 0, exNote 40 24 0, exCmd ev_LOOP_END 2, exCmd ev_JUMP 100]
def exPegSong : Song :=
  { tracks := [(0, exPegRoot), (100, [exCmd ev_PITCH_ENVELOPE 1, exNote 41 6 6, { type := ev_REST, param := 0, on := 0, off := 3 }])] }
example : SongTop.PlainSong exPegSong := SongTop.plainSong_of_B (by decide)
example : Timeline.inDomain exPegSong exPegRoot = true ∧ SongSplit.segCount exPegRoot ≤ 1 ∧ (0, exPegRoot) ∈ exPegSong.tracks := by decide
example : SongTop.LoopDrumOK exPegRoot := SongTop.loopDrum_of_B (by decide)
/-- the pitch-envelope commands of the expected tick string, in playing order: on, on (first pass), off (behind the break), on (second pass), on (subroutine) -/
example : (Timeline.expected exPegSong [] exPegRoot).toOption.map
    (·.filterMap fun t => match t with | .cmd op a => if op = mds_PEG then some a else none | _ => none) = some [1, 1, 0, 1, 1] := by
  decide +kernel

end Ctrmml.C02

/-! ## Optimised songs (round 5): C01 composed with the whole-song theorem -/

/-
  C01 ∘ C02 — the bytes assembled from the OPTIMISED song play what the ORIGINAL song prescribes.

  `C01_optimize_preserves` (Properties/C01): the optimiser preserves the observation `obs` of every
  track.  `C02_song_roundtrip_partial` (Properties/C02): the chunk assembled from a song of the
  fragment plays `Timeline.expected` of that song.  The link is `SongOpt.expected_congr`
  (Proofs/SongOpt): `Timeline.expected` is a function of the observation — and of how the drum
  routines named by notes resolve, which the observation of the channel track does not show.
-/
namespace Ctrmml.C02
open Ctrmml Ctrmml.Mds Ctrmml.Seq Ctrmml.Expand Ctrmml.Opt Ctrmml.OptSteps Ctrmml.C01 Tables

/-- **C02 after C01: the chunk assembled from the optimised song plays the timeline of the original
song.**

Hypotheses on the ORIGINAL song (those of `C01_optimize_preserves`): `hwf` well formed, `hsorted`
ids ascending, `hids` ids below 32767, `hok` every track validates, `hr`/`hv` the optimiser
(`Opt.optimize` with a validator `valid` that accepts only songs all of whose tracks validate,
`hvalid`) returns `r` with `validated = true`, `hcnt` the subroutine ids stay within `int16_t`.

Hypotheses on the OPTIMISED song `r.song` (those of `C02_song_roundtrip_partial`): `hpc`, `hp`
(`r.song` is in the fragment `SongTop.PlainSong`), `hb` (the chunk `b` is assembled from `r.song`),
`hlen`, `hR`, `hpa`; per channel track `id < 16` with event list `root` in the original and `root'`
in the optimised song: `root'` in `Timeline.inDomain`, at most one loop point, `LoopDrumOK`.

The extra hypothesis, per channel track: `SongOpt.DrumAlike song r.song pf (played items)` for the
performance `items` of `root` in the original song — IF that performance contains a `DRUM_MODE`
event, THEN for every `NOTE` entry of its played projection the routine its parameter names
resolves alike in both songs (`SongOpt.routineOf`: the routine track expanded as a call from
depth 1, its commands up to its first note, that note's number).  It is vacuous for a channel track
whose performance never switches drum mode, and follows from `∀ p, routineOf r.song pf p =
routineOf song pf p` (`SongOpt.drumAlike_of_all`).  It is needed because `obs` of the channel track
says nothing about the routine tracks, and C01's preservation is about tracks expanded from an empty
stack while a routine is expanded from depth 1 (one frame less).

Conclusion: the tick string `t` that the ORIGINAL song prescribes for the channel
(`Timeline.expected song pf root = .ok t`) is, up to `Timeline.maskTk`, what the sequence
interpreter plays from the position the track table of `b` lists for the channel. -/
theorem C02_optimised_song_roundtrip_partial (valid : Song → Bool) (hvalid : ∀ s, valid s = true → validAll s = true)
    (song : Song) (minScore : Int) (fuel : Nat) (r : OptResult) (d : DataInfo) (vol : Option String)
    (pf : Timeline.Platform) (b : MdsFile.Built)
    -- C01: the original song and the optimiser run
    (hwf : SongWF song) (hsorted : (song.tracks.map (·.1)).Pairwise (· < ·))
    (hids : ∀ p ∈ song.tracks, p.1 < 32767)
    (hok : ∀ id, song.track? id ≠ none → okTrack song id)
    (hr : optimize valid minScore fuel song (initialSubId song) [] = .ok r) (hv : r.validated = true)
    (hcnt : initialSubId song + (r.passes.length : Int) < 32768)
    -- C02: the optimised song and its chunk
    (hpc : PlatformClean d) (hp : SongTop.PlainSong r.song)
    (hb : MdsFile.construct r.song d vol = .ok b) (hlen : b.seq.length < 65536) (hR : SongTop.RoutinesOK r.song b)
    (hpa : SongTop.PlatAgree d.platform pf) :
    ∀ id root root' t, (id, root) ∈ song.tracks → (id, root') ∈ r.song.tracks → id < 16 →
      Timeline.inDomain r.song root' = true → SongSplit.segCount root' ≤ 1 → SongTop.LoopDrumOK root' →
      (∀ items, perf song root = .ok items → SongOpt.DrumAlike song r.song pf (played items)) →
      Timeline.expected song pf root = .ok t →
      ∃ base ts start, tracksOf b.seq = some (base, ts) ∧ ts.lookup id = some start ∧
        ∃ T, T.map Timeline.maskTk = t ∧
          ∀ maxTicks, T.length ≤ maxTicks → ∃ n, ∀ fuel, fuel > n →
            run b.seq base 1 maxTicks fuel { pc := start } = (T, .finished) := by
  intro id root root' t hmem hmem' hid hdom hseg hloop hdr hexp
  have hE := SongOpt.optimised_expected_eq valid hvalid song minScore fuel r pf hwf hsorted hids hok hr hv hcnt hp.ids
    hmem hmem' hdr
  exact C02_song_roundtrip_partial r.song d vol pf b hpc hp hb hlen hR hpa id root' t hmem' hid hdom hseg hloop
    (by rw [hE]; exact hexp)

/-! ### songs without drum mode: no extra hypothesis -/

/-- no event of any track of the song is a drum-mode switch -/
def NoDrumSong (song : Song) : Prop := ∀ p ∈ song.tracks, ∀ e ∈ p.2, e.type ≠ ev_DRUM_MODE

theorem callK_noDrum {song : Song} (h : NoDrumSong song) : ∀ (k d id : Nat) (its : List Item),
    callK song k d id = .ok its → ∀ i ∈ its, i.ev.type ≠ ev_DRUM_MODE ∧ i.src.type ≠ ev_DRUM_MODE
  | 0, _, _, _, hx => by simp [callK] at hx
  | k + 1, d, id, its, hx => by
    simp only [callK] at hx
    by_cases hf : d ≥ limit
    · simp [hf] at hx
    simp only [hf, if_false] at hx
    cases htr : song.track? id with
    | none => rw [htr] at hx; simp at hx
    | some evs =>
      rw [htr] at hx
      have hmem : (id, evs) ∈ song.tracks := mem_of_lookup htr
      exact SongSplit.noseg_L (fun e => e.type ≠ ev_DRUM_MODE) (by decide) _ _
        (by rw [Tree.flatten_parse]; exact h _ hmem)
        (fun e _ _ d' its' hc => callK_noDrum h k d' _ its' hc) _ _ _ hx

/-- the performance of a track of a song without drum-mode switch has none in its played projection -/
theorem played_noDrum {song : Song} (h : NoDrumSong song) {root : List Event} (hroot : ∀ e ∈ root, e.type ≠ ev_DRUM_MODE)
    {items : List Item} (hp : perf song root = .ok items) : SongOpt.NoDrum (played items) := by
  have hi : ∀ i ∈ items, i.ev.type ≠ ev_DRUM_MODE ∧ i.src.type ≠ ev_DRUM_MODE :=
    SongSplit.noseg_L (fun e => e.type ≠ ev_DRUM_MODE) (by decide) _ _
      (by rw [Tree.flatten_parse]; exact hroot)
      (fun e _ _ d' its' hc => callK_noDrum h _ d' _ its' hc) _ _ _ hp
  intro q hq
  obtain ⟨i, him, hiq⟩ := List.mem_filterMap.1 hq
  by_cases hb : SongOpt.Bracket i.ev
  · rw [SongOpt.playedItem_bracket hb] at hiq
    by_cases h0 : i.src.on + i.src.off = 0
    · simp [h0] at hiq
    · simp only [h0, if_false, Option.some.injEq] at hiq
      rw [← hiq]; show ev_NOP ≠ ev_DRUM_MODE; decide
  · rw [SongOpt.playedItem_other hb, Option.some.injEq] at hiq
    rw [← hiq]; exact (hi i him).1

/-- **C02 after C01 for songs that never switch drum mode** (`NoDrumSong song`: no `DRUM_MODE` event
in any track of the ORIGINAL song): the hypotheses of `C01_optimize_preserves` on the original song
and those of `C02_song_roundtrip_partial` on the optimised song, nothing else. -/
theorem C02_optimised_song_roundtrip_nodrum_partial (valid : Song → Bool) (hvalid : ∀ s, valid s = true → validAll s = true)
    (song : Song) (minScore : Int) (fuel : Nat) (r : OptResult) (d : DataInfo) (vol : Option String)
    (pf : Timeline.Platform) (b : MdsFile.Built)
    (hwf : SongWF song) (hsorted : (song.tracks.map (·.1)).Pairwise (· < ·))
    (hids : ∀ p ∈ song.tracks, p.1 < 32767)
    (hok : ∀ id, song.track? id ≠ none → okTrack song id)
    (hr : optimize valid minScore fuel song (initialSubId song) [] = .ok r) (hv : r.validated = true)
    (hcnt : initialSubId song + (r.passes.length : Int) < 32768)
    (hnd : NoDrumSong song)
    (hpc : PlatformClean d) (hp : SongTop.PlainSong r.song)
    (hb : MdsFile.construct r.song d vol = .ok b) (hlen : b.seq.length < 65536) (hR : SongTop.RoutinesOK r.song b)
    (hpa : SongTop.PlatAgree d.platform pf) :
    ∀ id root root' t, (id, root) ∈ song.tracks → (id, root') ∈ r.song.tracks → id < 16 →
      Timeline.inDomain r.song root' = true → SongSplit.segCount root' ≤ 1 → SongTop.LoopDrumOK root' →
      Timeline.expected song pf root = .ok t →
      ∃ base ts start, tracksOf b.seq = some (base, ts) ∧ ts.lookup id = some start ∧
        ∃ T, T.map Timeline.maskTk = t ∧
          ∀ maxTicks, T.length ≤ maxTicks → ∃ n, ∀ fuel, fuel > n →
            run b.seq base 1 maxTicks fuel { pc := start } = (T, .finished) := by
  intro id root root' t hmem hmem' hid hdom hseg hloop hexp
  refine C02_optimised_song_roundtrip_partial valid hvalid song minScore fuel r d vol pf b hwf hsorted hids hok hr hv hcnt
    hpc hp hb hlen hR hpa id root root' t hmem hmem' hid hdom hseg hloop ?_ hexp
  intro items hperf hex
  obtain ⟨q, hq, hq'⟩ := hex
  exact absurd hq' (played_noDrum hnd (hnd _ hmem) hperf q hq)

/-! non-vacuity of the song-side hypotheses: the original `c c c c L d` (four equal notes, the loop
point, a note with a rest) and what the loop fold makes of it, `[c]4 L d`.  The original meets
C01's hypotheses on the song (`SongWF`, ascending ids below 32767, every track validates,
`NoDrumSong`); the folded song meets C02's (`PlainSong`, `inDomain`, one loop point, `LoopDrumOK`);
the two have the same observation, and — the instance of `SongOpt.expected_congr` — the same
expected tick string, 145 ticks with the loop mark (evaluated in the kernel).  The hypotheses
that the optimiser returns this song (`hr`) and that `MdsFile.construct` assembles a chunk (`hb`)
are not evaluated in the kernel (stack analysis / the mutually recursive writer do not unfold
there); they are exercised by the correspondence runs of C01 and C02. -/
namespace OptEx
instance (l : List Event) : Decidable (Tree.NoEnd l) := by unfold Tree.NoEnd; infer_instance
instance (l : List Event) : Decidable (BrkZero l) := by unfold BrkZero; infer_instance

def oNote (p : Int) (on off : Nat) : Event := { type := ev_NOTE, param := p, on := on, off := off }
def oRoot : List Event :=
  [oNote 36 24 0, oNote 36 24 0, oNote 36 24 0, oNote 36 24 0, ⟨ev_SEGNO, 0, 0, 0⟩, oNote 38 12 12]
def oRoot' : List Event := [lsEv, oNote 36 24 0, leEv 4, ⟨ev_SEGNO, 0, 0, 0⟩, oNote 38 12 12]
def oSong : Song := { tracks := [(0, oRoot)] }
def oSong' : Song := { tracks := [(0, oRoot')] }

/-- C01's hypotheses on the original song -/
example : SongWF oSong := by
  refine ⟨by decide, ?_⟩
  intro p hp
  simp only [oSong, List.mem_singleton] at hp
  subst hp
  exact ⟨by decide, by decide, by decide⟩
example : (oSong.tracks.map (·.1)).Pairwise (· < ·) ∧ (∀ p ∈ oSong.tracks, p.1 < 32767) := by decide
example : ∀ id, oSong.track? id ≠ none → okTrack oSong id := by
  intro id hid
  have : id = 0 := by
    by_cases h : id = 0
    · exact h
    · exfalso; apply hid
      have hb : (id == 0) = false := by simp [h]
      simp [Song.track?, oSong, List.lookup, hb]
  subst this
  exact ⟨_, oRoot.map item, rfl, by rfl⟩
example : NoDrumSong oSong := by
  intro p hp
  simp only [oSong, List.mem_singleton] at hp
  subst hp
  decide
/-- C02's hypotheses on the folded song -/
example : SongTop.PlainSong oSong' := SongTop.plainSong_of_B (by decide)
example : Timeline.inDomain oSong' oRoot' = true ∧ SongSplit.segCount oRoot' ≤ 1 ∧ (0, oRoot') ∈ oSong'.tracks ∧
    (0, oRoot) ∈ oSong.tracks := by decide
example : SongTop.LoopDrumOK oRoot' := SongTop.loopDrum_of_B (by decide)
/-- what C01 concludes, and with it the hypotheses of `SongOpt.expected_congr` -/
example : obsOf oSong' 0 = obsOf oSong 0 ∧ (obsOf oSong 0).isSome = true := by decide +kernel
/-- the conclusion of `SongOpt.expected_congr` on this pair, by evaluation: `c c c c L d`, loop mark, `d` -/
example : (Timeline.expected oSong' [] oRoot').toOption = (Timeline.expected oSong [] oRoot).toOption ∧
    (Timeline.expected oSong [] oRoot).toOption.map (·.length) = some (4 * 24 + 24 + 1 + 24) := by decide +kernel
/-- … and through the lemma -/
example : Timeline.expected oSong' [] oRoot' = Timeline.expected oSong [] oRoot :=
  SongOpt.expected_congr (items := oRoot.map item) (by rfl)
    (items' := item lsEv :: (repeatItems 4 [item (oNote 36 24 0), item (leEv 4)] ++
      [item ⟨ev_SEGNO, 0, 0, 0⟩, item (oNote 38 12 12)])) (by rfl) (by decide +kernel)
    (fun h => absurd h (by decide +kernel))
end OptEx

end Ctrmml.C02

/-! ### the executable transcription of the original-song hypotheses is sound -/
namespace Ctrmml.C02
open Ctrmml Ctrmml.Expand Ctrmml.Opt Ctrmml.OptSteps Ctrmml.C01 Ctrmml.Fragment Tables

/-- `Fragment.optOriginalB` (what the judge evaluates on the original song of a `convo` case) implies
the hypotheses of `C02_optimised_song_roundtrip_nodrum_partial` on the original song -/
theorem optOriginal_of_B {song : Song} {passes : Nat} (h : optOriginalB song (initialSubId song) passes = true) :
    SongWF song ∧ (song.tracks.map (·.1)).Pairwise (· < ·) ∧ (∀ p ∈ song.tracks, p.1 < 32767) ∧
      (∀ id, song.track? id ≠ none → okTrack song id) ∧ initialSubId song + (passes : Int) < 32768 ∧ NoDrumSong song := by
  unfold optOriginalB at h
  simp only [Bool.and_eq_true, List.all_eq_true, decide_eq_true_eq, Bool.or_eq_true, bne_iff_ne, ne_eq, beq_iff_eq] at h
  obtain ⟨⟨hs, ht⟩, hc⟩ := h
  have hsorted := SongTop.sorted_of_B _ hs
  have hnd : (song.tracks.map (·.1)).Nodup := hsorted.imp (fun h => Nat.ne_of_lt h)
  refine ⟨⟨hnd, fun p hp => ?_⟩, hsorted, fun p hp => (ht p hp).1.1.1, fun id hid => ?_, hc, fun p hp e he => ?_⟩
  · obtain ⟨⟨⟨_, hlen⟩, hev⟩, _⟩ := ht p hp
    refine ⟨fun e he => (hev e he).1.1, fun e he te => ?_, hlen⟩
    rcases (hev e he).1.2 with h1 | h1
    · exact absurd te h1
    · exact h1
  · cases hl : song.track? id with
    | none => exact absurd hl hid
    | some t =>
      have hmem : (id, t) ∈ song.tracks := mem_of_lookup hl
      have hp := (ht (id, t) hmem).2
      cases hperf : perf song t with
      | error x => rw [show ((id, t) : Nat × List Event).2 = t from rfl, hperf] at hp; simp at hp
      | ok items => exact ⟨t, items, hl, hperf⟩
  · exact (((ht p hp).1.2) e he).2

/-- the original song of the `OptEx` pair passes the executable test (one pass of the optimiser) -/
example : optOriginalB OptEx.oSong (initialSubId OptEx.oSong) 1 = true := by decide +kernel

end Ctrmml.C02
