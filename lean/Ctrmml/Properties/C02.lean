/-
  C02 — MDSDRV bytecode plays exactly the song.   (first layer; see DESIGN §6 C02)

  Model: Model/MdsCodec.lean (`convert_track`), Model/MdsConv.lean (writer + converter).
  Spec:  Spec/SeqInterp.lean (the MDSDRV sequence rules), Spec/Timeline.lean (tick string of the
  expanded track).
-/
import Ctrmml.Model.MdsConv
import Ctrmml.Spec.Timeline
namespace Ctrmml.C02
open Ctrmml Ctrmml.Mds Ctrmml.Seq Tables

/-- The full statement of the property over the model: for every song in the encodable domain
whose expansion is defined, the converter accepts it and interpreting each channel's stream gives
the expected tick string (loop-back followed once). Not yet proved as a whole; decided per case by
running the right-hand side on the real bytes. -/
def C02_full_statement : Prop :=
  ∀ (song : Song) (d : DataInfo) (pf : Timeline.Platform) (vol : Option Nat),
    (∀ id root, (id, root) ∈ song.tracks → id < 16 → Timeline.inDomain song root = true) →
    (∀ id root, (id, root) ∈ song.tracks → id < 16 → ∃ t, Timeline.expected song pf root = .ok t) →
    ∃ c, convertSong song d vol = .ok c ∧
      ∀ id root t, (id, root) ∈ song.tracks → id < 16 → Timeline.expected song pf root = .ok t →
        ∃ base ts start, tracksOf c.seq = some (base, ts) ∧ ts.lookup id = some start ∧
          (run c.seq base 1 (t.length + 64) 4000000 { pc := start }).1.map Timeline.maskTk = t

/-- Every stream the codec produces for an event list that ends with a terminator event ends
with that terminator byte: `FINISH` (`ff`). -/
theorem C02_stream_ends_with_finish_partial (nS nM : Nat) (es : List MEv) (e : Enc) (e' : Enc)
    (h : encEv nS nM e ⟨mds_FINISH, 0⟩ = .ok e') : e'.out = e.out ++ [mds_FINISH] := by
  unfold encEv at h
  have h1 : ¬ ((⟨mds_FINISH, 0⟩ : MEv).type = mds_REST ∧ (⟨mds_FINISH, 0⟩ : MEv).arg ≠ 0) := by decide
  have h2 : ¬ ((⟨mds_FINISH, 0⟩ : MEv).type < mds_SLR ∧ (⟨mds_FINISH, 0⟩ : MEv).arg ≠ 0) := by decide
  simp only [h1, h2, if_false] at h
  have h3 : encOther nS nM e mds_FINISH 0 = .ok { e with out := e.out ++ [mds_FINISH] } := by
    unfold encOther
    have a : ¬ (mds_FINISH = mds_SEGNO) := by decide
    simp [a]
  rw [h3] at h
  have h4 : mds_FINISH < mds_REST ∨ mds_FINISH ≥ mds_SLR ∨ (⟨mds_FINISH, 0⟩ : MEv).arg ≠ 0 := by decide
  simp only [h4, if_true, Except.ok.injEq] at h
  subst h
  rfl

example : ∃ e', encEv 0 0 {} ⟨mds_FINISH, 0⟩ = .ok e' := ⟨_, rfl⟩

end Ctrmml.C02
