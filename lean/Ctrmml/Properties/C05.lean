/-
  C05 — MML text means what the reference says: pitch, duration, articulation.

  Builder layer (class Track, Model/TrackBuilder): full-strength theorems for ALL tracks / call
  sequences, under the hypotheses stated (the two places where the property text is false of the
  code — D6a `Q4 c:1`, D6b `q5 s-30 c` — carry `_partial` theorems whose hypothesis excludes
  exactly the trigger, plus counterexample theorems replayed on the real code by the check).
  Reader layer (Model/Lexer, Model/Mml): number reader on every decimal / `$`-hexadecimal
  numeral, duration reader and per-command reader theorems on rendered text.
-/
import Ctrmml.Proofs.TrackBuilder
import Ctrmml.Proofs.TieGroup
import Ctrmml.Proofs.Mml
import Ctrmml.Proofs.ReaderLine
import Ctrmml.Proofs.ReaderExt
import Ctrmml.Spec.MmlMeaning
namespace Ctrmml.C05
open Ctrmml Ctrmml.Tables Ctrmml.Lexer Ctrmml.TrackBuilder Ctrmml.Mml

/-- events of track `A` after reading one line of text -/
def eventsOfLine (text : List Nat) : List Event :=
  match readLines 0 [text] MmlState.init with
  | .ok _ st => (getTrack { st with trackId := 0 }).getEvents
  | .err _ st => (getTrack { st with trackId := 0 }).getEvents

/-! ## articulation -/

/-- on_time + off_time of a duration is that duration (quantise: always; early release: for
durations of at least one tick) -/
theorem C05_on_off_sum (t : Track) (hI : t.Inv) (d : UInt16) (hd : t.earlyRelease.toNat = 0 ∨ d.toNat ≠ 0) :
    (t.onTime d).toNat + (t.offTime d).toNat = d.toNat :=
  on_off_sum t hI.q_le d hd

example : (Track.new).Inv ∧ ((Track.new).setEarlyRelease 5).earlyRelease.toNat ≠ 0 := ⟨Track.new_inv _, by decide⟩

/-- every note is keyed on for the time the rule prescribes: `d·Q/parts` under quantise,
`d − q` (1 when `q ≥ d`) under early release, computed without any 16-bit wrap; the event that
`add_note` appends carries exactly that on-time, the rest of the duration as off-time, and the
pitch -/
theorem C05_on_time_rule (t : Track) (hI : t.Inv) (note : Int) (d : UInt16) :
    (t.addNote note d).revEvents =
        { type := ev_NOTE, param := wrapS16 (t.notePitch note), on := t.onTime (t.effDur d), off := t.offTime (t.effDur d),
          ref := t.reference } :: t.revEvents ∧
    (t.onTime (t.effDur d)).toNat =
      (if t.earlyRelease.toNat ≠ 0 then
         (if (t.effDur d).toNat ≤ t.earlyRelease.toNat then 1 else (t.effDur d).toNat - t.earlyRelease.toNat)
       else (t.effDur d).toNat * t.quantize.toNat / t.quantizeParts.toNat) :=
  ⟨rfl, onTime_toNat t hI.q_le _⟩

example : ((Track.new).addNote 0 24).getEvents = [{ type := 2, param := 60, on := 24, off := 0 }] := by decide

/-- the full statement of "never less than one tick" -/
def C05_full_statement_on_time_positive : Prop :=
  ∀ (t : Track), t.Inv → ∀ d : UInt16, d.toNat ≠ 0 → (t.onTime d).toNat ≥ 1

/-- … holds when early release is active, or when `d·Q ≥ parts` (extra hypothesis: excludes
exactly the quantised notes shorter than `parts/Q` ticks — D6a) -/
theorem C05_on_time_positive_partial (t : Track) (hI : t.Inv) (d : UInt16) (hd : d.toNat ≠ 0)
    (h : t.earlyRelease.toNat ≠ 0 ∨ d.toNat * t.quantize.toNat ≥ t.quantizeParts.toNat) : (t.onTime d).toNat ≥ 1 := by
  rw [onTime_toNat t hI.q_le]
  unfold onRule
  split
  · split <;> omega
  · rename_i h0
    rcases h with h | h
    · exact absurd h h0
    · exact (Nat.one_le_div_iff (Nat.pos_of_ne_zero hI.parts_pos)).mpr h

example : ((Track.new).setQuantize 4).1.Inv ∧ (2 : UInt16).toNat * ((Track.new).setQuantize 4).1.quantize.toNat ≥ 8 :=
  ⟨(setQuantize_inv _ (Track.new_inv _) 4 8).1, by decide⟩

/-- D6a: the full statement is false — after `Q4` a one-tick note is keyed on for 0 ticks; the
text `A Q4 c:1` records NOTE 60 with on_time 0, off_time 1 -/
theorem C05_on_time_zero_counterexample :
    ¬ C05_full_statement_on_time_positive ∧
    eventsOfLine (strBytes "A Q4 c:1") = [{ type := ev_NOTE, param := 60, on := 0, off := 1 }] := by
  refine ⟨fun h => ?_, by decide +kernel⟩
  have := h ((Track.new).setQuantize 4).1 (setQuantize_inv _ (Track.new_inv _) 4 8).1 1 (by decide)
  revert this
  decide

/-! ## duration conservation -/

/-- the full statement: a track's total duration equals the sum of the written durations minus
the reverse rests, for every call sequence -/
def C05_full_statement_duration_conservation : Prop :=
  ∀ (ops : List Track.Op) (t' : Track), applyOps Track.new ops = .ok t' → (t'.total : Int) = writtenSum Track.new ops

/-- … holds for every call sequence (any interleaving of notes, ties, rests, slurs, echoes,
reverse rests, quantise / early-release / shuffle / length / key / drum settings, raw events)
under `StepsOk` (extra hypothesis, the `NoWrap` of the design: no tie pushes an event beyond
65535 ticks, and no duration is 0 while early release is active — i.e. no shuffle underflow and
no zero default length: D6b).  The invariant is part of the conclusion. -/
theorem C05_duration_conservation_partial (ops : List Track.Op) (t' : Track) (hok : StepsOk Track.new ops)
    (h : applyOps Track.new ops = .ok t') : t'.Inv ∧ (t'.total : Int) = writtenSum Track.new ops := by
  have := applyOps_conserves ops Track.new t' (Track.new_inv _) hok h
  exact ⟨this.1, by simpa [Track.total, Track.new, sumLen] using this.2⟩

/-- `Q4 c4 v5 ^4 & d8 R16` as API calls -/
def exampleOps : List Track.Op :=
  [.setQuantize 4 8, .addNote 0 24, .addEvent ev_VOL 5 0 0, .addTie 24, .addSlur, .addNote 2 12, .reverseRest 6]

/-- non-vacuity: it satisfies `StepsOk` and totals 24+24+12−6 -/
example :
    StepsOk Track.new exampleOps ∧ writtenSum Track.new exampleOps = 54 ∧ (applyOps Track.new exampleOps).toOption.map Track.total = some 54 := by
  decide +kernel

/-- D6b: the full statement is false — with early release, a shuffle larger than the note
(`q5 s-30 c`: 24 − 30 clamps to 0) records on_time 1, off_time 65535: 65536 ticks for 0 written -/
theorem C05_shuffle_underflow_counterexample :
    ¬ C05_full_statement_duration_conservation ∧
    eventsOfLine (strBytes "A q5 s-30 c") = [{ type := ev_NOTE, param := 60, on := 1, off := 65535 }] := by
  refine ⟨fun h => ?_, by decide +kernel⟩
  have := h [.setEarlyRelease 5, .setShuffle (-30), .addNote 0 0] _ rfl
  revert this
  decide +kernel

/-! ## editing operations -/

/-- `add_tie`: (1) no live note — a TIE event of its own; (2) the note is the last event — it is
re-split at the new total; (3) other events follow the note — the note keeps its old total as
on-time and a TIE carries the rest, or (quantise ends before the old total) the note is re-split
inside its old total and a REST carries the tie's duration and the note is forgotten -/
theorem C05_tie_cases (t : Track) (d : UInt16) :
    (t.lastNotePos = none →
      (t.addTie d).revEvents =
        { type := ev_TIE, param := 0, on := t.onTime (t.effDur d), off := t.offTime (t.effDur d), ref := t.reference } :: t.revEvents) ∧
    (∀ last rest, t.revEvents = last :: rest → t.lastNotePos = some rest.length →
      (t.addTie d).revEvents =
        { last with on := t.onTime (last.on + last.off + t.effDur d), off := t.offTime (last.on + last.off + t.effDur d) } :: rest ∧
      (t.addTie d).lastNotePos = some rest.length) ∧
    (∀ p last, t.lastNotePos = some p → p + 1 < t.revEvents.length →
      t.revEvents[t.revEvents.length - 1 - p]? = some last →
      (t.onTime (last.on + last.off + t.effDur d) > last.on + last.off →
        (t.addTie d).revEvents =
          { type := ev_TIE, param := 0, on := t.onTime (last.on + last.off + t.effDur d) - (last.on + last.off),
            off := t.offTime (last.on + last.off + t.effDur d), ref := t.reference } ::
            t.revEvents.modify (t.revEvents.length - 1 - p) (fun e => { e with on := last.on + last.off, off := 0 }) ∧
        (t.addTie d).lastNotePos = some t.revEvents.length) ∧
      (¬ t.onTime (last.on + last.off + t.effDur d) > last.on + last.off →
        (t.addTie d).revEvents =
          { type := ev_REST, param := 0, on := 0, off := t.effDur d, ref := t.reference } ::
            t.revEvents.modify (t.revEvents.length - 1 - p)
              (fun e => { e with on := t.onTime (last.on + last.off + t.effDur d),
                                 off := last.on + last.off - t.onTime (last.on + last.off + t.effDur d) }) ∧
        (t.addTie d).lastNotePos = none)) :=
  addTie_cases t d

/-- the three cases occur: `c4 ^4`, `Q8 c4 v5 ^4` (TIE), `Q4 c4 v5 ^4` (REST) -/
example :
    ((Track.new).addNote 0 24).tieCase 24 = .extend ∧
    (((Track.new).addNote 0 24).addEvent ev_VOL 5).tieCase 24 = .splitTie ∧
    ((((Track.new).setQuantize 4).1.addNote 0 24).addEvent ev_VOL 5).tieCase 24 = .splitRest ∧
    (Track.new).tieCase 24 = .fresh := by decide +kernel

/-- `add_slur` records a SLUR event and makes the nearest earlier NOTE/TIE legato (on_time takes
the whole duration) looking back over commands only; a REST, loop point or loop end in between
stops the search (return value −1) -/
theorem C05_slur_effect (t : Track) (pre : List BEvent) (e : BEvent) (rest : List BEvent)
    (hl : t.revEvents = pre ++ e :: rest) (hpre : ∀ x ∈ pre, Transparent x) :
    (e.type = ev_NOTE ∨ e.type = ev_TIE →
      t.addSlur.1.revEvents =
        { type := ev_SLUR, param := 0, on := 0, off := 0, ref := t.reference } :: pre ++ { e with on := e.on + e.off, off := 0 } :: rest ∧
      t.addSlur.2 = 0) ∧
    (e.type = ev_REST ∨ e.type = ev_SEGNO ∨ e.type = ev_LOOP_END →
      t.addSlur.1.revEvents = { type := ev_SLUR, param := 0, on := 0, off := 0, ref := t.reference } :: t.revEvents ∧
      t.addSlur.2 = -1) := by
  have hs : Transparent { type := ev_SLUR, param := 0, on := 0, off := 0, ref := t.reference } :=
    ⟨(by decide : ev_SLUR ≠ ev_NOTE), (by decide : ev_SLUR ≠ ev_TIE), (by decide : ev_SLUR ≠ ev_REST),
     (by decide : ev_SLUR ≠ ev_SEGNO), (by decide : ev_SLUR ≠ ev_LOOP_END)⟩
  have hw := slurBack_walk ({ type := ev_SLUR, param := 0, on := 0, off := 0, ref := t.reference } :: pre) e rest
    (fun x hx => by
      simp at hx
      rcases hx with rfl | hx
      · exact hs
      · exact hpre x hx)
  have hev : (t.addEvent ev_SLUR).revEvents = ({ type := ev_SLUR, param := 0, on := 0, off := 0, ref := t.reference } :: pre) ++ e :: rest := by
    simp [Track.addEvent, hl, wrapS16]
  constructor
  · intro h
    have := hw.1 h
    simp only [List.cons_append] at this hev
    unfold Track.addSlur
    simp [hev, this]
  · intro h
    have := hw.2 h
    simp only [List.cons_append] at this hev
    unfold Track.addSlur
    simp [hev, this, hl]

example : ((Track.new).addNote 0 24).addSlur.2 = 0 ∧ ((Track.new).addRest 24).addSlur.2 = -1 := by decide +kernel

/-- `reverse_rest d` shortens the nearest earlier NOTE/TIE/REST (looking back over commands only):
from the off-time first, then from the on-time, which must stay positive (`std::length_error`
otherwise); a loop point or loop end in between is `std::domain_error`.  The shuffle sign flips
in every case. -/
theorem C05_reverse_rest_effect (t : Track) (d : UInt16) (pre : List BEvent) (e : BEvent) (rest : List BEvent)
    (hl : t.revEvents = pre ++ e :: rest) (hpre : ∀ x ∈ pre, Transparent x) :
    (t.reverseRest d).1.shuffle = wrapS16 (-t.shuffle) ∧
    (e.type = ev_NOTE ∨ e.type = ev_TIE ∨ e.type = ev_REST →
      ((t.reverseRest d).2, (t.reverseRest d).1.revEvents) =
        if d > e.off then
          (if d - e.off < e.on then (.done, pre ++ { e with off := 0, on := e.on - (d - e.off) } :: rest)
           else (.lengthError, pre ++ e :: rest))
        else (.done, pre ++ { e with off := e.off - d } :: rest)) ∧
    (e.type = ev_SEGNO ∨ e.type = ev_LOOP_END →
      (t.reverseRest d).2 = .domainError ∧ (t.reverseRest d).1.revEvents = t.revEvents) := by
  have hw := rrBack_walk d pre e rest hpre
  have e1 : (t.reverseRest d).2 = (Track.rrBack d t.revEvents).1 := rfl
  have e2 : (t.reverseRest d).1.revEvents = (Track.rrBack d t.revEvents).2 := rfl
  refine ⟨rfl, fun h => ?_, fun h => ?_⟩
  · rw [e1, e2, hl, hw.1 h]
  · rw [e1, e2, hl, hw.2 h]
    exact ⟨rfl, rfl⟩

example : (((Track.new).addNote 0 24).reverseRest 6).2 = .done ∧ (((Track.new).addNote 0 24).reverseRest 24).2 = .lengthError ∧
    ((Track.new).reverseRest 6).2 = .domainError := by decide +kernel

/-- a grace note `~n d` = `reverse_rest d` then `add_note n d`: it borrows `d` ticks from the
event before it and adds its own (shuffled) duration — the total changes by `−d + effDur` -/
theorem C05_grace_borrows (t : Track) (hI : t.Inv) (note : Int) (d : UInt16) (hdone : (t.reverseRest d).2 = .done)
    (hd : t.earlyRelease.toNat = 0 ∨ ((t.reverseRest d).1.effDur d).toNat ≠ 0) :
    ((((t.reverseRest d).1.addNote note d).total : Nat) : Int) = t.total - d.toNat + ((t.reverseRest d).1.effDur d).toNat := by
  have g1 := reverseRest_good t hI d
  rw [hdone] at g1
  simp only [if_true] at g1
  have g2 := addNote_good (t.reverseRest d).1 g1.inv note d (by rw [g1.er]; exact hd)
  have := g1.tot
  have := g2.tot
  omega

example : ((Track.new).addNote 0 24).Inv ∧ (((Track.new).addNote 0 24).reverseRest 6).2 = .done :=
  ⟨(addNote_good _ (Track.new_inv _) 0 24 (Or.inl (by decide))).inv, by decide +kernel⟩

/-- shuffle: a timed call uses `d + shuffle` (clamped at 0 from below, 16-bit), then negates the
shuffle; so two successive notes written with the same length get `d + s` and `d − s` -/
theorem C05_shuffle_alternates (t : Track) (note : Int) (d : UInt16) :
    (t.addNote note d).shuffle = wrapS16 (-t.shuffle) ∧ (t.addRest d).shuffle = wrapS16 (-t.shuffle) ∧
    ((0 : Int) ≤ (t.getDuration d).toNat + t.shuffle → ((t.getDuration d).toNat : Int) + t.shuffle < 65536 →
      ((t.effDur d).toNat : Int) = (t.getDuration d).toNat + t.shuffle) ∧
    (((t.getDuration d).toNat : Int) + t.shuffle < 0 → t.effDur d = 0) ∧
    (-32768 < t.shuffle → t.shuffle ≤ 32767 → (0 : Int) ≤ (t.getDuration d).toNat - t.shuffle →
      ((t.getDuration d).toNat : Int) - t.shuffle < 65536 →
      (((t.addNote note d).effDur d).toNat : Int) = (t.getDuration d).toNat - t.shuffle) := by
  refine ⟨rfl, rfl, ?_, ?_, ?_⟩
  · intro h1 h2
    unfold Track.effDur Track.addShuffle
    have : ¬ ((t.getDuration d).toNat : Int) + t.shuffle < 0 := by omega
    simp only [this, if_false, UInt16.toNat_ofNat']
    omega
  · intro h
    unfold Track.effDur Track.addShuffle
    simp [h]
  · intro h1 h2 h3 h4
    have hw : wrapS16 (-t.shuffle) = -t.shuffle := by unfold wrapS16; omega
    have hdur : (t.addNote note d).getDuration d = t.getDuration d := rfl
    have hsh : (t.addNote note d).shuffle = -t.shuffle := by rw [← hw]; rfl
    unfold Track.effDur Track.addShuffle
    rw [hdur, hsh]
    have : ¬ ((t.getDuration d).toNat : Int) + -t.shuffle < 0 := by omega
    simp only [this, if_false, UInt16.toNat_ofNat']
    omega

example : (((Track.new).setShuffle 2).addNote 0 24).getEvents ++ ((((Track.new).setShuffle 2).addNote 0 24).addNote 0 24).getEvents
    = [{ type := 2, param := 60, on := 26, off := 0 }, { type := 2, param := 60, on := 26, off := 0 }, { type := 2, param := 60, on := 22, off := 0 }] := by
  decide +kernel

/-- the echo macro: with delay `k+1`, the note written `k+1` notes/rests ago remembered as `note ≠ 0`
and volume change `v ≠ 0`, `add_echo` records `VOL_REL −v`, that NOTE with the articulated
duration, `VOL_REL +v`; and `add_note` remembers the pitch it recorded at the front of the buffer -/
theorem C05_echo_replays (t : Track) (d : UInt16) (k : Nat) (note : UInt16)
    (hdelay : t.echoDelay.toNat = k + 1) (hbuf : t.echoBuffer[k]? = some note) (hn : note ≠ 0) (hv : t.echoVolume ≠ 0) :
    (t.addEcho d).revEvents =
      { type := ev_VOL_REL, param := wrapS16 t.echoVolume, on := 0, off := 0, ref := t.reference } ::
      { type := ev_NOTE, param := wrapS16 note.toNat, on := t.onTime (t.effDur d), off := t.offTime (t.effDur d), ref := t.reference } ::
      { type := ev_VOL_REL, param := wrapS16 (-t.echoVolume), on := 0, off := 0, ref := t.reference } :: t.revEvents ∧
    ∀ n dn, (t.addNote n dn).echoBuffer.head? = some (UInt16.ofNat (wrapU16 (t.notePitch n))) := by
  constructor
  · have hd0 : ¬ (t.echoDelay == 0) = true := by
      intro h
      have : t.echoDelay = 0 := by simpa using h
      rw [this] at hdelay; simp at hdelay
    have hlen : ¬ t.echoBuffer.length < t.echoDelay.toNat := by
      have := (List.getElem?_eq_some_iff.mp hbuf).1
      omega
    have hv' : (t.echoVolume != 0) = true := by simpa using hv
    have hn' : ¬ (note == 0) = true := by simpa using hn
    have pre_eq : ∀ u : Track, (u.echoVolume != 0) = true → echoPre u = u.addEvent ev_VOL_REL (-u.echoVolume) 0 0 := by
      intro u h; unfold echoPre; simp only [h, if_true]
    have post_eq : ∀ u : Track, (u.echoVolume != 0) = true → echoPost u = u.addEvent ev_VOL_REL u.echoVolume 0 0 := by
      intro u h; unfold echoPost; simp only [h, if_true]
    have mid_eq : ∀ u : Track, u.echoDelay.toNat = k + 1 → u.echoBuffer[k]? = some note → ¬ (u.echoDelay == 0) = true →
        echoMid u (t.effDur d) =
          ({ u with lastNotePos := some u.revEvents.length } : Track).addEvent ev_NOTE note.toNat (u.onTime (t.effDur d)) (u.offTime (t.effDur d)) := by
      intro u h1 h2 h3
      unfold echoMid
      have hl2 : ¬ u.echoBuffer.length < k + 1 := by
        have := (List.getElem?_eq_some_iff.mp h2).1
        omega
      have hd1 : ¬ ((u.echoDelay == 0) = true ∨ u.echoBuffer.length < k + 1) := fun h => h.elim h3 hl2
      simp only [Bool.or_eq_true, decide_eq_true_eq, h1, hd1, if_false, Nat.add_sub_cancel, h2, Option.getD_some, hn', Bool.false_eq_true]
      rfl
    rw [addEcho_eq, pre_eq t.flipShuffle hv', mid_eq (t.flipShuffle.addEvent ev_VOL_REL (-t.flipShuffle.echoVolume) 0 0) hdelay hbuf hd0]
    unfold echoPost
    rw [if_pos]
    · rfl
    · exact hv'
  · intro n dn
    rw [addNote_echoBuffer]
    simp [trackEchoBufferSize]

example : (((((Track.new).setEcho 2 3).addNote 0 24).addNote 2 24).addEcho 24).getEvents.drop 2 =
    [{ type := 14, param := -3, on := 0, off := 0 }, { type := 2, param := 60, on := 24, off := 0 }, { type := 14, param := 3, on := 0, off := 0 }] := by
  decide +kernel

/-! ## the extended note: a note with its ties, slur, reverse rests, grace borrow

mml_ref.md: "`^` Tie. Extends duration of previous note", "`Q` … Note length is param/8", "`q` … early
release": the articulation rule is meant for the whole extended note.  The builder records such a
note in several events when other events stand between the note and a tie; the statements below are
about the SUMS over those events: `sumLen` = Σ (on_time + off_time), `sumOn` = Σ on_time over the
NOTE and TIE events (`Proofs/TieGroup`).  The events of the extended note are the prefix `g` of the
newest-first event list on top of `base`, the events recorded before its NOTE.

`Live base t post L pre` (Proofs/TieGroup): the note can still be extended — `last_note_pos` points
at the NOTE/TIE event `L`, `pre` are the pieces earlier ties split off (keyed on for all of their
length), `post` the events without length recorded since. -/

/-- how live extended notes arise: `add_note` starts one (one event, nothing split off), and any
calls that record no duration (`Untimed`: settings, raw events without length, drum mode) keep it
live, only putting their events `z` — none for `Setting`s, steppable ones for `Passable` calls —
on top -/
theorem C05_group_live (t : Track) (n : Int) (d : UInt16) :
    Live t.revEvents (t.addNote n d) [] (noteEvent t n d) [] ∧
    (∀ (base : List BEvent) (u : Track) (post : List BEvent) (L : BEvent) (pre : List BEvent), Live base u post L pre →
      ∀ (ops : List Track.Op) (u' : Track), (∀ o ∈ ops, Untimed o) → applyOps u ops = .ok u' →
        ∃ z, Live base u' (z ++ post) L pre ∧ ((∀ o ∈ ops, Setting o) → z = []) ∧
          ((∀ o ∈ ops, Passable o) → ∀ x ∈ z, Transparent x)) := by
  refine ⟨live_addNote t n d, fun base u post L pre hl ops u' hu h => ?_⟩
  obtain ⟨z, s, e1, e2⟩ := untimed_steps ops u u' hu h
  exact ⟨z, hl.untimed s, e1, e2⟩

example : Live (Track.new).revEvents ((Track.new).addNote 0 24) [] (noteEvent Track.new 0 24) [] := live_addNote (Track.new) 0 24

/-- THE LAW OF `add_tie` on every live extended note, in all three cases (extend the event, append
a TIE, append a REST): with `new` = length of the event `last_note_pos` points at + the tie's
duration (default length substituted, shuffle added), the events of the note afterwards last
`Σ pre + new` ticks and are keyed on for `Σ pre + on_time(new)` ticks, `on_time` under the quantise
/ early-release setting in force AT THE TIE.  So the rule is applied to the whole extended note
exactly when nothing has been split off before (`pre = []`); the pieces split off earlier stay
keyed on in full (this is D24).  Hypotheses: the invariant, no 16-bit wrap of the extended event,
and the D6b exclusion (no zero duration under early release). -/
theorem C05_tie_group_law (base : List BEvent) (t : Track) (hI : t.Inv) (post : List BEvent) (L : BEvent) (pre : List BEvent)
    (h : Live base t post L pre) (d : UInt16)
    (hd : t.earlyRelease.toNat = 0 ∨ (t.effDur d).toNat ≠ 0) (hw : evLen L + (t.effDur d).toNat < 65536) :
    ∃ g, (t.addTie d).revEvents = g ++ base ∧
      sumLen g = sumLen pre + (evLen L + (t.effDur d).toNat) ∧
      sumOn g = sumLen pre + TrackBuilder.onRule t (evLen L + (t.effDur d).toNat) ∧
      TieOutcome base (t.addTie d) g ∧
      (post = [] → ∃ L', g = L' :: pre ∧ Live base (t.addTie d) [] L' pre) :=
  live_addTie h hI d hd hw

/-- the three cases on `Q4 c4 | v5 | ^2`: extended note of 72 ticks keyed on for 36 = 72·4/8 -/
example :
    let t := (((Track.new).setQuantize 4).1.addNote 0 24).addEvent ev_VOL 5
    sumLen (t.addTie 48).revEvents = 72 ∧ sumOn (t.addTie 48).revEvents = 36 := by decide +kernel

/-- KEY-ON TIME OF A TIED NOTE.  For every track, every note, every call sequence
`note, (settings | ties)*, (untimed calls)*, tie`: the events recorded for the extended note (the
prefix `g` on top of the events that were there before the note) last exactly the written durations
and are keyed on for exactly the articulation rule applied to that TOTAL, under the quantise /
early-release setting in force at the last tie — whether the last tie extended the NOTE event, was
recorded as a TIE or as a REST.
Extra hypothesis (hence `_partial`): the ties before the last one stand directly behind the note
(`ext` consists of settings and ties: no event-recording call between the note and those ties).
`StepsOk` / `StepOk` are the `NoWrap` conditions of `C05_duration_conservation_partial`. -/
theorem C05_tie_group_on_time_partial (t : Track) (hI : t.Inv) (n : Int) (d0 : UInt16) (ext ops : List Track.Op) (d : UInt16)
    (t1 t2 : Track)
    (hd0 : t.earlyRelease.toNat = 0 ∨ (t.effDur d0).toNat ≠ 0)
    (hext : ∀ o ∈ ext, Setting o ∨ ∃ d', o = Track.Op.addTie d')
    (hops : ∀ o ∈ ops, Untimed o)
    (hok : StepsOk (t.addNote n d0) ext) (h1 : applyOps (t.addNote n d0) ext = .ok t1)
    (h2 : applyOps t1 ops = .ok t2) (hokd : StepOk t2 (.addTie d)) :
    ∃ g, (t2.addTie d).revEvents = g ++ t.revEvents ∧
      sumOn g = TrackBuilder.onRule t2 (sumLen g) ∧
      (sumLen g : Int) = (t.effDur d0).toNat + writtenSum (t.addNote n d0) ext + (t2.effDur d).toNat := by
  have g0 := addNote_good t hI n d0 hd0
  obtain ⟨hI1, L, hL1⟩ := ext_steps t.revEvents ext (t.addNote n d0) t1 g0.inv ⟨_, live_addNote t n d0⟩ hext hok h1
  have c1 := applyOps_conserves ext (t.addNote n d0) t1 g0.inv hok h1
  have c2 := applyOps_conserves ops t1 t2 hI1 (untimed_stepsOk ops t1 hops) h2
  rw [untimed_writtenSum ops t1 hops] at c2
  obtain ⟨z, s, _, _⟩ := untimed_steps ops t1 t2 hops h2
  have hL2 := hL1.untimed s
  have hk : StepOk t2 (.addTie d) := hokd
  simp only [StepOk, hL2.groupLen] at hk
  obtain ⟨g, e1, e2, e3, _, _⟩ := live_addTie hL2 c2.1 d hk.1 hk.2
  have c3 := addTie_good t2 c2.1 d hk.1 (by rw [hL2.groupLen]; exact hk.2)
  refine ⟨g, e1, ?_, ?_⟩
  · rw [e3, e2]; simp [sumLen]
  · have ht : (t2.addTie d).total = sumLen g + t.total := by
      simp only [Track.total, e1, sumLen_append]
    have := c3.tot
    have := g0.tot
    have := c1.2
    have := c2.2
    omega

/-- the hypotheses are met by `Q6 c4 ^8 | v10 | ^4` (the input class of the seeded change C05-3):
one direct tie, one tie behind a volume command; 60 ticks keyed on for 45 = 60·6/8 -/
example :
    let t := ((Track.new).setQuantize 6).1
    let ext : List Track.Op := [.addTie 12]
    let ops : List Track.Op := [.addEvent ev_VOL 10 0 0]
    (∀ o ∈ ext, Setting o ∨ ∃ d', o = Track.Op.addTie d') ∧ (∀ o ∈ ops, Untimed o) ∧ StepsOk (t.addNote 0 24) ext ∧
    StepOk (((t.addNote 0 24).addTie 12).addEvent ev_VOL 10 0 0) (.addTie 24) ∧
    sumOn ((((t.addNote 0 24).addTie 12).addEvent ev_VOL 10 0 0).addTie 24).revEvents = 45 ∧
    sumLen ((((t.addNote 0 24).addTie 12).addEvent ev_VOL 10 0 0).addTie 24).revEvents = 60 := by
  refine ⟨fun o ho => ?_, fun o ho => ?_, by decide +kernel, by decide +kernel, by decide +kernel, by decide +kernel⟩
  · simp at ho; subst ho; exact Or.inr ⟨12, rfl⟩
  · simp at ho; subst ho; exact ⟨rfl, rfl⟩

/-- the full statement: the same for ties behind ANY untimed calls (`Untimed` instead of `Setting` in `ext`) -/
def C05_tie_group_full_statement : Prop :=
  ∀ (t : Track), t.Inv → ∀ (n : Int) (d0 : UInt16) (ext ops : List Track.Op) (d : UInt16) (t1 t2 : Track),
    (t.earlyRelease.toNat = 0 ∨ (t.effDur d0).toNat ≠ 0) →
    (∀ o ∈ ext, Untimed o ∨ ∃ d', o = Track.Op.addTie d') →
    (∀ o ∈ ops, Untimed o) →
    StepsOk (t.addNote n d0) ext → applyOps (t.addNote n d0) ext = .ok t1 →
    applyOps t1 ops = .ok t2 → StepOk t2 (.addTie d) →
    ∃ g, (t2.addTie d).revEvents = g ++ t.revEvents ∧ sumOn g = TrackBuilder.onRule t2 (sumLen g)

/-- D24: the full statement is false — `Q4 c4 v5 ^2 ^4`: the first tie stands behind the volume
command and is recorded as a TIE event of its own (NOTE 24+0, TIE 12+36); the second tie
re-articulates only that TIE event (72·4/8 = 36), so the note of 96 ticks is keyed on for
24 + 36 = 60 ticks instead of 96·4/8 = 48.  The text is read the same way. -/
theorem C05_tie_group_counterexample :
    ¬ C05_tie_group_full_statement ∧
    eventsOfLine (strBytes "A Q4 c4 v5 ^2 ^4") =
      [{ type := ev_NOTE, param := 60, on := 24, off := 0 }, { type := ev_VOL, param := 5, on := 0, off := 0 },
       { type := ev_TIE, param := 0, on := 36, off := 36 }] := by
  refine ⟨fun h => ?_, by decide +kernel⟩
  obtain ⟨g, hg, hon⟩ := h ((Track.new).setQuantize 4).1 (setQuantize_inv _ (Track.new_inv _) 4 8).1 0 24
    [.addEvent ev_VOL 5 0 0, .addTie 48] [] 24 _ _ (Or.inl (by decide))
    (fun o ho => by
      simp at ho
      rcases ho with rfl | rfl
      · exact Or.inl ⟨rfl, rfl⟩
      · exact Or.inr ⟨48, rfl⟩)
    (fun o ho => by simp at ho) (by decide +kernel) rfl rfl (by decide +kernel)
  have hb : ((Track.new).setQuantize 4).1.revEvents = [] := rfl
  rw [hb, List.append_nil] at hg
  subst hg
  revert hon
  decide +kernel

/-- SLUR.  On every live extended note whose trailing events the backward walk steps over
(`Transparent`: no REST, loop point or loop end since the event `last_note_pos` points at),
`add_slur` succeeds (returns 0), leaves the duration as it is and makes the key-on time the whole
duration of the extended note: legato.  The note stays live. -/
theorem C05_slur_group_on_time (base : List BEvent) (t : Track) (hI : t.Inv) (post : List BEvent) (L : BEvent) (pre : List BEvent)
    (h : Live base t post L pre) (hpost : ∀ x ∈ post, Transparent x) :
    t.addSlur.2 = 0 ∧
    ∃ g, t.addSlur.1.revEvents = g ++ base ∧ sumLen g = sumLen (post ++ L :: pre) ∧ sumOn g = sumLen g ∧
      ∃ L', Live base t.addSlur.1 (slurEvent t :: post) L' pre := by
  obtain ⟨e0, hl, e1, e2⟩ := live_addSlur h hI hpost
  refine ⟨e0, (slurEvent t :: post) ++ { L with on := L.on + L.off, off := 0 } :: pre, ?_, ?_, ?_, _, hl⟩
  · rw [hl.ev]; simp
  · rw [hl.sums.1, h.sums.1, e1]
  · rw [hl.sums.2, hl.sums.1, e2, e1]

/-- `Q4 c4 v5 &`: NOTE 12+12 becomes 24+0 -/
example :
    Live [] ((((Track.new).setQuantize 4).1.addNote 0 24).addEvent ev_VOL 5)
      [{ type := ev_VOL, param := 5, on := 0, off := 0, ref := none }] (noteEvent ((Track.new).setQuantize 4).1 0 24) [] ∧
    sumOn ((((Track.new).setQuantize 4).1.addNote 0 24).addEvent ev_VOL 5).addSlur.1.revEvents = 24 := by
  refine ⟨⟨rfl, rfl, Or.inl rfl, fun x hx => ?_, rfl⟩, by decide +kernel⟩
  simp at hx; subst hx; exact ⟨rfl, rfl⟩

/-- REVERSE REST.  On every live extended note (trailing events steppable) a reverse rest shorter
than the event `last_note_pos` points at succeeds, takes its amount from the duration of the
extended note, and cuts the silent part first: the key-on time becomes the smaller of what it was
and the new duration.  The note stays live. -/
theorem C05_reverse_rest_group_on_time (base : List BEvent) (t : Track) (post : List BEvent) (L : BEvent) (pre : List BEvent)
    (h : Live base t post L pre) (hpost : ∀ x ∈ post, Transparent x) (d : UInt16) (hd : d.toNat < evLen L) :
    (t.reverseRest d).2 = .done ∧
    ∃ g, (t.reverseRest d).1.revEvents = g ++ base ∧
      sumLen g = sumLen (post ++ L :: pre) - d.toNat ∧
      sumOn g = min (sumOn (post ++ L :: pre)) (sumLen (post ++ L :: pre) - d.toNat) ∧
      ∃ L', Live base (t.reverseRest d).1 post L' pre := by
  obtain ⟨e0, L', hl, e1, e2⟩ := live_reverseRest h hpost d hd
  refine ⟨e0, post ++ L' :: pre, ?_, ?_, ?_, L', hl⟩
  · rw [hl.ev]; simp
  · rw [hl.sums.1, h.sums.1, e1]; omega
  · rw [hl.sums.2, h.sums.2, h.sums.1, e2]
    have : L.on.toNat ≤ evLen L := by unfold evLen; omega
    omega

/-- `Q4 c4 R8`: NOTE 12+12 becomes 12+0; `Q4 c4 R:20`: 4+0 -/
example :
    sumOn ((((Track.new).setQuantize 4).1.addNote 0 24).reverseRest 12).1.revEvents = 12 ∧
    sumOn ((((Track.new).setQuantize 4).1.addNote 0 24).reverseRest 20).1.revEvents = 4 ∧
    (12 : UInt16).toNat < evLen (noteEvent ((Track.new).setQuantize 4).1 0 24) := by decide +kernel

/-- GRACE NOTE `~n d` = `reverse_rest d` then `add_note n d`: the extended note before it is
shortened as by a reverse rest (duration − d, key-on time the smaller of the old one and the new
duration) and is followed by the grace note's own event, which starts a new live extended note -/
theorem C05_grace_group_on_time (base : List BEvent) (t : Track) (post : List BEvent) (L : BEvent) (pre : List BEvent)
    (h : Live base t post L pre) (hpost : ∀ x ∈ post, Transparent x) (n : Int) (d : UInt16) (hd : d.toNat < evLen L) :
    (t.reverseRest d).2 = .done ∧
    ∃ g, ((t.reverseRest d).1.addNote n d).revEvents = noteEvent (t.reverseRest d).1 n d :: (g ++ base) ∧
      sumLen g = sumLen (post ++ L :: pre) - d.toNat ∧
      sumOn g = min (sumOn (post ++ L :: pre)) (sumLen (post ++ L :: pre) - d.toNat) ∧
      Live (g ++ base) ((t.reverseRest d).1.addNote n d) [] (noteEvent (t.reverseRest d).1 n d) [] := by
  obtain ⟨e0, g, e1, e2, e3, _⟩ := C05_reverse_rest_group_on_time base t post L pre h hpost d hd
  refine ⟨e0, g, by rw [addNote_revEvents, e1], e2, e3, ?_⟩
  have := live_addNote (t.reverseRest d).1 n d
  rw [e1] at this
  exact this

/-- `Q4 c4 ~d8`: NOTE 12+12 → 12+0, then the grace note 6+6 -/
example : (((((Track.new).setQuantize 4).1.addNote 0 24).reverseRest 12).1.addNote 2 12).getEvents =
    [{ type := 2, param := 60, on := 12, off := 0 }, { type := 2, param := 62, on := 6, off := 6 }] := by decide +kernel

/-! ## pitch -/

/-- masks the scale name `key` selects in the regenerated key-signature table -/
def scaleMasks (key : List Nat) : Option (Nat × Nat) :=
  (keySignatureTable.find? (fun r => strBytes r.2.2.1 == key || strBytes r.2.2.2 == key)).map fun r => (r.1, r.2.1)

/-- the 30 scale names of mml_ref.md -/
def scaleNames : List String :=
  ["C", "G", "D", "A", "E", "B", "F+", "C+", "F", "B-", "E-", "A-", "D-", "G-", "C-",
   "a", "e", "b", "f+", "c+", "g+", "d+", "a+", "d", "g", "c", "f", "b-", "e-", "a-"]

/-- the regenerated 15-row table is the circle of fifths: each row's major and minor name lie
at the same position `k`, and its masks sharpen exactly the first `k` of F C G D A E B
(flatten the first `−k` of B E A D G C F); all 30 documented names select a row -/
theorem C05_keysig_table_correct :
    (keySignatureTable.all fun r =>
      match MmlMeaning.fifths r.2.2.1, MmlMeaning.fifths r.2.2.2 with
      | some k, some k' =>
        k == k' && (List.range 8).all fun l =>
          (Track.testBit r.1 l == (MmlMeaning.scaleSig k l == 1)) && (Track.testBit r.2.1 l == (MmlMeaning.scaleSig k l == -1))
      | _, _ => false) = true ∧
    (scaleNames.all fun n =>
      match scaleMasks (strBytes n), MmlMeaning.fifths n with
      | some (s, f), some k =>
        (List.range 8).all fun l => (Track.testBit s l == (MmlMeaning.scaleSig k l == 1)) && (Track.testBit f l == (MmlMeaning.scaleSig k l == -1))
      | _, _ => false) = true := by
  constructor <;> decide +kernel

/-- pitch of a note: `add_note` stores `note + 12·octave` (normal mode) or `note + drum base`
(drum mode), narrowed to 16 bits; the letter values are those of the C major scale with `h = b`;
`_{name}` installs the table's masks for that name and nothing else, and the key signature read
back for a letter is +1 / −1 / 0 according to the masks -/
theorem C05_pitch_rule (t : Track) (note : Int) (d : UInt16) :
    (t.addNote note d).revEvents.head?.map (·.param) =
      some (wrapS16 (if t.drumMode = 0 then note + t.octave * 12 else note + t.drumMode.toNat)) ∧
    (∀ l, l < 8 → noteValues[l]? = some (MmlMeaning.letterValue l)) ∧
    (∀ key : List Nat, isAlpha (match key with | [] => 0 | k :: _ => schar k) = true →
      match scaleMasks key with
      | some (s, f) => ∃ u, t.setKeySignature key = .ok u ∧ u = { t with sharpMask := s, flatMask := f }
      | none => ∃ u, t.setKeySignature key = .invalidArgument u ∧ u = t) ∧
    (∀ l : Nat, l < 8 →
      ∃ v, t.getKeySignature (97 + l) = .ok v ∧
        v = if Track.testBit t.sharpMask l then 1 else if Track.testBit t.flatMask l then -1 else 0) := by
  refine ⟨?_, by decide, ?_, ?_⟩
  · rw [addNote_revEvents]
    simp only [List.head?_cons, Option.map_some, noteEvent, Track.notePitch, Track.inDrumMode]
    have hw : ∀ x : Int, wrapS16 (wrapS32 x) = wrapS16 x := fun x => by unfold wrapS16 wrapS32; omega
    by_cases h : t.drumMode = 0 <;> simp [h, hw]
  · intro key hk
    have hset : t.setKeySignature key =
        match keySignatureTable.find? (fun r => strBytes r.2.2.1 == key || strBytes r.2.2.2 == key) with
        | some r => .ok { t with sharpMask := r.1, flatMask := r.2.1 }
        | none => .invalidArgument t := by
      unfold Track.setKeySignature
      simp only []
      rw [if_pos]
      · generalize keySignatureTable.find? (fun r => strBytes r.2.2.1 == key || strBytes r.2.2.2 == key) = o
        cases o <;> rfl
      · exact hk
    rw [hset]
    unfold scaleMasks
    cases keySignatureTable.find? (fun r => strBytes r.2.2.1 == key || strBytes r.2.2.2 == key) with
    | none => exact ⟨t, rfl, rfl⟩
    | some r => exact ⟨_, rfl, rfl⟩
  · intro l hl
    have hidx : Track.noteIndex (97 + (l : Int)) = l := by
      unfold Track.noteIndex toLower isUpper wrapS8
      have : ¬ ((65 : Int) ≤ 97 + l ∧ 97 + (l : Int) ≤ 90) := by omega
      simp only [Bool.and_eq_true, decide_eq_true_eq, this, if_false]
      omega
    unfold Track.getKeySignature
    simp only [hidx]
    have h1 : ¬ ((l : Int) > 7) := by omega
    have h2 : ¬ ((l : Int) < 0) := by omega
    simp only [h1, h2, if_false, Int.toNat_natCast]
    split
    · exact ⟨1, rfl, rfl⟩
    · split
      · exact ⟨-1, rfl, rfl⟩
      · exact ⟨0, rfl, rfl⟩

example : (((Track.new).setOctave 3).addNote 2 24).getEvents = [{ type := 2, param := 38, on := 24, off := 0 }] ∧
    (((Track.new).setDrumMode 30).addNote 2 24).getEvents.drop 1 = [{ type := 2, param := 32, on := 24, off := 0 }] := by
  decide +kernel

/-! ## reader layer

`Proofs/ReaderNum`, `Proofs/ReaderCmd`, `Proofs/ReaderLine`.  Technique: `LineBuffer.getNum` is
proved EQUAL, on every buffer, to the state-free function `numSpan` of the rest of the line; the
`P`-monad code is run symbolically by rewriting one `>>=` at a time (`bind_ok`) with a
specification of each primitive in terms of `suffix` (rest of the line) and `adv` (cursor moved).

Covered commands (`Covered`): notes `a`..`h` with accidental and duration, `r`, `^`, `l` (each with
every duration form: none, dots, length, `:frames`, decimal or `$` hexadecimal), `o n`, `<`, `>`,
`Q n`, `q n`, `C n`, `s n`, `&` (when it finds its note).  NOT covered: `R`, `~`, `\`, `\=`, `_…`,
`k`, `V…`, `D`, `%`, the event commands of `mml_control` / `mml_envelope` (`[ / ] L * @ v ( ) p K E M P G t T`),
`|`, `'…'`, `{/}` — for those the reader rests on the correspondence check.  (Round T: `R ~ \ \= D %`,
`_n __n kn` and the one-number event commands are covered by the section "extended command set"
at the end of this file.) -/

open Ctrmml.MmlMeaning (Num Dur Acc Cmd bodyBytes)

/-- `get_num` on a rendered number (decimal or `$` hexadecimal, signed) anywhere in a line reads
exactly its value and leaves the cursor behind it, whatever follows, provided the next byte is not
a digit of the base (after a hexadecimal numeral also not `x`/`X`: `0x…` would be a prefix) -/
theorem C05_getNum_render (pre rest : List Nat) (n : Num) (hb : Bytes (pre ++ n.bytes ++ rest))
    (hr : NumRange n) (hend : NumEnd (numBase n) rest) :
    LineBuffer.getNum { buf := pre ++ n.bytes ++ rest, column := pre.length } =
      .ok (some n.v, { buf := pre ++ n.bytes ++ rest, column := pre.length + n.bytes.length }) := by
  have h := getNum_eq_numSpan { buf := pre ++ n.bytes ++ rest, column := pre.length } hb (by simp)
  have hd : (pre ++ n.bytes ++ rest).drop pre.length = n.bytes ++ rest := by simp [List.append_assoc]
  simp only [hd, numSpan_render n rest hr.1 hr.2 hend] at h
  exact h

/-- `$-1f c` -/
example : numSpan [36, 45, 49, 102, 32, 99] = (some (-31), 4) := by decide +kernel

/-- … and `get_num` is, on every line of bytes with the cursor inside it, the state-free function
`numSpan` of the rest of the line (value, bytes consumed) — the general form C06/C17 can use -/
theorem C05_getNum_is_numSpan (b : LineBuffer) (hb : Bytes b.buf) (hc : b.column ≤ b.buf.length) :
    b.getNum = .ok ((numSpan (b.buf.drop b.column)).1, { b with column := b.column + (numSpan (b.buf.drop b.column)).2 }) :=
  getNum_eq_numSpan b hb hc

/-- `read_duration` on a rendered duration (nothing, dots, `n` + dots, `:n` + dots) followed by any
tail satisfying the look-ahead condition `DurTail`: the value is default / measure÷n / n with the
dot series, and exactly the spelling is consumed (plus, for a duration that is not written, the
blanks `get_num` skips: `durSkip`) -/
theorem C05_read_duration_render (s : MmlState) (hs : Sane s) (d : Dur) (tail : List Nat)
    (hsuf : suffix s = d.bytes ++ tail) (hn : DurNums d) (ht : DurTail d tail) :
    readDuration s = .ok (durVal (getTrack s) d).toNat (adv s (d.bytes.length + durSkip d tail)) :=
  readDuration_render s hs d tail hsuf hn ht

/-- the dot series is the one of the reference: `d + d/2 + d/4 + …` -/
example : dotsVal 2 24 12 = 42 ∧ dotsVal 0 24 12 = 24 := by decide

/-- every covered command's parser, started at the first byte of the canonical spelling followed
by ANY tail satisfying the command's look-ahead condition `CmdTail`, answers "mine", performs
exactly `cmdTrack` on the builder, and leaves the cursor behind the spelling (`cmdSkip`: blanks
skipped while looking for an unwritten length); nothing else of the state changes -/
theorem C05_command_span (s : MmlState) (hs : Sane s) (cmd : Cmd) (tail : List Nat) (hc : Covered cmd)
    (hsuf : suffix s = cmd.bytes ++ tail) (hn : CmdNums (getTrack s) cmd) (ht : CmdTail cmd tail) :
    mmlBasic s = .ok false (adv (setTrack s (cmdTrack (getTrack s) cmd)) (cmd.bytes.length + cmdSkip cmd tail)) :=
  cmd_span s hs cmd tail hc hsuf hn ht

/-- the look-ahead condition holds on canonical lines (end of line, or one space and a command) -/
theorem C05_command_span_canonical (t : Track) (cmd : Cmd) (tail : List Nat) (hn : CmdNums t cmd) (ht : SepTail tail) :
    CmdTail cmd tail := cmdTail_sepTail t cmd tail hn ht

/-- whole-line theorem for the covered subset: `parse_mml_track` on the canonical body
`c₁ c₂ … cₙ` performs exactly the builder calls of the commands in order, each stamped with the
position of its first byte (`lineTrack`); any fuel ≥ n + 1 suffices, in particular the fuel the
model supplies (line length + 2 − column).  Extra hypothesis (hence `_partial`): `LineNums` —
every command is in `Covered` and its numbers are in range on the track it meets. -/
theorem C05_parse_render_partial (cmds : List Cmd) (s : MmlState) (hs : Sane s) (hsuf : suffix s = bodyBytes cmds)
    (hn : LineNums s.inp.line s.inp.lb.column (getTrack s) cmds) :
    (∃ s', parseMmlTrack s = .ok () s' ∧ getTrack s' = lineTrack s.inp.line s.inp.lb.column (getTrack s) cmds) ∧
    (∀ f, cmds.length + 1 ≤ f → ∃ s', parseMmlTrackF f s = .ok () s' ∧
        getTrack s' = lineTrack s.inp.line s.inp.lb.column (getTrack s) cmds) := by
  refine ⟨parse_track_body cmds s hs hsuf hn, fun f hf => ?_⟩
  have := parse_body cmds f s 0 hs (by simpa using hsuf) (by simpa using hn) hf
  simpa using this

/-- the full statement: every documented command list -/
def C05_full_statement_parse_render : Prop :=
  ∀ (cmds : List Cmd), (MmlMeaning.meaning cmds).exact = true →
    ∃ st, readLines 0 [MmlMeaning.renderBytes cmds] MmlState.init = .ok () st

/-- non-vacuity: `o4 >` satisfies `LineNums` on a fresh track -/
example : LineNums 0 2 Track.new [.octave { v := 4 }, .octUp] :=
  ⟨trivial, ⟨by decide, by decide⟩, trivial, trivial, trivial⟩

/-- … and so do the numbers at the ends of `int` (no "does not overflow" side condition is left
since fixes 299434d / bc95701): `o-2147483648 < c:2147483647.` -/
example : LineNums 0 2 Track.new
    [.octave { v := -2147483648 }, .octDown, .note 2 .none (.frames { v := 2147483647 } 1)] :=
  ⟨trivial, ⟨by decide, by decide⟩, trivial, trivial, (by decide : 2 < 8), ⟨⟨by decide, by decide⟩, by decide⟩, trivial⟩

/-- the inputs of repository fixes 299434d / bc95701 as the repaired code reads them (the check
replays the same lines on the real code): the dotted frame count narrows to 65534 ticks, `(` of
`INT_MIN` records `VOL_REL 0`, and the octave arithmetic wraps in 32 bits before the 16-bit event field -/
example :
    eventsOfLine (strBytes "A c:2147483647.") = [{ type := ev_NOTE, param := 60, on := 65534, off := 0 }] ∧
    eventsOfLine (strBytes "A (2147483648") = [{ type := ev_VOL_REL, param := 0, on := 0, off := 0 }] ∧
    eventsOfLine (strBytes "A o-2147483648 c") = [{ type := ev_NOTE, param := -12, on := 24, off := 0 }] ∧
    eventsOfLine (strBytes "A o2147483647 c") = [{ type := ev_NOTE, param := -24, on := 24, off := 0 }] ∧
    eventsOfLine (strBytes "A o-2147483647 < c") = [{ type := ev_NOTE, param := -12, on := 24, off := 0 }] ∧
    eventsOfLine (strBytes "A o2147483647 >> c") = [{ type := ev_NOTE, param := 0, on := 24, off := 0 }] := by
  decide +kernel

/-! ## reader layer, extended command set (round T)

`Proofs/ReaderExt`, on top of C06's `Proofs/LayoutCmd` / `Proofs/LayoutLine` (`LCovered`,
`lcmd_step`, `parse_toks`).  Extended set `ECovered`: the covered subset above, the reverse rest `R`,
the grace note `~`, drum mode `D n`, the event commands `[ L` (no number), `] ( )` (optional number),
`* @ v p K E M P G t T _ __ k %` (mandatory number), and the echo commands `\` + duration and
`\=delay,volume`.  The commands are served by three tables (`mml_basic`, `mml_control`,
`mml_envelope`) and, for `%`, by `parse_mml_track` itself, so the statement is about ONE ITERATION OF
`parse_mml_track` with the cursor on the command's first byte.  Still NOT covered: `V…`, `_{…}` / `k{…}`
(key signatures), `'…'`, `|`-free layouts aside (`|`, blanks and comments are C06's), `/`, `{/}`. -/

open Ctrmml.MmlMeaning (Simple)

/-- every command of the extended set, its canonical spelling at the cursor followed by ANY tail
that satisfies the command's look-ahead condition `ECmdTail`:
(1) when its numbers are in range (and, for `& R ~`, the builder accepts: `ECmdNums`), one iteration
of `parse_mml_track` stamps the track with the cursor position, performs exactly the command's
builder call(s) `ecmdTrack` (for `~`: `reverse_rest` then `add_note`; for `\=`: `clear_echo_buffer`
unless the delay is negative, then `set_echo`), leaves the cursor behind the spelling (`ecmdSkip`:
blanks skipped while looking for an unwritten number) and changes nothing else;
(2) for `R` / `~` whose `reverse_rest` the builder refuses, the run ends with the `InputError`
"unable to backtrack" (no note to shorten) / "previous note is not long enough" (`rrMsg`) whose
position is the cursor behind the command; no note is added. -/
theorem C05_command_span_ext (f : Nat) (s : MmlState) (hs : Sane s) (cmd : Cmd) (tail : List Nat) (hc : ECovered cmd)
    (hsuf : suffix s = cmd.bytes ++ tail) (ht : ECmdTail cmd tail) :
    (ECmdNums (getTrack s).strip cmd →
      parseMmlTrackF (f + 1) s =
        parseMmlTrackF f (adv (setTrack s (ecmdTrack ((getTrack s).setReference (some { line := s.inp.line, column := s.inp.lb.column })) cmd))
          (cmd.bytes.length + ecmdSkip cmd tail))) ∧
    (∀ d, (cmd = .revRest d ∨ ∃ l a, cmd = .grace l a d) → DurNums d →
      ((getTrack s).strip.reverseRest (UInt16.ofNat (durVal (getTrack s).strip d).toNat)).2 ≠ .done →
      ∃ t', parseMmlTrackF (f + 1) s = .err
        (.input (rrMsg ((getTrack s).strip.reverseRest (UInt16.ofNat (durVal (getTrack s).strip d).toNat)).2)
          { line := s.inp.line, column := s.inp.lb.column + (cmd.bytes.length + ecmdSkip cmd tail) })
        (adv (setTrack s t') (cmd.bytes.length + ecmdSkip cmd tail))) :=
  ⟨fun hn => ecmd_step f s hs cmd tail hc hsuf hn ht,
   fun d hcmd hn hne => ecmd_step_refused f s hs cmd tail hc hsuf ht d hcmd hn hne⟩

/-- non-vacuity: `R8` behind a quarter note is accepted, on a fresh track it is refused with
"unable to backtrack", `R4` behind an eighth with "previous note is not long enough"; the tail
conditions hold at the end of a line -/
example :
    ECovered (.revRest (.len { v := 8 } 0)) ∧ ECmdTail (.revRest (.len { v := 8 } 0)) [] ∧
    ECmdNums ((Track.new).addNote 0 24).strip (.revRest (.len { v := 8 } 0)) ∧
    rrMsg ((Track.new).strip.reverseRest (UInt16.ofNat (durVal (Track.new).strip (.len { v := 8 } 0)).toNat)).2 = "unable to backtrack" ∧
    rrMsg (((Track.new).addNote 0 12).strip.reverseRest (UInt16.ofNat (durVal ((Track.new).addNote 0 12).strip (.len { v := 4 } 0)).toNat)).2 =
      "previous note is not long enough" :=
  ⟨trivial, (show DurTail (.len { v := 8 } 0) [] from durTail_lsepTail _ [] (Or.inl rfl)),
   (show DurNums (.len { v := 8 } 0) ∧ _ from ⟨⟨⟨by decide, by decide⟩, by decide⟩, by decide +kernel⟩), by decide +kernel, by decide +kernel⟩

/-- … and `\=-2,$10` (negative delay: the echo buffer is kept), `\:3` satisfy the hypotheses -/
example :
    ECmdNums Track.new (.echoSet { v := -2 } { v := 16, hex := true }) ∧ ECmdTail (.echoSet { v := -2 } { v := 16, hex := true }) [] ∧
    ECmdNums Track.new (.echo (.frames { v := 3 } 0)) ∧ ECmdTail (.echo (.frames { v := 3 } 0)) [] :=
  ⟨(show NumRange _ ∧ NumRange _ from ⟨⟨by decide, by decide⟩, ⟨by decide, by decide⟩⟩),
   (show NumEnd (numBase { v := 16, hex := true }) [] from numEnd_lsepTail _ (by decide) [] (Or.inl rfl)),
   (show DurNums (.frames { v := 3 } 0) from ⟨⟨by decide, by decide⟩, by decide⟩),
   (show DurTail (.frames { v := 3 } 0) [] ∧ _ ∧ _ from ⟨durTail_lsepTail _ [] (Or.inl rfl), by decide, by decide⟩)⟩

/-- the look-ahead condition of every command of the extended set holds on canonical lines (end of
the line, or one space and the first byte of a command of the extended set) — except for a `\`
without a written duration in front of a space: `mml_echo` reads a token there, so it would skip
the separator (the parse is still right, `echo_step`, but the cursor is not where `ECmdTail` says) -/
theorem C05_command_span_ext_canonical (t : Track) (cmd : Cmd) (tail : List Nat)
    (hn : ECmdNums t cmd) (ht : LSepTail tail) (hecho : cmd = .echo (.dflt 0) → tail = []) : ECmdTail cmd tail :=
  ecmdTail_lsepTail t cmd tail hn ht hecho

example : LSepTail (32 :: (Cmd.simple .ins (some { v := 5 })).bytes) := Or.inr ⟨64, _, rfl, by simp [LCmdStart]⟩

/-- whole canonical lines over `LCovered` (the extended set without the echo commands):
`parse_mml_track` on the body `c₁ c₂ … cₙ` ends with the track that, up to source references
(`Track.strip`: the `reference` field and the `ref` of every event), is the result of the builder
calls of the commands in order (`runCmds`); only the cursor and the current track change (`Moved`);
in particular the events are those of the call sequence.  With the model's own fuel, and with any
fuel above the length of the body.
Extra hypotheses / weaker conclusion (hence `_partial`): `CmdsOk` — every command is in `LCovered`,
its numbers are in range on the track it meets and `& R ~` are accepted there; the conclusion is
modulo source references (the exact references of the covered subset are in
`C05_parse_render_partial`); `\` and `\=` are covered per command only (`C05_command_span_ext`). -/
theorem C05_parse_render_ext_partial (cmds : List Cmd) (s : MmlState) (hs : Sane s) (hsuf : suffix s = bodyBytes cmds)
    (hn : CmdsOk (getTrack s).strip cmds) :
    (∃ s', parseMmlTrack s = .ok () s' ∧ Moved s s' ∧ (getTrack s').strip = runCmds (getTrack s).strip cmds ∧
      (getTrack s').getEvents = (runCmds (getTrack s).strip cmds).getEvents) ∧
    (∀ f, (bodyBytes cmds).length + 1 ≤ f → ∃ s', parseMmlTrackF f s = .ok () s' ∧ Moved s s' ∧
      (getTrack s').strip = runCmds (getTrack s).strip cmds) := by
  refine ⟨?_, fun f hf => parse_body_ext cmds f s hs hsuf hn hf⟩
  obtain ⟨s', h1, h2, h3⟩ := parse_track_body_ext cmds s hs hsuf hn
  exact ⟨s', h1, h2, h3, by rw [← h3, Track.strip_getEvents]⟩

/-- the full statement is `C05_full_statement_parse_render` above -/
example : CmdsOk (Track.new).strip
    [.note 2 .none (.dflt 0), .revRest (.len { v := 8 } 0), .grace 3 .none (.len { v := 16 } 0), .simple .loopStart none,
     .simple .ins (some { v := 5 }), .drum { v := 1 }] :=
  ⟨(by decide : 2 < 8), trivial,
   trivial, ⟨⟨⟨by decide, by decide⟩, by decide⟩, by decide +kernel⟩,
   (by decide : 3 < 8), ⟨⟨⟨by decide, by decide⟩, by decide⟩, by decide +kernel⟩,
   trivial, trivial,
   trivial, ⟨by decide, by decide⟩,
   trivial, ⟨by decide, by decide⟩, trivial⟩

/-- error of reading one line of text -/
def errOfLine (text : List Nat) : Option Err :=
  match readLines 0 [text] MmlState.init with
  | .ok _ _ => none
  | .err e _ => some e

/-- the same commands end to end through `readLines` (the check replays these lines on the real
code): `c R8 ~d16` leaves 6 + 6 ticks, `\=1,2 \` is an echo rest between two relative volumes, and
the refusals carry the column behind the command -/
example :
    eventsOfLine (strBytes "A c R8 ~d16 \\=1,2 \\ [ e ]3 @5 D1") =
      [{ type := ev_NOTE, param := 60, on := 6, off := 0 }, { type := ev_NOTE, param := 62, on := 6, off := 0 },
       { type := ev_VOL_REL, param := -2, on := 0, off := 0 }, { type := ev_REST, param := 0, on := 0, off := 24 },
       { type := ev_VOL_REL, param := 2, on := 0, off := 0 }, { type := ev_LOOP_START, param := 0, on := 0, off := 0 },
       { type := ev_NOTE, param := 64, on := 24, off := 0 }, { type := ev_LOOP_END, param := 3, on := 0, off := 0 },
       { type := ev_INS, param := 5, on := 0, off := 0 }, { type := ev_DRUM_MODE, param := 1, on := 0, off := 0 }] ∧
    errOfLine (strBytes "A R") = some (.input "unable to backtrack" { line := 0, column := 3 }) ∧
    errOfLine (strBytes "A c8 R4") = some (.input "previous note is not long enough" { line := 0, column := 7 }) ∧
    errOfLine (strBytes "A c8 ~d4") = some (.input "previous note is not long enough" { line := 0, column := 8 }) := by
  decide +kernel

end Ctrmml.C05
